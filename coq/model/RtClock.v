(* RtClock -- executable labelled transition systems for the real-time clocks of
   sc3/base/clock.py, over the sorted-list specification of TaskQueue (SC3.model.TaskQ,
   refinement proved in C09).  Definitions only (proofs: proofs/C08_*.v).

   System 1 (SystemClock / TempoClock): one clock thread running _run line by line, any
   number of client threads.  Every event below is performed while the main RLock is held,
   so an execution is a sequence of events; [step] is the transition function (partial:
   [None] = not a behaviour of the code), [accepts] replays a logged linearised trace.
   The oracles (physical time reads, wake-up causes, task results, client choices) are
   carried by the events, so "every execution" = every event list accepted from [init].

   System 2 (AppClock): the clock thread takes TWO locks in turn (_sched_lock = the main
   RLock for the tick, then _tick_cond for the wait); clients do sched in two critical
   sections (add under _sched_lock, then notify under _tick_cond).

   Modelling decisions
   * the queue is TaskQ's specification: a list of (time, seq, task) sorted by (time, seq);
     add of a task already queued replaces its entry (TaskQueue.add);
   * times are rationals; TempoClock's queue is in beats, conversion by the tempo map
     (secs2beats / beats2secs of clock.py, _beat_dur = 1/_tempo); SystemClock is the clock
     whose map is the identity and which reads the time once per loop-2 iteration;
   * threading.Condition by specification: wait() atomically releases the lock and
     registers the waiter; it returns (lock re-acquired) after a notify, a timeout or
     spuriously -- the model never looks at the cause; notify with no waiter is lost;
   * [c_notified] is a ghost flag: a notify was issued since the current wait began;
   * a task's awake is atomic except for the client operations it performs itself on the
     same clock (nested events between EPop and EAwakeEnd). *)
From Coq Require Import QArith ZArith List Bool Arith.
Import ListNotations.
Require Import SC3.model.TaskQ.
Local Open Scope Q_scope.

(* ---- tempo map --------------------------------------------------------------------- *)
Record tmap := mkTM { tm_tempo : Q; tm_bsecs : Q; tm_bbeats : Q }.
(* def secs2beats(self, seconds): (seconds - _base_seconds) * _tempo + _base_beats *)
Definition secs2beats (m : tmap) (s : Q) : Q := (s - tm_bsecs m) * tm_tempo m + tm_bbeats m.
(* def beats2secs(self, beats): (beats - _base_beats) * _beat_dur + _base_seconds *)
Definition beats2secs (m : tmap) (b : Q) : Q := (b - tm_bbeats m) * / tm_tempo m + tm_bsecs m.
Definition tm_id : tmap := mkTM 1 0 0.

(* the tempo / beat changing entry points of TempoClock, line by line.  [a] is the anchor: the logical
   time of the caller for [tempo] and [beats] (main.current_tt._seconds: the physical present for a
   thread that is not a clock thread), the physical present (main.elapsed_time()) for [etempo]. *)
Inductive retime_kind := RTempo | REtempo | RBeats.
Definition retime (k : retime_kind) (m : tmap) (a v : Q) : tmap :=
  match k with
  | RTempo =>    (* beats = self.beats; _base_seconds = beats2secs(beats); _base_beats = beats; _tempo = v *)
      let b := secs2beats m a in mkTM v (beats2secs m b) b
  | REtempo =>   (* seconds = elapsed_time(); _base_beats = secs2beats(seconds); _base_seconds = seconds; _tempo = v *)
      mkTM v a (secs2beats m a)
  | RBeats =>    (* _base_seconds = current_tt._seconds; _base_beats = v  (tempo unchanged) *)
      mkTM (tm_tempo m) a v
  end.
Definition tmap_eqb (x y : tmap) : bool :=
  Qeq_bool (tm_tempo x) (tm_tempo y) && Qeq_bool (tm_bsecs x) (tm_bsecs y) && Qeq_bool (tm_bbeats x) (tm_bbeats y).

(* ---- queue helpers (TaskQ.spec operations) ------------------------------------------ *)
Definition itime (x : item) : Q := fst (fst x).
Definition iseq (x : item) : nat := snd (fst x).
Definition q_add (t : Q) (k : task) (l : list item) (n : nat) : list item :=
  insert_by ikey (t, n, k) (remove_task k l).
(* prev_time = -1e10 if empty else peek()[0] *)
Definition sentinel : Q := - (10000000000 # 1).
Definition head_time (l : list item) : Q :=
  match l with [] => sentinel | h :: _ => itime h end.
Definition Qltb (a b : Q) : bool := negb (Qle_bool b a).

(* ---- events --------------------------------------------------------------------------- *)
Inductive kind := KSys | KTempo.
Inductive src := SSched | SClear | SStop | STempo.
Inductive res :=
| RDelta (d : Q)      (* int or float (not bool): re-schedule *)
| ROther              (* None, any other value, or StopStream *)
| RRaise.             (* any other exception: logged *)
Inductive cause := CNotified | CTimeout.     (* what Condition.wait returned *)

Inductive event :=
| EAdd (t : Q) (k : task)          (* _task_queue.add(t, k) in _sched_add *)
| ENotify (s : src)                (* _sched_cond.notify()/notify_all() in _sched_add / clear / _stop / tempo setters *)
| EClearPop (t : Q) (k : task)     (* _task_queue.pop() in clear() *)
| EQClear                          (* _task_queue.clear(); _run_sched = False   in _stop/_sched_stop *)
| ETempo (m : tmap)                (* tempo / etempo / beats setter: the fields after the update; the code then
                                      does  with self._sched_cond: notify()  = ENotify STempo, whoever the caller is *)
| ETime (t : Q)                    (* main.elapsed_time() read by _run *)
| EWaitBegin (timeout : option Q)  (* _sched_cond.wait(timeout) entered *)
| EWaitEnd (c : cause)             (* ... returned, lock re-acquired *)
| EPop (t : Q) (k : task)          (* _task_queue.pop() in _run *)
| EAwakeEnd (k : task) (r : res)   (* task.__awake__ returned / raised *)
| ESchedCall (base d : Q).         (* a thread that is NOT a clock thread (main thread, any other thread) entered
                                      sched(d): its logical "now" is the physical time [base] read at the call
                                      (_MainTimeThread._seconds; specification) *)

(* ---- clock thread program counter ------------------------------------------------------ *)
Inductive pc :=
| PLoop1                           (* lock held; at "while self._task_queue.empty()" *)
| PWaitEmpty                       (* inside wait() of loop 1 (lock released) *)
| PCheck                           (* lock held; at "while not self._task_queue.empty()" (loop 2) *)
| PNotReady (t : Q) (fresh : bool) (* head not ready; t = latest time read; fresh: usable for the timeout *)
| PSleeping (d : Q)                (* inside wait(timeout) of loop 2; d = time read + timeout *)
| PLoop3 (nb : Q)                  (* lock held; at the test of loop 3; nb = now / elapsed_beats of loop 2 *)
| PAwake (nb : Q) (t : Q) (k : task)   (* inside task.__awake__; t = its scheduled time *)
| PReadd (nb : Q) (t : Q) (k : task)   (* numeric return: about to _sched_add(t, k) *)
| PExited.

Inductive pend := NoPend | OweNotify | InClear | InStop | OweTempo
  | OweAdd (tm : Q).   (* sched(d) in progress: _sched_add(tm, .) must follow *)

Record cst := mkC {
  c_kind : kind;
  c_q : list item;         (* _task_queue, as its specification *)
  c_n : nat;               (* next sequence number *)
  c_pc : pc;
  c_run : bool;            (* _run_sched *)
  c_notified : bool;       (* ghost: a notify reached the current wait *)
  c_last : Q;              (* last physical time read (oracle is non-decreasing) *)
  c_map : tmap;
  c_pend : pend            (* a client operation in progress under the lock *)
}.

Definition set_pc (s : cst) (p : pc) : cst :=
  mkC (c_kind s) (c_q s) (c_n s) p (c_run s) (c_notified s) (c_last s) (c_map s) (c_pend s).
Definition set_pend (s : cst) (p : pend) : cst :=
  mkC (c_kind s) (c_q s) (c_n s) (c_pc s) (c_run s) (c_notified s) (c_last s) (c_map s) p.
Definition set_q (s : cst) (l : list item) : cst :=
  mkC (c_kind s) l (c_n s) (c_pc s) (c_run s) (c_notified s) (c_last s) (c_map s) (c_pend s).

Definition init (k : kind) (m : tmap) : cst := mkC k [] 0 PLoop1 true false 0 m NoPend.

Definition waiting (p : pc) : bool :=
  match p with PWaitEmpty | PSleeping _ => true | _ => false end.
Definition lock_free (p : pc) : bool :=
  match p with PWaitEmpty | PSleeping _ | PExited => true | _ => false end.
Definition in_task (p : pc) : bool := match p with PAwake _ _ _ => true | _ => false end.
Definition client_ok (p : pc) : bool := lock_free p || in_task p.

(* the silent moves of _run between two observable actions (loop tests) *)
Definition norm_pc (l : list item) (p : pc) : pc :=
  match p with
  | PLoop1 | PCheck => match l with [] => PLoop1 | _ :: _ => PCheck end
  | PLoop3 nb => match l with
                 | [] => PLoop1
                 | h :: _ => if Qle_bool (itime h) nb then PLoop3 nb else PCheck
                 end
  | _ => p
  end.

(* notify(): reaches the clock thread only if it is waiting *)
Definition do_notify (s : cst) : cst :=
  mkC (c_kind s) (c_q s) (c_n s) (c_pc s) (c_run s)
      (c_notified s || waiting (c_pc s)) (c_last s) (c_map s) NoPend.

(* _sched_add(t, k): add, then notify iff peek()[0] != prev_time *)
Definition do_add (s : cst) (t : Q) (k : task) (p' : pc) : cst :=
  let prev := head_time (c_q s) in
  let l := q_add t k (c_q s) (c_n s) in
  mkC (c_kind s) l (S (c_n s)) p' (c_run s) (c_notified s) (c_last s) (c_map s)
      (if Qeq_bool (head_time l) prev then NoPend else OweNotify).

Definition step (s : cst) (e : event) : option cst :=
  match c_pend s with
  | OweNotify => match e with ENotify SSched => Some (do_notify s) | _ => None end
  | InStop => match e with ENotify SStop => Some (do_notify s) | _ => None end
  | OweTempo => match e with ENotify STempo => Some (do_notify s) | _ => None end
  | OweAdd tm =>
      match e with
      | EAdd t k => if lock_free (c_pc s) && Qeq_bool t tm then Some (do_add s t k (c_pc s)) else None
      | _ => None
      end
  | InClear =>
      match e, c_q s with
      | EClearPop t k, h :: r =>
          if Qeq_bool t (itime h) && Z.eqb k (itask h) then Some (set_q s r) else None
      | ENotify SClear, [] => Some (do_notify s)
      | _, _ => None
      end
  | NoPend =>
      let p := norm_pc (c_q s) (c_pc s) in
      match e with
      | EAdd t k =>
          match p with
          | PReadd nb t' k' =>
              if Qeq_bool t t' && Z.eqb k k' then Some (do_add s t k (PLoop3 nb)) else None
          | _ => if client_ok p then Some (do_add s t k p) else None
          end
      | ENotify SClear =>
          match c_q s with
          | [] => if client_ok p then Some (do_notify s) else None
          | _ => None
          end
      | ENotify _ => None
      | EClearPop t k =>
          match c_q s with
          | h :: r => if client_ok p && Qeq_bool t (itime h) && Z.eqb k (itask h)
                      then Some (set_pend (set_q s r) InClear) else None
          | [] => None
          end
      | EQClear =>
          if lock_free p
          then Some (mkC (c_kind s) [] 0 p false (c_notified s) (c_last s) (c_map s) InStop)
          else None
      | ETempo m =>
          match c_kind s with
          | KTempo => if client_ok p
                      then Some (mkC (c_kind s) (c_q s) (c_n s) p (c_run s)
                                     (c_notified s) (c_last s) m OweTempo)
                      else None
          | KSys => None
          end
      | ETime t =>
          if Qle_bool (c_last s) t then
            match p, c_q s with
            | PCheck, h :: _ =>
                let nb := secs2beats (c_map s) t in
                let p' := if Qle_bool (itime h) nb then PLoop3 nb
                          else PNotReady t (match c_kind s with KSys => true | KTempo => false end) in
                Some (mkC (c_kind s) (c_q s) (c_n s) p' (c_run s) (c_notified s) t (c_map s) NoPend)
            | PNotReady _ false, _ =>
                Some (mkC (c_kind s) (c_q s) (c_n s) (PNotReady t true) (c_run s) (c_notified s) t (c_map s) NoPend)
            | _, _ => None
            end
          else None
      | EWaitBegin None =>
          match p with
          | PLoop1 => Some (mkC (c_kind s) (c_q s) (c_n s) PWaitEmpty (c_run s) false (c_last s) (c_map s) NoPend)
          | _ => None
          end
      | EWaitBegin (Some to) =>
          match p, c_q s with
          | PNotReady t true, h :: _ =>
              if Qeq_bool to (beats2secs (c_map s) (itime h) - t)
              then Some (mkC (c_kind s) (c_q s) (c_n s) (PSleeping (t + to)) (c_run s) false (c_last s) (c_map s) NoPend)
              else None
          | _, _ => None
          end
      | EWaitEnd _ =>
          match p with
          | PWaitEmpty | PSleeping _ =>
              let p' := if c_run s then (match p with PWaitEmpty => PLoop1 | _ => PCheck end) else PExited in
              Some (mkC (c_kind s) (c_q s) (c_n s) p' (c_run s) false (c_last s) (c_map s) NoPend)
          | _ => None
          end
      | EPop t k =>
          match p, c_q s with
          | PLoop3 nb, h :: r =>
              if Qeq_bool t (itime h) && Z.eqb k (itask h)
              then Some (set_pc (set_q s r) (PAwake nb (itime h) k)) else None
          | _, _ => None
          end
      | EAwakeEnd k r =>
          match p with
          | PAwake nb t k' =>
              if Z.eqb k k' then
                Some (set_pc s (match r with RDelta d => PReadd nb (t + d) k' | _ => PLoop3 nb end))
              else None
          | _ => None
          end
      | ESchedCall base d =>
          (* seconds = current_tt._seconds (+ secs2beats for TempoClock); seconds += delta *)
          if lock_free p then Some (set_pend (set_pc s p) (OweAdd (secs2beats (c_map s) base + d))) else None
      end
  end.

Fixpoint run (s : cst) (evs : list event) : option cst :=
  match evs with
  | [] => Some s
  | e :: r => match step s e with Some s' => run s' r | None => None end
  end.

Definition accepts (k : kind) (m : tmap) (evs : list event) : bool :=
  match run (init k m) evs with Some _ => true | None => false end.

(* main._in_awake_call: while it is set, the main thread's logical time is frozen at the scheduled
   time of the task being awakened (RtMain._update_logical_time).  In _run it is set before
   task.__awake__ and reset in the finally clause, i.e. on EVERY exit path: in the model it is a
   function of the program counter. *)
Definition main_time_frozen (s : cst) : bool := in_task (c_pc s).

(* The log is cut while the harness holds the main lock: the clock thread is then inside a
   wait (or has returned); anything else means the thread died in its critical section. *)
Definition quiescent (s : cst) : bool :=
  match c_pend s with NoPend => lock_free (norm_pc (c_q s) (c_pc s)) | _ => false end.
Definition accepts_quiescent (k : kind) (m : tmap) (evs : list event) : bool :=
  match run (init k m) evs with Some s => quiescent s | None => false end.

(* index of the first event that is not a behaviour of the model (diagnosis) *)
Fixpoint first_reject (s : cst) (evs : list event) (i : nat) : option nat :=
  match evs with
  | [] => None
  | e :: r => match step s e with Some s' => first_reject s' r (S i) | None => Some i end
  end.

(* ---- progress (bounded liveness) ------------------------------------------------------------ *)
(* The clock thread is deterministic up to its oracles: the event it performs next, given the
   value of the next time read [t], the cause of the next wake-up [c] and the result of the task
   being awakened [r].  [None]: the thread has returned, or a client holds the lock mid-operation. *)
Definition next_clock_event (s : cst) (t : Q) (c : cause) (r : res) : option event :=
  match c_pend s with
  | NoPend =>
      match norm_pc (c_q s) (c_pc s), c_q s with
      | PLoop1, _ => Some (EWaitBegin None)
      | PWaitEmpty, _ | PSleeping _, _ => Some (EWaitEnd c)
      | PCheck, _ => Some (ETime t)
      | PNotReady t0 true, h :: _ => Some (EWaitBegin (Some (beats2secs (c_map s) (itime h) - t0)))
      | PNotReady _ false, _ => Some (ETime t)
      | PLoop3 _, h :: _ => Some (EPop (itime h) (itask h))
      | PAwake _ _ k, _ => Some (EAwakeEnd k r)
      | PReadd _ t' k, _ => Some (EAdd t' k)
      | _, _ => None
      end
  | _ => None
  end.

(* The fair continuation from a sleeping thread: the wait returns (cause c), the time read is t,
   every pending task is due at t, every task returns a non-number, no client interferes:
   the thread pops and awakens the whole queue in order and goes back to wait on an empty queue. *)
Definition drain_events (c : cause) (t : Q) (l : list item) : list event :=
  EWaitEnd c :: ETime t ::
  flat_map (fun x => [EPop (itime x) (itask x); EAwakeEnd (itask x) ROther]) l ++ [EWaitBegin None].

(* boolean comparison of events (times up to ==), for the correspondence of [drain_events] *)
Definition oq_eqb (a b : option Q) : bool :=
  match a, b with Some x, Some y => Qeq_bool x y | None, None => true | _, _ => false end.
Definition ev_eqb (a b : event) : bool :=
  match a, b with
  | EAdd t k, EAdd t' k' | EClearPop t k, EClearPop t' k' | EPop t k, EPop t' k' => Qeq_bool t t' && Z.eqb k k'
  | ENotify SSched, ENotify SSched | ENotify SClear, ENotify SClear | ENotify SStop, ENotify SStop
  | ENotify STempo, ENotify STempo | EQClear, EQClear => true
  | ETime t, ETime t' => Qeq_bool t t'
  | EWaitBegin a', EWaitBegin b' => oq_eqb a' b'
  | EWaitEnd CNotified, EWaitEnd CNotified | EWaitEnd CTimeout, EWaitEnd CTimeout => true
  | EAwakeEnd k ROther, EAwakeEnd k' ROther | EAwakeEnd k RRaise, EAwakeEnd k' RRaise => Z.eqb k k'
  | EAwakeEnd k (RDelta d), EAwakeEnd k' (RDelta d') => Z.eqb k k' && Qeq_bool d d'
  | _, _ => false
  end.
(* the real trace, cut after [npre] events, continues exactly with the fair drain of the model's queue *)
Definition drain_matches (k : kind) (m : tmap) (evs : list event) (npre : nat) (c : cause) (t : Q) : bool :=
  match run (init k m) (firstn npre evs) with
  | Some s => let d := drain_events c t (c_q s) in
              list_eqb ev_eqb (firstn (length d) (skipn npre evs)) d
  | None => false
  end.

(* every event of the clock thread in a trace is the one [next_clock_event] predicts from the state and
   the oracle values the event carries (correspondence of [next_clock_event]) *)
Definition oracle_t (e : event) : Q := match e with ETime t => t | _ => 0 end.
Definition oracle_c (e : event) : cause := match e with EWaitEnd c => c | _ => CTimeout end.
Definition oracle_r (e : event) : res := match e with EAwakeEnd _ r => r | _ => ROther end.
Definition by_clock_thread (s : cst) (e : event) : bool :=
  match e with
  | ETime _ | EWaitBegin _ | EWaitEnd _ | EPop _ _ | EAwakeEnd _ _ => true
  | EAdd _ _ => match c_pend s, norm_pc (c_q s) (c_pc s) with NoPend, PReadd _ _ _ => true | _, _ => false end
  | _ => false
  end.
Fixpoint mon_next (s : cst) (evs : list event) : bool :=
  match evs with
  | [] => true
  | e :: r =>
      (if by_clock_thread s e
       then match next_clock_event s (oracle_t e) (oracle_c e) (oracle_r e) with
            | Some e' => ev_eqb e e'
            | None => false
            end
       else true) &&
      match step s e with Some s' => mon_next s' r | None => true end
  end.

(* ---- monitors over a trace (independent of [step]) --------------------------------------- *)
(* never_early: every pop happens at a time read nb (converted by the map in force at the
   read) with scheduled time <= nb *)
Fixpoint mon_never_early (m : tmap) (nb : option Q) (evs : list event) : bool :=
  match evs with
  | [] => true
  | ETime t :: r => mon_never_early m (Some (secs2beats m t)) r
  | ETempo m' :: r => mon_never_early m' nb r
  | EPop t _ :: r => match nb with Some b => Qle_bool t b && mon_never_early m nb r | None => false end
  | _ :: r => mon_never_early m nb r
  end.

(* exactly once: pending schedulings as (task, time, seq); add replaces, pop/clear/stop consume;
   a pop must consume a pending scheduling at its time, and be followed by exactly one awake
   of that task before the next pop; order: the popped one is minimal for (time, seq). *)
Definition mpend := list (task * Q * nat).
Fixpoint mp_remove (k : task) (l : mpend) : mpend :=
  match l with
  | [] => []
  | x :: r => if Z.eqb k (fst (fst x)) then mp_remove k r else x :: mp_remove k r
  end.
Fixpoint mp_find (k : task) (l : mpend) : option (Q * nat) :=
  match l with
  | [] => None
  | x :: r => if Z.eqb k (fst (fst x)) then Some (snd (fst x), snd x) else mp_find k r
  end.
Definition mp_minimal (t : Q) (n : nat) (l : mpend) : bool :=
  forallb (fun x => negb (key_ltb (snd (fst x), snd x) (t, n))) l.

Fixpoint mon_once (l : mpend) (n : nat) (cur : option task) (evs : list event) : bool :=
  match evs with
  | [] => true
  | EAdd t k :: r => mon_once ((k, t, n) :: mp_remove k l) (S n) cur r
  | EPop t k :: r =>
      match cur, mp_find k l with
      | None, Some (t', n') =>
          Qeq_bool t t' && mp_minimal t' n' l && mon_once (mp_remove k l) n (Some k) r
      | _, _ => false
      end
  | EAwakeEnd k _ :: r =>
      match cur with
      | Some k' => Z.eqb k k' && mon_once l n None r
      | None => false
      end
  | EClearPop t k :: r =>
      match mp_find k l with
      | Some (t', _) => Qeq_bool t t' && mon_once (mp_remove k l) n cur r
      | None => false
      end
  | ENotify SClear :: r => match l with [] => mon_once l n cur r | _ => false end
  | EQClear :: r => mon_once [] 0 cur r
  | _ :: r => mon_once l n cur r
  end.

(* resched: a numeric result d of the task popped at time t is followed at once by add(t + d) *)
Fixpoint mon_resched (popt : Q) (evs : list event) : bool :=
  match evs with
  | [] => true
  | EPop t _ :: r => mon_resched t r
  | EAwakeEnd k (RDelta d) :: r =>
      match r with
      | EAdd t' k' :: _ => Qeq_bool t' (popt + d) && Z.eqb k k' && mon_resched popt r
      | [] => true
      | _ => false
      end
  | _ :: r => mon_resched popt r
  end.

(* notify discipline of _sched_add, recomputed from the trace alone: after add, a notify
   follows iff the earliest pending time changed *)
Definition mp_min_time (l : mpend) : Q :=
  fold_right (fun x acc => if Qltb (snd (fst x)) acc then snd (fst x) else acc)
             (match l with [] => sentinel | x :: _ => snd (fst x) end) l.
Fixpoint mon_notify (l : mpend) (n : nat) (evs : list event) : bool :=
  match evs with
  | [] => true
  | EAdd t k :: r =>
      let l' := (k, t, n) :: mp_remove k l in
      let changed := negb (Qeq_bool (mp_min_time l') (mp_min_time l)) in
      match r with
      | ENotify SSched :: _ => changed && mon_notify l' (S n) r
      | _ => negb changed && mon_notify l' (S n) r
      end
  | EPop _ k :: r | EClearPop _ k :: r => mon_notify (mp_remove k l) n r
  | EQClear :: r => mon_notify [] 0 r
  | ETempo _ :: r =>
      match r with
      | ENotify STempo :: _ => mon_notify l n r
      | _ => false
      end
  | _ :: r => mon_notify l n r
  end.

(* sched(d) from a non-clock thread is relative to the physical present: the add that follows
   is at secs2beats(base) + d under the tempo map in force *)
Fixpoint mon_sched_base (m : tmap) (evs : list event) : bool :=
  match evs with
  | [] => true
  | ETempo m' :: r => mon_sched_base m' r
  | ESchedCall base d :: r =>
      match r with
      | EAdd t _ :: _ => Qeq_bool t (secs2beats m base + d) && mon_sched_base m r
      | [] => true
      | _ => false
      end
  | _ :: r => mon_sched_base m r
  end.

(* every tempo / beats change in the trace produced the map that the entry point's definition gives
   from the map in force, the anchor and the argument (annotations in order of the ETempo events) *)
Fixpoint mon_retime (m : tmap) (anns : list (retime_kind * Q * Q)) (evs : list event) : bool :=
  match evs with
  | [] => match anns with [] => true | _ => false end
  | ETempo m' :: r =>
      match anns with
      | (k, a, v) :: anns' => tmap_eqb m' (retime k m a v) && mon_retime m' anns' r
      | [] => false
      end
  | _ :: r => mon_retime m anns r
  end.

(* no_oversleep on a trace: replays [step] and checks the invariant in every state
   (diagnosis of a rejected or accepted trace; the theorem is about all executions) *)
Definition oversleep_free (s : cst) : bool :=
  match c_pend s with
  | NoPend | OweAdd _ =>          (* no client is in the middle of an operation under the lock
                                     (or one has only just entered sched: nothing changed yet) *)
      match c_pc s with
      | PWaitEmpty => c_notified s || match c_q s with [] => true | _ => false end
      | PSleeping d => c_notified s ||
                       match c_q s with
                       | [] => false
                       | h :: _ => Qeq_bool d (beats2secs (c_map s) (itime h))
                       end
      | _ => true
      end
  | _ => true
  end.
Fixpoint mon_no_oversleep (s : cst) (evs : list event) : bool :=
  oversleep_free s &&
  match evs with
  | [] => true
  | e :: r => match step s e with Some s' => mon_no_oversleep s' r | None => true end
  end.

(* ========================================================================================= *)
(* System 2: AppClock                                                                        *)
(* ========================================================================================= *)
Inductive variant :=
| VOrig      (* clock.py as it is: wait(seconds) unconditionally *)
| VFlag.     (* proposed repair: sched sets _tick_pending under _tick_cond; _run skips the
                wait when it is set and resets it before leaving the with block *)

Inductive aevent :=
| ATickBegin                       (* _run: with cls._sched_lock entered *)
| ATime (t : Q)                    (* main.elapsed_time(): _tick, or Scheduler._sched_add (drift) *)
| APop (t : Q) (k : task)          (* seconds setter: self._expired.append(self.queue.pop()) *)
| AAwakeEnd (k : task) (r : res)   (* Scheduler._wakeup: awake returned / raised *)
| AAdd (t : Q) (k : task)          (* queue.add under _sched_lock: sched (first section) or re-add *)
| AClearPop (t : Q) (k : task)     (* Scheduler.clear *)
| ATickEnd                         (* _run: leaves the with cls._sched_lock block *)
| ACondEnter                       (* _run: with cls._tick_cond entered *)
| AWaitBegin (timeout : option Q)
| AWaitEnd (c : cause)
| ACondExit                        (* _run: leaves the with cls._tick_cond block (or returns) *)
| ANotify                          (* sched, second section: with _tick_cond: notify() *)
| AStop.                           (* _stop: with _tick_cond: _run_sched = False; notify() *)

Inductive apc :=
| APre                                             (* no lock held; about to tick *)
| ATick0                                           (* _sched_lock held, before the time read *)
| ACollect (now : Q) (acc : list item)             (* popping expired items *)
| AAwk (now : Q) (x : item) (todo : list item)     (* waking x; todo = rest of _expired *)
| AReaddT (now : Q) (d : Q) (k : task) (todo : list item)   (* numeric return: reads the time *)
| AReadd (now : Q) (t : Q) (k : task) (todo : list item)    (* queue.add(t, k) *)
| ATickDone (now : Q)                              (* all expired woken; about to leave the block *)
| AWindow (to : option Q) (dl : option Q)          (* between the two with blocks *)
| ACond (to : option Q) (dl : option Q)            (* _tick_cond held, before wait *)
| AWaiting (dl : option Q)                         (* inside wait *)
| AWoke                                            (* wait returned, _tick_cond held *)
| AExited.

Record ast := mkA {
  a_var : variant;
  a_q : list item;
  a_n : nat;
  a_pc : apc;
  a_run : bool;
  a_notified : bool;     (* ghost: notify reached the current wait *)
  a_owed : nat;          (* clients between their two critical sections *)
  a_flag : bool;         (* _tick_pending (VFlag only) *)
  a_last : Q
}.

Definition ainit (v : variant) : ast := mkA v [] 0 APre true false 0 false 0.

Definition a_set_pc (s : ast) (p : apc) : ast :=
  mkA (a_var s) (a_q s) (a_n s) p (a_run s) (a_notified s) (a_owed s) (a_flag s) (a_last s).
Definition a_set_q (s : ast) (l : list item) : ast :=
  mkA (a_var s) l (a_n s) (a_pc s) (a_run s) (a_notified s) (a_owed s) (a_flag s) (a_last s).

(* main lock not held by the clock thread *)
Definition a_main_free (p : apc) : bool :=
  match p with APre | AWindow _ _ | ACond _ _ | AWaiting _ | AWoke | AExited => true | _ => false end.
Definition a_in_task (p : apc) : bool := match p with AAwk _ _ _ => true | _ => false end.
(* _tick_cond's lock not held by the clock thread *)
Definition a_tick_free (p : apc) : bool :=
  match p with ACond _ _ | AWoke => false | _ => true end.
Definition a_waiting (p : apc) : bool := match p with AWaiting _ => true | _ => false end.

(* silent moves inside the tick *)
Definition a_norm (l : list item) (p : apc) : apc :=
  match p with
  | ACollect now acc =>
      let more := match l with [] => false | h :: _ => Qle_bool (itime h) now end in
      if more then p else
      match acc with [] => ATickDone now | x :: todo => AAwk now x todo end
  | _ => p
  end.
Definition a_next (now : Q) (todo : list item) : apc :=
  match todo with [] => ATickDone now | x :: r => AAwk now x r end.

Definition astep (s : ast) (e : aevent) : option ast :=
  let p := a_norm (a_q s) (a_pc s) in
  match e with
  | ATickBegin => match p with APre => Some (a_set_pc s ATick0) | _ => None end
  | ATime t =>
      if Qle_bool (a_last s) t then
        let s1 := mkA (a_var s) (a_q s) (a_n s) p (a_run s) (a_notified s) (a_owed s) (a_flag s) t in
        match p with
        | ATick0 => Some (a_set_pc s1 (ACollect t []))
        | AReaddT now d k todo => Some (a_set_pc s1 (AReadd now (t + d) k todo))
        | _ => if a_main_free p || a_in_task p then Some s1 else None
        end
      else None
  | APop t k =>
      match p, a_q s with
      | ACollect now acc, h :: r =>
          if Qeq_bool t (itime h) && Z.eqb k (itask h)
          then Some (a_set_pc (a_set_q s r) (ACollect now (acc ++ [h]))) else None
      | _, _ => None
      end
  | AAwakeEnd k r =>
      match p with
      | AAwk now x todo =>
          if Z.eqb k (itask x) then
            Some (a_set_pc s (match r with RDelta d => AReaddT now d k todo | _ => a_next now todo end))
          else None
      | _ => None
      end
  | AAdd t k =>
      match p with
      | AReadd now t' k' todo =>
          if Qeq_bool t t' && Z.eqb k k'
          then Some (mkA (a_var s) (q_add t' k (a_q s) (a_n s)) (S (a_n s)) (a_next now todo)
                         (a_run s) (a_notified s) (a_owed s) (a_flag s) (a_last s))
          else None
      | _ =>
          if a_main_free p || a_in_task p
          then Some (mkA (a_var s) (q_add t k (a_q s) (a_n s)) (S (a_n s)) p
                         (a_run s) (a_notified s) (S (a_owed s)) (a_flag s) (a_last s))
          else None
      end
  | AClearPop t k =>
      match a_q s with
      | h :: r => if (a_main_free p || a_in_task p) && Qeq_bool t (itime h) && Z.eqb k (itask h)
                  then Some (a_set_pc (a_set_q s r) p) else None
      | [] => None
      end
  | ATickEnd =>
      match p with
      | ATickDone now =>
          Some (a_set_pc s (match a_q s with
                            | [] => AWindow None None
                            | h :: _ => AWindow (Some (itime h - now)) (Some (itime h))
                            end))
      | _ => None
      end
  | ACondEnter => match p with AWindow to dl => Some (a_set_pc s (ACond to dl)) | _ => None end
  | AWaitBegin to' =>
      match p with
      | ACond to dl =>
          let same := match to, to' with
                      | None, None => true
                      | Some a, Some b => Qeq_bool a b
                      | _, _ => false
                      end in
          let skip := match a_var s with VFlag => a_flag s | VOrig => false end in
          if a_run s && same && negb skip
          then Some (mkA (a_var s) (a_q s) (a_n s) (AWaiting dl) (a_run s) false (a_owed s) (a_flag s) (a_last s))
          else None
      | _ => None
      end
  | AWaitEnd _ => match p with AWaiting _ => Some (a_set_pc s AWoke) | _ => None end
  | ACondExit =>
      match p with
      | ACond _ _ =>
          if negb (a_run s) then Some (a_set_pc s AExited)
          else match a_var s with
               | VFlag => if a_flag s
                          then Some (mkA (a_var s) (a_q s) (a_n s) APre (a_run s) false (a_owed s) false (a_last s))
                          else None
               | VOrig => None
               end
      | AWoke => Some (mkA (a_var s) (a_q s) (a_n s) APre (a_run s) false (a_owed s) false (a_last s))
      | _ => None
      end
  | ANotify =>
      (* the second section of sched; also after a sched(inf, .) that added nothing (owed stays 0) *)
      if a_tick_free p
      then Some (mkA (a_var s) (a_q s) (a_n s) p (a_run s) (a_notified s || a_waiting p) (pred (a_owed s))
                     (match a_var s with VFlag => true | VOrig => a_flag s end) (a_last s))
      else None
  | AStop =>
      if a_tick_free p
      then Some (mkA (a_var s) (a_q s) (a_n s) p false (a_notified s || a_waiting p) (a_owed s) (a_flag s) (a_last s))
      else None
  end.

Fixpoint arun (s : ast) (evs : list aevent) : option ast :=
  match evs with
  | [] => Some s
  | e :: r => match astep s e with Some s' => arun s' r | None => None end
  end.
Definition a_accepts (v : variant) (evs : list aevent) : bool :=
  match arun (ainit v) evs with Some _ => true | None => false end.
Fixpoint a_first_reject (s : ast) (evs : list aevent) (i : nat) : option nat :=
  match evs with
  | [] => None
  | e :: r => match astep s e with Some s' => a_first_reject s' r (S i) | None => Some i end
  end.
(* cut while the harness holds both locks *)
Definition a_quiescent (s : ast) : bool :=
  match a_norm (a_q s) (a_pc s) with APre | AWindow _ _ | AWaiting _ | AExited => true | _ => false end.
Definition a_accepts_quiescent (v : variant) (evs : list aevent) : bool :=
  match arun (ainit v) evs with Some s => a_quiescent s | None => false end.

(* no_oversleep for AppClock: sleeping, no notify on its way (none delivered, no client
   between its two sections), running: the deadline is not later than the earliest task *)
Definition a_stale (dl : option Q) (l : list item) : bool :=
  match l with
  | [] => false
  | h :: _ => match dl with None => true | Some d => Qltb (itime h) d end
  end.
Definition a_oversleep_free (s : ast) : bool :=
  match a_pc s with
  | AWaiting dl => a_notified s || negb (a_owed s =? 0)%nat || negb (a_run s) || negb (a_stale dl (a_q s))
  | _ => true
  end.
Fixpoint a_mon_no_oversleep (s : ast) (evs : list aevent) : bool :=
  a_oversleep_free s &&
  match evs with
  | [] => true
  | e :: r => match astep s e with Some s' => a_mon_no_oversleep s' r | None => true end
  end.

(* trace monitors for AppClock.  ANotify / AStop are performed under the other lock and may be
   logged anywhere between two events of the tick. *)
Fixpoint a_mon_never_early (now : option Q) (intick : bool) (evs : list aevent) : bool :=
  match evs with
  | [] => true
  | ATickBegin :: r => a_mon_never_early now true r
  | ATime t :: r => if intick then a_mon_never_early (Some t) false r
                    else a_mon_never_early now false r
  | APop t _ :: r => match now with
                     | Some b => Qle_bool t b && a_mon_never_early now intick r
                     | None => false
                     end
  | _ :: r => a_mon_never_early now intick r
  end.
(* drifting re-schedule: a numeric result d is followed (among the events under _sched_lock)
   by a time read t' and then add(t' + d) *)
Fixpoint a_mon_resched (want : option (Q * task * option Q)) (evs : list aevent) : bool :=
  match evs with
  | [] => true
  | ANotify :: r | AStop :: r => a_mon_resched want r
  | AAwakeEnd k (RDelta d) :: r =>
      match want with None => a_mon_resched (Some (d, k, None)) r | Some _ => false end
  | ATime t' :: r =>
      match want with
      | Some (d, k, None) => a_mon_resched (Some (d, k, Some t')) r
      | Some _ => false
      | None => a_mon_resched None r
      end
  | AAdd t'' k' :: r =>
      match want with
      | Some (d, k, Some t') => Qeq_bool t'' (t' + d) && Z.eqb k k' && a_mon_resched None r
      | Some _ => false
      | None => a_mon_resched None r
      end
  | _ :: r => match want with None => a_mon_resched None r | Some _ => false end
  end.
Fixpoint a_mon_once (l : mpend) (n : nat) (woken : list task) (evs : list aevent) : bool :=
  match evs with
  | [] => true
  | AAdd t k :: r => a_mon_once ((k, t, n) :: mp_remove k l) (S n) woken r
  | APop t k :: r =>
      match mp_find k l with
      | Some (t', n') => Qeq_bool t t' && mp_minimal t' n' l && a_mon_once (mp_remove k l) n (woken ++ [k]) r
      | None => false
      end
  | AAwakeEnd k _ :: r =>
      match woken with
      | k' :: w => Z.eqb k k' && a_mon_once l n w r
      | [] => false
      end
  | AClearPop t k :: r =>
      match mp_find k l with
      | Some (t', _) => Qeq_bool t t' && a_mon_once (mp_remove k l) n woken r
      | None => false
      end
  | ATickEnd :: r => match woken with [] => a_mon_once l n woken r | _ => false end
  | _ :: r => a_mon_once l n woken r
  end.
