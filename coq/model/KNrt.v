(* KNrt -- executable non-real-time semantics of script programs, following
   sc3/base/clock.py (ClockScheduler, ClockTask, NRT branches of SystemClock/AppClock/TempoClock sched and sched_abs),
   sc3/base/main.py (NrtMain._update_logical_time/elapsed_time/process), sc3/base/stream.py
   (Routine.next: the routine takes its parent's seconds) and sc3/base/_oscinterface.py
   (OscNrtInterface, OscScore.add/_process_bndl_time/finish).   Definitions only. *)
From Coq Require Import ZArith QArith Qround List Bool.
Require Import SC3.model.KProg.
Import ListNotations.
Open Scope Q_scope.

(* ClockTask in the ClockScheduler queue: seconds, insertion count, clock, routine instance,
   and the beats it was scheduled for (kept by the repaired code to re-time on tempo changes) *)
Record entry := mkE { e_time : Q; e_cnt : nat; e_clock : clockid; e_rid : nat; e_beats : Q }.
(* routine instance *)
Record rout := mkR { r_def : nat; r_rest : list act; r_clock : clockid; r_k : nat }.
(* score entry: logical seconds, insertion count, stamped bundle *)
Record sentry := mkS { s_time : Q; s_cnt : nat; s_b : selem }.

Record nstate := mkN {
  n_q : list entry;        (* sorted by (time, count) *)
  n_qcnt : nat;
  n_tcs : list tclock;
  n_routs : list rout;
  n_mtime : Q;             (* main_tt._m_seconds = NrtMain.elapsed_time() *)
  n_score : list sentry;   (* sorted by (time, count) *)
  n_scnt : nat;
  n_log : list event;      (* newest first *)
  n_f11 : bool             (* a tempo was changed while a task of that clock was pending *)
}.

Definition set_q st q := mkN q (n_qcnt st) (n_tcs st) (n_routs st) (n_mtime st) (n_score st) (n_scnt st) (n_log st) (n_f11 st).
Definition set_tcs st t := mkN (n_q st) (n_qcnt st) t (n_routs st) (n_mtime st) (n_score st) (n_scnt st) (n_log st) (n_f11 st).
Definition set_routs st r := mkN (n_q st) (n_qcnt st) (n_tcs st) r (n_mtime st) (n_score st) (n_scnt st) (n_log st) (n_f11 st).
Definition set_mtime st m := mkN (n_q st) (n_qcnt st) (n_tcs st) (n_routs st) m (n_score st) (n_scnt st) (n_log st) (n_f11 st).
Definition set_f11 st b := mkN (n_q st) (n_qcnt st) (n_tcs st) (n_routs st) (n_mtime st) (n_score st) (n_scnt st) (n_log st) b.
Definition add_log st ev := mkN (n_q st) (n_qcnt st) (n_tcs st) (n_routs st) (n_mtime st) (n_score st) (n_scnt st) (ev :: n_log st) (n_f11 st).
(* scheduler.add(time, ClockTask) *)
Definition push st (time : Q) (c : clockid) (rid : nat) (beats : Q) :=
  mkN (kinsert e_time e_cnt (mkE (Qred time) (n_qcnt st) c rid (Qred beats)) (n_q st)) (S (n_qcnt st)) (n_tcs st) (n_routs st)
      (n_mtime st) (n_score st) (n_scnt st) (n_log st) (n_f11 st).
(* OscScore._scoreq.add(time, entry) *)
Definition score_add st (time : Q) (b : selem) :=
  mkN (n_q st) (n_qcnt st) (n_tcs st) (n_routs st) (n_mtime st)
      (kinsert s_time s_cnt (mkS (Qred time) (n_scnt st) b) (n_score st)) (S (n_scnt st)) (n_log st) (n_f11 st).

Definition origin := option (nat * nat).
Definition inside (org : origin) : bool := match org with Some _ => true | None => false end.

(* clock.play(routine, 0) called at logical time T: the new routine instance is `rid` *)
Definition nrt_sched_play (rt : option Z) (qk : quirks) (st : nstate) (T : Q) (c : clockid) (rid : nat) : nstate :=
  let tcs := n_tcs st in
  let beat := match c with
              | CSystem => T + 0                               (* SystemClock.sched(0, r) *)
              | CApp => if qk_app_abs qk then 0 else T + 0     (* AppClock.sched(0, r): ClockTask(delta, ...) *)
              | CTempo _ => s2b tcs c T + 0                    (* sched_abs(next_time_on_grid(0, 0), r) *)
              end in
  match rt with
  | None => push st (b2s tcs c beat) c rid beat        (* NRT: ClockTask stores seconds *)
  | Some _ => push st beat c rid beat                  (* RT: the clock's own queue is keyed by its beats *)
  end.

(* OscScore.add([lat, *es]) with send_time T; false = raised *)
Definition send_mode (rt : option Z) (org : origin) : smode :=
  match rt with None => MNrt (inside org) | Some off => MRt off end.
Definition nrt_send (rt : option Z) (st : nstate) (org : origin) (T : Q) (lat : option Q) (es : list elem) : nstate * bool :=
  let md := send_mode rt org in
  match stamp_bundle md T lat es with
  | None => (add_log st (EvSend org T lat es None), false)
  | Some sb =>
      match rt with
      | None => (add_log (score_add st (stamp_time md T lat) sb) (EvSend org T lat es (Some sb)), true)
      | Some _ => (add_log st (EvSend org T lat es (Some sb)), true)      (* RT: the datagram goes out *)
      end
  end.
(* addr.send_msg: NRT = send_bundle(0.0, msg); RT = a bare message without timetag *)
Definition nrt_sendmsg (rt : option Z) (st : nstate) (org : origin) (T : Q) (m : Z) : nstate * bool :=
  match rt with
  | None => nrt_send rt st org T (Some 0) [EMsg m]
  | Some _ => (add_log st (EvSendMsg org T m), true)
  end.

(* repaired code only: tasks of tempo clock i keep their beats, their seconds follow the new map *)
Definition is_clock (c : clockid) (e : entry) : bool := clock_eqb (e_clock e) c.
Definition retime (st : nstate) (i : nat) : nstate :=
  let c := CTempo i in
  let mine := filter (is_clock c) (n_q st) in
  let others := filter (fun e => negb (is_clock c e)) (n_q st) in
  fold_left (fun s e => push s (b2s (n_tcs s) c (e_beats e)) c (e_rid e) (e_beats e)) mine (set_q st others).

Definition nrt_set_tempo (rt : option Z) (qk : quirks) (st : nstate) (org : origin) (T : Q) (i : nat) (v : Q) : nstate * bool :=
  match nth_error (n_tcs st) i with
  | None => (add_log st (EvTempo org i v false), false)
  | Some t =>
      match tc_set_tempo t T v with
      | None => (add_log st (EvTempo org i v false), false)
      | Some t' =>
          let pending := existsb (is_clock (CTempo i)) (n_q st) in
          let st1 := set_f11 (set_tcs st (set_nth (n_tcs st) i t')) (n_f11 st || pending) in
          let st2 := match rt with
                     | None => if qk_tempo_frozen qk then st1 else retime st1 i
                     | Some _ => st1                     (* RT queues hold beats: nothing to do *)
                     end in
          (add_log st2 (EvTempo org i v true), true)
      end
  end.

Inductive outcome := OYield (d : Q) (rest : list act) | ODone | ORaise.

Definition clock_ok_mode (rt : option Z) (c : clockid) : bool :=
  match rt, c with Some _, CApp => false | _, _ => true end.   (* AppClock in RT is outside the model *)
Definition nrt_play (rt : option Z) (qk : quirks) (p : prog) (st : nstate) (org : origin) (T : Q) (r : nat) (c : clockid)
  : nstate * bool :=
  match nth_error (p_bodies p) r with
  | None => (st, false)
  | Some body =>
      if clock_ok (n_tcs st) c && clock_ok_mode rt c then
        let rid := length (n_routs st) in
        let st1 := set_routs st (n_routs st ++ [mkR r body c 0]) in
        (nrt_sched_play rt qk (add_log st1 (EvPlay org rid c T)) T c rid, true)
      else (st, false)
  end.

(* run the current thread (a routine, or the code outside routines when org = None) until it
   yields, returns or raises.  T = current_tt._seconds, cclk = current_tt._clock *)
Fixpoint run_acts (rt : option Z) (qk : quirks) (p : prog) (st : nstate) (org : origin) (T : Q) (cclk : clockid)
         (acts : list act) {struct acts} : nstate * outcome :=
  let continue (r : nstate * bool) (rest : list act) :=
      if snd r || negb (inside org) then run_acts rt qk p (fst r) org T cclk rest else (fst r, ORaise) in
  match acts with
  | [] => (st, ODone)
  | Return :: _ => (st, ODone)
  | Yield d :: rest => if inside org then (st, OYield d rest) else run_acts rt qk p st org T cclk rest
  | Send lat m :: rest => continue (nrt_send rt st org T lat [EMsg m]) rest
  | SendMsg m :: rest => continue (nrt_sendmsg rt st org T m) rest
  | SendBundle lat es :: rest => continue (nrt_send rt st org T lat es) rest
  | Play r c :: rest => continue (nrt_play rt qk p st org T r c) rest
  | Fork r :: rest => continue (nrt_play rt qk p st org T r cclk) rest
  | SetTempo i v :: rest => continue (nrt_set_tempo rt qk st org T i v) rest
  end.

(* ClockTask._wakeup(time) *)
Definition nrt_wake (qk : quirks) (p : prog) (st : nstate) (e : entry) : nstate :=
  let T := e_time e in
  let c := e_clock e in
  let rid := e_rid e in
  let st0 := set_mtime st T in                     (* main._update_logical_time(time) *)
  let beats := Qred (s2b (n_tcs st0) c T) in       (* beats = self.clock.secs2beats(time) *)
  match nth_error (n_routs st0) rid with
  | None => st                                     (* unreachable: every task has its routine *)
  | Some r =>
      let k := r_k r in
      let st1 := add_log st0 (EvResume rid k c T beats) in
      let '(st2, oc) := run_acts None qk p st1 (Some (rid, k)) T c (r_rest r) in
      match oc with
      | OYield d rest =>
          let nb := beats + d in
          let st3 := set_routs st2 (set_nth (n_routs st2) rid (mkR (r_def r) rest c (S k))) in
          push st3 (b2s (n_tcs st3) c nb) c rid nb   (* scheduler.add(clock.beats2secs(beats + delta), self) *)
      | ODone => add_log (set_routs st2 (set_nth (n_routs st2) rid (mkR (r_def r) [] c (S k)))) (EvEnd rid k false)
      | ORaise => add_log (set_routs st2 (set_nth (n_routs st2) rid (mkR (r_def r) [] c (S k)))) (EvEnd rid k true)
      end
  end.

(* ClockScheduler.run *)
Fixpoint nrt_loop (qk : quirks) (p : prog) (fuel : nat) (st : nstate) : nstate :=
  match fuel with
  | O => st
  | S f => match n_q st with
           | [] => st
           | e :: rest => nrt_loop qk p f (nrt_wake qk p (set_q st rest) e)
           end
  end.

Definition gnew_msg : Z := (-2)%Z.     (* ['/g_new', 1, 0, 0] *)
Definition cset_msg : Z := (-1)%Z.     (* ['/c_set', 0, 0]   *)

Definition nrt_init (p : prog) : nstate :=
  let st := mkN [] 0 (map (fun t => tc_new t 0) (p_tempos p)) [] 0 [] 0 [] false in
  score_add st 0 (SBundle false 0 0 [SMsg gnew_msg]).   (* OscScore.__init__ *)

Definition nrt_main (qk : quirks) (p : prog) : nstate :=
  fst (run_acts None qk p (nrt_init p) None 0 CSystem (p_main p)).

Definition score_last_time (sc : list sentry) : Q := fold_left (fun m s => Qmaxq m (s_time s)) sc 0.

(* OscScore.finish(tailtime) called outside routines *)
Definition nrt_finish (qk : quirks) (tail : Q) (st : nstate) : nstate :=
  let t0 := tail + n_mtime st in
  let t := if qk_tail_early qk then t0 else Qmaxq t0 (score_last_time (n_score st)) in
  let md := MNrt false in
  let lat := Some t in
  score_add st (stamp_time md (n_mtime st) lat)
            (SBundle false (stamp_time md (n_mtime st) lat) (stamp_tag md (n_mtime st) lat) [SMsg cset_msg]).

(* main.process(tailtime) *)
Definition nrt_run (qk : quirks) (p : prog) (fuel : nat) : nstate :=
  nrt_finish qk (p_tail p) (nrt_loop qk p fuel (nrt_main qk p)).

Definition nrt_completed (qk : quirks) (p : prog) (fuel : nat) : bool :=
  match n_q (nrt_loop qk p fuel (nrt_main qk p)) with [] => true | _ => false end.

(* OscScore.raw: each entry is msg.size.to_bytes(4, 'big') + msg.dgram; enc = the OSC encoding of a
   stamped bundle, supplied from outside (opaque byte list) *)
Definition be32 (n : nat) : list Z :=
  let z := Z.of_nat n in
  [(z / 16777216) mod 256; (z / 65536) mod 256; (z / 256) mod 256; z mod 256]%Z.
Definition score_raw (enc : selem -> list Z) (sc : list sentry) : list Z :=
  flat_map (fun s => be32 (length (enc (s_b s))) ++ enc (s_b s)) sc.
