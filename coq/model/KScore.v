(* KScore -- the binary form of an NRT score over the OSC encoder model of C06 (model/Osc.v):
   the stamped bundles of KProg/KNrt as argument trees of _build_bundle, OscScore.add's
   `msg.size.to_bytes(4, 'big') + msg.dgram`, OscScore.raw, and an INDEPENDENT reader of the raw
   form (a length-prefix splitter that knows nothing about OSC).   Definitions only. *)
From Coq Require Import ZArith QArith List Bool.
Require Import SC3.model.Osc SC3.model.OscSize SC3.model.OscDomain SC3.model.KProg SC3.model.KNrt.
Import ListNotations.
Open Scope Z_scope.

(* the messages of the script language as the Python lists the harness sends *)
Definition addr_m : bytes := [47; 109].                          (* '/m' *)
Definition addr_gnew : bytes := [47; 103; 95; 110; 101; 119].    (* '/g_new' *)
Definition addr_cset : bytes := [47; 99; 95; 115; 101; 116].     (* '/c_set' *)
Definition msg_arg (m : Z) : arg :=
  if m =? gnew_msg then AList [AStr addr_gnew; AInt 1; AInt 0; AInt 0]
  else if m =? cset_msg then AList [AStr addr_cset; AInt 0; AInt 0]
  else AList [AStr addr_m; AInt m].

(* a stamped bundle as the list [time, elem, ...] handed to _build_bundle: the head carries the
   seconds the bundle is due (what _check_subtime compares once the send instant is added on both
   sides) and the timetag _get_timetag computed *)
Fixpoint to_arg (s : selem) : arg :=
  match s with
  | SMsg m => msg_arg m
  | SBundle _ t g es => AList (ATime (Some t) g :: map to_arg es)
  end.
Definition top_tag (s : selem) : Z := match s with SBundle _ _ g _ => g | SMsg _ => -1 end.

Definition enc_entry (nc : bool) (s : sentry) : res bytes := build_pkt nc (to_arg (s_b s)).
(* msg.size.to_bytes(4, 'big') + msg.dgram   (OverflowError above 2^32 - 1) *)
Definition prefixed (d : bytes) : bytes := Osc.be32 (zlen d) ++ d.
Fixpoint score_encs (nc : bool) (sc : list sentry) : res (list bytes) :=
  match sc with
  | [] => Ok []
  | s :: r =>
      enc_entry nc s >>= fun d =>
      if zlen d <? 4294967296 then score_encs nc r >>= fun ds => Ok (d :: ds) else Err EBuild
  end.
(* OscScore.raw after finish(): the entries in (time, count) order *)
Definition score_raw_osc (nc : bool) (sc : list sentry) : res bytes :=
  score_encs nc sc >>= fun ds => Ok (concat (map prefixed ds)).
(* total version, to instantiate the opaque encoder of KNrt.score_raw *)
Definition osc_enc (nc : bool) (b : selem) : list Z :=
  match build_pkt nc (to_arg b) with Ok d => d | Err _ => [] end.

(* the independent reader: int32 big-endian size, then that many bytes, until the input ends *)
Fixpoint split_raw (fuel : nat) (raw : bytes) : option (list bytes) :=
  match fuel with
  | O => None
  | S f =>
      match raw with
      | [] => Some []
      | a :: b :: c :: d :: rest =>
          let n := be_val [a; b; c; d] 0 in
          if zlen rest <? n then None
          else match split_raw f (skipn (Z.to_nat n) rest) with
               | Some l => Some (firstn (Z.to_nat n) rest :: l)
               | None => None
               end
      | _ => None
      end
  end.
Definition split_raw_top (raw : bytes) : option (list bytes) := split_raw (S (length raw)) raw.

(* the timetags a reader of the binary score sees, in file order *)
Definition score_tags (sc : list sentry) : list Z := map (fun s => top_tag (s_b s)) sc.

(* OscScore.finish(tailtime) called from INSIDE a routine whose logical time is T (main.process(tail) or
   score.finish(tail) in a routine body): tailtime stays relative to T -- add() adds the routine's logical time
   again -- so the repaired code compares it with last - T.  As found there was no such branch. *)
Open Scope Q_scope.
Definition nrt_finish_inside (qk : quirks) (tail T : Q) (st : nstate) : nstate :=
  let last := score_last_time (n_score st) in
  let l := if qk_tail_early qk then tail else Qmaxq tail (last - T) in
  let md := MNrt true in
  score_add st (stamp_time md T (Some l))
            (SBundle false (stamp_time md T (Some l)) (stamp_tag md T (Some l)) [SMsg cset_msg]).
(* the routine that runs LAST closes the score at its logical time (= the time of the last wake-up) *)
Definition nrt_run_closed_inside (qk : quirks) (p : prog) (fuel : nat) (tail : Q) : nstate :=
  let st := nrt_loop qk p fuel (nrt_main qk p) in nrt_finish_inside qk tail (n_mtime st) st.

(* the score lies inside the encoder's documented domain (C06: model/OscDomain.v in_domain, size_ok): decidable *)
Definition entry_in_domain (s : sentry) : bool :=
  in_domain true (to_arg (s_b s)) && size_ok (to_arg (s_b s)).
Definition score_in_domain (sc : list sentry) : bool := forallb entry_in_domain sc.
