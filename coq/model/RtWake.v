(* C11 -- the real-time wake-up of a task by a clock thread (sc3/base/clock.py: the "perform all
   events that are ready" loop body of SystemClock._run and TempoClock._run, and Scheduler._wakeup
   used by AppClock) around Routine.next, with the flag main._in_awake_call and the real-time
   main._update_logical_time (sc3/base/main.py:188-203).  Executable definitions only.

       try:
           main._update_logical_time(sched_time)
           main._in_awake_call = True
           delta = task.__awake__(clock)
           if delta is a number: re-schedule at sched_time + delta
       except StopStream: pass
       except Exception:  log
       finally:           main._in_awake_call = False

   [clause] says which clause holds the last assignment: Finally = the code; Else = the variant in
   which it only runs when nothing was raised (used for the refutation).  Physical time is a
   parameter of the reads; one queue stands for the clock's own queue. *)
From Coq Require Import ZArith List Bool.
Require Import SC3.model.Cond SC3.model.Routine.
Import ListNotations.
Open Scope Z_scope.

Inductive clause := Finally | Else.

Record rtw := mkRtw { in_awake : bool; lib : world }.

(* RtMain._update_logical_time: if not cls._in_awake_call: cls.main_tt._m_seconds = seconds *)
Definition update_logical_time (t : Z) (s : rtw) : rtw :=
  if in_awake s then s else mkRtw (in_awake s) (set_main_secs t (lib s)).

(* _MainTimeThread._seconds read by the main thread at physical time p *)
Definition main_seconds_at (p : Z) (s : rtw) : rtw * Z :=
  let s' := update_logical_time p s in (s', main_secs (lib s')).

Inductive exit_path := PNormal | PStop | PError.
Definition path_of (o : outcome) : exit_path :=
  match o with
  | Ret _ => PNormal
  | Exc EStopStream | Exc EPausedStream => PStop
  | Exc _ => PError
  end.

Definition rt_wakeup (cl : clause) (cfg : config) (defs : list rdef) (fuel : nat)
           (t : Z) (r : nat) (s : rtw) : rtw * outcome :=
  let s1 := update_logical_time t s in
  let '(w3, o) := next_ cfg defs fuel r VAwake (lib s1) in       (* flag is True meanwhile *)
  let w4 := match o with
            | Ret (VInt d) => set_queue (enqueue (t + d) r (queue w3)) w3
            | Ret (VFloat d) => set_queue (enqueue (t + d) r (queue w3)) w3
            | _ => w3
            end in
  let cleared := match cl with
                 | Finally => true
                 | Else => match path_of o with PNormal => true | _ => false end
                 end in
  (mkRtw (negb cleared) w4, o).
