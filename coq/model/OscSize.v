(* C06 -- executable model of the size predictions of sc3/base/netaddr.py:
   _strpad4, _calc_msg_dgram_size, _calc_bndl_dgram_size, _clump_bundle, and of the
   decisions taken with them (send_clumped_bundles, sync, SynthDef._do_send).
   Definitions only.

   The functions look at: len(str) (characters in the snapshot, UTF-8 bytes after the
   repair), len(bytes), the nesting of lists and the type of a list's head.  They are
   modelled on the same argument trees as Osc.v.
   [fx] selects the repaired computation (true: build/proposed_fixes/C06_size_prediction.diff,
   C06_clump_bundle.diff and C06_size_accepts.diff) or the original snapshot's (false).  *)
From Coq Require Import ZArith QArith List Bool.
Import ListNotations.
Require Import SC3.model.Osc.
Open Scope Z_scope.

(* _strpad4(n) = n + 4 - (n & 3) *)
Definition strpad4 (n : Z) : Z := n + 4 - Z.land n 3.

(* len(s) of a str given by its UTF-8 bytes: bytes that are not continuation bytes *)
Definition nchars (s : bytes) : Z :=
  zlen (filter (fun b => negb (Z.land b 192 =? 128)) s).
Definition is_ascii (s : bytes) : bool := forallb (fun b => b <? 128) s.


Fixpoint sumz (l : list Z) : Z := match l with [] => 0 | x :: r => x + sumz r end.

(* [calc_pkt fx a]: a list whose head is a str -> _calc_msg_dgram_size(a);
   any other non-empty list [t, e1, ...] -> _calc_bndl_dgram_size([e1, ...])
   (the callers test the head: see [calc_elem]). *)
Fixpoint calc_pkt (fx : bool) (a : arg) {struct a} : res Z :=
  match a with
  | AList (AStr addr :: args) =>
      if negb fx && negb (is_ascii addr) then Err EValue    (* snapshot: bytes(msg[0], 'ascii'); repaired: 'utf-8' *)
      else
        (fix vals (l : list arg) : res Z :=
           match l with
           | [] => Ok 0
           | v :: r =>
               (match v with
                | AStr s => Ok (strpad4 (if fx then zlen s else nchars s))
                | ABytes b => Ok (if fx then 4 + zlen b + Z.land (- zlen b) 3 else zlen b + 4)
                | AList [] => if fx then Ok 4 else Err EOther          (* snapshot: msg[0] IndexError *)
                | AList (AStr _ :: _) => calc_pkt fx v >>= fun s => Ok (s + 4)
                | AList (_ :: _) =>
                    if fx then calc_pkt fx v >>= fun s => Ok (s + 4)
                    else Err EOther                    (* snapshot: bytes(number, 'ascii') TypeError *)
                | _ => Ok 4
                end) >>= fun s => vals r >>= fun t => Ok (s + t)
           end) args >>= fun v =>
        Ok (strpad4 (zlen addr) + strpad4 (zlen args + 1) + v)
  | AList (_ :: elems) =>
      (fix bndl (l : list arg) : res Z :=
         match l with
         | [] => Ok 16
         | e :: r =>
             (match e with
              | AList (AStr _ :: _) => calc_pkt fx e
              | AList (ATime lat _ :: _) =>            (* snapshot: isinstance(e[0], (int, float)); repaired: + NoneType *)
                  if fx || (match lat with Some _ => true | None => false end) then calc_pkt fx e else Err EValue
              | AList [] => Err EOther                 (* e[0]: IndexError *)
              | AList _ => Err EValue
              | _ => Err EOther
              end) >>= fun s => bndl r >>= fun t => Ok (4 + s + t)
         end) elems
  | _ => Err EOther
  end.

(* one argument of _calc_msg_dgram_size's loop, and the loop (same text as inside calc_pkt;
   proofs/C06_base shows calc_pkt unfolds to them) *)
Definition calc_val (fx : bool) (v : arg) : res Z :=
  match v with
  | AStr s => Ok (strpad4 (if fx then zlen s else nchars s))
  | ABytes b => Ok (if fx then 4 + zlen b + Z.land (- zlen b) 3 else zlen b + 4)
  | AList [] => if fx then Ok 4 else Err EOther
  | AList (AStr _ :: _) => calc_pkt fx v >>= fun s => Ok (s + 4)
  | AList (_ :: _) => if fx then calc_pkt fx v >>= fun s => Ok (s + 4) else Err EOther
  | _ => Ok 4
  end.
Fixpoint calc_vals (fx : bool) (l : list arg) : res Z :=
  match l with
  | [] => Ok 0
  | v :: r => calc_val fx v >>= fun s => calc_vals fx r >>= fun t => Ok (s + t)
  end.

(* size of one bundle element as _calc_bndl_dgram_size and _clump_bundle compute it *)
Definition calc_elem (fx : bool) (e : arg) : res Z :=
  match e with
  | AList (AStr _ :: _) => calc_pkt fx e
  | AList (ATime lat _ :: _) =>
      if fx || (match lat with Some _ => true | None => false end) then calc_pkt fx e else Err EValue
  | AList [] => Err EOther
  | AList _ => Err EValue
  | _ => Err EOther
  end.
(* _calc_bndl_dgram_size(elements) *)
Fixpoint calc_bndl (fx : bool) (l : list arg) : res Z :=
  match l with
  | [] => Ok 16
  | e :: r => calc_elem fx e >>= fun s => calc_bndl fx r >>= fun t => Ok (4 + s + t)
  end.
(* _calc_msg_dgram_size(msg) for a message-shaped list *)
Definition calc_msg (fx : bool) (m : arg) : res Z :=
  match m with AList (AStr _ :: _) => calc_pkt fx m | AList [] => Err EOther | _ => Err EOther end.

(* _clump_bundle: first the list of (size, element) ... *)
Fixpoint clump_sizes (fx : bool) (l : list arg) : res (list (Z * arg)) :=
  match l with
  | [] => Ok []
  | e :: r => calc_elem fx e >>= fun s => clump_sizes fx r >>= fun t => Ok ((s, e) :: t)
  end.
(* ... then the accumulation loop; [cur] is the current clump, reversed.
   snapshot:  if acc_size + s >= size: flush (even an empty clump); acc_size += s
   repaired:  s += 4; if clump and acc_size + s >= size: flush; acc_size += s *)
Fixpoint clump_loop {A} (fx : bool) (size : Z) (l : list (Z * A)) (acc : Z) (cur : list A) : list (list A) :=
  match l with
  | [] => match cur with [] => [] | _ => [rev cur] end
  | (s0, e) :: r =>
      let s := if fx then s0 + 4 else s0 in
      let nonempty := match cur with [] => false | _ => true end in
      if (if fx then nonempty else true) && (size <=? acc + s)
      then rev cur :: clump_loop fx size r (16 + s) [e]
      else clump_loop fx size r (acc + s) (e :: cur)
  end.
Definition clump_bundle (fx : bool) (size : Z) (l : list arg) : res (list (list arg)) :=
  clump_sizes fx l >>= fun sl => Ok (clump_loop fx size sl 16 []).

Definition MAX_UDP : Z := 65504.
Definition SYNC_SIZE : Z := 36.
(* the size the real bundle of a clump has, from the sizes of its built elements *)
Definition bundle_len (ds : list bytes) : Z := 16 + sumz (map (fun d => 4 + zlen d) ds).

(* SynthDef._do_send: '/d_recv' is used iff the predicted size is within the limit *)
Definition use_d_recv (predicted : Z) : bool := predicted <=? MAX_UDP.

(* canonical forms for the correspondence *)
Definition size_canon (r : res Z) : Z := match r with Ok n => n | Err e => - err_code e end.
Definition clump_canon (r : res (list (list arg))) : Z * list Z :=
  match r with Ok cs => (0, map zlen cs) | Err e => (err_code e, []) end.
Fixpoint zlist_eqb (a b : list Z) : bool :=
  match a, b with
  | [], [] => true
  | x :: a', y :: b' => (x =? y) && zlist_eqb a' b'
  | _, _ => false
  end.

(* ---- the decisions taken with the predictions (use sites) ---- *)
(* NetAddr.send_clumped_bundles: one bundle when the prediction is within the UDP limit,
   otherwise clumps of the default size 8192 *)
Definition send_clumped_plan (fx : bool) (es : list arg) : res (list (list arg)) :=
  calc_bndl fx es >>= fun n => if MAX_UDP <? n then clump_bundle fx 8192 es else Ok [es].
(* NetAddr.sync(elements=es): the limit and the clump size leave room for the '/sync' message,
   which is appended to every clump *)
Definition sync_plan (fx : bool) (es : list arg) : res (list (list arg)) :=
  calc_bndl fx es >>= fun n =>
  if MAX_UDP - SYNC_SIZE <? n then clump_bundle fx (MAX_UDP - SYNC_SIZE) es else Ok [es].
