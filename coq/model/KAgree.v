(* KAgree -- what a run of a script program (KRand) lets an outside observer see, in either mode:
   the time-sorted sequence of (logical due time relative to the program's start, bundle), the
   logical times of the resumptions, the values logged (random draws, flow-variable values), how the
   routines ended.  Plus the boolean comparisons used by the correspondence.   Definitions only. *)
From Coq Require Import ZArith QArith Qround List Bool.
Require Import SC3.model.KProg SC3.model.KNrt SC3.model.KRt SC3.model.KCmp SC3.model.KRand.
Import ListNotations.
Open Scope Q_scope.

(* stable sort by time: a later emission goes after the earlier ones with the same time (what a
   server does with bundles carrying equal timetags; what OscScore does with its insertion count) *)
Section TSort.
  Context {A : Type}.
  Fixpoint tins (x : Q * A) (l : list (Q * A)) : list (Q * A) :=
    match l with
    | [] => [x]
    | y :: r => if Qle_bool (fst y) (fst x) then y :: tins x r else x :: l
    end.
  Definition tsort (l : list (Q * A)) : list (Q * A) := fold_left (fun acc x => tins x acc) l [].
End TSort.

Definition bundle_obs : Type := (option Q * list elem)%type.   (* the bundle as sent: latency, elements *)

Definition due_time (sb : selem) : Q := match sb with SBundle _ t _ _ => t | SMsg _ => 0 end.

(* emissions of a log (oldest first): successful sends, due time relative to t0 *)
Definition emission (t0 : Q) (ev : event) : list (Q * bundle_obs) :=
  match ev with
  | EvSend (Some _) _ lat es (Some sb) => [(Qred (due_time sb - t0), (lat, es))]
  | _ => []
  end.
Definition resumption (t0 : Q) (ev : event) : list (nat * nat * Q) :=
  match ev with EvResume rid k _ s _ => [(rid, k, Qred (s - t0))] | _ => [] end.
Definition ending (ev : event) : list (nat * nat * bool) :=
  match ev with EvEnd rid k x => [(rid, k, x)] | _ => [] end.

Record obs := mkObs {
  ob_bundles : list (Q * bundle_obs);      (* time-sorted, ties in emission order *)
  ob_resumes : list (nat * nat * Q);       (* routine, resumption number, logical time - start *)
  ob_vals : list vevent;                   (* draws and flow-variable reads, in execution order *)
  ob_ends : list (nat * nat * bool)
}.

Definition obs_of (t0 : Q) (st : xstate) : obs :=
  let log := rev (n_log (x_n st)) in
  mkObs (tsort (flat_map (emission t0) log)) (flat_map (resumption t0) log) (rev (x_vals st)) (flat_map ending log).

(* the repaired non-real-time code (one pending wake-up per routine and clock), and the code as found *)
Definition obs_nrt (gen : Z -> list Z -> Z -> Z) (p : xprog) (fuel : nat) : obs :=
  obs_of 0 (xnrt_loop gen true p fuel (xnrt_init p)).
Definition obs_nrt_as_found (gen : Z -> list Z -> Z -> Z) (p : xprog) (fuel : nat) : obs :=
  obs_of 0 (xnrt_loop gen false p fuel (xnrt_init p)).
Definition obs_rt (gen : Z -> list Z -> Z -> Z) (off : Z) (p : xprog) (t0 : Q) (sched : list (nat * Q)) : obs :=
  obs_of t0 (xs (xrt_run gen off p t0 sched)).

(* what ONE routine does, whatever the others interleave: used to state agreement across clocks *)
Definition of_rout_ev (rid : nat) (ev : event) : bool :=
  match ev with
  | EvResume r _ _ _ _ => Nat.eqb r rid
  | EvSend (Some (r, _)) _ _ _ _ => Nat.eqb r rid
  | EvEnd r _ _ => Nat.eqb r rid
  | _ => false
  end.
Definition of_rout_val (rid : nat) (v : vevent) : bool :=
  match v with VDraw r _ _ _ _ => Nat.eqb r rid | VFlow r _ _ _ => Nat.eqb r rid end.
Definition obs_rout (t0 : Q) (st : xstate) (rid : nat) : obs :=
  let log := filter (of_rout_ev rid) (rev (n_log (x_n st))) in
  mkObs (tsort (flat_map (emission t0) log)) (flat_map (resumption t0) log)
        (filter (of_rout_val rid) (rev (x_vals st))) (flat_map ending log).

(* the draws served by generator object g, in execution order: (request, value) *)
Definition draws_of (g : nat) (vals : list vevent) : list (Z * Z) :=
  flat_map (fun v => match v with VDraw _ _ g' req x => if Nat.eqb g' g then [(req, x)] else [] | _ => [] end) (rev vals).
(* the draws made by routine rid *)
Definition draws_by (rid : nat) (vals : list vevent) : list (Z * Z) :=
  flat_map (fun v => match v with VDraw r _ _ req x => if Nat.eqb r rid then [(req, x)] else [] | _ => [] end) (rev vals).
(* the stream of a generator seeded s serving the requests reqs: gen s [] r0, gen s [r0] r1, ... *)
Fixpoint stream_from (gen : Z -> list Z -> Z -> Z) (s : Z) (hist reqs : list Z) : list (Z * Z) :=
  match reqs with
  | [] => []
  | r :: rest => (r, gen s hist r) :: stream_from gen s (hist ++ [r]) rest
  end.
Definition stream (gen : Z -> list Z -> Z -> Z) (s : Z) (reqs : list Z) : list (Z * Z) := stream_from gen s [] reqs.

(* ---- boolean comparisons (correspondence) ------------------------------------------------------- *)
Definition oZ_eqb (a b : option Z) : bool :=
  match a, b with None, None => true | Some x, Some y => Z.eqb x y | _, _ => false end.
Definition vevent_eqb (a b : vevent) : bool :=
  match a, b with
  | VDraw r k g q v, VDraw r' k' g' q' v' => Nat.eqb r r' && Nat.eqb k k' && Nat.eqb g g' && Z.eqb q q' && Z.eqb v v'
  | VFlow r k f v, VFlow r' k' f' v' => Nat.eqb r r' && Nat.eqb k k' && Nat.eqb f f' && oZ_eqb v v'
  | _, _ => false
  end.

(* a generator given by a finite table: (seed, requests served before, request, value) *)
Definition lZ_eqb (a b : list Z) : bool := list_eqb Z.eqb a b.
Fixpoint tab_gen (tab : list (Z * list Z * Z * Z)) (seed : Z) (hist : list Z) (req : Z) : Z :=
  match tab with
  | [] => (-1)%Z
  | (s, h, r, v) :: rest => if Z.eqb s seed && lZ_eqb h hist && Z.eqb r req then v else tab_gen rest seed hist req
  end.

Record xnrt_obs := mkXO { xo_events : list event; xo_vals : list vevent; xo_score : list selem; xo_elapsed : Q }.

(* 0 = agree; 1 = out of fuel; 2 = events differ; 3 = score differs; 4 = elapsed differs; 5 = values differ *)
Definition xnrt_compare (dd : bool) (tab : list (Z * list Z * Z * Z)) (p : xprog) (fuel : nat) (o : xnrt_obs) : nat :=
  if negb (xnrt_completed (tab_gen tab) dd p fuel) then 1%nat
  else let st := xnrt_run (tab_gen tab) dd p fuel in
       if negb (list_eqb event_eqb (rev (n_log (x_n st))) (xo_events o)) then 2%nat
       else if negb (list_eqb vevent_eqb (rev (x_vals st)) (xo_vals o)) then 5%nat
       else if negb (score_eqb (n_score (x_n st)) (xo_score o)) then 3%nat
       else if negb (Qeq_bool (n_mtime (x_n st)) (xo_elapsed o)) then 4%nat
       else 0%nat.

(* RT: replay of a recorded oracle.  0 = agree; 1 = not an execution of the model; 2 = events differ;
   3 = a task ran before its time; 5 = values differ *)
Definition xrt_compare (tab : list (Z * list Z * Z * Z)) (off : Z) (p : xprog) (t0 : Q) (sched : list (nat * Q))
           (events : list event) (vals : list vevent) : nat :=
  let s := xrt_run (tab_gen tab) off p t0 sched in
  if xs_bad s then 1%nat
  else if negb (list_eqb event_eqb (rev (n_log (x_n (xs s)))) events) then 2%nat
  else if negb (list_eqb vevent_eqb (rev (x_vals (xs s))) vals) then 5%nat
  else if xs_early s then 3%nat
  else 0%nat.
