(* C06 -- helpers used only by the correspondence (harness/props/C06.py): the canonical
   form in which the real library's results are written into the generated case files,
   and the boolean comparisons with the model's results.  Definitions only. *)
From Coq Require Import ZArith QArith List Bool.
Import ListNotations.
Require Import SC3.model.Osc SC3.model.OscSize.
Open Scope Z_scope.

(* run of equal bytes (keeps generated files small) *)
Definition rp (b n : Z) : bytes := repeat b (Z.to_nat n).

(* a value as the real parser returned it: a Python float is given by both packings,
   because the canonical form does not know whether it came from an 'f' or a 'd' tag *)
Inductive ev :=
| EI (z : Z) | EFl (w4 w8 : bytes) | ENan | ES (s : bytes) | EB (b : bytes) | EM (w : bytes)
| ETrue | EFalse | EA (l : list ev).

Fixpoint ev_match (p : pval) (e : ev) {struct p} : bool :=
  match p, e with
  | PInt x, EI y | PRgba x, EI y | PTime x, EI y => x =? y
  | PFloat w, EFl w4 _ => bytes_eqb w w4
  | PDouble w, EFl _ w8 => bytes_eqb w w8
  | PFloat _, ENan | PDouble _, ENan => true
  | PStr x, ES y | PBlob x, EB y | PMidi x, EM y => bytes_eqb x y
  | PTrue, ETrue | PFalse, EFalse => true
  | PArr x, EA y =>
      (fix go (l : list pval) (m : list ev) {struct l} : bool :=
         match l, m with
         | [], [] => true
         | u :: l', v :: m' => ev_match u v && go l' m'
         | _, _ => false
         end) x y
  | _, _ => false
  end.
Fixpoint evs_match (l : list pval) (m : list ev) : bool :=
  match l, m with
  | [], [] => true
  | u :: l', v :: m' => ev_match u v && evs_match l' m'
  | _, _ => false
  end.
Fixpoint timed_match (l : list (option Z * (bytes * list pval))) (m : list (option Z * (bytes * list ev))) : bool :=
  match l, m with
  | [], [] => true
  | (t, (a, ps)) :: l', (u, (b, es)) :: m' =>
      optz_eqb t u && bytes_eqb a b && evs_match ps es && timed_match l' m'
  | _, _ => false
  end.

(* expected result of a parse: (0, messages) or (error code, []) *)
Definition parse_ok (d : bytes) (e : Z * list (option Z * (bytes * list ev))) : bool :=
  match parse_packet d with
  | Ok l => (fst e =? 0) && timed_match l (snd e)
  | Err x => fst e =? err_code x
  end.

Definition build_ok (nc : bool) (a : arg) (e : Z * bytes) : bool :=
  build_canon_eqb (build_canon (build_pkt nc a)) e.

(* prediction for a top-level case: a message list -> _calc_msg_dgram_size(list);
   a bundle list [t, e1, ..] -> _calc_bndl_dgram_size([e1, ..]) *)
Definition calc_top (fx : bool) (a : arg) : res Z :=
  match a with
  | AList (AStr _ :: _) => calc_msg fx a
  | AList (_ :: els) => calc_bndl fx els
  | _ => Err EOther
  end.
Definition size_ok (fx : bool) (a : arg) (e : Z) : bool := size_canon (calc_top fx a) =? e.

Definition clump_ok (fx : bool) (size : Z) (a : arg) (e : Z * list Z) : bool :=
  match a with
  | AList (_ :: els) =>
      let c := clump_canon (clump_bundle fx size els) in (fst c =? fst e) && zlist_eqb (snd c) (snd e)
  | _ => false
  end.

(* the independent OSC 1.0 decoder (model/Osc10.v) accepts a datagram *)
Require Import SC3.model.Osc10.
Definition osc10_accepts (d : bytes) : bool :=
  match Osc10.decode d with Some _ => true | None => false end.

(* use sites: SynthDef._do_send chose '/d_recv' iff the prediction for the message that is to
   be sent is within the limit; send_clumped_bundles / sync sent the planned clumps *)
Definition choice_ok (a : arg) (chose : bool) : bool :=
  match calc_top true a with Ok n => Bool.eqb (use_d_recv n) chose | Err _ => false end.
Definition plan_ok (sync : bool) (a : arg) (e : Z * list Z) : bool :=
  match a with
  | AList (_ :: els) =>
      let c := clump_canon ((if sync then sync_plan else send_clumped_plan) true els) in
      (fst c =? fst e) && zlist_eqb (snd c) (snd e)
  | _ => false
  end.

(* the documented domain against what the real builder did: inside the strict domain the
   builder must accept; whatever it accepts must be representable *)
Require Import SC3.model.OscDomain.
Definition domain_ok (a : arg) (code : Z) : bool :=
  (negb (in_domain true a) || (code =? 0)) && (negb (code =? 0) || in_domain false a).
