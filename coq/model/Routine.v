(* C11 -- sc3/base/stream.py: TimeThread / Routine (next, reset, pause, resume, stop,
   play), the thread stack (main.current_tt, parent pointers, logical-seconds
   inheritance), and routine bodies as finite scripts.  Executable definitions only.

   The model follows stream.py:428-602 line by line.  Two switches select between
   the code as it stands in the repository and the repaired code:
     reentry_guard           next() on a routine whose state is Running is refused
                             (RoutineException) before the thread stack is touched;
     reset_clears_terminal   reset() forgets the terminal value recorded by an
                             earlier AlwaysYield.
   [unpatched] = both off = smrg-lm/sc3 as released; [patched] = both on.

   Generators are modelled by specification: a generator object is a position in the
   script (None = Routine._iterator is None); sending into a generator that is
   executing raises ValueError; StopIteration subclasses escaping a generator body
   become RuntimeError (PEP 479).  One corner of the UNPATCHED code is not modelled
   (a second generator created while the first is still executing, reachable only
   after a re-entrant next() has already corrupted the state): the model then sets
   [poison] and answers EUnmodelled; the patched model provably never does. *)
From Coq Require Import ZArith List Bool.
Require Import SC3.model.Cond.
Import ListNotations.
Open Scope Z_scope.

Inductive state := Init | Running | Suspended | Paused | Done.
Inductive kind := Gen | Fn.        (* generator function | common function *)
Inductive exc :=
| EStopStream | EPausedStream | ERoutine (* RoutineException *)
| EValue (* ValueError: generator already executing *)
| ERuntime (* RuntimeError: generator raised StopIteration *)
| EUser (* the exception a body raises *)
| EAttribute (* AttributeError: 'NoneType' object has no attribute ... *)
| ERecursion (* fuel exhausted = RecursionError *)
| EException (* plain Exception: wait outside a routine, FlowVar rebind *)
| EBadId (* not a routine / cell of the program: never generated *)
| EUnmodelled
| EBase (* a BaseException that is not an Exception: KeyboardInterrupt, SystemExit, GeneratorExit, user class *).
Inductive outcome := Ret (v : val) | Exc (e : exc).
Inductive tid := Main | R (i : nat).

Inductive call :=
| CNext (r : nat) (v : val)      (* r.next(v) *)
| CStop (r : nat) | CPause (r : nat) | CResume (r : nat) | CReset (r : nat) | CPlay (r : nat)
| CSignal (c : nat) | CUnhang (c : nat) | CSetTest (c : nat) (b : tval)
| CFlowSet (c : nat) (v : val).  (* flowvar.value = v *)

Inductive act :=
| AYield (v : val)               (* x = yield v; log x *)
| AReturn
| ARaise                         (* raise UserError *)
| AYieldAndReset (v : val)
| AAlwaysYield (v : val)
| ACall (c : call) (catch : bool) (* try: log(c()) except Exception as e: log(e)   |   log(c()) *)
| AWait (c : nat)                (* yield from cond.wait()  /  first half of  yield from flowvar.value *)
| AFlowLog (c : nat)             (* second half: log(flowvar._value) *)
| ALog (v : val)                 (* log(v, main.current_tt is self, self.state, self._seconds) *)
| ARaiseBase                     (* raise a BaseException that is not an Exception *)
| ARelay (r : nat) (v : val).    (* x = yield r.next(v); log x   -- hands a nested routine's value (e.g. 'hang') on *)

Record rdef := mkDef { d_kind : kind; d_hasin : bool; d_script : list act }.

Record rt := mkRt {
  st : state;
  iter : option nat;      (* _iterator: None | generator suspended/executing at this script position *)
  lastv : val;            (* _last_value *)
  term : option val;      (* _terminal_value: None = _SENTINEL *)
  parent : option tid;    (* parent: None | main_tt | a routine *)
  secs : Z;               (* _m_seconds *)
  gexec : bool            (* the generator in _iterator is executing (gi_running) *)
}.

Inductive ev :=
| EvArg (v : val) | EvRecv (v : val)
| EvLog (v : val) (cur_is_self : bool) (s : state) (t : Z)
| EvCall (c : call) (o : outcome)
| EvFlow (v : val).

Record world := mkW {
  rts : list rt;
  cur : option tid;             (* main.current_tt (None only in the unpatched model) *)
  main_secs : Z;                (* main.main_tt._m_seconds *)
  cells : list cell;
  queue : list (Z * nat);       (* main._clock_scheduler.queue in pop order *)
  log : list (nat * ev);        (* newest first *)
  poison : bool
}.

Record config := mkCfg { reentry_guard : bool; reset_clears_terminal : bool }.
Definition unpatched := mkCfg false false.
Definition patched := mkCfg true true.

(* ---- record plumbing ---------------------------------------------------- *)
Fixpoint upd_nth {A} (n : nat) (x : A) (l : list A) : list A :=
  match l, n with
  | [], _ => []
  | _ :: t, O => x :: t
  | h :: t, S n' => h :: upd_nth n' x t
  end.

Definition set_rt (r : nat) (x : rt) (w : world) : world :=
  mkW (upd_nth r x (rts w)) (cur w) (main_secs w) (cells w) (queue w) (log w) (poison w).
Definition set_cur (c : option tid) (w : world) : world :=
  mkW (rts w) c (main_secs w) (cells w) (queue w) (log w) (poison w).
Definition set_main_secs (t : Z) (w : world) : world :=
  mkW (rts w) (cur w) t (cells w) (queue w) (log w) (poison w).
Definition set_cell (c : nat) (x : cell) (w : world) : world :=
  mkW (rts w) (cur w) (main_secs w) (upd_nth c x (cells w)) (queue w) (log w) (poison w).
Definition set_queue (q : list (Z * nat)) (w : world) : world :=
  mkW (rts w) (cur w) (main_secs w) (cells w) q (log w) (poison w).
Definition add_log (r : nat) (e : ev) (w : world) : world :=
  mkW (rts w) (cur w) (main_secs w) (cells w) (queue w) ((r, e) :: log w) (poison w).
Definition set_poison (w : world) : world :=
  mkW (rts w) (cur w) (main_secs w) (cells w) (queue w) (log w) true.

Definition with_st (s : state) (x : rt) := mkRt s (iter x) (lastv x) (term x) (parent x) (secs x) (gexec x).
Definition with_iter (i : option nat) (x : rt) := mkRt (st x) i (lastv x) (term x) (parent x) (secs x) (gexec x).
Definition with_lastv (v : val) (x : rt) := mkRt (st x) (iter x) v (term x) (parent x) (secs x) (gexec x).
Definition with_term (t : option val) (x : rt) := mkRt (st x) (iter x) (lastv x) t (parent x) (secs x) (gexec x).
Definition with_parent (p : option tid) (x : rt) := mkRt (st x) (iter x) (lastv x) (term x) p (secs x) (gexec x).
Definition with_secs (t : Z) (x : rt) := mkRt (st x) (iter x) (lastv x) (term x) (parent x) t (gexec x).
Definition with_gexec (b : bool) (x : rt) := mkRt (st x) (iter x) (lastv x) (term x) (parent x) (secs x) b.

Definition state_eqb (a b : state) : bool :=
  match a, b with
  | Init, Init | Running, Running | Suspended, Suspended | Paused, Paused | Done, Done => true
  | _, _ => false
  end.

Definition init_rt : rt := mkRt Init None VNone None None 0 false.

(* thread._seconds *)
Definition secs_of (t : tid) (w : world) : option Z :=
  match t with
  | Main => Some (main_secs w)
  | R i => option_map secs (nth_error (rts w) i)
  end.

(* main.current_tt._seconds ; None = AttributeError (current_tt is None) *)
Definition cur_secs (w : world) : option Z :=
  match cur w with None => None | Some t => secs_of t w end.

(* TimeThread.thread_player with _thread_player = None: the outermost routine on the
   parent chain.  None = the chain is longer than the fuel (a cycle: RecursionError). *)
Fixpoint tplayer (n : nat) (w : world) (t : nat) : option nat :=
  match n with
  | O => None
  | S n' =>
    match nth_error (rts w) t with
    | Some x => match parent x with
                | Some (R p) => tplayer n' w p
                | _ => Some t
                end
    | None => Some t
    end
  end.

(* for tt in tmp: tt._clock.sched(0, tt)   (NRT SystemClock.sched: ClockTask at current_tt._seconds + 0) *)
Definition sched_all (rs : list nat) (w : world) : world * outcome :=
  match rs with
  | [] => (w, Ret VNone)
  | _ => match cur_secs w with
         | None => (w, Exc EAttribute)
         | Some t => (set_queue (enqueue_all t rs (queue w)) w, Ret VNone)
         end
  end.

Section Interp.
Variable cfg : config.
Variable defs : list rdef.

(* ---- every operation except next ---------------------------------------- *)
Definition do_stop (r : nat) (w : world) : world * outcome :=
  match nth_error (rts w) r with
  | None => (w, Exc EBadId)
  | Some x =>
    match st x with
    | Running => (w, Exc ERoutine)
    | _ => (set_rt r (with_st Done (with_lastv VNone (with_iter None x))) w, Ret VNone)
    end
  end.

Definition do_reset (r : nat) (w : world) : world * outcome :=
  match nth_error (rts w) r with
  | None => (w, Exc EBadId)
  | Some x =>
    match st x with
    | Running => (w, Exc ERoutine)
    | _ =>
      let x1 := with_st Init (with_iter None x) in
      (set_rt r (if reset_clears_terminal cfg then with_term None x1 else x1) w, Ret VNone)
    end
  end.

Definition do_pause (r : nat) (w : world) : world * outcome :=
  match nth_error (rts w) r with
  | None => (w, Exc EBadId)
  | Some x =>
    match st x with
    | Running => (w, Exc ERoutine)
    | Init | Suspended => (set_rt r (with_st Paused x) w, Ret VNone)
    | _ => (w, Ret VNone)
    end
  end.

(* resume(): if Paused: state = Suspended; clock.play(self) *)
Definition do_resume (r : nat) (w : world) : world * outcome :=
  match nth_error (rts w) r with
  | None => (w, Exc EBadId)
  | Some x =>
    match st x with
    | Paused => sched_all [r] (set_rt r (with_st Suspended x) w)
    | _ => (w, Ret VNone)
    end
  end.

(* play(): if Init or Paused: state = Suspended; clock = main.current_tt._clock; clock.play(self) *)
Definition do_play (r : nat) (w : world) : world * outcome :=
  match nth_error (rts w) r with
  | None => (w, Exc EBadId)
  | Some x =>
    match st x with
    | Init | Paused => sched_all [r] (set_rt r (with_st Suspended x) w)
    | _ => (w, Ret VNone)
    end
  end.

Definition err_exc (base : bool) : exc := if base then EBase else EUser.

(* signal(): "if self.test:" - a test callable that raises leaves everything as it was *)
Definition do_signal (c : nat) (w : world) : world * outcome :=
  match nth_error (cells w) c with
  | None => (w, Exc EBadId)
  | Some x =>
    match cell_err x with
    | Some b => (w, Exc (err_exc b))
    | None => let '(x', ws) := cell_signal x in sched_all ws (set_cell c x' w)
    end
  end.

Definition do_unhang (c : nat) (w : world) : world * outcome :=
  match nth_error (cells w) c with
  | None => (w, Exc EBadId)
  | Some x => let '(x', ws) := cell_unhang x in sched_all ws (set_cell c x' w)
  end.

Definition do_settest (c : nat) (b : tval) (w : world) : world * outcome :=
  match nth_error (cells w) c with
  | None => (w, Exc EBadId)
  | Some x => (set_cell c (cell_settest b x) w, Ret VNone)
  end.

Definition do_flowset (c : nat) (v : val) (w : world) : world * outcome :=
  match nth_error (cells w) c with
  | None => (w, Exc EBadId)
  | Some x =>
    match cell_flowset v x with
    | None => (w, Exc EException)
    | Some (x', ws) => sched_all ws (set_cell c x' w)
    end
  end.

Definition do_direct (c : call) (w : world) : world * outcome :=
  match c with
  | CNext _ _ => (w, Exc EBadId)
  | CStop r => do_stop r w
  | CPause r => do_pause r w
  | CResume r => do_resume r w
  | CReset r => do_reset r w
  | CPlay r => do_play r w
  | CSignal c => do_signal c w
  | CUnhang c => do_unhang c w
  | CSetTest c b => do_settest c b w
  | CFlowSet c v => do_flowset c v w
  end.

(* ---- bodies --------------------------------------------------------------- *)
Inductive bres :=
| BYield (v : val) (pc : nat)   (* suspended at a yield; pc = where to go on *)
| BReturn                       (* StopIteration / the function returned *)
| BRaise (e : exc)
| BYReset (v : val)             (* raise YieldAndReset(v) *)
| BAlways (v : val).            (* raise AlwaysYield(v) *)

(* PEP 479: a StopIteration (sub)class leaving a generator body becomes RuntimeError *)
Definition escape (k : kind) (e : exc) : exc :=
  match k, e with
  | Gen, EStopStream => ERuntime
  | Gen, EPausedStream => ERuntime
  | _, _ => e
  end.

(* "except Exception" in a body catches everything but BaseException-only classes *)
Definition catchable (e : exc) : bool := match e with EBase => false | _ => true end.

Definition log_self (self : nat) (v : val) (w : world) : world :=
  match nth_error (rts w) self with
  | None => w
  | Some x =>
    add_log self (EvLog v (match cur w with Some (R i) => Nat.eqb i self | _ => false end) (st x) (secs x)) w
  end.

Section Exec.
Variable call_next : nat -> val -> world -> world * outcome.

Definition do_call (c : call) (w : world) : world * outcome :=
  match c with
  | CNext r v => call_next r v w
  | _ => do_direct c w
  end.

(* Condition.wait() up to its yield (stream.py:700-708) *)
Definition do_wait (c : nat) (w : world) : world * option val * exc :=
  match nth_error (cells w) c with
  | None => (w, None, EBadId)
  | Some x =>
    match cur w with
    | Some Main => (w, None, EException)
    | Some (R t) =>
      match cell_err x with Some b => (w, None, err_exc b) | None =>
      if cell_test x then (w, Some (VInt 0), EBadId)
      else match tplayer (S (length (rts w))) w t with
           | None => (w, None, ERecursion)
           | Some p => let '(x', v) := cell_wait p x in (set_cell c x' w, Some v, EBadId)
           end
      end
    | None =>
      match cell_err x with Some b => (w, None, err_exc b) | None =>
      if cell_test x then (w, Some (VInt 0), EBadId) else (w, None, EAttribute)
      end
    end
  end.

Fixpoint exec (self : nat) (k : kind) (acts : list act) (pc : nat) (w : world) : world * bres :=
  match acts with
  | [] => (w, BReturn)
  | a :: rest =>
    match a with
    | AYield v =>
      match k with
      | Gen => (w, BYield v (S pc))
      | Fn => exec self k rest (S pc) w      (* a function with a yield is a generator: not generated *)
      end
    | AReturn => (w, BReturn)
    | ARaise => (w, BRaise EUser)
    | AYieldAndReset v => (w, BYReset v)
    | AAlwaysYield v => (w, BAlways v)
    | ACall c catch =>
      let '(w1, o) := do_call c w in
      match o with
      | Ret _ => exec self k rest (S pc) (add_log self (EvCall c o) w1)
      | Exc e =>
        if catch && catchable e then exec self k rest (S pc) (add_log self (EvCall c o) w1)
        else (w1, BRaise (escape k e))
      end
    | AWait c =>
      match k with
      | Fn => exec self k rest (S pc) w
      | Gen =>
        match do_wait c w with
        | (w1, Some v, _) => (w1, BYield v (S pc))
        | (w1, None, e) => (w1, BRaise e)
        end
      end
    | AFlowLog c =>
      exec self k rest (S pc)
           (match nth_error (cells w) c with
            | Some x => add_log self (EvFlow (cell_value x)) w
            | None => w
            end)
    | ALog v => exec self k rest (S pc) (log_self self v w)
    | ARaiseBase => (w, BRaise EBase)
    | ARelay r v =>
      match k with
      | Fn => exec self k rest (S pc) w
      | Gen =>
        let '(w1, o) := call_next r v w in
        match o with
        | Ret u => (w1, BYield u (S pc))
        | Exc e => (w1, BRaise (escape k e))
        end
      end
    end
  end.

Definition is_stop (e : exc) : bool :=
  match e with EStopStream | EPausedStream => true | _ => false end.

(* the except clauses and the finally of Routine.next (stream.py:504-533).
   own = this call ran the generator frame (false only for the ValueError of a
   re-entrant send, where the frame belongs to an outer call). *)
Definition finish (r : nat) (d : rdef) (b : bres) (own : bool) (w : world) : world * outcome :=
  match nth_error (rts w) r with
  | None => (w, Exc EBadId)
  | Some x =>
    let '(x1, o) :=
      match b with
      | BYield v pc' =>
        (with_st Suspended (with_lastv v (with_iter (option_map (fun _ => pc') (iter x)) x)), Ret v)
      | BReturn =>
        (with_st Done (with_lastv VNone (with_iter None x)), Exc EStopStream)
      | BRaise e =>
        if is_stop e then (with_st Done (with_lastv VNone (with_iter None x)), Exc e)
        else (with_st Done
                (if own then with_iter (option_map (fun _ => length (d_script d)) (iter x)) x else x),
              Exc e)
      | BYReset v =>
        (with_lastv v (with_st Init (with_iter None x)), Ret v)
      | BAlways v =>
        (with_lastv v (with_st Done (with_term (Some v) (with_iter None x))), Ret v)
      end in
    let x2 := with_parent None (if own then with_gexec false x1 else x1) in
    (set_cur (parent x) (set_rt r x2 w), o)
  end.

(* Routine.next from "self.parent = main.current_tt" on (stream.py:479-533); x = the record of r *)
Definition next_run (r : nat) (inval : val) (w : world) (x : rt) : world * outcome :=
  match nth_error defs r with
  | None => (w, Exc EBadId)
  | Some d =>
    match cur w with
    | None =>
      (* self.parent = None; main.current_tt = self; self.parent._seconds -> AttributeError,
         raised before the try: nothing is restored *)
      (set_cur (Some (R r)) (set_rt r (with_parent None x) w), Exc EAttribute)
    | Some p =>
      match secs_of p w with
      | None => (w, Exc EBadId)
      | Some ps =>
        let x1 := with_st Running (with_secs ps (with_parent (Some p) x)) in
        let w1 := set_cur (Some (R r)) (set_rt r x1 w) in
        match d_kind d with
        | Gen =>
          if gexec x then
            match iter x with
            | Some _ => finish r d (BRaise EValue) false w1   (* generator already executing *)
            | None => (set_poison w1, Exc EUnmodelled)
            end
          else
            let pc := match iter x with Some pc => pc | None => O end in
            let w2 := set_rt r (with_gexec true (with_iter (Some pc) x1)) w1 in
            (* x = yield v: the body logs what was sent; the value sent into
               "yield from cond.wait()" is consumed by the wait generator *)
            let w2' := match iter x with
                       | Some _ => match nth_error (d_script d) (pred pc) with
                                   | Some (AYield _) => add_log r (EvRecv inval) w2
                                   | Some (ARelay _ _) => add_log r (EvRecv inval) w2
                                   | _ => w2
                                   end
                       | None => if d_hasin d then add_log r (EvArg inval) w2 else w2
                       end in
            let '(w3, b) := exec r Gen (skipn pc (d_script d)) pc w2' in
            finish r d b true w3
        | Fn =>
          let w2 := if d_hasin d then add_log r (EvArg inval) w1 else w1 in
          let '(w3, b) := exec r Fn (d_script d) O w2 in
          finish r d (match b with BReturn => BAlways VNone | _ => b end) true w3
        end
      end
    end
  end.

(* Routine.next (stream.py:468-477, then the re-entry guard of the repaired code) *)
Definition next_step (r : nat) (inval : val) (w : world) : world * outcome :=
  match nth_error (rts w) r with
  | None => (w, Exc EBadId)
  | Some x =>
    match st x with
    | Paused => (w, Exc EPausedStream)
    | Done => (w, match term x with None => Exc EStopStream | Some v => Ret v end)
    | s =>
      if reentry_guard cfg && state_eqb s Running then (w, Exc ERoutine)
      else next_run r inval w x
    end
  end.

End Exec.

(* nested calls consume fuel; running out = RecursionError at that call *)
Fixpoint next_ (fuel : nat) (r : nat) (v : val) (w : world) : world * outcome :=
  match fuel with
  | O => (w, Exc ERecursion)
  | S f => next_step (next_ f) r v w
  end.

Inductive top_op :=
| OCall (c : call)
| OTick.                  (* pop one wake-up of the NRT scheduler and run it (ClockTask._wakeup) *)

Definition top (fuel : nat) (o : top_op) (w : world) : world * outcome :=
  match o with
  | OCall c => do_call (next_ fuel) c w
  | OTick =>
    match queue w with
    | [] => (w, Ret VNone)
    | (t, r) :: q =>
      let w1 := set_main_secs t (set_queue q w) in        (* main._update_logical_time(time) *)
      let '(w2, o) := next_ fuel r VAwake w1 in           (* task.__awake__(clock) *)
      match o with
      | Ret (VInt d) => (set_queue (enqueue (t + d) r (queue w2)) w2, o)
      | Ret (VFloat d) => (set_queue (enqueue (t + d) r (queue w2)) w2, o)   (* not bool: isinstance(delta, bool) excluded *)
      | _ => (w2, o)
      end
    end
  end.

Fixpoint run (fuel : nat) (ops : list top_op) (w : world) : world * list (outcome * world) :=
  match ops with
  | [] => (w, [])
  | o :: rest =>
    let '(w1, out) := top fuel o w in
    let '(w2, outs) := run fuel rest w1 in
    (w2, (out, w1) :: outs)
  end.

End Interp.

Definition init_world (defs : list rdef) (cs : list ckind) : world :=
  mkW (map (fun _ => init_rt) defs) (Some Main) 0 (map (fun k => mkCell k []) cs) [] [] false.

(* ---- canonical encoding (compared with the implementation's observations) -- *)
Definition enc_val (v : val) : list Z :=
  match v with
  | VNone => [0] | VInt z => [1; z] | VStr k => [2; k] | VHang => [3] | VAwake => [4] | VUnbound => [5]
  | VBool b => [6; if b then 1 else 0] | VFloat z => [7; z] | VEmptyStr => [8] | VEmptyList => [9]
  end.
Definition enc_exc (e : exc) : Z :=
  match e with
  | EStopStream => 1 | EPausedStream => 2 | ERoutine => 3 | EValue => 4 | ERuntime => 5 | EUser => 6
  | EAttribute => 7 | ERecursion => 8 | EException => 9 | EBadId => 10 | EUnmodelled => 11 | EBase => 12
  end.
Definition enc_outcome (o : outcome) : list Z :=
  match o with Ret v => 0 :: enc_val v | Exc e => [1; enc_exc e] end.
Definition enc_state (s : state) : Z :=
  match s with Init => 0 | Running => 1 | Suspended => 2 | Paused => 3 | Done => 4 end.
Definition enc_tid (t : option tid) : Z :=
  match t with None => -1 | Some Main => 0 | Some (R i) => Z.of_nat i + 1 end.
Definition enc_rt (x : rt) : list Z :=
  [enc_state (st x); match iter x with None => 0 | Some _ => 1 end; secs x; enc_tid (parent x)] ++ enc_val (lastv x)
  ++ match term x with None => [0] | Some v => 1 :: enc_val v end.
Definition enc_cell (c : cell) : list Z :=
  match ckind_of c with
  | CCond b => [0; if b then 1 else 0]
  | CFlow None => [1; 0]
  | CFlow (Some v) => [1; 1] ++ enc_val v
  | CCondErr b => [0; if b then 3 else 2]
  end ++ [Z.of_nat (length (waiting c))] ++ map Z.of_nat (waiting c).
Definition enc_world (w : world) : list Z :=
  [enc_tid (cur w); main_secs w; if poison w then 1 else 0]
  ++ concat (map enc_rt (rts w))
  ++ [Z.of_nat (length (queue w))] ++ concat (map (fun p => [fst p; Z.of_nat (snd p)]) (queue w))
  ++ concat (map enc_cell (cells w)).
Definition enc_call (c : call) : list Z :=
  match c with
  | CNext r v => [0; Z.of_nat r] ++ enc_val v
  | CStop r => [1; Z.of_nat r] | CPause r => [2; Z.of_nat r] | CResume r => [3; Z.of_nat r]
  | CReset r => [4; Z.of_nat r] | CPlay r => [5; Z.of_nat r]
  | CSignal c => [6; Z.of_nat c] | CUnhang c => [7; Z.of_nat c]
  | CSetTest c b => [8; Z.of_nat c; match b with TBool true => 1 | TBool false => 0 | TErr false => 2 | TErr true => 3 end]
  | CFlowSet c v => [9; Z.of_nat c] ++ enc_val v
  end.
Definition enc_ev (e : nat * ev) : list Z :=
  Z.of_nat (fst e) ::
  match snd e with
  | EvArg v => 0 :: enc_val v
  | EvRecv v => 1 :: enc_val v
  | EvLog v c s t => 2 :: enc_val v ++ [if c then 1 else 0; enc_state s; t]
  | EvCall c o => 3 :: enc_call c ++ enc_outcome o
  | EvFlow v => 4 :: enc_val v
  end.

(* one observation per operation (outcome ++ state of the whole library), then the log, oldest first *)
Definition run_case (cfg : config) (fuel : nat) (defs : list rdef) (cs : list ckind) (ops : list top_op)
  : list (list Z) :=
  let '(w, outs) := run cfg defs fuel ops (init_world defs cs) in
  map (fun p => enc_outcome (fst p) ++ [-9] ++ enc_world (snd p)) outs
  ++ [concat (map (fun e => enc_ev e ++ [-9]) (rev (log w)))].

Fixpoint lz_eqb (a b : list Z) : bool :=
  match a, b with
  | [], [] => true
  | x :: a', y :: b' => Z.eqb x y && lz_eqb a' b'
  | _, _ => false
  end.
Fixpoint llz_eqb (a b : list (list Z)) : bool :=
  match a, b with
  | [], [] => true
  | x :: a', y :: b' => lz_eqb x y && llz_eqb a' b'
  | _, _ => false
  end.
