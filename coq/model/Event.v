(* Event -- executable model of sc3/seq/event.py (EventDict.__call__, PitchKeys, AmplitudeKeys,
   DurationKeys, ServerKeys._get_msg_params, NoteEvent/_MonoOn/_MonoSet/_MonoOff.play, silent,
   is_rest), sc3/seq/scale.py (Scale.__init__, degree_to_key), sc3/seq/eventstream.py
   (EventStreamPlayer loop), sc3/seq/patterns/eventpatterns.py (Pbind, Pmono, Pchain, Ppar) and
   sc3/seq/patterns/filterpatterns.py (Pdelta, Pdur).  Definitions only (proofs: proofs/C14_*.v).

   Conventions (notes/C14.md):
   * an event is the finite map of its EXPLICIT keys (Python dict); numbers are PyNum.num
     (I = int, F = float as an ideal rational, NErr = an exception); Rest(x) is VRest x with
     Operand arithmetic (a Rest operand makes the result a Rest);
   * midicps / cpsmidi / dbamp / ampdb are function parameters (record kern);
   * node ids are symbolic: the k-th event played by a player gets id 2k, the j-th Pmono gets
     2j+1 (the correspondence compares scores up to a renaming by first appearance and checks
     freshness on the implementation's own ids);
   * cfg selects between the code as released (unpatched) and the code with
     build/proposed_fixes/C14_*.diff applied (patched);
   * reserved keys of the model: "type" (the EventType subclass: note/_mono_on/_mono_set) and
     "#evt" (the object is an EventType instance and not a plain dict). *)
From Coq Require Import ZArith QArith Qround Qabs List Bool String Arith.
Require Import SC3.lib.PyNum SC3.gen.Gen_builtins SC3.model.TaskQ.
Import ListNotations.
Open Scope Q_scope.
Open Scope string_scope.
Open Scope list_scope.

Record cfg := mkCfg {
  fix_rest_delta : bool;    (* EventStreamPlayer._play_and_delta returns float(delta)       *)
  fix_pdur_event : bool;    (* Pdur converts the child's output with evt.event(...)          *)
  fix_pdur_int : bool;      (* Pdur stores the remaining time itself unless delta is a Rest  *)
  fix_scale_tuning : bool;  (* Scale.__init__ keeps a Tuning instance (octave ratio, spo)    *)
  fix_scale_key : bool;     (* EventDict.__call__ does not turn a Scale into an arrayed_param *)
  fix_pdelta_input : bool;  (* Pdelta embeds its pattern with the event received after the rest, not the first one *)
  fix_pchain_return : bool; (* Pchain returns the event it was sent, not a half-transformed copy, when a stream ends *)
  fix_ppar_rest : bool;     (* Ppar's filling rest lasts nexttime - now, not that times the input event's stretch again *)
  fix_pdur_pad : bool       (* the same for the rest with which Pdur(quant=...) pads a child that ended early *)
}.
Definition patched := mkCfg true true true true true true true true true.
Definition unpatched := mkCfg false false false false false false false false false.

Record kern := mkK { k_midicps : Q -> Q; k_cpsmidi : Q -> Q; k_dbamp : Q -> Q; k_ampdb : Q -> Q }.

(* ---- scales ------------------------------------------------------------------------------- *)
(* sc_lgoct = log2(tuning.octave_ratio); tuning._spo = log2(octave_ratio) * len(tuning) *)
Record scale := mkScale { sc_degrees : list Z; sc_tuning : list Q; sc_lgoct : Q }.
Definition sc_spo (s : scale) : Q := sc_lgoct s * inject_Z (Z.of_nat (List.length (sc_tuning s))).

(* Scale(degrees, tuning) where tuning = Tuning(steps, octave_ratio):
   released code: "tuning = Tuning(tuning)" rebuilds the tuning with octave_ratio=2.0 *)
Definition scale_new (c : cfg) (degrees : list Z) (steps : list Q) (lgoct : Q) : scale :=
  mkScale degrees steps (if fix_scale_tuning c then lgoct else 1).

Definition et_steps (n : nat) : list Q :=
  map (fun i => inject_Z (Z.of_nat i) * (12 # 1) / inject_Z (Z.of_nat n)) (seq 0 n).
Definition major : scale := mkScale [0; 2; 4; 5; 7; 9; 11]%Z (et_steps 12) 1.

(* ---- values and events -------------------------------------------------------------------- *)
Inductive value :=
| VNum (n : num)
| VRest (n : num)
| VSym (s : string)
| VScale (s : scale)
| VBool (b : bool)
| VNone
| VParams (l : list (string * num))     (* msg_params *)
| VNames (l : list string).             (* mono_params *)

Definition event := list (string * value).

Fixpoint get (k : string) (e : event) : option value :=
  match e with
  | [] => None
  | (k', v) :: r => if String.eqb k k' then Some v else get k r
  end.
Definition has (k : string) (e : event) : bool := match get k e with Some _ => true | None => false end.
Fixpoint del (k : string) (e : event) : event :=
  match e with
  | [] => []
  | (k', v') :: r => if String.eqb k k' then r else (k', v') :: del k r
  end.
Fixpoint put (k : string) (v : value) (e : event) : event :=
  match e with
  | [] => [(k, v)]
  | (k', v') :: r => if String.eqb k k' then (k, v) :: r else (k', v') :: put k v r
  end.
(* dict.update *)
Definition update (e : event) (kvs : event) : event := fold_left (fun acc kv => put (fst kv) (snd kv) acc) kvs e.

(* Python bools are ints: False = 0, True = 1 *)
Definition bnum (b : bool) : num := I (if b then 1 else 0)%Z.
Definition vnum (v : value) : num := match v with VNum n => n | VRest n => n | VBool b => bnum b | _ => NErr end.
Definition unbool (v : value) : value := match v with VBool b => VNum (bnum b) | _ => v end.
Definition vlift2 (f : num -> num -> num) (a b : value) : value :=
  match unbool a, unbool b with
  | VNum x, VNum y => VNum (f x y)
  | VRest x, VNum y => VRest (f x y)
  | VNum x, VRest y => VRest (f x y)
  | VRest x, VRest y => VRest (f x y)
  | _, _ => VNum NErr
  end.
Definition vmul := vlift2 nmul.
Definition vadd := vlift2 nadd.
Definition is_restv (v : value) : bool := match v with VRest _ => true | _ => false end.
Definition truthy (v : value) : bool :=
  match v with
  | VBool b => b
  | VNum n => truth n
  | VRest n => truth n
  | VNone => false
  | VSym s => negb (String.eqb s "")
  | VScale _ => true
  | VParams l => match l with [] => false | _ => true end
  | VNames l => match l with [] => false | _ => true end
  end.

(* an explicit 'scale' key as EventDict.__call__ returns it: the released code wraps every tuple
   (Scale is a tuple subclass) into an arrayed_param, which has none of Scale's attributes *)
Definition scale_key (c : cfg) (s : scale) : value := if fix_scale_key c then VScale s else VSym "arrayed_param".

(* ---- scale.py ----------------------------------------------------------------------------- *)
(* def degree_to_key(self, degree, acc=0):  base_key = (spo * (degree // l)) + self[int(degree) % l] *)
Definition degree_to_key (s : scale) (d : num) : num :=
  let l := I (Z.of_nat (List.length (sc_degrees s))) in
  match nmod (pint d) l with
  | I idx => nadd (nmul (F (sc_spo s)) (nfloordiv d l)) (I (nth (Z.to_nat idx) (sc_degrees s) 0%Z))
  | _ => NErr
  end.

Fixpoint find_gt (key : Q) (l : list Q) (i : nat) : option nat :=
  match l with
  | [] => None
  | x :: r => if Qlt_bool key x then Some i else find_gt key r (S i)
  end.

(* PitchKeys._midinote_to_degree *)
Definition midinote_to_degree (s : scale) (m : num) : num :=
  let t := sc_tuning s in
  let n := List.length t in
  let degree_root := nmul (nsub (nfloordiv m (I 12)) (I 5)) (I (Z.of_nat n)) in
  let key := nmod m (I 12) in
  let fin (index : nat) (a b : Q) :=
    if Qeq_bool (b - a) 0 then F (inject_Z (Z.of_nat index))
    else nadd (nsub (nadd (ntruediv (nsub key (F a)) (F (b - a))) (I (Z.of_nat index))) (I 1)) degree_root in
  match key with
  | NErr => NErr
  | _ =>
    match find_gt (toQ key) t 0 with
    | Some O => F 0
    | Some (S j) => fin (S j) (nth j t 0) (nth (S j) t 0)
    | None => match t with
              | [] => NErr
              | t0 :: _ => fin n (last t 0) (t0 + sc_spo s)
              end
    end
  end.

(* ---- default values (class attributes of the partial events) ------------------------------- *)
Definition legato_default : Q := 3602879701896397 # 4503599627370496.     (* the double 0.8 *)
Definition amp_default : Q := 3602879701896397 # 36028797018963968.      (* the double 0.1 *)
Definition defaults (K : kern) : event :=
  [ ("freq", VNum (F (k_midicps K (60 # 1)))); ("detune", VNum (F 0)); ("harmonic", VNum (F 1));
    ("midinote", VNum (I 60)); ("ctranspose", VNum (F 0));
    ("degree", VNum (I 0)); ("mtranspose", VNum (I 0)); ("gtranspose", VNum (F 0));
    ("octave", VNum (F (5 # 1))); ("root", VNum (F 0)); ("scale", VScale major);
    ("dur", VNum (F 1)); ("legato", VNum (F legato_default)); ("stretch", VNum (F 1));
    ("amp", VNum (F amp_default)); ("db", VNum (I (-20))); ("velocity", VNum (I 12));
    ("pan", VNum (F 0)); ("trig", VNum (F (1 # 2)));
    ("out", VNum (I 0)); ("add_action", VSym "addToHead"); ("instrument", VSym "default");
    ("has_gate", VBool true); ("variant", VNone); ("latency", VNone);
    ("type", VSym "note"); ("is_playing", VBool false) ].

(* explicit value or class default, for keys without a default function *)
Definition plain (K : kern) (e : event) (k : string) : value :=
  match get k e with
  | Some v => v
  | None => match get k (defaults K) with Some v => v | None => VNum NErr end
  end.
Definition pnum K e k : num := vnum (plain K e k).
Definition pscale K e : scale :=
  match plain K e "scale" with VScale s => s | _ => mkScale [] [] 0 end.

(* ---- PitchKeys ------------------------------------------------------------------------------ *)
(* _detuned_freq with 'freq' explicit: self['freq'] * harmonic + detune *)
Definition detuned_of K (e : event) (f : num) : num := nadd (nmul f (pnum K e "harmonic")) (pnum K e "detune").

(* keyfunction degree *)
Definition r_degree K (e : event) : num :=
  match get "freq" e, get "midinote" e with
  | Some f, _ => midinote_to_degree (pscale K e) (F (k_cpsmidi K (toQ (detuned_of K e (vnum f)))))
  | None, Some m => midinote_to_degree (pscale K e) (nadd (vnum m) (pnum K e "ctranspose"))
  | None, None => I 0
  end.
Definition c_degree K e : num := match get "degree" e with Some v => vnum v | None => r_degree K e end.

(* keyfunction note *)
Definition r_note K e : num := degree_to_key (pscale K e) (nadd (c_degree K e) (pnum K e "mtranspose")).

(* the common tail of _midi_from_note / _midinote_from_degree *)
Definition midi_of_key K e (key : num) : num :=
  let s := pscale K e in
  let ret := nadd (nadd key (pnum K e "gtranspose")) (pnum K e "root") in
  let ret := nsub (nadd (ntruediv ret (F (sc_spo s))) (pnum K e "octave")) (F (5 # 1)) in
  nadd (nmul ret (nmul (F (12 # 1)) (F (sc_lgoct s)))) (I 60).
Definition midinote_from_degree K e : num := midi_of_key K e (r_note K e).

(* keyfunction midinote *)
Definition r_midinote K e : num :=
  match get "note" e with
  | Some n => midi_of_key K e (vnum n)
  | None =>
    if has "degree" e then midinote_from_degree K e
    else match get "freq" e with
         | Some f => F (k_cpsmidi K (toQ (detuned_of K e (vnum f))))
         | None => I 60
         end
  end.
Definition c_midinote K e : num := match get "midinote" e with Some v => vnum v | None => r_midinote K e end.
Definition transposed_midinote K e : num := nadd (c_midinote K e) (pnum K e "ctranspose").
Definition midicps_n K (m : num) : num := match m with NErr => NErr | _ => F (k_midicps K (toQ m)) end.

(* keyfunction freq *)
Definition r_freq K e : num :=
  if has "midinote" e || has "note" e then midicps_n K (transposed_midinote K e)
  else if has "degree" e then midicps_n K (midinote_from_degree K e)
  else F (k_midicps K (60 # 1)).
Definition c_freq K e : num := match get "freq" e with Some v => vnum v | None => r_freq K e end.
Definition detuned_freq K e : num := detuned_of K e (c_freq K e).

(* ---- AmplitudeKeys -------------------------------------------------------------------------- *)
Definition amp_from_velocity (v : num) : num := ntruediv v (I 127).
Definition fn1 (f : Q -> Q) (x : num) : num := match x with NErr => NErr | _ => F (f (toQ x)) end.
Definition r_amp K e : num :=
  match get "db" e, get "velocity" e with
  | Some d, _ => fn1 (k_dbamp K) (vnum d)
  | None, Some v => amp_from_velocity (vnum v)
  | None, None => F amp_default
  end.
Definition r_db K e : num :=
  match get "amp" e, get "velocity" e with
  | Some a, _ => fn1 (k_ampdb K) (vnum a)
  | None, Some v => fn1 (k_ampdb K) (amp_from_velocity (vnum v))
  | None, None => I (-20)
  end.
Definition r_velocity K e : num :=
  match get "amp" e, get "db" e with
  | Some a, _ => pint (nmul (I 127) (vnum a))
  | None, Some d => pint (nmul (I 127) (fn1 (k_dbamp K) (vnum d)))
  | None, None => I 12
  end.

(* ---- DurationKeys --------------------------------------------------------------------------- *)
Definition r_delta K e : value := vmul (plain K e "dur") (plain K e "stretch").
Definition r_sustain K e : value := vmul (vmul (plain K e "dur") (plain K e "legato")) (plain K e "stretch").

(* ---- EventDict.__call__ ---------------------------------------------------------------------- *)
Definition ev_call K (e : event) (k : string) : value :=
  match get k e with
  | Some v => v
  | None =>
    if String.eqb k "freq" then VNum (r_freq K e)
    else if String.eqb k "midinote" then VNum (r_midinote K e)
    else if String.eqb k "note" then VNum (r_note K e)
    else if String.eqb k "degree" then VNum (r_degree K e)
    else if String.eqb k "amp" then VNum (r_amp K e)
    else if String.eqb k "db" then VNum (r_db K e)
    else if String.eqb k "velocity" then VNum (r_velocity K e)
    else if String.eqb k "delta" then r_delta K e
    else if String.eqb k "sustain" then r_sustain K e
    else if String.eqb k "send_gate" then plain K e "has_gate"
    else if String.eqb k "group" then VNum (I 1)          (* server.default_group.node_id *)
    else plain K e k
  end.

(* ---- is_rest / silent ------------------------------------------------------------------------ *)
Definition is_rest (e : event) : bool := existsb (fun kv => is_restv (snd kv)) e.

(* silent(dur, inevent): copy; delta = dur * inevent.get('stretch', 1.0); dur = Rest(dur) *)
Definition silent (d : value) (inev : event) : event :=
  let stretch := match get "stretch" inev with Some v => v | None => VNum (F 1) end in
  let e := put "delta" (vmul d stretch) inev in
  put "dur" (match d with VRest _ => d | _ => VRest (vnum d) end) e.

(* evt.event(x): the appropriate EventType instance (the model only marks it) *)
Definition as_event (e : event) : event := put "#evt" (VBool true) e.
Definition is_evt (e : event) : bool := has "#evt" e.

(* ---- server messages ------------------------------------------------------------------------- *)
Inductive msg :=
| MNew (name : string) (node : nat) (action : Z) (group : num) (params : list (string * num))
| MSet (node : nat) (params : list (string * num))
| MFree (node : nat)
| MDelayed (d : Q) (m : msg).            (* only inside cleanup lists: _MonoOffEvent with a 'delay' *)
Definition bundle := (Q * msg)%type.

Record desc := mkDesc { d_controls : list string; d_keep_gate : bool }.
Definition d_has_gate (d : desc) : bool := existsb (String.eqb "gate") (d_controls d).
Definition synthlib := list (string * desc).
Fixpoint lib_at (name : string) (l : synthlib) : option desc :=
  match l with
  | [] => None
  | (n, d) :: r => if String.eqb name n then Some d else lib_at name r
  end.

Fixpoint remove_first (x : string) (l : list string) : list string :=
  match l with
  | [] => []
  | y :: r => if String.eqb x y then r else y :: remove_first x r
  end.

Definition sym_of (v : value) : string := match v with VSym s => s | _ => "" end.

(* msg_params = self('msg_params'); "if not msg_params or self('is_playing')": a non-empty list given by the user (or
   left by an earlier play) is used as it is only while the event has not been played *)
Definition cached_params K (e : event) : option (list (string * num)) :=
  match get "msg_params" e with
  | Some (VParams (p :: l)) => if truthy (plain K e "is_playing") then None else Some (p :: l)
  | _ => None
  end.

(* ServerKeys._get_msg_params: (event after the call, params) *)
Definition get_msg_params K (lib : synthlib) (e : event) : event * list (string * num) :=
  match cached_params K e with
  | Some ps => (e, ps)
  | None =>
  match lib_at (sym_of (ev_call K e "instrument")) lib with
  | None =>
      let ps := [("freq", vnum (ev_call K e "freq")); ("amp", vnum (ev_call K e "amp"));
                 ("pan", vnum (ev_call K e "pan")); ("out", vnum (ev_call K e "out"))] in
      (put "msg_params" (VParams ps) e, ps)
  | Some d =>
      let e1 := put "has_gate" (VBool (d_has_gate d)) e in
      let names := if d_has_gate d && negb (d_keep_gate d) then remove_first "gate" (d_controls d)
                   else d_controls d in
      let ps := flat_map (fun a => if has a e1 then [(a, vnum (ev_call K e1 a))] else []) names in
      (put "msg_params" (VParams ps) e1, ps)
  end
  end.

Definition action_number (v : value) : Z :=
  match v with
  | VNum (I z) => if (0 <=? z)%Z && (z <=? 4)%Z then z else (-1)%Z        (* 0: 0, 1: 1, ... 4: 4 *)
  | VNum (F q) =>                                                          (* 2.0 == 2 as a dict key *)
      let z := Qfloor q in
      if Qeq_bool q (inject_Z z) && (0 <=? z)%Z && (z <=? 4)%Z then z else (-1)%Z
  | VBool b => if b then 1%Z else 0%Z                                      (* True == 1, False == 0 *)
  | _ =>
  let s := sym_of v in
  if String.eqb s "addToHead" || String.eqb s "head" || String.eqb s "h" then 0
  else if String.eqb s "addToTail" || String.eqb s "tail" || String.eqb s "t" then 1
  else if String.eqb s "addBefore" || String.eqb s "before" || String.eqb s "b" then 2
  else if String.eqb s "addAfter" || String.eqb s "after" || String.eqb s "a" then 3
  else if String.eqb s "addReplace" || String.eqb s "replace" || String.eqb s "r" then 4
  else (-1)
  end.

(* OscScore._get_logical_time inside a routine: (0 if time < 0 else time) + send_time *)
Definition stamp (now : Q) (t : Q) : Q := (if Qlt_bool t 0 then 0 else t) + now.

(* NoteEvent.play at logical time now with server latency lat; node = the fresh id *)
Definition play_note K lib (lat now : Q) (node : nat) (e : event) : list bundle :=
  let e1 := put "freq" (VNum (detuned_freq K e)) e in
  let '(e2, ps) := get_msg_params K lib e1 in
  let name := sym_of (ev_call K e2 "instrument") in
  let snew := (stamp now lat, MNew name node (action_number (ev_call K e2 "add_action"))
                                   (vnum (ev_call K e2 "group")) ps) in
  if truthy (ev_call K e2 "send_gate")
  then [snew; (stamp now (lat + toQ (vnum (ev_call K e2 "sustain"))), MSet node [("gate", I 0)])]
  else [snew].

(* the event object after NoteEvent.play: freq, synth_desc/has_gate/msg_params, instrument, server, node_id, group,
   is_playing are written into it *)
Definition play_note_upd K lib (node : nat) (e : event) : event :=
  let e1 := put "freq" (VNum (detuned_freq K e)) e in
  let '(e2, ps) := get_msg_params K lib e1 in
  let e3 := put "instrument" (VSym (sym_of (ev_call K e2 "instrument"))) e2 in
  let e4 := put "node_id" (VNum (I (Z.of_nat node))) e3 in
  let e5 := put "group" (VNum (vnum (ev_call K e4 "group"))) e4 in
  put "is_playing" (VBool true) e5.

(* one event OBJECT used several times from a routine: played, changed, played again, copied (a copy has the same
   keys: nothing to do in the model) *)
Inductive eop := EPlay | ESet (k : string) (v : value) | EDel (k : string) | EWait (t : Q).
Fixpoint run_eops K lib (lat now : Q) (n : nat) (e : event) (ops : list eop) : list bundle :=
  match ops with
  | [] => []
  | EPlay :: r => play_note K lib lat now (2 * n) e ++ run_eops K lib lat now (S n) (play_note_upd K lib (2 * n) e) r
  | ESet k v :: r => run_eops K lib lat now n (put k v e) r
  | EDel k :: r => run_eops K lib lat now n (del k e) r
  | EWait t :: r => run_eops K lib lat (now + t) n e r
  end.

(* _MonoOnEvent._prepare_event(instrument) with node id = node *)
Definition mono_prepare K lib (instr : string) (node : nat) (e : event) : event :=
  let e1 := put "instrument" (VSym instr) e in
  let e2 := put "freq" (VNum (detuned_freq K e1)) e1 in
  let '(e3, ps) := get_msg_params K lib e2 in
  let e4 := put "msg_params" (VParams ps) e3 in
  let e5 := put "has_gate" (ev_call K e4 "has_gate") e4 in
  put "node_id" (VNum (I (Z.of_nat node))) e5.
Definition node_of (e : event) : nat := match get "node_id" e with Some (VNum (I z)) => Z.to_nat z | _ => 0 end.
Definition params_of (e : event) : list (string * num) := match get "msg_params" e with Some (VParams l) => l | _ => [] end.
Definition names_of (e : event) : list string := match get "mono_params" e with Some (VNames l) => l | _ => [] end.

(* _MonoOnEvent.play / _MonoSetEvent.play *)
Definition play_mono_on K (lat now : Q) (e : event) : list bundle :=
  [(stamp now lat, MNew (sym_of (ev_call K e "instrument")) (node_of e)
                        (action_number (ev_call K e "add_action")) (vnum (ev_call K e "group")) (params_of e))].
Definition play_mono_set K (lat now : Q) (e : event) : list bundle :=
  let e1 := put "freq" (VNum (detuned_freq K e)) e in
  [(stamp now lat, MSet (node_of e) (map (fun a => (a, vnum (ev_call K e1 a))) (names_of e)))].
(* _MonoOffEvent.play (delay 0, gate 0) *)
Definition mono_off (node : nat) (has_gate : bool) : msg :=
  if has_gate then MSet node [("gate", I 0)] else MFree node.

Definition type_of K (e : event) : string := sym_of (plain K e "type").
(* outevent.play() for the event types the model knows; k = index of the event in the player's log *)
Definition play_event K lib (lat now : Q) (k : nat) (e : event) : list bundle :=
  let ty := type_of K e in
  if String.eqb ty "_mono_on" then play_mono_on K lat now e
  else if String.eqb ty "_mono_set" then play_mono_set K lat now e
  else play_note K lib lat now (2 * k) e.

(* ---- patterns -------------------------------------------------------------------------------- *)
(* value streams of a Pbind: a finite list (Pseq(list, 1)) or a constant (repeats forever) *)
Inductive vstream := VSeq (l : list value) | VRep (v : value).

Inductive pat :=
| PBind (kvs : list (string * vstream))
| PMono (instr : string) (kvs : list (string * vstream))
| PMonoA (instr : string) (kvs : list (string * vstream))   (* Pmono(instrument, mapping, articulate=True) *)
| PChain (ps : list pat)
| PPar (ps : list pat)
| PDelta (t : value) (p : pat)
| PDur (d : num) (p : pat)
| PDurQ (d tol : num) (quant : option num) (p : pat)      (* Pdur(dur, pattern, tolerance, quant) with non-default arguments *)
| PSeq (ps : list pat) (repeats : nat) (offset : Z)      (* Pseq(list of event patterns, repeats, offset) *)
| PN (p : pat) (repeats : nat).                          (* Pn(pattern, repeats) *)

Inductive st :=
| SBind (kvs : list (string * vstream))
| SMono (instr : string) (kvs : list (string * vstream)) (live : option (event * list string))
| SMonoA (instr : string) (kvs : list (string * vstream)) (live : option (event * list string))
| SChain (ss : list st)                                  (* reversed(self.patterns) *)
| SPar (started : bool) (q : spec) (now : num) (cs : list st)
| SDelta (pending : bool) (t : value) (s : st)
| SDeltaStale (inev0 : event) (s : st)                   (* released code: the rest was yielded, the pattern will be
                                                            embedded with the FIRST input event *)
| SDur (elapsed : num) (d : num) (s : st)
| SDurEnd (s : st)                                       (* after "return (yield inevent)" *)
| SDurQ (elapsed d tol : num) (quant : option num) (s : st)
| SSeq (cur : option st) (rest : list pat)               (* inval = yield from stm.embed(item, inval), item after item *)
| SDone.

Fixpoint init (p : pat) : st :=
  match p with
  | PBind kvs => SBind kvs
  | PMono i kvs => SMono i kvs None
  | PMonoA i kvs => SMonoA i kvs None
  | PChain ps => SChain (rev (map init ps))
  | PPar ps => SPar false spec_init (F 0) (map init ps)
  | PDelta t p => SDelta true t (init p)
  | PDur d p => SDur (F 0) d (init p)
  | PDurQ d tol q p => SDurQ (F 0) d tol q (init p)
  | PSeq ps rep off =>
      let n := Z.of_nat (List.length ps) in
      let o := Z.to_nat (off mod n) in                    (* self.offset % len(lst) *)
      SSeq None (List.concat (List.repeat (skipn o ps ++ firstn o ps) rep))
  | PN p rep => SSeq None (List.repeat p rep)
  end.

(* Pbind._stream_dict_next: one value per key, StopStream at the first exhausted stream *)
Fixpoint dict_next (kvs : list (string * vstream)) : option (event * list (string * vstream)) :=
  match kvs with
  | [] => Some ([], [])
  | (k, VRep v) :: r =>
      match dict_next r with Some (e, r') => Some ((k, v) :: e, (k, VRep v) :: r') | None => None end
  | (k, VSeq []) :: _ => None
  | (k, VSeq (v :: vs)) :: r =>
      match dict_next r with Some (e, r') => Some ((k, v) :: e, (k, VSeq vs) :: r') | None => None end
  end.

Inductive res :=
| RYield (e : event) (s : st) (offs : list msg)
| RStop (offs : list msg) (ret : event)                 (* ret: the value __embed__ returns (the last event sent in) *)
| RError.

(* cleanup entries still registered by the Pmono streams inside an abandoned state *)
Fixpoint pending_offs K (s : st) : list msg :=
  match s with
  | SMono _ _ (Some (e, _)) => [mono_off (node_of e) (truthy (plain K e "has_gate"))]
  | SMonoA _ _ (Some (e, _)) => [mono_off (node_of e) (truthy (plain K e "has_gate"))]
  | SChain ss => flat_map (pending_offs K) ss
  | SPar _ _ _ cs => flat_map (pending_offs K) cs
  | SDelta _ _ s' => pending_offs K s'
  | SDeltaStale _ s' => pending_offs K s'
  | SDur _ _ s' => pending_offs K s'
  | SDurEnd s' => pending_offs K s'
  | SDurQ _ _ _ _ s' => pending_offs K s'
  | SSeq (Some s') _ => pending_offs K s'
  | _ => []
  end.

Fixpoint set_nth {A} (n : nat) (x : A) (l : list A) : list A :=
  match l, n with
  | [], _ => []
  | _ :: r, O => x :: r
  | y :: r, S m => y :: set_nth m x r
  end.

Definition tolerance : num := F (1152921504606847 # 1152921504606846976).   (* the double 0.001 *)

(* the items of a Pseq / Pn one after the other, given how one stream state is pulled (step): when the current item
   ends, the next one is embedded with the value it returned and pulled at once *)
Fixpoint seq_go (step : st -> event -> nat -> res * nat) (cur : st) (rest : list pat) (ev : event) (mc : nat)
                (offs : list msg) : res * nat :=
  match step cur ev mc with
  | (RYield e cur' o, mc') => (RYield e (SSeq (Some cur') rest) (offs ++ o), mc')
  | (RError, mc') => (RError, mc')
  | (RStop o ret, mc') =>
      match rest with
      | [] => (RStop (offs ++ o) ret, mc')
      | p :: rest' => seq_go step (init p) rest' ret mc' (offs ++ o)
      end
  end.

Section Streams.
Variables (c : cfg) (K : kern) (lib : synthlib).

(* PatternEventStream.next / the generator bodies; mc = number of Pmono nodes allocated so far.
   depth bounds the nesting of patterns (structural in spirit). *)
Fixpoint snext (depth : nat) (s : st) (inev : event) (mc : nat) : res * nat :=
  match depth with
  | O => (RError, mc)
  | S dep =>
    match s with
    | SDone => (RStop [] inev, mc)
    | SBind kvs =>
        (* event = inevent.copy(); event.update(self._stream_dict_next(stream_dict)) *)
        match dict_next kvs with
        | None => (RStop [] inev, mc)                          (* except StopStream: pass; return inevent *)
        | Some (upd, kvs') => (RYield (update inev upd) (SBind kvs') [], mc)
        end
    | SMono instr kvs None =>
        match dict_next kvs with
        | None => (RStop [] inev, mc)     (* cleanup.run() with nothing registered *)
        | Some (upd, kvs') =>
            let e0 := put "type" (VSym "_mono_on") (as_event inev) in
            let e1 := mono_prepare K lib instr (2 * mc + 1) (update e0 upd) in
            let names := map fst (params_of e1) in
            (RYield e1 (SMono instr kvs' (Some (e1, names))) [], S mc)
        end
    | SMono instr kvs (Some (on, names)) =>
        match dict_next kvs with
        | None => (RStop [mono_off (node_of on) (truthy (plain K on "has_gate"))] inev, mc)
        | Some (upd, kvs') =>
            let e0 := put "type" (VSym "_mono_set") (as_event inev) in
            let e1 := update e0 upd in
            let e2 := put "node_id" (VNum (I (Z.of_nat (node_of on)))) e1 in
            let e3 := put "mono_params" (VNames names) e2 in
            (RYield e3 (SMono instr kvs' (Some (on, names))) [], mc)
        end
    | SMonoA instr kvs None =>
        (* _embed_mono_artic, no node: the event is prepared as a _mono_on event (a node id is always taken); it stays
           one only if it is held until the next event (sustain >= delta) and is not a rest, otherwise it is re-typed 'note' *)
        match dict_next kvs with
        | None => (RStop [] inev, mc)
        | Some (upd, kvs') =>
            let e0 := put "type" (VSym "_mono_on") (as_event inev) in
            let e1 := mono_prepare K lib instr (2 * mc + 1) (update e0 upd) in
            if nge (vnum (ev_call K e1 "sustain")) (vnum (ev_call K e1 "delta")) && negb (is_rest e1)
            then (RYield e1 (SMonoA instr kvs' (Some (e1, map fst (params_of e1)))) [], S mc)
            else (RYield (put "type" (VSym "note") e1) (SMonoA instr kvs' None) [], S mc)
        end
    | SMonoA instr kvs (Some (on, names)) =>
        match dict_next kvs with
        | None => (RStop [mono_off (node_of on) (truthy (plain K on "has_gate"))] inev, mc)
        | Some (upd, kvs') =>
            let e0 := put "type" (VSym "_mono_set") (as_event inev) in
            let e1 := update e0 upd in
            let e2 := put "node_id" (VNum (I (Z.of_nat (node_of on)))) e1 in
            let e3 := put "mono_params" (VNames names) e2 in
            let off := mono_off (node_of on) (truthy (plain K on "has_gate")) in
            if nlt (vnum (ev_call K e3 "sustain")) (vnum (ev_call K e3 "delta"))
            then (* cleanup_event['delay'] = sustain; cleanup_event.play(): the release is sent now, stamped later *)
                 (RYield e3 (SMonoA instr kvs' None) [MDelayed (toQ (vnum (ev_call K e3 "sustain"))) off], mc)
            else if is_rest e3 then (RYield e3 (SMonoA instr kvs' None) [off], mc)
            else (RYield e3 (SMonoA instr kvs' (Some (on, names))) [], mc)
        end
    | SChain ss =>
        (* for stream in streams: inevent = stream.next(inevent) *)
        (* a stream that ends: "except StopStream: pass; return inevent" -- inevent is then the copy as the streams
           before it have transformed it (released code) *)
        let fix go (ss : list st) (ev : event) (mc : nat) (offs : list msg)
              : option (event * list st * list msg) * (list msg * event) * bool * nat :=
          match ss with
          | [] => (Some (ev, [], offs), ([], ev), false, mc)
          | s1 :: r =>
              match snext dep s1 ev mc with
              | (RYield e' s1' o, mc') =>
                  match go r e' mc' (offs ++ o) with
                  | (Some (ef, r', of), x, err, mc'') => (Some (ef, s1' :: r', of), x, err, mc'')
                  | (None, (x, rt), err, mc'') => (None, (x ++ pending_offs K s1', rt), err, mc'')
                  end
              | (RStop o _, mc') => (None, (offs ++ o ++ flat_map (pending_offs K) r, ev), false, mc')
              | (RError, mc') => (None, ([], ev), true, mc')
              end
          end in
        match go ss inev mc [] with
        | (Some (ef, ss', offs), _, _, mc') => (RYield ef (SChain ss') offs, mc')
        | (None, _, true, mc') => (RError, mc')
        | (None, (offs, rt), false, mc') => (RStop offs (if fix_pchain_return c then inev else rt), mc')
        end
    | SDelta true t s' =>
        (* if self.time > 0.0: yield evt.silent(self.time, inevent) *)
        if ngt (vnum t) (F 0)
        then (RYield (silent t inev) (if fix_pdelta_input c then SDelta false t s' else SDeltaStale inev s') [], mc)
        else match snext dep s' inev mc with
             | (RYield e s'' o, mc') => (RYield e (SDelta false t s'') o, mc')
             | r => r
             end
    | SDeltaStale inev0 s' =>
        (* "yield evt.silent(...)" drops the event sent in: stm.embed(self.pattern, inevent) still sees the first one *)
        match snext dep s' inev0 mc with
        | (RYield e s'' o, mc') => (RYield e (SDelta false VNone s'') o, mc')
        | r => r
        end
    | SDelta false t s' =>
        match snext dep s' inev mc with
        | (RYield e s'' o, mc') => (RYield e (SDelta false t s'') o, mc')
        | r => r
        end
    | SDurEnd s' => (RStop (pending_offs K s') inev, mc)   (* return (yield inevent): the event sent in now *)
    | SDur elapsed d s' =>
        match snext dep s' inev mc with
        | (RStop o _, mc') => (RStop o inev, mc')              (* quant is None; return inevent *)
        | (RError, mc') => (RError, mc')
        | (RYield e0 s'' o, mc') =>
            if negb (fix_pdur_event c) && negb (is_evt e0) then (RError, mc')   (* 'dict' object is not callable *)
            else
            let e := if fix_pdur_event c then as_event e0 else e0 in
            let delta := ev_call K e "delta" in
            let next_elapsed := nadd elapsed (pfloat (vnum delta)) in
            if nge (py_roundup next_elapsed tolerance) d then
              let remaining := nsub d elapsed in
              let dv := match delta with
                        | VRest _ => VRest remaining
                        | VNum (I _) => if fix_pdur_int c then VNum remaining else VNum (pint remaining)
                        | _ => VNum (pfloat remaining)
                        end in
              (RYield (put "delta" dv e) (SDurEnd s'') o, mc')
            else (RYield e (SDur next_elapsed d s'') o, mc')
        end
    | SDurQ elapsed d tol quant s' =>
        (* the same loop with the tolerance given; when the child ends before dur and quant is given:
           delta = bi.roundup(elapsed, quant) - elapsed; if delta > 0: inevent = yield evt.silent(delta, inevent) *)
        match snext dep s' inev mc with
        | (RStop o _, mc') =>
            match quant with
            | None => (RStop o inev, mc')
            | Some q =>
                let delta := nsub (py_roundup elapsed q) elapsed in
                if ngt delta (F 0)
                then let r := silent (VNum delta) inev in
                     (RYield (if fix_pdur_pad c then put "delta" (VNum delta) r else r) (SDurEnd SDone) o, mc')
                else (RStop o inev, mc')
            end
        | (RError, mc') => (RError, mc')
        | (RYield e0 s'' o, mc') =>
            if negb (fix_pdur_event c) && negb (is_evt e0) then (RError, mc')
            else
            let e := if fix_pdur_event c then as_event e0 else e0 in
            let delta := ev_call K e "delta" in
            let next_elapsed := nadd elapsed (pfloat (vnum delta)) in
            if nge (py_roundup next_elapsed tol) d then
              let remaining := nsub d elapsed in
              let dv := match delta with
                        | VRest _ => VRest remaining
                        | VNum (I _) => if fix_pdur_int c then VNum remaining else VNum (pint remaining)
                        | _ => VNum (pfloat remaining)
                        end in
              (RYield (put "delta" dv e) (SDurEnd s'') o, mc')
            else (RYield e (SDurQ next_elapsed d tol quant s'') o, mc')
        end
    | SSeq cur rest =>
        (* Pseq / Pn: for item in ...: inval = yield from stm.embed(item, inval) -- the value an item returns is the
           input event of the next item, which starts inside the same pull *)
        match cur, rest with
        | Some s0, _ => seq_go (snext dep) s0 rest inev mc []
        | None, p :: rest' => seq_go (snext dep) (init p) rest' inev mc []
        | None, [] => (RStop [] inev, mc)
        end
    | SPar started q now cs =>
        (* _init_streams: queue.add(0.0, stream) for every pattern; first event is at time zero *)
        let q0 := if started then q
                  else fold_left (fun acc i => fst (spec_step (OAdd 0 (Z.of_nat i)) acc)) (seq 0 (List.length cs)) q in
        match spec_step OPop q0 with
        | (_, RKeyError) => (RStop [] inev, mc)                (* while not queue.empty(); return inevent *)
        | (q1, RItem _ t) =>
            let i := Z.to_nat t in
            match nth_error cs i with
            | None => (RError, mc)
            | Some ci =>
                match snext dep ci inev mc with
                | (RError, mc') => (RError, mc')
                | (RYield e0 ci' o, mc') =>
                    let e := as_event e0 in
                    (* queue.add(now + float(outevent('delta')), stream) *)
                    let tnext := nadd now (pfloat (vnum (ev_call K e "delta"))) in
                    let q2 := fst (spec_step (OAdd (toQ tnext) t) q1) in
                    match snd (spec_step (OPeek true) q2) with
                    | RItem p _ =>
                        let nexttime := F p in
                        (RYield (put "delta" (VNum (nsub nexttime now)) e)
                                (SPar true q2 nexttime (set_nth i ci' cs)) o, mc')
                    | _ => (RError, mc')
                    end
                | (RStop o _, mc') =>
                    match snd (spec_step (OPeek true) q1) with
                    | RItem p _ =>
                        (* that child stream ended, so rest until next one *)
                        let nexttime := F p in
                        (* released code: Event.silent multiplies nexttime - now by inevent's stretch, although the
                           queue times already are in stretched time *)
                        let r := silent (VNum (nsub nexttime now)) inev in
                        (RYield (if fix_ppar_rest c then put "delta" (VNum (nsub nexttime now)) r else r)
                                (SPar true q1 nexttime (set_nth i SDone cs)) o, mc')
                    | _ => (RStop o inev, mc')                   (* queue.clear(); return inevent *)
                    end
                end
            end
        | _ => (RError, mc)
        end
    end
  end.

(* ---- EventStreamPlayer ----------------------------------------------------------------------- *)
Inductive entry :=
| LEv (t : Q) (e : event)        (* an event pulled at logical time t (played unless it is a rest) *)
| LOff (t : Q) (m : msg).        (* a cleanup message sent at logical time t *)

(* the routine: outevent = stream.next(proto.copy()); outevent = evt.event(outevent);
   yield _play_and_delta(outevent); the clock re-schedules only int/float yields *)
Fixpoint player (fuel depth : nat) (s : st) (proto : event) (mc : nat) (now : Q) : list entry :=
  match fuel with
  | O => []
  | S f =>
    match snext depth s proto mc with
    | (RError, _) => []
    | (RStop offs _, _) => map (LOff now) offs               (* except StopStream: self._cleanup.run() *)
    | (RYield e0 s' offs, mc') =>
        let e := as_event e0 in
        map (LOff now) offs ++ LEv now e ::
        match ev_call K e "delta" with
        | VNum (I z) => player f depth s' proto mc' (now + inject_Z z)
        | VNum (F q) => player f depth s' proto mc' (now + q)
        | VRest n => if fix_rest_delta c
                     then match n with NErr => [] | _ => player f depth s' proto mc' (now + toQ n) end
                     else []                                  (* a Rest object is not int/float *)
        | _ => []
        end
    end
  end.

(* the same loop with a controller acting from another routine: player.stop() at logical time t (the routine is
   Done, EventStreamCleanup.run() releases the Pmono nodes at t, the pending wake-up finds a stopped routine), or
   player.pause() at t1 and player.resume() at t2 (the pending wake-up is dropped, the next pull happens at t2) *)
Inductive ctl := CNone | CStop (t : Q) | CPause (t1 t2 : Q).
Fixpoint player_c (fuel depth : nat) (ct : ctl) (s : st) (proto : event) (mc : nat) (now : Q) : list entry :=
  match fuel with
  | O => []
  | S f =>
    match (match ct with CStop t => if Qle_bool t now then Some t else None | _ => None end) with
    | Some t => map (LOff t) (pending_offs K s)
    | None =>
      let '(now1, ct1) := match ct with
                          | CPause t1 t2 => if Qle_bool t1 now then (t2, CNone) else (now, ct)
                          | _ => (now, ct)
                          end in
      match snext depth s proto mc with
      | (RError, _) => []
      | (RStop offs _, _) => map (LOff now1) offs
      | (RYield e0 s' offs, mc') =>
          let e := as_event e0 in
          map (LOff now1) offs ++ LEv now1 e ::
          match ev_call K e "delta" with
          | VNum (I z) => player_c f depth ct1 s' proto mc' (now1 + inject_Z z)
          | VNum (F q) => player_c f depth ct1 s' proto mc' (now1 + q)
          | VRest n => if fix_rest_delta c
                       then match n with NErr => [] | _ => player_c f depth ct1 s' proto mc' (now1 + toQ n) end
                       else []
          | _ => []
          end
      end
    end
  end.

(* the bundles, in the order they are sent *)
Fixpoint sends_from (lat : Q) (k : nat) (log : list entry) : list bundle :=
  match log with
  | [] => []
  | LOff t (MDelayed d m) :: r => (stamp t (lat + d), m) :: sends_from lat k r
  | LOff t m :: r => (stamp t lat, m) :: sends_from lat k r
  | LEv t e :: r => (if is_rest e then [] else play_event K lib lat t k e) ++ sends_from lat (S k) r
  end.
End Streams.

Definition sends c K lib lat fuel depth p proto start : list bundle :=
  sends_from K lib lat 0 (player c K lib fuel depth (init p) proto 0 start).
Definition sends_c c K lib lat fuel depth ct p proto start : list bundle :=
  sends_from K lib lat 0 (player_c c K lib fuel depth ct (init p) proto 0 start).

(* ---- the score: stable sort by time (OscScore keeps bundles in a TaskQueue) ------------------- *)
Fixpoint insert_b (x : bundle) (l : list bundle) : list bundle :=
  match l with
  | [] => [x]
  | y :: r => if Qlt_bool (fst x) (fst y) then x :: l else y :: insert_b x r
  end.
Definition score_of (l : list bundle) : list bundle := fold_left (fun acc x => insert_b x acc) l [].

(* ---- canonical forms for the correspondence ---------------------------------------------------- *)
(* node ids renamed by first appearance *)
Fixpoint idx_of (x : nat) (l : list nat) (i : nat) : option nat :=
  match l with [] => None | y :: r => if Nat.eqb x y then Some i else idx_of x r (S i) end.
Definition rename (seen : list nat) (n : nat) : nat * list nat :=
  match idx_of n seen 0 with Some i => (i, seen) | None => (List.length seen, seen ++ [n]) end.
Fixpoint canon_score (seen : list nat) (l : list bundle) : list bundle :=
  match l with
  | [] => []
  | (t, MNew nm n a g ps) :: r => let '(i, seen') := rename seen n in (t, MNew nm i a g ps) :: canon_score seen' r
  | (t, MSet n ps) :: r => let '(i, seen') := rename seen n in (t, MSet i ps) :: canon_score seen' r
  | (t, MFree n) :: r => let '(i, seen') := rename seen n in (t, MFree i) :: canon_score seen' r
  | (t, MDelayed d m) :: r => (t, MDelayed d m) :: canon_score seen r
  end.

(* closeness of two numbers: equal kind (int/float/error) and |a-b| <= 2^-40 (1 + |b|) *)
Definition num_tag (n : num) : nat := match n with I _ => 0 | F _ => 1 | NErr => 2 end.
Definition eps : Q := 1 # 1099511627776.
Definition num_close (a b : num) : bool :=
  Nat.eqb (num_tag a) (num_tag b) &&
  match a with NErr => true | _ => Qle_bool (Qabs (toQ a - toQ b)) (eps * (1 + Qabs (toQ b))) end.
(* value compared numerically only (ints and floats are the same on the wire) *)
Definition num_closeq (a b : num) : bool :=
  match a, b with
  | NErr, NErr => true
  | NErr, _ | _, NErr => false
  | _, _ => Qle_bool (Qabs (toQ a - toQ b)) (eps * (1 + Qabs (toQ b)))
  end.
Fixpoint params_close (a b : list (string * num)) : bool :=
  match a, b with
  | [], [] => true
  | (k, x) :: a', (k', y) :: b' => String.eqb k k' && num_closeq x y && params_close a' b'
  | _, _ => false
  end.
Definition msg_close (a b : msg) : bool :=
  match a, b with
  | MNew n i ac g ps, MNew n' i' ac' g' ps' =>
      String.eqb n n' && Nat.eqb i i' && Z.eqb ac ac' && num_closeq g g' && params_close ps ps'
  | MSet i ps, MSet i' ps' => Nat.eqb i i' && params_close ps ps'
  | MFree i, MFree i' => Nat.eqb i i'
  | _, _ => false
  end.
(* times are compared exactly *)
Fixpoint score_close (a b : list bundle) : bool :=
  match a, b with
  | [], [] => true
  | (t, m) :: a', (t', m') :: b' => Qeq_bool t t' && msg_close m m' && score_close a' b'
  | _, _ => false
  end.

(* table-driven kernels for the correspondence: the harness supplies the implementation's own
   midicps/cpsmidi/dbamp/ampdb at the model's exact arguments; a missing point is a mismatch *)
Definition missing : Q := (-(987654321 # 1)).
Fixpoint tbl (t : list (Q * Q)) (x : Q) : Q :=
  match t with [] => missing | (a, b) :: r => if Qeq_bool a x then b else tbl r x end.
Definition kern_of (t1 t2 t3 t4 : list (Q * Q)) : kern := mkK (tbl t1) (tbl t2) (tbl t3) (tbl t4).

Definition value_num_close (v : value) (kind : nat) (x : num) : bool :=
  match v with
  | VNum n => Nat.eqb kind 0 && num_close n x
  | VRest n => Nat.eqb kind 1 && num_closeq n x
  | VBool b => Nat.eqb kind 2 && num_close (bnum b) x
  | VNone => Nat.eqb kind 3
  | _ => false
  end.

(* one key-resolution case: every asked key (name, kind 0 number / 1 Rest, implementation value) *)
Definition keys_ok K (e : event) (l : list (string * nat * num)) : bool :=
  forallb (fun x => value_num_close (ev_call K e (fst (fst x))) (snd (fst x)) (snd x)) l.
(* one pattern case: the model's score, ids renamed by first appearance, against the implementation's *)
Definition pat_ok c K lib lat fuel depth p proto start (impl : list bundle) : bool :=
  score_close (canon_score [] (score_of (sends c K lib lat fuel depth p proto start))) impl.
Definition replay_ok K lib lat start (e : event) (ops : list eop) (impl : list bundle) : bool :=
  score_close (canon_score [] (score_of (run_eops K lib lat start 0 e ops))) impl.
Definition pat_ok_c c K lib lat fuel depth ct p proto start (impl : list bundle) : bool :=
  score_close (canon_score [] (score_of (sends_c c K lib lat fuel depth ct p proto start))) impl.
Definition the_lib : synthlib :=
  [("c14a", mkDesc ["freq"; "amp"; "gate"; "pan"] false);
   ("c14b", mkDesc ["freq"; "amp"; "pan"; "cutoff"] false);
   ("c14c", mkDesc ["out"; "freq"; "sustain"; "gate"; "detune"; "dur"; "legato"] false)].
