(* C11 -- sc3/base/stream.py: Condition and FlowVar as a state machine over waiting
   routines.  Executable definitions only (no proofs).

   A "cell" is either a Condition with a boolean test (stream.py:639-762; callable
   tests are not modelled) or the Condition owned by a FlowVar, whose test is
   "the value is bound" (stream.py:764-822).  Waiting routines are routine indices.
   Scheduling is abstracted as in NRT mode: tt._clock.sched(0, tt) puts a wake-up
   (time, routine) into one time-ordered stable queue that holds at most one pending
   wake-up per routine (clock.py SystemClock.sched, ClockScheduler, ClockTask;
   _taskq.py orders by (time, insertion count)). *)
From Coq Require Import ZArith List Bool.
Import ListNotations.
Open Scope Z_scope.

(* values that cross the routine interface *)
Inductive val :=
| VNone                 (* None *)
| VInt (z : Z)          (* a number (int): re-scheduled by clocks *)
| VStr (k : Z)          (* some other value (the string 'v<k>'): never re-scheduled *)
| VHang                 (* the string 'hang' yielded by Condition.wait *)
| VAwake                (* the tuple (routine, clock) passed by __awake__ *)
| VUnbound              (* FlowVar._UNBOUND *)
| VFloat (z : Z)        (* a float with an integral value (0.0, 1.0, ...): a number, re-scheduled *)
| VBool (b : bool)      (* False / True: NOT a number for the clocks *)
| VEmptyStr             (* '' *)
| VEmptyList.           (* [] *)

Definition val_eqb (a b : val) : bool :=
  match a, b with
  | VNone, VNone | VHang, VHang | VAwake, VAwake | VUnbound, VUnbound => true
  | VInt x, VInt y => Z.eqb x y
  | VStr x, VStr y => Z.eqb x y
  | VFloat x, VFloat y => Z.eqb x y
  | VBool x, VBool y => Bool.eqb x y
  | VEmptyStr, VEmptyStr | VEmptyList, VEmptyList => true
  | _, _ => false
  end.

Inductive ckind :=
| CCond (test : bool)            (* Condition(test): the TRUTH VALUE of the test (any object, or what a callable returns) *)
| CFlow (value : option val)     (* FlowVar: None = _UNBOUND; bound to ANY value (0, None, False, '', [] included) *)
| CCondErr (base : bool).        (* Condition whose test is a callable that raises (base: a BaseException-only class) *)

(* what is assigned to cond.test *)
Inductive tval := TBool (b : bool) | TErr (base : bool).

Record cell := mkCell { ckind_of : ckind; waiting : list nat }.

(* Condition.test *)
Definition cell_test (c : cell) : bool :=
  match ckind_of c with
  | CCond b => b
  | CFlow None => false
  | CFlow (Some _) => true
  | CCondErr _ => false          (* never consulted: the callers look at cell_err first *)
  end.

(* evaluating the test raises *)
Definition cell_err (c : cell) : option bool :=
  match ckind_of c with CCondErr b => Some b | _ => None end.

(* Condition.wait() executed by thread player [who]: the value it yields.
     if not self.test: self._waiting_threads.append(who); yield 'hang'
     else: yield 0 *)
Definition cell_wait (who : nat) (c : cell) : cell * val :=
  if cell_test c then (c, VInt 0)
  else (mkCell (ckind_of c) (waiting c ++ [who]), VHang).

(* Condition.signal(): the routines handed to clock.sched(0, .), in order *)
Definition cell_signal (c : cell) : cell * list nat :=
  if cell_test c then (mkCell (ckind_of c) [], waiting c) else (c, []).

(* Condition.unhang() *)
Definition cell_unhang (c : cell) : cell * list nat :=
  (mkCell (ckind_of c) [], waiting c).

(* cond.test = b (plain Conditions only; on a FlowVar's condition it is not modelled: no change) *)
Definition cell_settest (t : tval) (c : cell) : cell :=
  match ckind_of c with
  | CFlow _ => c
  | _ => mkCell (match t with TBool b => CCond b | TErr e => CCondErr e end) (waiting c)
  end.

(* FlowVar.value = v :  raise Exception('cannot rebind') if bound, else bind and signal.
   Result: None = raised (cell unchanged). *)
Definition cell_flowset (v : val) (c : cell) : option (cell * list nat) :=
  match ckind_of c with
  | CFlow None => Some (cell_signal (mkCell (CFlow (Some v)) (waiting c)))
  | _ => None
  end.

(* what "yield from flowvar.value" returns when the routine goes on *)
Definition cell_value (c : cell) : val :=
  match ckind_of c with
  | CFlow (Some v) => v
  | _ => VUnbound
  end.

(* --- the NRT scheduler queue: stable, time ordered, ONE pending wake-up per routine ----
   clock.py ClockScheduler.add (since "non-real-time scheduler keeps one pending wake-up per
   task and clock"): scheduling a routine that is still queued removes its previous entry; the
   new entry goes behind every entry with a time <= its own (_taskq.py: (time, insertion count)).
   One clock (SystemClock) is modelled, so the key (clock, task) is the routine. *)
Definition qremove (r : nat) (q : list (Z * nat)) : list (Z * nat) :=
  filter (fun p => negb (Nat.eqb (snd p) r)) q.

Fixpoint qinsert (t : Z) (r : nat) (q : list (Z * nat)) : list (Z * nat) :=
  match q with
  | [] => [(t, r)]
  | (t', r') :: rest => if t' <=? t then (t', r') :: qinsert t r rest else (t, r) :: q
  end.

Definition enqueue (t : Z) (r : nat) (q : list (Z * nat)) : list (Z * nat) :=
  qinsert t r (qremove r q).

Fixpoint enqueue_all (t : Z) (rs : list nat) (q : list (Z * nat)) : list (Z * nat) :=
  match rs with
  | [] => q
  | r :: rest => enqueue_all t rest (enqueue t r q)
  end.

(* --- the cell as a labelled machine (used by the trace theorems) -------- *)
Inductive cop :=
| CoWait (who : nat)
| CoSignal
| CoUnhang
| CoSetTest (b : bool)
| CoFlowSet (v : val).

(* one step: new cell, wake-ups emitted (in order), and whether a CoWait hung *)
Definition cstep (o : cop) (c : cell) : cell * list nat :=
  match o with
  | CoWait who => (fst (cell_wait who c), [])
  | CoSignal => cell_signal c
  | CoUnhang => cell_unhang c
  | CoSetTest b => (cell_settest (TBool b) c, [])
  | CoFlowSet v => match cell_flowset v c with Some r => r | None => (c, []) end
  end.

Fixpoint crun (ops : list cop) (c : cell) : cell * list nat :=
  match ops with
  | [] => (c, [])
  | o :: rest =>
    let '(c1, w1) := cstep o c in
    let '(c2, w2) := crun rest c1 in (c2, w1 ++ w2)
  end.

(* number of waits by [r] in [ops] that actually hung, given the starting cell *)
Fixpoint hung_waits (r : nat) (ops : list cop) (c : cell) : nat :=
  match ops with
  | [] => 0
  | o :: rest =>
    let here := match o with
                | CoWait who => if Nat.eqb who r && negb (cell_test c) then 1%nat else 0%nat
                | _ => 0%nat
                end in
    (here + hung_waits r rest (fst (cstep o c)))%nat
  end.
