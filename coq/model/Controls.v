(* C04 -- executable model of how the parameters of a SynthDef graph function become
   controls.  Follows sc3/synth/synthdef.py (_build_ugen_graph, _args_to_controls,
   _get_valid_arg_values, _apply_metadata_specs, _add_ir/_tr/_ar/_kr, _build_controls,
   the variants part of _write_def, __call__) and sc3/synth/ugens/inout.py (ControlName,
   Control / TrigControl / AudioControl / LagControl _init_ugen, LagControl.kr clumps of 16)
   and the helpers of sc3/base/utils.py used there (as_list, flat, wrap_extend, reshape_like).

   Definitions only (no proofs).  Values (defaults, lags) are rationals; the model only
   copies them, the single test made on a value is "lag != 0".

   The record [cfg] selects, for three places where the snapshot of the library violates the
   property, between the code as it is in the snapshot ([false]) and the repaired code
   ([true]); the property theorems are about [fixed]; [snapshot] is used to attribute a
   disagreement with the implementation to a defect and for the refutation examples. *)
From Coq Require Import String List QArith Bool Arith PeanoNat.
Import ListNotations.
Open Scope nat_scope.

(* ---------------------------------------------------------------- inputs *)
Inductive rate := Rir | Rtr | Rar | Rkr.                 (* 'ir' 'tr' 'ar' 'kr' *)
Inductive annot := ARate (r : rate) | ABad.               (* any other annotation object *)
Inductive dflt :=
  | DNone                                                 (* no default, or None *)
  | DInvalid                                              (* e.g. a str: warning, replaced by None *)
  | DScalar (q : Q)
  | DTuple (l : list Q)
  | DNested.                                              (* tuple holding a Container: ValueError *)
Record param := { p_name : string; p_pok : bool;          (* POSITIONAL_OR_KEYWORD? *)
                  p_annot : option annot; p_default : dflt }.
Inductive rspec := RsNone | RsRate (r : rate) | RsLag (q : Q) | RsLags (l : list Q).
Record fsig := { f_params : list param; f_rates : list rspec; f_prepend : nat }.
(* a graph function together with the SynthDef.wrap calls its body makes, in order *)
Inductive ftree := FTree (f : fsig) (wraps : list ftree).

Record cfg := { fix_call : bool; fix_variants : bool; fix_laglist : bool }.
Definition fixed := {| fix_call := true; fix_variants := true; fix_laglist := true |}.
Definition snapshot := {| fix_call := false; fix_variants := false; fix_laglist := false |}.

(* ---------------------------------------------------------------- outputs *)
Inductive lagv := LNum (q : Q) | LList (l : list Q).     (* ControlName.lag *)
Record cname := { cn_name : string; cn_index : nat; cn_rate : rate;
                  cn_default : list Q; cn_scalar : bool;  (* default_value: scalar or list *)
                  cn_lag : lagv; cn_argnum : nat }.
Inductive ucls := UControl | UTrig | UAudio | ULag.
Inductive urate := URscalar | URcontrol | URaudio.
Record cunit := { u_cls : ucls; u_rate : urate; u_special : nat;
                  u_values : list Q; u_lags : list Q }.   (* outputs = length u_values *)
Definition proxy := (nat * nat)%type.                     (* creation index of the unit, output *)
Record recv := { r_name : string; r_scalar : bool; r_chans : list proxy }.
Record bstate := { st_controls : list Q; st_cindex : nat; st_all : list cname;
                   st_units : list cunit; st_callable : list string;
                   st_recv : list (list recv) }.          (* one entry per function, build order *)
Definition st0 := {| st_controls := []; st_cindex := 0; st_all := []; st_units := [];
                     st_callable := []; st_recv := [] |}.
Inductive err := EKind | ERank | EAnnot | EPrepend | ENoOutputs | ELagLen.
Inductive result (A : Type) := Ok (a : A) | Err (e : err).
Arguments Ok {A} a. Arguments Err {A} e.

(* ---------------------------------------------------------------- helpers *)
Definition rate_eqb (a b : rate) : bool :=
  match a, b with Rir, Rir | Rtr, Rtr | Rar, Rar | Rkr, Rkr => true | _, _ => false end.
Definition qnz (q : Q) : bool := negb (Qeq_bool q 0).
Definition dlen (c : cname) : nat := length (cn_default c).
Definition set_index (c : cname) (i : nat) : cname :=
  {| cn_name := cn_name c; cn_index := i; cn_rate := cn_rate c; cn_default := cn_default c;
     cn_scalar := cn_scalar c; cn_lag := cn_lag c; cn_argnum := cn_argnum c |}.

(* utils.wrap_extend: lst * (n // l) + lst[:n % l] *)
Definition wrap_extend {A} (l : list A) (n : nat) : list A :=
  match l with
  | [] => []
  | _ => concat (repeat l (n / length l)) ++ firstn (n mod length l) l
  end.

(* [l[i:i+n] for i in range(0, len(l), n)] *)
Fixpoint clump_f {A} (fuel n : nat) (l : list A) : list (list A) :=
  match fuel with
  | 0 => []
  | S f => match l with [] => [] | _ => firstn n l :: clump_f f n (skipn n l) end
  end.
Definition clump {A} (n : nat) (l : list A) := clump_f (length l) n l.

(* ---------------------------------------------------------------- _args_to_controls *)
Definition lookup_spec (specs : list (string * Q)) (n : string) : option Q :=
  match find (fun kv => String.eqb (fst kv) n) specs with Some kv => Some (snd kv) | None => None end.

(* _get_valid_arg_values + _apply_metadata_specs: (default values, is-scalar) *)
Definition arg_value (specs : list (string * Q)) (p : param) : list Q * bool :=
  match p_default p with
  | DScalar q => ([q], true)
  | DTuple l => (l, false)
  | DNested => ([], false)      (* never reached: ERank is raised first *)
  | DNone | DInvalid =>
      match lookup_spec specs (p_name p) with Some q => ([q], true) | None => ([0%Q], true) end
  end.

(* rates += [0] * (len(names) - len(rates)); None -> 0.0 *)
Definition rate_at (rs : list rspec) (i : nat) : rspec :=
  match nth i rs RsNone with RsNone => RsLag 0 | r => r end.

Definition lag_or_zero (r : rspec) : lagv :=           (* ControlName: lag or 0.0 *)
  match r with
  | RsLag q => if qnz q then LNum q else LNum 0
  | RsLags [] => LNum 0
  | RsLags l => LList l
  | _ => LNum 0                                         (* 'kr' -> 0.0 *)
  end.

(* the if / elif chain of lines 277-287 *)
Definition classify (a : option annot) (r : rspec) : rate * lagv :=
  match r with
  | RsRate Rir => (Rir, LNum 0)
  | RsRate Rtr => (Rtr, LNum 0)
  | RsRate Rar => (Rar, LNum 0)
  | RsRate Rkr => (Rkr, LNum 0)
  | _ => match a with
         | Some (ARate Rir) => (Rir, LNum 0)
         | Some (ARate Rtr) => (Rtr, LNum 0)
         | Some (ARate Rar) => (Rar, LNum 0)
         | _ => (Rkr, lag_or_zero r)
         end
  end.

Definition annot_ok (a : option annot) : bool := match a with Some ABad => false | _ => true end.
Definition rank_ok (p : param) : bool := match p_default p with DNested => false | _ => true end.

Fixpoint mk_cnames (specs : list (string * Q)) (rs : list rspec) (provisional i : nat)
         (ps : list param) : list cname :=
  match ps with
  | [] => []
  | p :: rest =>
      let '(vals, sc) := arg_value specs p in
      let '(r, lg) := classify (p_annot p) (rate_at rs i) in
      {| cn_name := p_name p; cn_index := provisional; cn_rate := r; cn_default := vals;
         cn_scalar := sc; cn_lag := lg; cn_argnum := i |} :: mk_cnames specs rs provisional (S i) rest
  end.

Definition args_to_controls (specs : list (string * Q)) (st : bstate) (f : fsig) : result (list cname) :=
  let ps := f_params f in
  match ps with
  | [] => Ok []
  | _ =>
    if negb (forallb p_pok ps) then Err EKind else
    let ps' := skipn (f_prepend f) ps in
    if negb (forallb rank_ok ps') then Err ERank else
    if negb (forallb (fun p => annot_ok (p_annot p)) ps') then Err EAnnot else
    Ok (mk_cnames specs (f_rates f) (length (st_controls st)) 0 ps')
  end.

(* ---------------------------------------------------------------- control units *)
Definition add_unit (st : bstate) (c : ucls) (r : urate) (vals lags : list Q) : bstate :=
  {| st_controls := st_controls st ++ vals; st_cindex := st_cindex st + length vals;
     st_all := st_all st;
     st_units := st_units st ++ [{| u_cls := c; u_rate := r; u_special := length (st_controls st);
                                    u_values := vals; u_lags := lags |}];
     st_callable := st_callable st; st_recv := st_recv st |}.
Definition proxies_of (uidx n : nat) : list proxy := map (fun k => (uidx, k)) (seq 0 n).

Definition placed := (cname * list proxy)%type.

(* "for i, cn in enumerate(group): cn.index = index; index += len(...);
    arguments[cn.arg_num] = ctrl_ugens[i]"  -- the ControlName objects are shared with
   _control_names / _all_control_names and are updated in place; here: walk the declared
   list and update the entries of rate r, which consume the group's output proxies in order
   (reshape_like(ctrl_ugens, values) = consecutive runs of len(default) proxies). *)
Fixpoint scatter (r : rate) (idx : nat) (prox : list proxy) (cns : list placed) : list placed :=
  match cns with
  | [] => []
  | (c, p) :: rest =>
      if rate_eqb (cn_rate c) r
      then (set_index c idx, firstn (dlen c) prox)
             :: scatter r (idx + dlen c) (skipn (dlen c) prox) rest
      else (c, p) :: scatter r idx prox rest
  end.

Definition group_of (r : rate) (cns : list placed) : list cname :=
  filter (fun c => rate_eqb (cn_rate c) r) (map fst cns).
Definition group_vals (g : list cname) : list Q := flat_map cn_default g.   (* utl.flat(values) *)

(* build_ita_controls *)
Definition build_ita (r : rate) (c : ucls) (ur : urate) (acc : result (bstate * list placed))
  : result (bstate * list placed) :=
  match acc with
  | Err e => Err e
  | Ok (st, cns) =>
      match group_of r cns with
      | [] => Ok (st, cns)
      | g =>
          let vals := group_vals g in
          match vals with
          | [] => Err ENoOutputs                      (* _init_outputs(0): Exception *)
          | _ => let st' := add_unit st c ur vals [] in
                 Ok (st', scatter r (st_cindex st) (proxies_of (length (st_units st)) (length vals)) cns)
          end
      end
  end.

(* kr group: the lags list *)
Inductive lagitem := LI (q : Q) | LL (l : list Q).
Definition lag_as_list (l : lagv) : list Q := match l with LNum q => [q] | LList x => x end.
Definition cn_lagitems (cf : cfg) (c : cname) : list lagitem :=
  if (1 <? dlen c) || fix_laglist cf
  then map LI (wrap_extend (lag_as_list (cn_lag c)) (dlen c))
  else [match cn_lag c with LNum q => LI q | LList l => LL l end].
Definition item_nz (i : lagitem) : bool := match i with LI q => qnz q | LL _ => true end.

(* UGen._multi_new on one clump: a list among the arguments expands *)
Definition mce_len (lags : list lagitem) : nat :=
  fold_right (fun it m => match it with LI _ => m | LL l => Nat.max (length l) m end) 0 lags.
Definition pick (k : nat) (it : lagitem) : Q :=
  match it with LI q => q | LL l => nth (k mod length l) l 0%Q end.

Definition lag_clump (acc : bstate * list proxy) (vl : list Q * list lagitem) : bstate * list proxy :=
  let '(vals, lags) := vl in
  let one := fun (a : bstate * list proxy) (k : nat) =>
    let '(st, px) := a in
    (add_unit st ULag URcontrol vals (map (pick k) lags),
     px ++ proxies_of (length (st_units st)) (length vals)) in
  match mce_len lags with
  | 0 => one acc 0
  | m => fold_left one (seq 0 m) acc
  end.

Definition build_kr (cf : cfg) (acc : result (bstate * list placed)) : result (bstate * list placed) :=
  match acc with
  | Err e => Err e
  | Ok (st, cns) =>
      match group_of Rkr cns with
      | [] => Ok (st, cns)
      | g =>
          let vals := group_vals g in
          let lags := flat_map (cn_lagitems cf) g in
          if existsb item_nz lags then
            if negb (length vals =? length lags) then Err ELagLen   (* LagControl.kr returns None *)
            else
              let '(st', px) := fold_left lag_clump (combine (clump 16 vals) (clump 16 lags)) (st, []) in
              Ok (st', scatter Rkr (st_cindex st) px cns)
          else
            match vals with
            | [] => Err ENoOutputs
            | _ => let st' := add_unit st UControl URcontrol vals [] in
                   Ok (st', scatter Rkr (st_cindex st) (proxies_of (length (st_units st)) (length vals)) cns)
            end
      end
  end.

Definition build_controls (cf : cfg) (st : bstate) (cns : list cname) : result (bstate * list placed) :=
  build_kr cf
    (build_ita Rar UAudio URaudio
      (build_ita Rtr UTrig URcontrol
        (build_ita Rir UControl URscalar (Ok (st, map (fun c => (c, [])) cns))))).

Definition recv_of (p : placed) : recv :=
  {| r_name := cn_name (fst p); r_scalar := cn_scalar (fst p); r_chans := snd p |}.

(* _build_ugen_graph for one function (the body's own UGens are not modelled) *)
Definition build_one (cf : cfg) (specs : list (string * Q)) (acc : result bstate) (f : fsig) : result bstate :=
  match acc with
  | Err e => Err e
  | Ok st =>
    match args_to_controls specs st f with
    | Err e => Err e
    | Ok cns =>
      match build_controls cf st cns with
      | Err e => Err e
      | Ok (st', pl) =>
          if length (f_params f) <? f_prepend f then Err EPrepend   (* func called with too many positionals: TypeError *)
          else Ok {| st_controls := st_controls st'; st_cindex := st_cindex st';
                     st_all := st_all st' ++ map fst pl; st_units := st_units st';
                     st_callable := if fix_call cf then st_callable st'
                                    else map p_name (f_params f);   (* line 224 *)
                     st_recv := st_recv st' ++ [map recv_of pl] |}
      end
    end
  end.

Fixpoint preorder (t : ftree) : list fsig :=
  match t with FTree f ws => f :: flat_map preorder ws end.

Definition outer_names (fs : list fsig) : list string :=
  match fs with [] => [] | f :: _ => map p_name (skipn (f_prepend f) (f_params f)) end.

Definition build_list (cf : cfg) (specs : list (string * Q)) (fs : list fsig) : result bstate :=
  fold_left (build_one cf specs) fs
    (Ok {| st_controls := []; st_cindex := 0; st_all := []; st_units := [];
           st_callable := if fix_call cf then outer_names fs else []; st_recv := [] |}).

Definition build_def (cf : cfg) (specs : list (string * Q)) (t : ftree) : result bstate :=
  build_list cf specs (preorder t).

(* ---------------------------------------------------------------- __call__ *)
Definition call_map (callable : list string) (args : list Q) (kwargs : list (string * Q))
  : list (string * Q) := combine callable args ++ kwargs.

(* ---------------------------------------------------------------- variants (_write_def) *)
Record vres := { v_count : nat;                          (* the i16 written before the loop *)
                 v_written : list (string * list Q);     (* (full name, control array) written *)
                 v_raised : bool }.
Definition lookup_cn (all : list cname) (n : string) : option cname :=   (* allcns_map: last wins *)
  find (fun c => String.eqb (cn_name c) n) (rev all).
Definition set_range (arr : list Q) (i : nat) (vals : list Q) : list Q :=
  firstn i arr ++ vals ++ skipn (i + length vals) arr.

Fixpoint apply_pairs (all : list cname) (arr : list Q) (pairs : list (string * list Q)) : option (list Q) :=
  match pairs with
  | [] => Some arr
  | (n, vals) :: rest =>
      match lookup_cn all n with
      | None => None
      | Some c => if dlen c <? length vals then None
                  else apply_pairs all (set_range arr (cn_index c) vals) rest
      end
  end.

Definition variant_one (defname : string) (st : bstate) (v : string * list (string * list Q))
  : option (string * list Q) :=
  let full := (defname ++ "." ++ fst v)%string in
  if 32 <? String.length full then None
  else match apply_pairs (st_all st) (st_controls st) (snd v) with
       | None => None | Some arr => Some (full, arr) end.

Fixpoint variants_loop (defname : string) (st : bstate) (vs : list (string * list (string * list Q)))
  : list (string * list Q) * bool (* completed *) :=
  match vs with
  | [] => ([], true)
  | v :: rest =>
      match variant_one defname st v with
      | None => ([], false)
      | Some w => let '(ws, ok) := variants_loop defname st rest in (w :: ws, ok)
      end
  end.

Definition variants_layout (cf : cfg) (defname : string) (st : bstate)
           (vs : list (string * list (string * list Q))) : vres :=
  let '(ws, ok) := variants_loop defname st vs in
  if ok then {| v_count := length vs; v_written := ws; v_raised := false |}
  else if fix_variants cf
       then {| v_count := length ws; v_written := ws; v_raised := false |}   (* repaired: validate first, count what is written *)
       else {| v_count := length vs; v_written := ws; v_raised := false |}.  (* snapshot: count written before the early return *)

(* ---------------------------------------------------------------- boolean equalities
   (used by the correspondence to compare with the implementation's output) *)
Definition lagv_eqb (a b : lagv) : bool :=
  match a, b with
  | LNum x, LNum y => Qeq_bool x y
  | LList x, LList y => (length x =? length y) && forallb (fun p => Qeq_bool (fst p) (snd p)) (combine x y)
  | _, _ => false
  end.
Definition ql_eqb (x y : list Q) : bool :=
  (length x =? length y) && forallb (fun p => Qeq_bool (fst p) (snd p)) (combine x y).
Definition list_eqb {A} (e : A -> A -> bool) (x y : list A) : bool :=
  (length x =? length y) && forallb (fun p => e (fst p) (snd p)) (combine x y).
Definition cname_eqb (a b : cname) : bool :=
  String.eqb (cn_name a) (cn_name b) && (cn_index a =? cn_index b) && rate_eqb (cn_rate a) (cn_rate b)
  && ql_eqb (cn_default a) (cn_default b) && Bool.eqb (cn_scalar a) (cn_scalar b)
  && lagv_eqb (cn_lag a) (cn_lag b) && (cn_argnum a =? cn_argnum b).
Definition ucls_eqb (a b : ucls) : bool :=
  match a, b with UControl, UControl | UTrig, UTrig | UAudio, UAudio | ULag, ULag => true | _, _ => false end.
Definition urate_eqb (a b : urate) : bool :=
  match a, b with URscalar, URscalar | URcontrol, URcontrol | URaudio, URaudio => true | _, _ => false end.
Definition cunit_eqb (a b : cunit) : bool :=
  ucls_eqb (u_cls a) (u_cls b) && urate_eqb (u_rate a) (u_rate b) && (u_special a =? u_special b)
  && ql_eqb (u_values a) (u_values b) && ql_eqb (u_lags a) (u_lags b).
Definition proxy_eqb (a b : proxy) : bool := (fst a =? fst b) && (snd a =? snd b).
Definition recv_eqb (a b : recv) : bool :=
  String.eqb (r_name a) (r_name b) && Bool.eqb (r_scalar a) (r_scalar b)
  && list_eqb proxy_eqb (r_chans a) (r_chans b).
Definition err_code (e : err) : nat :=
  match e with EKind => 1 | ERank => 2 | EAnnot => 3 | EPrepend => 4 | ENoOutputs => 5 | ELagLen => 6 end.

(* what the harness extracts from a real SynthDef *)
Record observed := { o_err : nat;                        (* 0 = built *)
                     o_all : list cname; o_controls : list Q; o_units : list cunit;
                     o_recv : list (list recv); o_callable : list string }.
Definition obs_eqb (r : result bstate) (o : observed) : bool :=
  match r with
  | Err e => err_code e =? o_err o
  | Ok st => (o_err o =? 0) && list_eqb cname_eqb (st_all st) (o_all o)
             && ql_eqb (st_controls st) (o_controls o) && (st_cindex st =? length (o_controls o))
             && list_eqb cunit_eqb (st_units st) (o_units o)
             && list_eqb (list_eqb recv_eqb) (st_recv st) (o_recv o)
             (* o_callable (the private _callable_args) is recorded but not compared: the
                observable behaviour is the message produced by __call__, compared below *)
  end.
Definition pairs_eqb (x y : list (string * Q)) : bool :=
  list_eqb (fun a b => String.eqb (fst a) (fst b) && Qeq_bool (snd a) (snd b)) x y.
Definition vres_eqb (a b : vres) : bool :=
  (v_count a =? v_count b) && Bool.eqb (v_raised a) (v_raised b)
  && list_eqb (fun x y => String.eqb (fst x) (fst y) && ql_eqb (snd x) (snd y)) (v_written a) (v_written b).

(* ---------------------------------------------------------------- one correspondence case *)
Definition vspec := list (string * list (string * list Q)).
Definition ccase := (ftree * list (string * Q) * observed * string * vspec * vres
                     * list (list Q * list (string * Q) * list (string * Q)))%type.
Definition check_case (cf : cfg) (c : ccase) : bool :=
  let '(t, specs, o, dn, vs, ov, calls) := c in
  let r := build_def cf specs t in
  obs_eqb r o &&
  match r with
  | Err _ => true
  | Ok st => vres_eqb (variants_layout cf dn st vs) ov
             && forallb (fun x => let '(a, k, op) := x in pairs_eqb (call_map (st_callable st) a k) op) calls
  end.
Definition mkcfg (a b c : bool) := {| fix_call := a; fix_variants := b; fix_laglist := c |}.
(* 0 = the repaired code explains the observation; 1..7 = which snapshot defects are needed
   (bit 0: __call__ names, bit 1: invalid variants, bit 2: lag list on a one-slot control); 8 = none *)
Definition cfgs := [mkcfg true true true; mkcfg false true true; mkcfg true false true; mkcfg false false true;
                    mkcfg true true false; mkcfg false true false; mkcfg true false false; mkcfg false false false].
Fixpoint first_ok (c : ccase) (l : list cfg) (i : nat) : nat :=
  match l with [] => i | cf :: r => if check_case cf c then i else first_ok c r (S i) end.
Definition attribute (c : ccase) : nat := first_ok c cfgs 0.

(* ---------------------------------------------------------------- metadata specs as objects
   (sc3/synth/spec.py ControlSpec.__init__: self._default = minval if default is None else default;
   no clamping, whatever the order of minval/maxval, the warp or the step).  _apply_metadata_specs
   reads specs[name].default, so the layout model is given [specs_of] of the declared specs. *)
Record cspec := { cs_min : Q; cs_max : Q; cs_default : option Q }.
Definition cspec_default (s : cspec) : Q :=
  match cs_default s with Some d => d | None => cs_min s end.
Definition specs_of (l : list (string * cspec)) : list (string * Q) :=
  map (fun kv => (fst kv, cspec_default (snd kv))) l.
