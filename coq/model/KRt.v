(* KRt -- real-time semantics of script programs as a transition system driven by an ORACLE.
   Follows SystemClock._run / TempoClock._run / sched / sched_abs (RT branches) of sc3/base/clock.py,
   RtMain._update_logical_time and _MainTimeThread._seconds (main.py, stream.py) and
   OscInterface.send_msg/send_bundle/_get_timetag (_oscinterface.py).
   Every task runs with the main RLock held, so an execution is an interleaving of ATOMIC steps; the
   oracle chooses which step happens next and what the physical clock reads (a sequence of Q, made
   non-decreasing by the model).  Wake-up jitter is arbitrary: a task can be woken at any physical
   time at or after its scheduled time (rs_early records a wake-up before it); its logical time is
   the scheduled time, whatever the physical time is.   Definitions only. *)
From Coq Require Import ZArith QArith Qround List Bool.
Require Import SC3.model.KProg SC3.model.KNrt.
Import ListNotations.
Open Scope Q_scope.

(* In the shared state (KNrt.nstate) the queue holds the tasks of all clocks: e_time is the key of
   the task in ITS clock's queue (seconds on SystemClock, beats on a TempoClock), e_cnt the insertion
   count; the queue of clock c is the sub-list of c's entries.  n_mtime is main_tt._m_seconds. *)

Inductive choice :=
| ChClock (now : Q)                  (* the next TempoClock(tempo) is created; the clock reads now *)
| ChTop (now : Q)                    (* the next action outside routines runs; main_tt reads now *)
| ChWake (rid : nat) (now : Q).      (* the clock thread of routine rid's task wakes it; it read now *)

Record rtstate := mkRS {
  rs : nstate;
  rs_tempos : list Q;      (* clocks still to create *)
  rs_main : list act;      (* actions outside routines still to run *)
  rs_now : Q;              (* last physical time read *)
  rs_early : bool;         (* some task was woken before its time *)
  rs_bad : bool            (* the oracle asked for a step that is not enabled *)
}.

Definition rt_init (p : prog) : rtstate :=
  mkRS (mkN [] 0 [] [] 0 [] 0 [] false) (p_tempos p) (p_main p) 0 false false.

Definition advance (now t : Q) : Q := Qmaxq now t.

(* a task is eligible when the clock's reading has reached its key *)
Definition eligible (tcs : list tclock) (now : Q) (e : entry) : bool :=
  match e_clock e with
  | CTempo _ => Qle_bool (e_time e) (s2b tcs (e_clock e) now)    (* elapsed_beats >= beats *)
  | _ => Qle_bool (e_time e) now                                 (* now >= sched_secs *)
  end.

(* the clock pops the head of its own queue *)
Fixpoint pop_clock (c : clockid) (q : list entry) : option (entry * list entry) :=
  match q with
  | [] => None
  | e :: r => if is_clock c e then Some (e, r)
              else match pop_clock c r with Some (x, r') => Some (x, e :: r') | None => None end
  end.
Fixpoint find_rid (rid : nat) (q : list entry) : option entry :=
  match q with
  | [] => None
  | e :: r => if Nat.eqb (e_rid e) rid then Some e else find_rid rid r
  end.

(* one wake-up: SystemClock._run / TempoClock._run, "perform all events that are ready" body *)
Definition rt_wake (off : Z) (p : prog) (st : nstate) (e : entry) : nstate :=
  let key := e_time e in
  let c := e_clock e in
  let rid := e_rid e in
  let T := Qred (b2s (n_tcs st) c key) in          (* _update_logical_time(beats2secs(self._beats)) *)
  match nth_error (n_routs st) rid with
  | None => st
  | Some r =>
      let st0 := set_mtime st T in
      let k := r_k r in
      let beats := Qred (s2b (n_tcs st0) c T) in   (* what clock.beats reads inside the routine *)
      let st1 := add_log st0 (EvResume rid k c T beats) in
      let '(st2, oc) := run_acts (Some off) repaired p st1 (Some (rid, k)) T c (r_rest r) in
      match oc with
      | OYield d rest =>
          let nk := key + d in                     (* time = sched_time + delta / self._beats + delta *)
          let st3 := set_routs st2 (set_nth (n_routs st2) rid (mkR (r_def r) rest c (S k))) in
          push st3 nk c rid nk
      | ODone => add_log (set_routs st2 (set_nth (n_routs st2) rid (mkR (r_def r) [] c (S k)))) (EvEnd rid k false)
      | ORaise => add_log (set_routs st2 (set_nth (n_routs st2) rid (mkR (r_def r) [] c (S k)))) (EvEnd rid k true)
      end
  end.

Definition set_rs (s : rtstate) (st : nstate) := mkRS st (rs_tempos s) (rs_main s) (rs_now s) (rs_early s) (rs_bad s).
Definition mark_bad (s : rtstate) := mkRS (rs s) (rs_tempos s) (rs_main s) (rs_now s) (rs_early s) true.

Definition rt_step (off : Z) (p : prog) (s : rtstate) (ch : choice) : rtstate :=
  match ch with
  | ChClock t =>
      let now := advance (rs_now s) t in
      match rs_tempos s with
      | [] => mark_bad s
      | tempo :: rest =>
          mkRS (set_mtime (set_tcs (rs s) (n_tcs (rs s) ++ [tc_new tempo now])) now) rest (rs_main s) now
               (rs_early s) (rs_bad s)
      end
  | ChTop t =>
      let now := advance (rs_now s) t in
      match rs_tempos s, rs_main s with
      | [], a :: rest =>
          let st0 := set_mtime (rs s) now in        (* _MainTimeThread._seconds reads the physical clock *)
          let st1 := fst (run_acts (Some off) repaired p st0 None now CSystem [a]) in
          mkRS st1 [] rest now (rs_early s) (rs_bad s)
      | _, _ => mark_bad s
      end
  | ChWake rid t =>
      let now := advance (rs_now s) t in
      match find_rid rid (n_q (rs s)) with
      | None => mark_bad s
      | Some e0 =>
          match pop_clock (e_clock e0) (n_q (rs s)) with
          | None => mark_bad s
          | Some (e, rest) =>
              if Nat.eqb (e_rid e) rid then
                let early := negb (eligible (n_tcs (rs s)) now e) in
                mkRS (rt_wake off p (set_q (rs s) rest) e) (rs_tempos s) (rs_main s) now
                     (rs_early s || early) (rs_bad s)
              else mark_bad s       (* rid's task is not at the head of its clock's queue *)
          end
      end
  end.

Definition rt_run (off : Z) (p : prog) (sched : list choice) : rtstate :=
  fold_left (rt_step off p) sched (rt_init p).

