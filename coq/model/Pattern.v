(* C13 -- value patterns of sc3.seq: executable model (definitions only, no proofs).

   Two semantics of one inductive [pat]:
   * OPERATIONAL: a pull iterator.  [sstate] has one constructor per program point of
     each class's __embed__ generator frame (sub-stream cursors, counters, pending
     values); [snext] performs ONE small step: Stop (StopStream / generator return),
     Err (any other Python exception: it aborts the whole stream), Tau (an internal
     step without output, e.g. a value pulled from a sub-stream and stored in the
     frame), Yield v.  "yield from embed(x)" = the frame holds the inner iterator and
     forwards its steps; "stream.next()" = the frame steps the sub-stream until it
     yields; StopStream of a sub-stream goes to the enclosing except clause.
   * DENOTATIONAL: [den k m p] composes list functions (concatenation, firstn, skipn,
     repetition, zip-shortest, running sums, grouping).  A trace is a list of values
     plus an ending: EStop (complete), EErr (an exception after these values) or EMore
     ("at least these values": used for infinite repeats, constant streams and when
     the budget [k] is exhausted).

   Two ways a sub-pattern is consumed (sc3.base.stream): [Emb] = stm.embed(x) -- a plain
   value is yielded ONCE; [Str] = stm.stream(x) -- a plain value is an infinite constant
   stream.  Pattern objects behave identically in both modes.

   Random patterns: only Pseed-wrapped Prand / Pxrand / Pwhite(int bounds).  Pseed runs its body
   in a fresh Routine whose generator is random.Random(seed); the model takes the draws from an
   ORACLE [rnd seed h a b] = result of randrange(a, b) on the generator seeded with [seed] after
   the calls in the history [h] (recorded from the implementation in the correspondence, universally
   quantified in the theorems).

   Numbers are SC3.lib.PyNum.num (Python int = I z, float = F q "ideal float");
   bi.wrap / bi.roundup / bi.mod / bi.min / bi.max / bi.clip / bi.fold are the
   REGENERATED definitions of gen/Gen_builtins.v. *)
From Coq Require Import ZArith QArith Qround List Bool.
Require Import SC3.lib.PyNum SC3.gen.Gen_builtins.
Import ListNotations.

(* ------------------------------------------------------------------ values *)
Inductive val := VN (n : num) | VB (b : bool) | VL (l : list val) | VT (l : list val) | VNone.

Definition as_num (v : val) : option num :=
  match v with
  | VN NErr => None
  | VN n => Some n
  | VB b => Some (I (if b then 1 else 0)%Z)       (* bool is a subclass of int *)
  | _ => None                                      (* list/tuple operands: not modelled = Err *)
  end.
Definition ret_num (n : num) : option val := match n with NErr => None | _ => Some (VN n) end.

(* named binary kernels of sc3.base.builtins (p.round(x), bi.round(a, b), ...): regenerated definitions *)
Inductive kname := KRound | KRoundup | KTrunc | KThresh | KClip2 | KWrap2 | KFold2 | KExcess | KScaleneg
                 | KAmclip | KRing1 | KRing2 | KRing3 | KRing4 | KDifsqr | KSumsqr | KSqrsum | KSqrdif | KAbsdif.
Inductive bop := BAdd | BSub | BMul | BDiv | BFloordiv | BMod | BMin | BMax
               | BLt | BLe | BGt | BGe | BEq | BNe
               | BPow | BShl | BShr | BAnd | BOr | BXor | BNamed (k : kname).
Definition kernel (k : kname) : num -> num -> num :=
  match k with
  | KRound => py_round | KRoundup => py_roundup | KTrunc => py_trunc | KThresh => py_thresh
  | KClip2 => py_clip2 | KWrap2 => py_wrap2 | KFold2 => py_fold2 | KExcess => py_excess
  | KScaleneg => py_scaleneg | KAmclip => py_amclip
  | KRing1 => py_ring1 | KRing2 => py_ring2 | KRing3 => py_ring3 | KRing4 => py_ring4
  | KDifsqr => py_difsqr | KSumsqr => py_sumsqr | KSqrsum => py_sqrsum | KSqrdif => py_sqrdif
  | KAbsdif => py_absdif
  end.
(* operator.pow with an int exponent (float exponents are outside the model) *)
Definition npow (a b : num) : num :=
  match a, b with
  | I x, I y => if (0 <=? y)%Z then I (x ^ y)%Z
                else if (x =? 0)%Z then NErr else F (Qpower (inject_Z x) y)
  | F x, I y => if ((y <? 0)%Z && Qeq_bool x 0)%bool then NErr else F (Qpower x y)
  | _, _ => NErr
  end.
Definition nbitxor := lift2 (fun x y => I (Z.lxor x y)) (fun _ _ => NErr).
Inductive uop := UNeg | UAbs.
Inductive nop := NClip | NWrap | NFold.
Inductive fname := FInc | FDbl | FNeg | FPair | FEven | FLt3 | FPos | FBoom   (* FBoom: raises a BaseException *)
                 | FFloat | FAbs | FWrap1.   (* the CLASS float, the builtin abs, a user class (list subclass holding x) *)
Inductive fkind := KCollect | KSelect | KReject.

Definition binop (o : bop) (a b : val) : option val :=
  match as_num a, as_num b with
  | Some x, Some y =>
    match o with
    | BAdd => ret_num (nadd x y) | BSub => ret_num (nsub x y) | BMul => ret_num (nmul x y)
    | BDiv => ret_num (ntruediv x y) | BFloordiv => ret_num (nfloordiv x y)
    | BMod => ret_num (py_mod x y)                  (* Pattern.__mod__ uses bi.mod *)
    | BMin => ret_num (py_min x y) | BMax => ret_num (py_max x y)
    | BLt => Some (VB (nlt x y)) | BLe => Some (VB (nle x y))
    | BGt => Some (VB (ngt x y)) | BGe => Some (VB (nge x y))
    | BEq => Some (VB (neqb x y)) | BNe => Some (VB (nneqb x y))
    | BPow => ret_num (npow x y)
    | BShl => ret_num (nshl x y) | BShr => ret_num (nshr x y)
    | BAnd => ret_num (nbitand x y) | BOr => ret_num (nbitor x y) | BXor => ret_num (nbitxor x y)
    | BNamed k => ret_num (kernel k x y)
    end
  | _, _ => None
  end.
Definition unop (o : uop) (a : val) : option val :=
  match as_num a with
  | Some x => match o with UNeg => ret_num (nneg x) | UAbs => ret_num (nabs x) end
  | None => None
  end.
Definition narop (o : nop) (a b c : val) : option val :=
  match a, b, c with
  | VN x, VN y, VN z =>
      match o with NClip => ret_num (py_clip x y z) | NWrap => ret_num (py_wrap x y z)
                 | NFold => ret_num (py_fold x y z) end
  | _, _, _ => None
  end.
(* the fixed table of named functions for Pcollect / Pselect / Preject *)
Definition fn_apply (f : fname) (v : val) : option val :=
  match f with
  | FInc => binop BAdd v (VN (I 1))
  | FDbl => binop BMul v (VN (I 2))
  | FNeg => unop UNeg v
  | FPair => Some (VL [v; v])
  | FEven => match as_num v with                      (* x % 2 == 0, Python's % *)
             | Some x => match nmod x (I 2) with NErr => None | r => Some (VB (neqb r (I 0))) end
             | None => None end
  | FLt3 => binop BLt v (VN (I 3))
  | FPos => binop BGt v (VN (I 0))
  | FBoom => None
  | FFloat => match as_num v with Some n => ret_num (pfloat n) | None => None end
  | FAbs => unop UAbs v
  | FWrap1 => Some (VL [v])
  end.

Definition truthy (v : val) : bool :=
  match v with
  | VN n => truth n | VB b => b
  | VL l | VT l => match l with [] => false | _ => true end
  | VNone => false
  end.
(* range(abs(n)) : n must be an int (bool accepted) *)
Definition as_count (v : val) : option nat :=
  match v with VN (I z) => Some (Z.abs_nat z) | VB b => Some (if b then 1 else 0)%nat | _ => None end.
(* int(n) : ints, bools, floats (truncation) *)
Definition as_int (v : val) : option Z :=
  match v with VN (I z) => Some z | VN (F q) => Some (Qtrunc q) | VB b => Some (if b then 1 else 0)%Z
             | _ => None end.
(* something usable as a list index / range() argument: a true int *)
Definition as_index (v : val) : option Z :=
  match v with VN (I z) => Some z | VB b => Some (if b then 1 else 0)%Z | _ => None end.

(* utl.flatten([value], n_levels): levels = how many n in 0,1,2.. satisfy n < n_levels *)
Fixpoint flat (lv : nat) (l : list val) : list val :=
  match lv with
  | O => l
  | S lv' => flat_map (fun x => match x with VL l' => flat lv' l' | _ => [x] end) l
  end.
Definition flat_levels (nv : val) (v : val) : option (list val) :=
  match as_num nv with
  | Some n => Some (flat (Z.to_nat (Qceiling (toQ n))) [v])
  | None => None
  end.

(* ---------------------------------------------------------------- patterns *)
Inductive reps := Fin (n : Z) | Inf.          (* bi.counter(n): range(n) or itertools.count() *)
Inductive mode := Emb | Str.

Inductive pat :=
| PVal (v : val)
| Pseq (l : list pat) (r : reps) (off : Z)
| Pser (l : list pat) (r : reps) (off : Z)
| Pn (p : pat) (r : reps)
| Place (l : list (list pat)) (r : reps) (off : Z)   (* a non-list item is a one-element list *)
| Plen (p : pat) (n : Z)
| Pdrop (p : pat) (n : Z)
| Pstutter (p n : pat)
| Pclump (p n : pat)
| Pflatten (p n : pat)
| Pdiff (p : pat)
| Pconst (p : pat) (sum tol : num)
| Pfun (k : fkind) (f : fname) (p : pat)             (* Pcollect / Pselect / Preject *)
| Pwrap (p lo hi : pat)
| Punop (o : uop) (p : pat)
| Pbinop (o : bop) (a b : pat)
| Pnarop (o : nop) (a b c : pat)
| Pif (c t e : pat)
| Pseries (start : num) (step : pat) (len : reps)
| Pgeom (start : num) (grow : pat) (len : reps)
| Pswitch (l : list pat) (which : pat)
| Pswitch1 (l : list pat) (which : pat)
| Ptuple (l : list pat) (r : reps)
| Pslide (l : list pat) (len step : pat) (start : Z) (wrap : bool) (r : reps)
| PseedRand (seed : pat) (l : list pat) (r : reps)          (* Pseed(seed, Prand(l, r)) *)
| PseedXrand (seed : pat) (l : list pat) (r : reps)         (* Pseed(seed, Pxrand(l, r)) *)
| PseedWhite (seed lo hi : pat) (len : reps)                (* Pseed(seed, Pwhite(lo, hi, len)), int bounds *)
| PseedWrand (seed : pat) (l : list pat) (nw : nat) (r : reps).  (* Pseed(seed, Pwrand(l, weights, r)); nw = number of
                                                                  candidates = len(weights) (len(l) without weights) *)

Definition in_reps (r : reps) (j : nat) : bool :=
  match r with Inf => true | Fin n => (Z.of_nat j <? n)%Z end.
Definition cnt_of (r : reps) : option nat :=
  match r with Inf => None | Fin n => Some (Z.to_nat n) end.
Definition cnt_zero (c : option nat) : bool := match c with Some O => true | _ => false end.
Definition cnt_dec (c : option nat) : option nat := match c with Some n => Some (pred n) | None => None end.

(* lst[(i + offset) % size]  (the documented "wrapAt(i + offset)") *)
Definition wrap_at {A} (l : list A) (i : Z) : option A :=
  match l with [] => None | _ => nth_error l (Z.to_nat (i mod Z.of_nat (length l))) end.

(* The k-th item that an embedding list pattern embeds (k counts items over all repeats) *)
Inductive ires := IDone | IErr | ISpin | IItem (q : pat).
(* An EMPTY list cannot be constructed (ListPattern.__init__ raises ValueError) but the
   attribute can be emptied afterwards; __embed__ then behaves as follows: Pseq / Place loop
   over nothing (empty sequence; with inf repeats the generator spins for ever = ISpin),
   Pser divides by zero as soon as it iterates. *)
Definition empty_reps (r : reps) : ires := match r with Inf => ISpin | Fin _ => IDone end.
Definition item_at (p : pat) (k : nat) : ires :=
  match p with
  | Pseq l r off =>
      let n := length l in
      match n with O => empty_reps r | _ =>
        if in_reps r (k / n) then
          match wrap_at l (Z.of_nat (k mod n) + off) with Some q => IItem q | None => IErr end
        else IDone end
  | Pser l r off =>
      if in_reps r k then
        match wrap_at l (Z.of_nat k + off) with Some q => IItem q | None => IErr (* % 0 *) end
      else IDone
  | Pn q r => if in_reps r k then IItem q else IDone
  | Place l r off =>
      let n := length l in
      match n with O => empty_reps r | _ =>
        if in_reps r (k / n) then
          match wrap_at l (Z.of_nat (k mod n) + off) with
          | Some sub => match wrap_at sub (Z.of_nat (k / n)) with
                        | Some q => IItem q | None => IErr (* item[j % 0] *) end
          | None => IErr end
        else IDone end
  | _ => IErr
  end.

Fixpoint split_at {A} (i : nat) (l : list A) {struct l} : option (list A * A * list A) :=
  match l with
  | [] => None
  | x :: r => match i with
              | O => Some ([], x, r)
              | S i' => match split_at i' r with
                        | Some (pre, c, post) => Some (x :: pre, c, post) | None => None end
              end
  end.

(* ------------------------------------------------------- operational model *)
Definition hist := list (Z * Z).     (* earlier randrange(a, b) calls on one generator, most recent first *)
Inductive sstate :=
| SDone
| SOnce (v : val)                       (* embed(value): yields it once *)
| SConst (v : val)                      (* stream(value): infinite *)
| SEmb (cur : sstate) (k : nat) (p : pat)          (* Pseq Pser Pn Place: inner iterator, item counter *)
| SLen (c : sstate) (i : nat)
| SDrop (c : sstate) (i : nat)
| SStutA (c cn : sstate) | SStutB (v : val) (c cn : sstate) | SStutC (v : val) (k : nat) (c cn : sstate)
| SClumpA (c cn : sstate) | SClumpB (acc : list val) (k : nat) (c cn : sstate)
| SFlatA (c cn : sstate) | SFlatB (nv : val) (c cn : sstate) | SFlatC (items : list val) (c cn : sstate)
| SDiffA (c : sstate) | SDiffB (prev : val) (c : sstate)
| SConstr (sum tol acc : num) (c : sstate)
| SFun (k : fkind) (f : fname) (c : sstate)
| SWrapA (c cl ch : sstate) | SWrapB (lo : val) (c cl ch : sstate) | SWrapC (lo hi : val) (c cl ch : sstate)
| SUn (o : uop) (c : sstate)
| SBinA (o : bop) (a b : sstate) | SBinB (o : bop) (va : val) (a b : sstate)
| SNarA (o : nop) (a b c : sstate) | SNarB (o : nop) (va : val) (a b c : sstate)
| SNarC (o : nop) (va vb : val) (a b c : sstate)
| SIfA (c t e : sstate) | SIfB (b : bool) (c t e : sstate)
| SSeries (mul : bool) (cur : num) (i : option nat) (cs : sstate)
| SSwI (cw : sstate) (l : list pat) | SSwE (cur cw : sstate) (l : list pat)
| SSw1A (cw : sstate) (cs : list sstate) | SSw1Z (pre : list sstate) (c : sstate) (post : list sstate) (cw : sstate)
| STupR (j : nat) (r : reps) (l : list pat)
| STupP (acc : list val) (done todo : list sstate) (j : nat) (r : reps) (l : list pat)
| SSlA (i : option nat) (pos : num) (cl cs : sstate) (l : list pat) (w : bool)
| SSlJ (j rem : nat) (i : option nat) (pos : num) (cl cs : sstate) (l : list pat) (w : bool)
| SSlE (cur : sstate) (j rem : nat) (i : option nat) (pos : num) (cl cs : sstate) (l : list pat) (w : bool)
| SSlS (i : option nat) (pos : num) (cl cs : sstate) (l : list pat) (w : bool)
(* Pseed: seed stream, then the body inside a routine with generator (seed z, next call idx) *)
| SSeedA (cs : sstate) (p : pat)
| SSdR (z : Z) (idx : hist) (k : option nat) (cur cs : sstate) (p : pat)
| SSdX (z : Z) (idx : hist) (index : Z) (k : option nat) (cur cs : sstate) (p : pat)
| SSdWA (z : Z) (idx : hist) (k : option nat) (clo chi cs : sstate) (p : pat)
| SSdWB (lo : val) (z : Z) (idx : hist) (k : option nat) (clo chi cs : sstate) (p : pat).

Fixpoint init (m : mode) (p : pat) {struct p} : sstate :=
  match p with
  | PVal v => match m with Emb => SOnce v | Str => SConst v end
  | Pseq _ _ _ | Pser _ _ _ | Pn _ _ | Place _ _ _ => SEmb SDone 0 p
  | Plen q n => SLen (init Str q) (Z.to_nat n)
  | Pdrop q n => SDrop (init Str q) (Z.to_nat n)
  | Pstutter q n => SStutA (init Str q) (init Str n)
  | Pclump q n => SClumpA (init Str q) (init Str n)
  | Pflatten q n => SFlatA (init Str q) (init Str n)
  | Pdiff q => SDiffA (init Str q)
  | Pconst q sum tol => SConstr sum tol (I 0) (init Str q)
  | Pfun k f q => SFun k f (init Str q)
  | Pwrap q lo hi => SWrapA (init Str q) (init Str lo) (init Str hi)
  | Punop o q => SUn o (init Str q)
  | Pbinop o a b => SBinA o (init Str a) (init Str b)
  | Pnarop o a b c => SNarA o (init Str a) (init Str b) (init Str c)
  | Pif c t e => SIfA (init Str c) (init Str t) (init Str e)
  | Pseries st step len => SSeries false st (cnt_of len) (init Str step)
  | Pgeom st grow len => SSeries true st (cnt_of len) (init Str grow)
  | Pswitch l w => SSwI (init Str w) l
  | Pswitch1 l w => SSw1A (init Str w) (map (init Str) l)
  | Ptuple l r => STupR 0 r l
  | Pslide l len step start w r => SSlA (cnt_of r) (I start) (init Str len) (init Str step) l w
  | PseedRand sd _ _ | PseedXrand sd _ _ | PseedWhite sd _ _ _ | PseedWrand sd _ _ _ => SSeedA (init Str sd) p
  end.

Inductive out (S : Type) := Stop | Err | Tau (s : S) | Yield (v : val) (s : S).
Arguments Stop {S}. Arguments Err {S}. Arguments Tau {S}. Arguments Yield {S}.

(* one step of "x = sub.next()" / "yield from sub" seen from the enclosing frame *)
Definition bindp {S} (r : out S) (K : S -> S) (onstop : out S) (onyield : val -> S -> out S) : out S :=
  match r with Stop => onstop | Err => Err | Tau s => Tau (K s) | Yield v s => onyield v s end.

Definition ostep (o : option (out sstate)) : out sstate := match o with Some r => r | None => Err end.

Section Oracle.
(* rnd seed h a b: result of randrange(a, b) on a generator created as random.Random(seed) on
   which the calls listed in h (most recent first) were made before -- the result of a call
   is a function of the seed and of all earlier calls, nothing else *)
Variable rnd : Z -> hist -> Z -> Z -> Z.

(* lst[draw]: Prand draws bi.rand(size) = randrange(0, size), key (0, size); Pwrand draws
   bi.choices(range(nw), weights)[0], key (-1, nw) -- the weights are part of the oracle *)
Definition rand_item (a b : Z) (l : list pat) (z : Z) (idx : hist) : option pat :=
  let i := rnd z idx a b in
  if ((0 <=? i) && (i <? b))%Z then nth_error l (Z.to_nat i) else None.
Definition rand_body (p : pat) : option (list pat * Z * Z) :=
  match p with
  | PseedRand _ l _ => Some (l, 0%Z, Z.of_nat (length l))
  | PseedWrand _ l nw _ => Some (l, (-1)%Z, Z.of_nat nw)
  | _ => None
  end.
(* Pxrand: index = (index + bi.rand(size - 1) + 1) % size; bi.rand(0) makes no call *)
Definition xrand_step (l : list pat) (z : Z) (idx : hist) (index : Z) : option (pat * Z * hist) :=
  let size := Z.of_nat (length l) in
  match l with
  | [] => None
  | _ =>
    let '(d, idx') := if (size =? 1)%Z then (0%Z, idx) else (rnd z idx 0%Z (size - 1)%Z, (0, size - 1)%Z :: idx) in
    let index' := ((index + d + 1) mod size)%Z in
    match nth_error l (Z.to_nat index') with Some q => Some (q, index', idx') | None => None end
  end.
(* bi.rrand(lo, hi) on ints: randrange(lo, hi) (either direction); lo == hi makes no call *)
Definition white_draw (lo hi : val) (z : Z) (idx : hist) : option (val * hist) :=
  match lo, hi with
  | VN (I a), VN (I b) =>
      if (a =? b)%Z then Some (VN (I a), idx) else Some (VN (I (rnd z idx a b)), (a, b) :: idx)
  | _, _ => None                      (* float bounds: not modelled *)
  end.

Fixpoint snext (s : sstate) : out sstate :=
  match s with
  | SDone => Stop
  | SOnce v => Yield v SDone
  | SConst v => Yield v (SConst v)
  | SEmb cur k p =>
      bindp (snext cur) (fun c => SEmb c k p)
        (match item_at p k with
         | IDone => Stop | IErr => Err
         | ISpin => Tau (SEmb SDone k p)               (* for _ in count(): for item in []: pass *)
         | IItem q => Tau (SEmb (init Emb q) (S k) p) end)
        (fun v c => Yield v (SEmb c k p))
  (* Plen: for _ in range(n): yield stream.next() *)
  | SLen c i =>
      match i with
      | O => Stop
      | S i' => bindp (snext c) (fun c' => SLen c' i) Stop (fun v c' => Yield v (SLen c' i'))
      end
  (* Pdrop: n discarded pulls, then forward *)
  | SDrop c i =>
      match i with
      | O => bindp (snext c) (fun c' => SDrop c' i) Stop (fun v c' => Yield v (SDrop c' O))
      | S i' => bindp (snext c) (fun c' => SDrop c' i) Stop (fun v c' => Tau (SDrop c' i'))
      end
  (* Pstutter: value = stream.next(); n = n_stream.next(); abs(n) copies *)
  | SStutA c cn => bindp (snext c) (fun c' => SStutA c' cn) Stop (fun v c' => Tau (SStutB v c' cn))
  | SStutB v c cn =>
      bindp (snext cn) (fun cn' => SStutB v c cn') Stop
        (fun nv cn' => match as_count nv with Some k => Tau (SStutC v k c cn') | None => Err end)
  | SStutC v k c cn =>
      match k with O => Tau (SStutA c cn) | S k' => Yield v (SStutC v k' c cn) end
  (* Pclump: n = n_stream.next(); int(n) pulls collected in a list; a partial list is
     yielded when the source ends *)
  | SClumpA c cn =>
      bindp (snext cn) (fun cn' => SClumpA c cn') Stop
        (fun nv cn' => match as_int nv with Some z => Tau (SClumpB [] (Z.to_nat z) c cn') | None => Err end)
  | SClumpB acc k c cn =>
      match k with
      | O => Yield (VL acc) (SClumpA c cn)
      | S k' => bindp (snext c) (fun c' => SClumpB acc k c' cn)
                  (match acc with [] => Stop | _ => Yield (VL acc) SDone end)
                  (fun v c' => Tau (SClumpB (acc ++ [v]) k' c' cn))
      end
  (* Pflatten: n first, then the value; only lists are flattened *)
  | SFlatA c cn => bindp (snext cn) (fun cn' => SFlatA c cn') Stop (fun nv cn' => Tau (SFlatB nv c cn'))
  | SFlatB nv c cn =>
      bindp (snext c) (fun c' => SFlatB nv c' cn) Stop
        (fun v c' => match v with
                     | VL _ => match flat_levels nv v with
                               | Some items => Tau (SFlatC items c' cn) | None => Err end
                     | _ => Yield v (SFlatA c' cn) end)
  | SFlatC items c cn =>
      match items with [] => Tau (SFlatA c cn) | x :: r => Yield x (SFlatC r c cn) end
  (* Pdiff *)
  | SDiffA c => bindp (snext c) (fun c' => SDiffA c') Stop (fun v c' => Tau (SDiffB v c'))
  | SDiffB prev c =>
      bindp (snext c) (fun c' => SDiffB prev c') Stop
        (fun nx c' => match binop BSub nx prev with Some d => Yield d (SDiffB nx c') | None => Err end)
  (* Pconst *)
  | SConstr sum tol acc c =>
      bindp (snext c) (fun c' => SConstr sum tol acc c')
        (match ret_num (nsub sum acc) with Some r => Yield r SDone | None => Err end)
        (fun v c' =>
           match as_num v with
           | None => Err
           | Some x =>
             let ns := nadd acc x in
             match py_roundup ns tol with
             | NErr => Err
             | ru => if nge ru sum
                     then match ret_num (nsub sum acc) with Some r => Yield r SDone | None => Err end
                     else Yield v (SConstr sum tol ns c')
             end
           end)
  (* Pcollect / Pselect / Preject *)
  | SFun k f c =>
      bindp (snext c) (fun c' => SFun k f c') Stop
        (fun v c' =>
           match fn_apply f v with
           | None => Err
           | Some r =>
             match k with
             | KCollect => Yield r (SFun k f c')
             | KSelect => match r with VB true => Yield v (SFun k f c') | _ => Tau (SFun k f c') end
             | KReject => match r with VB false => Yield v (SFun k f c') | _ => Tau (SFun k f c') end
             end
           end)
  (* Pwrap: lo, hi, value in this order *)
  | SWrapA c cl ch => bindp (snext cl) (fun x => SWrapA c x ch) Stop (fun lo x => Tau (SWrapB lo c x ch))
  | SWrapB lo c cl ch => bindp (snext ch) (fun x => SWrapB lo c cl x) Stop (fun hi x => Tau (SWrapC lo hi c cl x))
  | SWrapC lo hi c cl ch =>
      bindp (snext c) (fun x => SWrapC lo hi x cl ch) Stop
        (fun v x => match narop NWrap v lo hi with Some r => Yield r (SWrapA x cl ch) | None => Err end)
  (* operator streams *)
  | SUn o c =>
      bindp (snext c) (fun c' => SUn o c') Stop
        (fun v c' => match unop o v with Some r => Yield r (SUn o c') | None => Err end)
  | SBinA o a b => bindp (snext a) (fun a' => SBinA o a' b) Stop (fun va a' => Tau (SBinB o va a' b))
  | SBinB o va a b =>
      bindp (snext b) (fun b' => SBinB o va a b') Stop
        (fun vb b' => match binop o va vb with Some r => Yield r (SBinA o a b') | None => Err end)
  | SNarA o a b c => bindp (snext a) (fun x => SNarA o x b c) Stop (fun va x => Tau (SNarB o va x b c))
  | SNarB o va a b c => bindp (snext b) (fun x => SNarB o va a x c) Stop (fun vb x => Tau (SNarC o va vb a x c))
  | SNarC o va vb a b c =>
      bindp (snext c) (fun x => SNarC o va vb a b x) Stop
        (fun vc x => match narop o va vb vc with Some r => Yield r (SNarA o a b x) | None => Err end)
  (* Pif *)
  | SIfA c t e => bindp (snext c) (fun x => SIfA x t e) Stop (fun v x => Tau (SIfB (truthy v) x t e))
  | SIfB b c t e =>
      if b then bindp (snext t) (fun x => SIfB b c x e) Stop (fun v x => Yield v (SIfA c x e))
      else bindp (snext e) (fun x => SIfB b c t x) Stop (fun v x => Yield v (SIfA c t x))
  (* Pseries / Pgeom: the step is pulled first, then the current value is yielded *)
  | SSeries mul cur i cs =>
      if cnt_zero i then Stop else
      bindp (snext cs) (fun x => SSeries mul cur i x) Stop
        (fun sv x =>
           match as_num sv with
           | None => Err
           | Some st => match (if mul then nmul cur st else nadd cur st) with
                        | NErr => Err
                        | nc => Yield (VN cur) (SSeries mul nc (cnt_dec i) x) end
           end)
  (* Pswitch: index, then the chosen item embedded in place *)
  | SSwI cw l =>
      bindp (snext cw) (fun x => SSwI x l) Stop
        (fun iv x => match as_index iv with
                     | None => Err
                     | Some z => match wrap_at l z with
                                 | Some q => Tau (SSwE (init Emb q) x l) | None => Err end
                     end)
  | SSwE cur cw l =>
      bindp (snext cur) (fun x => SSwE x cw l) (Tau (SSwI cw l)) (fun v x => Yield v (SSwE x cw l))
  (* Pswitch1: one value of the chosen persistent stream *)
  | SSw1A cw cs =>
      bindp (snext cw) (fun x => SSw1A x cs) Stop
        (fun iv x => match as_index iv with
                     | None => Err
                     | Some z => match cs with
                                 | [] => Err                               (* indx % 0 *)
                                 | _ => match split_at (Z.to_nat (z mod Z.of_nat (length cs))) cs with
                                        | Some (pre, c, post) => Tau (SSw1Z pre c post x)
                                        | None => Err end
                                 end
                     end)
  | SSw1Z pre c post cw =>
      bindp (snext c) (fun c' => SSw1Z pre c' post cw) Stop
        (fun v c' => Yield v (SSw1A cw (pre ++ c' :: post)))
  (* Ptuple: fresh streams for every repeat; one value of each, in order *)
  | STupR j r l =>
      match l with
      | [] => Err
      | _ => if in_reps r j then Tau (STupP [] [] (map (init Str) l) j r l) else Stop
      end
  | STupP acc done todo j r l =>
      match todo with
      | [] => Yield (VT acc) (STupP [] [] done j r l)
      | c :: rest =>
          bindp (snext c) (fun c' => STupP acc done (c' :: rest) j r l)
            (Tau (STupR (S j) r l))
            (fun v c' => Tau (STupP (acc ++ [v]) (done ++ [c']) rest j r l))
      end
  (* Pslide *)
  | SSlA i pos cl cs l w =>
      match l with [] => Err | _ =>
      if cnt_zero i then Stop else
      bindp (snext cl) (fun x => SSlA i pos x cs l w) Stop
        (fun lv x => match as_index lv with
                     | Some z => Tau (SSlJ 0 (Z.to_nat z) i pos x cs l w)
                     | None => Err end)
      end
  | SSlJ j rem i pos cl cs l w =>
      match rem with
      | O => Tau (SSlS i pos cl cs l w)
      | S rem' =>
          match pos with
          | I z =>
              let idx := (z + Z.of_nat j)%Z in
              if w then
                match wrap_at l idx with
                | Some q => Tau (SSlE (init Emb q) (S j) rem' i pos cl cs l w) | None => Err end
              else if ((0 <=? idx) && (idx <? Z.of_nat (length l)))%Z then
                match nth_error l (Z.to_nat idx) with
                | Some q => Tau (SSlE (init Emb q) (S j) rem' i pos cl cs l w) | None => Err end
              else Stop
          | _ => Err                       (* float position used as a list index *)
          end
      end
  | SSlE cur j rem i pos cl cs l w =>
      bindp (snext cur) (fun x => SSlE x j rem i pos cl cs l w)
        (Tau (SSlJ j rem i pos cl cs l w))
        (fun v x => Yield v (SSlE x j rem i pos cl cs l w))
  | SSlS i pos cl cs l w =>
      bindp (snext cs) (fun x => SSlS i pos cl x l w) Stop
        (fun sv x => match as_num sv with
                     | Some st => match nadd pos st with
                                  | NErr => Err
                                  | np => Tau (SSlA (cnt_dec i) np cl x l w) end
                     | None => Err end)
  (* Pseed: rout.rand_seed = seed_stream.next(); the body runs with its own generator *)
  | SSeedA cs p =>
      bindp (snext cs) (fun x => SSeedA x p) Stop
        (fun sv x =>
           match as_index sv with
           | None => Err                              (* non-int seeds: not modelled *)
           | Some z =>
             match p with
             | PseedRand _ l r => match l with [] => Err | _ => Tau (SSdR z [] (cnt_of r) SDone x p) end
             | PseedXrand _ l r =>
                 match l with
                 | [] => Err
                 | _ => Tau (SSdX z [(0, Z.of_nat (length l))%Z] (rnd z [] 0%Z (Z.of_nat (length l))) (cnt_of r) SDone x p) end
             | PseedWhite _ lo hi len => Tau (SSdWA z [] (cnt_of len) (init Str lo) (init Str hi) x p)
             | PseedWrand _ l _ r => match l with [] => Err | _ => Tau (SSdR z [] (cnt_of r) SDone x p) end
             | _ => Err
             end
           end)
  | SSdR z idx k cur cs p =>
      bindp (snext cur) (fun x => SSdR z idx k x cs p)
        (if cnt_zero k then Tau (SSeedA cs p) else
         match rand_body p with
         | Some (l, a, b) => match rand_item a b l z idx with
                             | Some q => Tau (SSdR z ((a, b) :: idx) (cnt_dec k) (init Emb q) cs p)
                             | None => Err end
         | None => Err end)
        (fun v x => Yield v (SSdR z idx k x cs p))
  | SSdX z idx index k cur cs p =>
      bindp (snext cur) (fun x => SSdX z idx index k x cs p)
        (if cnt_zero k then Tau (SSeedA cs p) else
         match p with
         | PseedXrand _ l _ => match xrand_step l z idx index with
                               | Some (q, index', idx') => Tau (SSdX z idx' index' (cnt_dec k) (init Emb q) cs p)
                               | None => Err end
         | _ => Err end)
        (fun v x => Yield v (SSdX z idx index k x cs p))
  | SSdWA z idx k clo chi cs p =>
      if cnt_zero k then Tau (SSeedA cs p) else
      bindp (snext clo) (fun x => SSdWA z idx k x chi cs p) (Tau (SSeedA cs p))
        (fun lo x => Tau (SSdWB lo z idx k x chi cs p))
  | SSdWB lo z idx k clo chi cs p =>
      bindp (snext chi) (fun x => SSdWB lo z idx k clo x cs p) (Tau (SSeedA cs p))
        (fun hi x => match white_draw lo hi z idx with
                     | Some (v, idx') => Yield v (SSdWA z idx' (cnt_dec k) clo x cs p)
                     | None => Err end)
  end.

(* run: at most [fuel] small steps, at most [n] outputs *)
Inductive rend := RStop | RErr | RMore | RFuel.
Fixpoint run (fuel n : nat) (s : sstate) : list val * rend :=
  match n with
  | O => ([], RMore)
  | S n' =>
    match fuel with
    | O => ([], RFuel)
    | S f =>
      match snext s with
      | Stop => ([], RStop)
      | Err => ([], RErr)
      | Tau s' => run f n s'
      | Yield v s' => let (l, e) := run f n' s' in (v :: l, e)
      end
    end
  end.
(* list(islice(iter(p), n)) *)
Definition run_pat (fuel n : nat) (p : pat) := run fuel n (init Str p).

(* plain small steps (used to state stream independence) *)
Fixpoint steps (n : nat) (s : sstate) : list val * sstate :=
  match n with
  | O => ([], s)
  | S n' => match snext s with
            | Stop | Err => ([], s)
            | Tau s' => steps n' s'
            | Yield v s' => let (l, s'') := steps n' s' in (v :: l, s'')
            end
  end.
(* two streams advanced under a schedule (true = first stream) *)
Fixpoint isteps (sched : list bool) (s1 s2 : sstate) : (list val * sstate) * (list val * sstate) :=
  match sched with
  | [] => (([], s1), ([], s2))
  | true :: r =>
      match snext s1 with
      | Stop | Err => isteps r s1 s2
      | Tau s' => isteps r s' s2
      | Yield v s' => let '((l1, a), o2) := isteps r s' s2 in ((v :: l1, a), o2)
      end
  | false :: r =>
      match snext s2 with
      | Stop | Err => isteps r s1 s2
      | Tau s' => isteps r s1 s'
      | Yield v s' => let '(o1, (l2, b)) := isteps r s1 s' in (o1, (v :: l2, b))
      end
  end.

(* ------------------------------------------------------ denotational model *)
Inductive tend := EStop | EErr | EMore.
Definition trace := (list val * tend)%type.
Definition tcons (v : val) (t : trace) : trace := (v :: fst t, snd t).
Definition tpre (l : list val) (t : trace) : trace := (l ++ fst t, snd t).
Definition tapp (t1 t2 : trace) : trace :=
  match snd t1 with EStop => tpre (fst t1) t2 | _ => t1 end.

(* items start, start+1, ... embedded one after the other *)
Fixpoint temb (f : nat -> ires) (d : pat -> trace) (count start : nat) : trace :=
  match count with
  | O => ([], EMore)
  | S c => match f start with
           | IDone => ([], EStop) | IErr => ([], EErr)
           | ISpin => ([], EMore)
           | IItem q => tapp (d q) (temb f d c (S start)) end
  end.
Fixpoint tlen (n : nat) (l : list val) (e : tend) : trace :=
  match n with
  | O => ([], EStop)
  | S n' => match l with [] => ([], e) | v :: l' => tcons v (tlen n' l' e) end
  end.
Fixpoint tdrop (n : nat) (l : list val) (e : tend) : trace :=
  match n with
  | O => (l, e)
  | S n' => match l with [] => ([], e) | _ :: l' => tdrop n' l' e end
  end.
Fixpoint tstut (l : list val) (e : tend) (ln : list val) (en : tend) : trace :=
  match l with
  | [] => ([], e)
  | v :: l' => match ln with
               | [] => ([], en)
               | nv :: ln' => match as_count nv with
                              | None => ([], EErr)
                              | Some c => tpre (repeat v c) (tstut l' e ln' en) end
               end
  end.
Fixpoint grab (k : nat) (acc l : list val) : list val * option (list val) :=
  match k with
  | O => (acc, Some l)
  | S k' => match l with [] => (acc, None) | v :: l' => grab k' (acc ++ [v]) l' end
  end.
Fixpoint tclump (ln : list val) (en : tend) (l : list val) (e : tend) : trace :=
  match ln with
  | [] => ([], en)
  | nv :: ln' =>
      match as_int nv with
      | None => ([], EErr)
      | Some z =>
          match grab (Z.to_nat z) [] l with
          | (acc, Some rest) => tcons (VL acc) (tclump ln' en rest e)
          | (acc, None) => match e with
                           | EStop => match acc with [] => ([], EStop) | _ => ([VL acc], EStop) end
                           | _ => ([], e) end
          end
      end
  end.
Fixpoint tflat (ln : list val) (en : tend) (l : list val) (e : tend) : trace :=
  match ln with
  | [] => ([], en)
  | nv :: ln' =>
      match l with
      | [] => ([], e)
      | v :: l' => match v with
                   | VL _ => match flat_levels nv v with
                             | Some items => tpre items (tflat ln' en l' e) | None => ([], EErr) end
                   | _ => tcons v (tflat ln' en l' e) end
      end
  end.
Fixpoint tdiff' (prev : val) (l : list val) (e : tend) : trace :=
  match l with
  | [] => ([], e)
  | nx :: l' => match binop BSub nx prev with
                | Some d => tcons d (tdiff' nx l' e) | None => ([], EErr) end
  end.
Definition tdiff (l : list val) (e : tend) : trace :=
  match l with [] => ([], e) | v :: l' => tdiff' v l' e end.
Definition const_last (sum acc : num) : trace :=
  match ret_num (nsub sum acc) with Some r => ([r], EStop) | None => ([], EErr) end.
Fixpoint tconst (sum tol acc : num) (l : list val) (e : tend) : trace :=
  match l with
  | [] => match e with EStop => const_last sum acc | _ => ([], e) end
  | v :: l' =>
      match as_num v with
      | None => ([], EErr)
      | Some x =>
          let ns := nadd acc x in
          match py_roundup ns tol with
          | NErr => ([], EErr)
          | ru => if nge ru sum then const_last sum acc else tcons v (tconst sum tol ns l' e)
          end
      end
  end.
Fixpoint tfun (k : fkind) (f : fname) (l : list val) (e : tend) : trace :=
  match l with
  | [] => ([], e)
  | v :: l' =>
      match fn_apply f v with
      | None => ([], EErr)
      | Some r =>
          match k with
          | KCollect => tcons r (tfun k f l' e)
          | KSelect => match r with VB true => tcons v (tfun k f l' e) | _ => tfun k f l' e end
          | KReject => match r with VB false => tcons v (tfun k f l' e) | _ => tfun k f l' e end
          end
      end
  end.
Fixpoint tun (o : uop) (l : list val) (e : tend) : trace :=
  match l with
  | [] => ([], e)
  | v :: l' => match unop o v with Some r => tcons r (tun o l' e) | None => ([], EErr) end
  end.
(* zip ending with the shortest operand; a is pulled before b *)
Fixpoint tbin (o : bop) (la : list val) (ea : tend) (lb : list val) (eb : tend) : trace :=
  match la with
  | [] => ([], ea)
  | va :: la' => match lb with
                 | [] => ([], eb)
                 | vb :: lb' => match binop o va vb with
                                | Some r => tcons r (tbin o la' ea lb' eb) | None => ([], EErr) end
                 end
  end.
Fixpoint tnar (o : nop) (la : list val) (ea : tend) (lb : list val) (eb : tend)
         (lc : list val) (ec : tend) : trace :=
  match la with
  | [] => ([], ea)
  | va :: la' =>
      match lb with
      | [] => ([], eb)
      | vb :: lb' =>
          match lc with
          | [] => ([], ec)
          | vc :: lc' => match narop o va vb vc with
                         | Some r => tcons r (tnar o la' ea lb' eb lc' ec) | None => ([], EErr) end
          end
      end
  end.
(* Pwrap pulls lo, hi, value *)
Definition twrap (l : list val) (e : tend) (llo : list val) (elo : tend) (lhi : list val) (ehi : tend) : trace :=
  (fix go (llo lhi l : list val) {struct llo} : trace :=
     match llo with
     | [] => ([], elo)
     | lo :: llo' =>
         match lhi with
         | [] => ([], ehi)
         | hi :: lhi' =>
             match l with
             | [] => ([], e)
             | v :: l' => match narop NWrap v lo hi with
                          | Some r => tcons r (go llo' lhi' l') | None => ([], EErr) end
             end
         end
     end) llo lhi l.
Fixpoint tif (lc : list val) (ec : tend) (lt : list val) (et : tend) (le : list val) (ee : tend) : trace :=
  match lc with
  | [] => ([], ec)
  | c :: lc' =>
      if truthy c then match lt with [] => ([], et) | x :: lt' => tcons x (tif lc' ec lt' et le ee) end
      else match le with [] => ([], ee) | x :: le' => tcons x (tif lc' ec lt et le' ee) end
  end.
Fixpoint tseries (mul : bool) (cur : num) (i : option nat) (ls : list val) (es : tend) : trace :=
  if cnt_zero i then ([], EStop) else
  match ls with
  | [] => ([], es)
  | sv :: ls' =>
      match as_num sv with
      | None => ([], EErr)
      | Some st => match (if mul then nmul cur st else nadd cur st) with
                   | NErr => ([], EErr)
                   | nc => tcons (VN cur) (tseries mul nc (cnt_dec i) ls' es) end
      end
  end.
Fixpoint tswitch (d : pat -> trace) (l : list pat) (lw : list val) (ew : tend) : trace :=
  match lw with
  | [] => ([], ew)
  | iv :: lw' =>
      match as_index iv with
      | None => ([], EErr)
      | Some z => match wrap_at l z with
                  | Some q => tapp (d q) (tswitch d l lw' ew) | None => ([], EErr) end
      end
  end.


(* Pswitch1: persistent streams; each index takes ONE value of the chosen stream *)
Fixpoint tsw1 (ts : list trace) (lw : list val) (ew : tend) : trace :=
  match lw with
  | [] => ([], ew)
  | iv :: lw' =>
      match as_index iv with
      | None => ([], EErr)
      | Some z =>
          match ts with
          | [] => ([], EErr)
          | _ => match split_at (Z.to_nat (z mod Z.of_nat (length ts))) ts with
                 | Some (pre, (l, e), post) =>
                     match l with
                     | [] => ([], e)
                     | v :: l' => tcons v (tsw1 (pre ++ (l', e) :: post) lw' ew) end
                 | None => ([], EErr) end
          end
      end
  end.
(* Ptuple: one value of every stream, in order; the round of rows ends with the first stream
   that ends *)
Fixpoint heads (ts : list trace) : (list val * list trace) + tend :=
  match ts with
  | [] => inl ([], [])
  | (l, e) :: r =>
      match l with
      | [] => inr e
      | v :: l' => match heads r with
                   | inl (vs, r') => inl (v :: vs, (l', e) :: r') | inr e' => inr e' end
      end
  end.
Definition trows_from (rows : list trace -> trace) (acc : list val) (dts tts : list trace) : trace :=
  match heads tts with
  | inr e => ([], e)
  | inl (vs, tts') => tcons (VT (acc ++ vs)) (rows (dts ++ tts')) end.
Fixpoint trows (fuel : nat) (ts : list trace) : trace :=
  match fuel with
  | O => ([], EMore)
  | S f => trows_from (trows f) [] [] ts
  end.
Fixpoint trep (count : nat) (r : reps) (j : nat) (t : trace) : trace :=
  match count with
  | O => ([], EMore)
  | S c => if in_reps r j then tapp t (trep c r (S j) t) else ([], EStop)
  end.
(* Pslide: one window = rem items from position pos + j on, then K (the rest) *)
Fixpoint twin (d : pat -> trace) (l : list pat) (w : bool) (pos : num) (j rem : nat) (K : trace) : trace :=
  match rem with
  | O => K
  | S rem' =>
      match pos with
      | I z =>
          let idx := (z + Z.of_nat j)%Z in
          if w then
            match wrap_at l idx with
            | Some q => tapp (d q) (twin d l w pos (S j) rem' K) | None => ([], EErr) end
          else if ((0 <=? idx) && (idx <? Z.of_nat (length l)))%Z then
            match nth_error l (Z.to_nat idx) with
            | Some q => tapp (d q) (twin d l w pos (S j) rem' K) | None => ([], EErr) end
          else ([], EStop)
      | _ => ([], EErr)
      end
  end.
Fixpoint tslide (d : pat -> trace) (l : list pat) (w : bool) (i : option nat) (pos : num)
         (llen : list val) (elen : tend) (lstep : list val) (estep : tend) {struct llen} : trace :=
  if cnt_zero i then ([], EStop) else
  match llen with
  | [] => ([], elen)
  | lv :: llen' =>
      match as_index lv with
      | None => ([], EErr)
      | Some z =>
          twin d l w pos 0 (Z.to_nat z)
            (match lstep with
             | [] => ([], estep)
             | sv :: lstep' =>
                 match as_num sv with
                 | None => ([], EErr)
                 | Some st => match nadd pos st with
                              | NErr => ([], EErr)
                              | np => tslide d l w (cnt_dec i) np llen' elen lstep' estep end
                 end
             end)
      end
  end.
(* seeded random bodies; K = what follows the body (the next seed) *)
Fixpoint trand (d : pat -> trace) (a b : Z) (l : list pat) (z : Z) (k : option nat) (idx : hist) (count : nat) (K : trace) : trace :=
  match count with
  | O => ([], EMore)
  | S c => if cnt_zero k then K else
           match rand_item a b l z idx with
           | Some q => tapp (d q) (trand d a b l z (cnt_dec k) ((a, b) :: idx) c K) | None => ([], EErr) end
  end.
Fixpoint txrand (d : pat -> trace) (l : list pat) (z : Z) (index : Z) (k : option nat) (idx : hist) (count : nat)
         (K : trace) : trace :=
  match count with
  | O => ([], EMore)
  | S c => if cnt_zero k then K else
           match xrand_step l z idx index with
           | Some (q, index', idx') => tapp (d q) (txrand d l z index' (cnt_dec k) idx' c K)
           | None => ([], EErr) end
  end.
Fixpoint twhite (z : Z) (k : option nat) (idx : hist) (llo : list val) (elo : tend)
         (lhi : list val) (ehi : tend) (K : trace) {struct llo} : trace :=
  if cnt_zero k then K else
  match llo with
  | [] => match elo with EStop => K | _ => ([], elo) end
  | lo :: llo' =>
      match lhi with
      | [] => match ehi with EStop => K | _ => ([], ehi) end
      | hi :: lhi' => match white_draw lo hi z idx with
                      | Some (v, idx') => tcons v (twhite z (cnt_dec k) idx' llo' elo lhi' ehi K)
                      | None => ([], EErr) end
      end
  end.
Fixpoint tseed (body : Z -> trace -> trace) (ls : list val) (es : tend) : trace :=
  match ls with
  | [] => ([], es)
  | sv :: ls' => match as_index sv with
                 | Some z => body z (tseed body ls' es) | None => ([], EErr) end
  end.

(* The denotation.  [k] is a budget: nesting depth still explored, number of items an
   embedding pattern may embed, and the known length of a constant stream; when it runs
   out the trace ends with EMore (a sound "at least these values"). *)
Fixpoint den (k : nat) (m : mode) (p : pat) {struct k} : trace :=
  match k with
  | O => ([], EMore)
  | S k' =>
    let d := den k' in
    match p with
    | PVal v => match m with Emb => ([v], EStop) | Str => (repeat v k', EMore) end
    | Pseq _ _ _ | Pser _ _ _ | Pn _ _ | Place _ _ _ => temb (item_at p) (d Emb) k' 0
    | Plen q n => let t := d Str q in tlen (Z.to_nat n) (fst t) (snd t)
    | Pdrop q n => let t := d Str q in tdrop (Z.to_nat n) (fst t) (snd t)
    | Pstutter q n => let t := d Str q in let tn := d Str n in tstut (fst t) (snd t) (fst tn) (snd tn)
    | Pclump q n => let t := d Str q in let tn := d Str n in tclump (fst tn) (snd tn) (fst t) (snd t)
    | Pflatten q n => let t := d Str q in let tn := d Str n in tflat (fst tn) (snd tn) (fst t) (snd t)
    | Pdiff q => let t := d Str q in tdiff (fst t) (snd t)
    | Pconst q sum tol => let t := d Str q in tconst sum tol (I 0) (fst t) (snd t)
    | Pfun kd f q => let t := d Str q in tfun kd f (fst t) (snd t)
    | Pwrap q lo hi => let t := d Str q in let tl := d Str lo in let th := d Str hi in
                       twrap (fst t) (snd t) (fst tl) (snd tl) (fst th) (snd th)
    | Punop o q => let t := d Str q in tun o (fst t) (snd t)
    | Pbinop o a b => let ta := d Str a in let tb := d Str b in tbin o (fst ta) (snd ta) (fst tb) (snd tb)
    | Pnarop o a b c => let ta := d Str a in let tb := d Str b in let tc := d Str c in
                        tnar o (fst ta) (snd ta) (fst tb) (snd tb) (fst tc) (snd tc)
    | Pif c t e => let tc := d Str c in let tt := d Str t in let te := d Str e in
                   tif (fst tc) (snd tc) (fst tt) (snd tt) (fst te) (snd te)
    | Pseries st step len => let t := d Str step in tseries false st (cnt_of len) (fst t) (snd t)
    | Pgeom st grow len => let t := d Str grow in tseries true st (cnt_of len) (fst t) (snd t)
    | Pswitch l w => let tw := d Str w in tswitch (d Emb) l (fst tw) (snd tw)
    | Pswitch1 l w => let tw := d Str w in tsw1 (map (d Str) l) (fst tw) (snd tw)
    | Ptuple l r => match l with [] => ([], EErr) | _ => trep k' r 0 (trows k' (map (d Str) l)) end
    | Pslide l len step start w r =>
        match l with
        | [] => ([], EErr)
        | _ => let tl := d Str len in let ts := d Str step in
               tslide (d Emb) l w (cnt_of r) (I start) (fst tl) (snd tl) (fst ts) (snd ts) end
    | PseedRand sd l r =>
        let t := d Str sd in
        tseed (fun z K => match l with [] => ([], EErr) | _ => trand (d Emb) 0 (Z.of_nat (length l)) l z (cnt_of r) [] k' K end) (fst t) (snd t)
    | PseedXrand sd l r =>
        let t := d Str sd in
        tseed (fun z K => match l with
                          | [] => ([], EErr)
                          | _ => txrand (d Emb) l z (rnd z [] 0%Z (Z.of_nat (length l))) (cnt_of r) [(0, Z.of_nat (length l))%Z] k' K end)
              (fst t) (snd t)
    | PseedWhite sd lo hi len =>
        let t := d Str sd in let tl := d Str lo in let th := d Str hi in
        tseed (fun z K => twhite z (cnt_of len) [] (fst tl) (snd tl) (fst th) (snd th) K) (fst t) (snd t)
    | PseedWrand sd l nw r =>
        let t := d Str sd in
        tseed (fun z K => match l with [] => ([], EErr) | _ => trand (d Emb) (-1) (Z.of_nat nw) l z (cnt_of r) [] k' K end)
              (fst t) (snd t)
    end
  end.
End Oracle.

(* --------------------------------------- comparison with the implementation *)
Definition num_eqb (a b : num) : bool :=
  match a, b with
  | I x, I y => (x =? y)%Z
  | F x, F y => Qeq_bool x y
  | _, _ => false
  end.
Fixpoint val_eqb (a b : val) {struct a} : bool :=
  let fix leq (l1 l2 : list val) {struct l1} : bool :=
    match l1, l2 with
    | [], [] => true
    | x :: r1, y :: r2 => val_eqb x y && leq r1 r2
    | _, _ => false
    end in
  match a, b with
  | VN x, VN y => num_eqb x y
  | VB x, VB y => Bool.eqb x y
  | VL x, VL y => leq x y
  | VT x, VT y => leq x y
  | VNone, VNone => true
  | _, _ => false
  end.
Fixpoint vals_eqb (l1 l2 : list val) : bool :=
  match l1, l2 with
  | [], [] => true
  | x :: r1, y :: r2 => val_eqb x y && vals_eqb r1 r2
  | _, _ => false
  end.
Definition rend_code (e : rend) : nat := match e with RStop => 0 | RErr => 1 | RMore => 2 | RFuel => 3 end.
Definition res_eqb (a : list val * rend) (b : list val * nat) : bool :=
  vals_eqb (fst a) (fst b) && Nat.eqb (rend_code (snd a)) (snd b).
(* output of two interleaved streams of ONE pattern under a schedule, as lists *)
Definition run2 (rnd : Z -> hist -> Z -> Z -> Z) (sched : list bool) (p : pat) : list val * list val :=
  let '((l1, _), (l2, _)) := isteps rnd sched (init Str p) (init Str p) in (l1, l2).
(* oracle from a table of recorded draws (seed, earlier calls, start, stop, result) *)
Fixpoint hist_eqb (a b : hist) : bool :=
  match a, b with
  | [], [] => true
  | (x1, y1) :: r1, (x2, y2) :: r2 => ((x1 =? x2) && (y1 =? y2))%Z && hist_eqb r1 r2
  | _, _ => false
  end.
Definition mk_rnd (tbl : list (Z * hist * Z * Z * Z)) : Z -> hist -> Z -> Z -> Z :=
  fun z h a b =>
    match find (fun e => let '(z', h', a', b', _) := e in
                         ((z' =? z) && (a' =? a) && (b' =? b))%Z && hist_eqb h' h) tbl with
    | Some (_, _, _, _, r) => r
    | None => (-999999)%Z
    end.
Definition no_rnd : Z -> hist -> Z -> Z -> Z := fun _ _ _ _ => 0%Z.

(* ------------------------------------------------ finite patterns (syntactic) *)
(* nvb p: p is a pattern object, not a plain value.  finp p: every repeat count is finite and
   every group of sub-streams pulled together contains a finite pattern (plain values are
   allowed next to it), so that p ends after finitely many values whatever the values are. *)
Definition nvb (p : pat) : bool := match p with PVal _ => false | _ => true end.
Definition isfin (r : reps) : bool := match r with Fin _ => true | Inf => false end.
Definition pos_count (p : pat) : bool :=
  match p with
  | PVal v => match as_int v with Some z => (0 <? z)%Z | None => true end
  | _ => true
  end.
Fixpoint finp (p : pat) : bool :=
  match p with
  | PVal _ => true
  | Pseq l r _ | Pser l r _ => isfin r && forallb finp l
  | Pn q r => isfin r && finp q
  | Place l r _ => isfin r && forallb (forallb finp) l
  | Plen q _ => finp q
  | Pdrop q _ | Pdiff q | Pconst q _ _ | Pfun _ _ q | Punop _ q => nvb q && finp q
  | Pstutter q n | Pflatten q n => finp q && finp n && (nvb q || nvb n)
  | Pclump q n => finp q && finp n && (nvb q || nvb n) && pos_count n
  | Pwrap a b c | Pnarop _ a b c => finp a && finp b && finp c && (nvb a || nvb b || nvb c)
  | Pbinop _ a b => finp a && finp b && (nvb a || nvb b)
  | Pif c t e => nvb c && finp c && finp t && finp e
  | Pseries _ st len | Pgeom _ st len => finp st && (isfin len || nvb st)
  | Pswitch l w | Pswitch1 l w => nvb w && finp w && forallb finp l
  | Ptuple l r => isfin r && forallb finp l && existsb nvb l
  | Pslide l len step _ _ r => forallb finp l && finp len && finp step && (isfin r || nvb len || nvb step)
  | PseedRand sd l r | PseedXrand sd l r | PseedWrand sd l _ r => nvb sd && finp sd && isfin r && forallb finp l
  | PseedWhite sd lo hi len => nvb sd && finp sd && finp lo && finp hi && (isfin len || nvb lo || nvb hi)
  end.
