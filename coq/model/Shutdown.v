(* Shutdown -- executable model of Process._shutdown (sc3/base/main.py), the user of the exit-action
   queue main._atexitq:

       while not cls._atexitq.empty():
           with cls._main_lock:
               cls._atexitq.pop()[1]()

   An exit action is a task of the TaskQueue model; what the k-th action that runs does to the queue
   (register, move = re-add, unregister other actions; look at the queue) is the k-th list of queue
   operations [chunks] -- universally quantified in the theorems, scripted in the correspondence.
   Definitions only. *)
From Coq Require Import QArith ZArith List Bool Arith.
Import ListNotations.
Require Import SC3.model.TaskQ.
Local Open Scope nat_scope.

Fixpoint shutdown (fuel : nat) (chunks : list (list op)) (q : tq) : tq * list out * bool :=
  match fuel with
  | 0 => (q, [], false)                                  (* out of fuel: never with [shutdown_fuel] *)
  | S f =>
      if tq_empty q then (q, [], true)                   (* while not cls._atexitq.empty(): *)
      else
        let '(q1, r) := tq_pop q in                      (*     cls._atexitq.pop()[1]()    *)
        match r with
        | RItem p t =>
            let q2 := fst (run (hd [] chunks) q1) in     (* the action runs and may touch the queue *)
            let '(q3, log, fin) := shutdown f (tl chunks) q2 in
            (q3, RItem p t :: log, fin)
        | _ => (q1, [r], false)                          (* pop raised although not empty() *)
        end
  end.

(* what an exit action may do to the queue while it runs *)
Definition regop (o : op) : bool :=
  match o with
  | OAdd _ _ | ORemove _ | OPeek _ | OEmpty | OIter => true
  | OPop | OClear => false
  end.

Definition count_adds (ops : list op) : nat :=
  length (filter (fun o => match o with OAdd _ _ => true | _ => false end) ops).
Definition adds_in (chunks : list (list op)) : nat := fold_right (fun c n => count_adds c + n) 0 chunks.

(* enough iterations: everything queued now plus everything that can still be registered *)
Definition shutdown_fuel (chunks : list (list op)) (q : tq) : nat := S (length (tq_iter q) + adds_in chunks).

Definition ran (log : list out) : list task :=
  flat_map (fun o => match o with RItem _ t => [t] | _ => [] end) log.

(* correspondence: registrations before shutdown, scripted actions, the order in which the actions ran *)
Definition shutdown_case_ok (c : list op * list (list op) * list Z * bool) : bool :=
  let '(init, chunks, order, empty_after) := c in
  let q0 := fst (run init tq_init) in
  let '(q1, log, fin) := shutdown (shutdown_fuel chunks q0) chunks q0 in
  fin && list_eqb Z.eqb (ran log) order && Bool.eqb (tq_empty q1) empty_after.
