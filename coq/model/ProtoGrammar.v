(* C17 -- part (a): the SuperCollider Server Command Reference as an executable grammar.

   TRUSTED TRANSCRIPTION (from the "Server Command Reference" help file of SuperCollider 3.x).
   A wire message is an address and a list of tagged arguments as they appear after OSC
   encoding: int32, float32 (exact rational), string, blob (opaque bytes, or a nested
   completion message), the array markers '[' ']', anything else (T F N m d h ...).

   Deliberate leniencies, all stated here because they are part of the trusted reading:
   - the optional completion message may be absent, a blob, or the int 0 (the placeholder
     sclang itself sends for a nil completion message; scsynth ignores a non-blob there);
   - a control value (/s_new, /n_set) is an int, a float, a bus-mapping string "cN"/"aN", or a
     bracketed array of those, arrays may nest (sclang's asOSCArgEmbeddedArray nests too);
   - flags must be 0 or 1, add actions 0..4; every other int field is any int32.

   No proofs in this file. *)
From Coq Require Import ZArith QArith List String Bool Ascii.
Import ListNotations.
Open Scope string_scope.
Open Scope Z_scope.
Open Scope list_scope.

Inductive arg : Type :=
| AInt (z : Z)
| AFlt (q : Q)
| AStr (s : string)
| ABytes (n : Z)                          (* opaque blob of n bytes *)
| AOpen
| AClose
| AMsg (addr : string) (args : list arg)  (* blob holding an OSC message *)
| AOther (tag : string).

Definition msg : Type := (string * list arg)%type.

(* kinds of server-side ids a field can carry *)
Inductive idk := KNode | KBuf | KBus.
Definition idk_eqb (a b : idk) : bool :=
  match a, b with KNode, KNode | KBuf, KBuf | KBus, KBus => true | _, _ => false end.

Inductive ty :=
| TInt | TFlag | TAct | TNum | TStr | TCtl | TVal | TNumStr | TBytes
| TNode            (* node id *)
| TNodeNew         (* node id of a new node; may be -1 = server generated *)
| TBuf             (* buffer number *)
| TBus             (* control bus index *)
| TBusM.           (* bus index in a mapping command; may be -1 = unmap *)

Definition digit (c : ascii) : bool :=
  let n := nat_of_ascii c in (Nat.leb 48 n) && (Nat.leb n 57).
Fixpoint all_digits (s : string) : bool :=
  match s with EmptyString => true | String c r => digit c && all_digits r end.
Definition is_map_sym (s : string) : bool :=
  match s with
  | String c (String d r) => (Ascii.eqb c "c"%char || Ascii.eqb c "a"%char) && digit d && all_digits r
  | _ => false
  end.

(* elements up to the bracket that closes an already opened array *)
Fixpoint close_array (l : list arg) (depth : nat) : option (list arg) :=
  match l with
  | [] => None
  | AClose :: t => match depth with O => Some t | S d => close_array t d end
  | AOpen :: t => close_array t (S depth)
  | AInt _ :: t => close_array t depth
  | AFlt _ :: t => close_array t depth
  | AStr _ :: t => close_array t depth
  | _ => None
  end.

Definition ids := list (idk * Z).

(* consume one field of type t; returns the ids it mentions and the rest *)
Definition eat (t : ty) (l : list arg) : option (ids * list arg) :=
  match l with
  | [] => None
  | a :: r =>
    match t, a with
    | TInt, AInt _ => Some ([], r)
    | TFlag, AInt z => if (z =? 0) || (z =? 1) then Some ([], r) else None
    | TAct, AInt z => if (0 <=? z) && (z <=? 4) then Some ([], r) else None
    | TNum, AInt _ => Some ([], r)
    | TNum, AFlt _ => Some ([], r)
    | TStr, AStr _ => Some ([], r)
    | TCtl, AInt _ => Some ([], r)
    | TCtl, AStr _ => Some ([], r)
    | TVal, AInt _ => Some ([], r)
    | TVal, AFlt _ => Some ([], r)
    | TVal, AStr s => if is_map_sym s then Some ([], r) else None
    | TVal, AOpen => match close_array r 0 with Some r' => Some ([], r') | None => None end
    | TNumStr, AInt _ => Some ([], r)
    | TNumStr, AFlt _ => Some ([], r)
    | TNumStr, AStr _ => Some ([], r)
    | TBytes, ABytes _ => Some ([], r)
    | TNode, AInt z => Some ([(KNode, z)], r)
    | TNodeNew, AInt z => Some ([(KNode, z)], r)
    | TBuf, AInt z => Some ([(KBuf, z)], r)
    | TBus, AInt z => Some ([(KBus, z)], r)
    | TBusM, AInt z => Some ([(KBus, z)], r)
    | _, _ => None
    end
  end.

Fixpoint eat_seq (ts : list ty) (l : list arg) : option (ids * list arg) :=
  match ts with
  | [] => Some ([], l)
  | t :: ts' =>
    match eat t l with
    | Some (i, r) => match eat_seq ts' r with Some (j, r') => Some (i ++ j, r') | None => None end
    | None => None
    end
  end.

(* zero or more groups g, consuming everything *)
Fixpoint eat_groups (fuel : nat) (g : list ty) (l : list arg) : option ids :=
  match l with
  | [] => Some []
  | _ =>
    match fuel with
    | O => None
    | S f =>
      match eat_seq g l with
      | Some (i, r) => match eat_groups f g r with Some j => Some (i ++ j) | None => None end
      | None => None
      end
    end
  end.

Fixpoint eat_n (v : ty) (n : nat) (l : list arg) : option (ids * list arg) :=
  match n with
  | O => Some ([], l)
  | S k => match eat v l with
           | Some (i, r) => match eat_n v k r with Some (j, r') => Some (i ++ j, r') | None => None end
           | None => None
           end
  end.

(* key N value*N *)
Definition eat_counted (k v : ty) (l : list arg) : option (ids * list arg) :=
  match eat k l with
  | Some (i, AInt n :: r) =>
    if (0 <=? n) && (n <=? Z.of_nat (List.length r))
    then match eat_n v (Z.to_nat n) r with Some (j, r') => Some (i ++ j, r') | None => None end
    else None
  | _ => None
  end.

Fixpoint eat_cgroups (fuel : nat) (k v : ty) (l : list arg) : option ids :=
  match l with
  | [] => Some []
  | _ =>
    match fuel with
    | O => None
    | S f =>
      match eat_counted k v l with
      | Some (i, r) => match eat_cgroups f k v r with Some j => Some (i ++ j) | None => None end
      | None => None
      end
    end
  end.

Inductive rep :=
| RNone
| RGroup (g : list ty) (min1 : bool)
| RCounted (k v : ty).

Record sig := mkSig { s_fixed : list ty; s_rep : rep; s_compl : bool }.

Definition nonempty {A} (l : list A) : bool := match l with [] => false | _ => true end.

Definition rep_ids (rp : rep) (r : list arg) : option ids :=
  match rp with
  | RNone => match r with [] => Some [] | _ => None end
  | RGroup g m => if negb m || nonempty r then eat_groups (List.length r) g r else None
  | RCounted k v => if nonempty r then eat_cgroups (List.length r) k v r else None
  end.

Definition compl_ok (a : arg) : bool :=
  match a with
  | AMsg _ _ => true
  | ABytes _ => true
  | AInt z => z =? 0
  | _ => false
  end.

Definition split_last (l : list arg) : option (list arg * arg) :=
  match rev l with [] => None | c :: r => Some (rev r, c) end.

(* ids mentioned by the fields of a message with signature sg (None = does not conform) *)
Definition shape_ids (sg : sig) (l : list arg) : option ids :=
  match eat_seq (s_fixed sg) l with
  | None => None
  | Some (i, r) =>
    match rep_ids (s_rep sg) r with
    | Some j => Some (i ++ j)
    | None =>
      if s_compl sg then
        match split_last r with
        | Some (r', c) =>
          if compl_ok c then match rep_ids (s_rep sg) r' with Some j => Some (i ++ j) | None => None end
          else None
        | None => None
        end
      else None
    end
  end.

Definition S0 (f : list ty) := mkSig f RNone false.
Definition SC (f : list ty) := mkSig f RNone true.
Definition SG (f g : list ty) := mkSig f (RGroup g true) false.
Definition SG0 (f g : list ty) := mkSig f (RGroup g false) false.

Definition sigs : list (string * sig) :=
  [ ("/s_new", SG0 [TStr; TNodeNew; TAct; TNode] [TCtl; TVal]);
    ("/g_new", SG [] [TNodeNew; TAct; TNode]);
    ("/p_new", SG [] [TNodeNew; TAct; TNode]);
    ("/n_free", SG [] [TNode]);
    ("/n_trace", SG [] [TNode]);
    ("/n_query", SG [] [TNode]);
    ("/g_freeAll", SG [] [TNode]);
    ("/g_deepFree", SG [] [TNode]);
    ("/s_noid", SG [] [TNode]);
    ("/n_run", SG [] [TNode; TFlag]);
    ("/g_dumpTree", SG [] [TNode; TFlag]);
    ("/g_queryTree", SG [] [TNode; TFlag]);
    ("/n_set", SG [TNode] [TCtl; TVal]);
    ("/n_setn", mkSig [TNode] (RCounted TCtl TNum) false);
    ("/n_fill", SG [TNode] [TCtl; TInt; TNum]);
    ("/n_map", SG [TNode] [TCtl; TBusM]);
    ("/n_mapa", SG [TNode] [TCtl; TBusM]);
    ("/n_mapn", SG [TNode] [TCtl; TBusM; TInt]);
    ("/n_mapan", SG [TNode] [TCtl; TBusM; TInt]);
    ("/n_before", SG [] [TNode; TNode]);
    ("/n_after", SG [] [TNode; TNode]);
    ("/g_head", SG [] [TNode; TNode]);
    ("/g_tail", SG [] [TNode; TNode]);
    ("/n_order", SG [TAct; TNode] [TNode]);
    ("/s_get", SG [TNode] [TCtl]);
    ("/s_getn", SG [TNode] [TCtl; TInt]);
    ("/b_alloc", SC [TBuf; TInt; TInt]);
    ("/b_allocRead", SC [TBuf; TStr; TInt; TInt]);
    ("/b_allocReadChannel", mkSig [TBuf; TStr; TInt; TInt] (RGroup [TInt] false) true);
    ("/b_read", SC [TBuf; TStr; TInt; TInt; TInt; TFlag]);
    ("/b_readChannel", mkSig [TBuf; TStr; TInt; TInt; TInt; TFlag] (RGroup [TInt] false) true);
    ("/b_write", SC [TBuf; TStr; TStr; TStr; TInt; TInt; TFlag]);
    ("/b_free", SC [TBuf]);
    ("/b_zero", SC [TBuf]);
    ("/b_close", SC [TBuf]);
    ("/b_set", SG [TBuf] [TInt; TNum]);
    ("/b_setn", mkSig [TBuf] (RCounted TInt TNum) false);
    ("/b_fill", SG [TBuf] [TInt; TInt; TNum]);
    ("/b_gen", SG0 [TBuf; TStr] [TNumStr]);
    ("/b_query", SG [] [TBuf]);
    ("/b_get", SG [TBuf] [TInt]);
    ("/b_getn", SG [TBuf] [TInt; TInt]);
    ("/c_set", SG [] [TBus; TNum]);
    ("/c_setn", mkSig [] (RCounted TBus TNum) false);
    ("/c_fill", SG [] [TBus; TInt; TNum]);
    ("/c_get", SG [] [TBus]);
    ("/c_getn", SG [] [TBus; TInt]);
    ("/d_recv", SC [TBytes]);
    ("/d_load", SC [TStr]);
    ("/d_loadDir", SC [TStr]);
    ("/d_free", SG [] [TStr]);
    ("/sync", S0 [TInt]);
    ("/status", S0 []);
    ("/quit", S0 []);
    ("/clearSched", S0 []);
    ("/version", S0 []);
    ("/rtMemoryStatus", S0 []);
    ("/nrt_end", S0 []);
    ("/notify", SG0 [TFlag] [TInt]);
    ("/dumpOSC", S0 [TInt]);
    ("/error", S0 [TInt]);
    ("/u_cmd", SG0 [TNode; TInt; TStr] [TNumStr]);
    ("/cmd", SG0 [TStr] [TNumStr]) ].

Fixpoint lookup {A} (k : string) (l : list (string * A)) : option A :=
  match l with
  | [] => None
  | (k', v) :: t => if String.eqb k k' then Some v else lookup k t
  end.

Definition sig_of (addr : string) : option sig := lookup addr sigs.

Definition shape_ok (addr : string) (l : list arg) : bool :=
  match sig_of addr with
  | Some sg => match shape_ids sg l with Some _ => true | None => false end
  | None => false
  end.

(* a message conforms when its own fields match the signature of its command and every nested
   (completion) message conforms as well *)
Fixpoint arg_conf (a : arg) : bool :=
  match a with
  | AMsg s l =>
    shape_ok s l &&
    (fix all (l : list arg) : bool := match l with [] => true | x :: t => arg_conf x && all t end) l
  | _ => true
  end.

Definition conforms (m : msg) : bool := arg_conf (AMsg (fst m) (snd m)).

(* every server-side id mentioned by a message, nested completion messages included
   ([] for a message that does not conform); the reference's placeholder -1 (server generated
   node id, unmap) is returned like any other number: props/C17.v treats -1 as a constant *)
Fixpoint arg_ids (a : arg) : ids :=
  match a with
  | AMsg s l =>
    (match sig_of s with
     | Some sg => match shape_ids sg l with Some i => i | None => [] end
     | None => []
     end) ++
    (fix all (l : list arg) : ids := match l with [] => [] | x :: t => arg_ids x ++ all t end) l
  | _ => []
  end.

Definition msg_ids (m : msg) : ids := arg_ids (AMsg (fst m) (snd m)).

(* boolean equality of wire messages (floats compared as rationals) *)
Fixpoint arg_eqb (a b : arg) : bool :=
  match a, b with
  | AInt x, AInt y => x =? y
  | AFlt x, AFlt y => Qeq_bool x y
  | AStr x, AStr y => String.eqb x y
  | ABytes x, ABytes y => x =? y
  | AOpen, AOpen => true
  | AClose, AClose => true
  | AOther x, AOther y => String.eqb x y
  | AMsg s l, AMsg s' l' =>
    String.eqb s s' &&
    (fix eqs (l l' : list arg) : bool :=
       match l, l' with
       | [], [] => true
       | x :: t, y :: t' => arg_eqb x y && eqs t t'
       | _, _ => false
       end) l l'
  | _, _ => false
  end.

Definition msg_eqb (m m' : msg) : bool := arg_eqb (AMsg (fst m) (snd m)) (AMsg (fst m') (snd m')).
