(* KRand -- the script language of KProg extended with what property C10 quantifies over:
   routine random generators (sc3/base/stream.py TimeThread.__init__/_rgen/rand_seed, sc3/base/main.py
   Process._rgen, sc3/base/builtins.py rand/rrand/choice... which draw from main._rgen = the CURRENT
   routine's generator object), Condition.wait/signal/test, FlowVar.value (get/set), Routine.pause/resume.
   One segment executor (xrun) shared by the non-real-time and the real-time semantics through the
   parameter rt : option Z, exactly as KNrt.run_acts; the clock/score/stamping kernels are those of
   KProg/KNrt (the inner nstate is reused: queue, tempo maps, main time, score, event log).
   Only the behaviour of the repaired code (HEAD of /repo) is modelled here.   Definitions only.

   Random generators.  A generator OBJECT is (seed, requests served so far).  Python's random.Random is
   a deterministic function of its seed and of the sequence of calls made on it, and nothing else is
   assumed: gen seed history request = the value returned by the request (a builtin random function
   call) when `history` are the requests served before on that object.  Every theorem quantifies over
   gen.  The simple reading "k-th draw = g seed k" is the instance gen s h _ := g s (length h).
     - Routine(...)  (TimeThread.__init__):  self._rgen = main.current_tt._rgen  -- the child POINTS TO
       the generator object of the thread that constructs it (shared, not copied);
     - rout.rand_seed = s:  self._rgen = random.Random(s)  -- a NEW object; routines constructed before
       keep pointing to the old one;
     - bi.rand(...) etc.:  main._rgen = main.current_tt._rgen. *)
From Coq Require Import ZArith QArith Qround List Bool.
Require Import SC3.model.KProg SC3.model.KNrt SC3.model.KRt.
Import ListNotations.
Open Scope Q_scope.

Inductive xact :=
| XYield (d : Q)                              (* yield d *)
| XSend (lat : option Q) (es : list elem)     (* addr.send_bundle(lat, *es) *)
| XPlay (b : nat) (c : clockid)               (* Routine(body b).play(c, 0) *)
| XFork (b : nat)                             (* Routine(body b).play(None, 0): the current routine's clock *)
| XSetTempo (i : nat) (v : Q)                 (* tempoclocks[i].tempo = v *)
| XSetBeats (i : nat) (v : Q)                 (* tempoclocks[i].beats = v  (the documented setter) *)
| XSeed (s : Z)                               (* rout.rand_seed = s *)
| XDraw (req : Z)                             (* log(request number req evaluated: bi.rand(n), bi.rrand(a, b), bi.choice(l)...) *)
| XWait (c : nat)                             (* yield from conds[c].wait() *)
| XSignal (c : nat)                           (* conds[c].signal() *)
| XSetTest (c : nat) (t : bool)               (* conds[c].test = t *)
| XFlowGet (f : nat)                          (* v = yield from flows[f].value; log(v) *)
| XFlowRead (f : nat)                         (* internal: the continuation of XFlowGet (return self._value; log) *)
| XFlowSet (f : nat) (v : Z)                  (* flows[f].value = v *)
| XPause (b : nat)                            (* (latest instance of body b).pause() *)
| XResume (b : nat)                           (* (latest instance of body b).resume(None, 0) *)
| XHang                                       (* yield v, v = inf, nan or not a number (None, True, False, '', [], ()): the clocks of
                                                 both modes do not re-schedule the routine ("inf = never"; the non-real-time
                                                 ClockTask as released re-queued inf at time inf: repaired by /repo 1b31254) *)
| XReturn.

Record xprog := mkXP {
  xp_tempos : list Q;            (* TempoClock(tempo) created by the root routine when it starts *)
  xp_bodies : list (list xact);  (* body 0 is the root: Routine(body 0).play(SystemClock) is the whole program *)
  xp_nconds : nat;               (* Condition() objects, test False *)
  xp_nflows : nat;               (* FlowVar() objects *)
  xp_mseed : Z;                  (* the seed of the main thread's generator main._m_rgen (unknown to the program) *)
  xp_tail : Q
}.

Inductive rstat := RSusp | RPaused | RDone.

(* routine instance *)
Record xrout := mkXR { xr_body : nat; xr_rest : list xact; xr_clock : clockid; xr_k : nat; xr_st : rstat; xr_gen : nat }.

(* values a run logs besides bundles *)
Inductive vevent :=
| VDraw (rid k g : nat) (req v : Z)            (* routine rid, resumption k, generator object g *)
| VFlow (rid k f : nat) (v : option Z).        (* value read from flow variable f (None = still unbound) *)

Record xstate := mkX {
  x_n : nstate;                         (* queue, tempo maps, main time, score, event log (n_routs unused) *)
  x_routs : list xrout;
  x_gens : list (Z * list Z);           (* generator objects: seed, requests served (oldest first) *)
  x_conds : list (bool * list nat);     (* Condition: _test, _waiting_threads (routine instances) *)
  x_flows : list (option Z * list nat); (* FlowVar: _value (None = _UNBOUND), condition._waiting_threads *)
  x_vals : list vevent                  (* newest first *)
}.

Definition set_n st n := mkX n (x_routs st) (x_gens st) (x_conds st) (x_flows st) (x_vals st).
Definition set_xrouts st r := mkX (x_n st) r (x_gens st) (x_conds st) (x_flows st) (x_vals st).
Definition set_gens st g := mkX (x_n st) (x_routs st) g (x_conds st) (x_flows st) (x_vals st).
Definition set_conds st c := mkX (x_n st) (x_routs st) (x_gens st) c (x_flows st) (x_vals st).
Definition set_flows st f := mkX (x_n st) (x_routs st) (x_gens st) (x_conds st) f (x_vals st).
Definition add_val st v := mkX (x_n st) (x_routs st) (x_gens st) (x_conds st) (x_flows st) (v :: x_vals st).

Inductive xoutcome := XOYield (d : Q) (rest : list xact) | XOHang (rest : list xact) | XODone | XORaise.

(* the latest instance of body b *)
Fixpoint latest_from (b : nat) (routs : list xrout) (i : nat) (acc : option nat) : option nat :=
  match routs with
  | [] => acc
  | r :: rest => latest_from b rest (S i) (if Nat.eqb (xr_body r) b then Some i else acc)
  end.
Definition latest (b : nat) (routs : list xrout) : option nat := latest_from b routs 0 None.

Definition upd_rout (st : xstate) (rid : nat) (f : xrout -> xrout) : xstate :=
  match nth_error (x_routs st) rid with
  | Some r => set_xrouts st (set_nth (x_routs st) rid (f r))
  | None => st
  end.
Definition with_st (s : rstat) (r : xrout) := mkXR (xr_body r) (xr_rest r) (xr_clock r) (xr_k r) s (xr_gen r).
Definition with_gen (g : nat) (r : xrout) := mkXR (xr_body r) (xr_rest r) (xr_clock r) (xr_k r) (xr_st r) g.
Definition with_rest (rest : list xact) (k : nat) (s : rstat) (r : xrout) := mkXR (xr_body r) rest (xr_clock r) k s (xr_gen r).

(* One pending wake-up per routine and clock.  In real time the clocks' TaskQueue.add "adds a new task or
   updates the prio of an existing task": scheduling a routine that is already in the queue of that clock
   REPLACES its entry.  In non-real-time mode every sched() wraps the routine in a new ClockTask, so the
   code as found (dd = false) keeps both entries and the routine is woken twice; the repaired code
   (dd = true, build/proposed_fixes/C10_nrt_one_pending_wakeup.diff) replaces as the real-time clocks do. *)
Definition dedup_q (c : clockid) (rid : nat) (q : list entry) : list entry :=
  filter (fun e => negb (is_clock c e && Nat.eqb (e_rid e) rid)) q.
Definition xpush (dd : bool) (n : nstate) (t : Q) (c : clockid) (rid : nat) (b : Q) : nstate :=
  push (if dd then set_q n (dedup_q c rid (n_q n)) else n) t c rid b.
(* clock.sched(0, routine) / clock.play(routine, 0) at logical time T (KNrt.nrt_sched_play, repaired code) *)
Definition x_sched_play (dd : bool) (rt : option Z) (n : nstate) (T : Q) (c : clockid) (rid : nat) : nstate :=
  let tcs := n_tcs n in
  let beat := match c with CTempo _ => s2b tcs c T + 0 | _ => T + 0 end in
  match rt with
  | None => xpush dd n (b2s tcs c beat) c rid beat
  | Some _ => xpush true n beat c rid beat
  end.

(* tt._clock.sched(0, tt) / clock.play(tt, 0) for an existing routine instance w, called at logical time T *)
Definition x_sched (dd : bool) (rt : option Z) (st : xstate) (T : Q) (w : nat) : xstate :=
  match nth_error (x_routs st) w with
  | Some r => set_n st (x_sched_play dd rt (x_n st) T (xr_clock r) w)
  | None => st
  end.
Definition x_sched_all (dd : bool) (rt : option Z) (st : xstate) (T : Q) (ws : list nat) : xstate :=
  fold_left (fun s w => x_sched dd rt s T w) ws st.

Section Exec.
  Context (gen : Z -> list Z -> Z -> Z).
  Context (dd : bool) (rt : option Z) (p : xprog).

  Definition x_send (st : xstate) (rid k : nat) (T : Q) (lat : option Q) (es : list elem) : xstate * bool :=
    let r := nrt_send rt (x_n st) (Some (rid, k)) T lat es in (set_n st (fst r), snd r).

  (* Routine(body b) constructed by routine rid (it takes rid's generator object), then .play(c, 0) *)
  Definition x_play (st : xstate) (rid k : nat) (T : Q) (b : nat) (c : clockid) : xstate * bool :=
    match nth_error (xp_bodies p) b with
    | None => (st, false)
    | Some body =>
        if clock_ok (n_tcs (x_n st)) c && clock_ok_mode rt c then
          let child := length (x_routs st) in
          let g := match nth_error (x_routs st) rid with Some r => xr_gen r | None => 0%nat end in
          let st1 := set_xrouts st (x_routs st ++ [mkXR b body c 0 RSusp g]) in
          (set_n st1 (x_sched_play dd rt (add_log (x_n st1) (EvPlay (Some (rid, k)) child c T)) T c child), true)
        else (st, false)
    end.

  Definition x_tempo (st : xstate) (rid k : nat) (T : Q) (i : nat) (v : Q) : xstate * bool :=
    let r := nrt_set_tempo rt repaired (x_n st) (Some (rid, k)) T i v in (set_n st (fst r), snd r).

  (* TempoClock.beats setter at logical time T: the clock counts v at T from now on (tempo unchanged); the non-real-time
     scheduler re-times the clock's pending tasks (they keep their beats), the real-time queue holds beats: nothing moves.
     Logged as EvTempo with index 1000 + i.  A routine that sets the beats of its own clock inside its wake-up is
     re-scheduled from the beat it was AWAKEN at in both modes (ClockTask._wakeup: beats computed before the call;
     TempoClock._run: self._beats + delta). *)
  Definition tc_set_beats (t : tclock) (T v : Q) : tclock :=
    mkT (t_tempo t) (Qred (1 / t_tempo t)) (Qred T) (Qred v).
  Definition x_setbeats (st : xstate) (rid k : nat) (T : Q) (i : nat) (v : Q) : xstate * bool :=
    let n := x_n st in
    match nth_error (n_tcs n) i with
    | None => (st, false)
    | Some t =>
        let n1 := set_tcs n (set_nth (n_tcs n) i (tc_set_beats t T v)) in
        let n2 := match rt with None => retime n1 i | Some _ => n1 end in
        (set_n st (add_log n2 (EvTempo (Some (rid, k)) (1000 + i) v true)), true)
    end.

  (* rout.rand_seed = s : a new generator object *)
  Definition x_seed (st : xstate) (rid : nat) (s : Z) : xstate * bool :=
    let g := length (x_gens st) in
    (upd_rout (set_gens st (x_gens st ++ [(s, [])])) rid (with_gen g), true).

  (* a builtin random function called by routine rid *)
  Definition x_draw (st : xstate) (rid k : nat) (req : Z) : xstate * bool :=
    match nth_error (x_routs st) rid with
    | None => (st, false)
    | Some r =>
        let g := xr_gen r in
        match nth_error (x_gens st) g with
        | None => (st, false)
        | Some (seed, hist) =>
            let v := gen seed hist req in
            (add_val (set_gens st (set_nth (x_gens st) g (seed, hist ++ [req]))) (VDraw rid k g req v), true)
        end
    end.

  (* Condition.signal() *)
  Definition x_signal (st : xstate) (T : Q) (c : nat) : xstate * bool :=
    match nth_error (x_conds st) c with
    | None => (st, false)
    | Some (test, ws) =>
        if test then (x_sched_all dd rt (set_conds st (set_nth (x_conds st) c (test, []))) T ws, true)
        else (st, true)
    end.
  Definition x_settest (st : xstate) (c : nat) (t : bool) : xstate * bool :=
    match nth_error (x_conds st) c with
    | None => (st, false)
    | Some (_, ws) => (set_conds st (set_nth (x_conds st) c (t, ws)), true)
    end.
  (* FlowVar.value = v *)
  Definition x_flowset (st : xstate) (T : Q) (f : nat) (v : Z) : xstate * bool :=
    match nth_error (x_flows st) f with
    | Some (None, ws) => (x_sched_all dd rt (set_flows st (set_nth (x_flows st) f (Some v, []))) T ws, true)
    | _ => (st, false)                           (* 'cannot rebind a FlowVar' *)
    end.
  Definition x_flowread (st : xstate) (rid k f : nat) : xstate * bool :=
    match nth_error (x_flows st) f with
    | Some (v, _) => (add_val st (VFlow rid k f v), true)
    | None => (st, false)
    end.
  (* Routine.pause() / Routine.resume(None, 0) on the latest instance of body b *)
  Definition x_pause (st : xstate) (rid b : nat) : xstate * bool :=
    match latest b (x_routs st) with
    | None => (st, true)
    | Some t =>
        if Nat.eqb t rid then (st, false)          (* 'cannot be paused within itself' *)
        else (upd_rout st t (fun r => match xr_st r with RSusp => with_st RPaused r | _ => r end), true)
    end.
  Definition x_resume (st : xstate) (rid : nat) (T : Q) (b : nat) : xstate * bool :=
    match latest b (x_routs st) with
    | None => (st, true)
    | Some t =>
        if Nat.eqb t rid then (st, true)            (* Running: not Paused, nothing happens *)
        else match nth_error (x_routs st) t with
             | Some r => match xr_st r with
                         | RPaused => (x_sched dd rt (upd_rout st t (with_st RSusp)) T t, true)
                         | _ => (st, true)
                         end
             | None => (st, true)
             end
    end.

  (* one segment of routine rid (its k-th resumption) at logical time T; cclk = its clock *)
  Fixpoint xrun (st : xstate) (rid k : nat) (T : Q) (cclk : clockid) (acts : list xact) {struct acts}
    : xstate * xoutcome :=
    let continue (r : xstate * bool) (rest : list xact) :=
        if snd r then xrun (fst r) rid k T cclk rest else (fst r, XORaise) in
    match acts with
    | [] => (st, XODone)
    | XReturn :: _ => (st, XODone)
    | XHang :: rest => (st, XOHang rest)
    | XYield d :: rest => (st, XOYield d rest)
    | XSend lat es :: rest => continue (x_send st rid k T lat es) rest
    | XPlay b c :: rest => continue (x_play st rid k T b c) rest
    | XFork b :: rest => continue (x_play st rid k T b cclk) rest
    | XSetTempo i v :: rest => continue (x_tempo st rid k T i v) rest
    | XSetBeats i v :: rest => continue (x_setbeats st rid k T i v) rest
    | XSeed s :: rest => continue (x_seed st rid s) rest
    | XDraw req :: rest => continue (x_draw st rid k req) rest
    | XWait c :: rest =>
        match nth_error (x_conds st) c with
        | None => (st, XORaise)
        | Some (test, ws) =>
            if test then (st, XOYield 0 rest)                                     (* yield 0 *)
            else (set_conds st (set_nth (x_conds st) c (test, ws ++ [rid])), XOHang rest)   (* yield 'hang' *)
        end
    | XSignal c :: rest => continue (x_signal st T c) rest
    | XSetTest c t :: rest => continue (x_settest st c t) rest
    | XFlowGet f :: rest =>
        match nth_error (x_flows st) f with
        | None => (st, XORaise)
        | Some (Some _, _) => (st, XOYield 0 (XFlowRead f :: rest))
        | Some (None, ws) => (set_flows st (set_nth (x_flows st) f (None, ws ++ [rid])), XOHang (XFlowRead f :: rest))
        end
    | XFlowRead f :: rest => continue (x_flowread st rid k f) rest
    | XFlowSet f v :: rest => continue (x_flowset st T f v) rest
    | XPause b :: rest => continue (x_pause st rid b) rest
    | XResume b :: rest => continue (x_resume st rid T b) rest
    end.

  (* what the clock does with the outcome of the segment (key = where a yield d re-schedules) *)
  Definition x_after (st2 : xstate) (oc : xoutcome) (rid k : nat) (c : clockid) (resched : xstate -> Q -> xstate) : xstate :=
    match oc with
    | XOYield d rest => resched (upd_rout st2 rid (with_rest rest (S k) RSusp)) d
    | XOHang rest => upd_rout st2 rid (with_rest rest (S k) RSusp)
    | XODone => let st3 := upd_rout st2 rid (with_rest [] (S k) RDone) in set_n st3 (add_log (x_n st3) (EvEnd rid k false))
    | XORaise => let st3 := upd_rout st2 rid (with_rest [] (S k) RDone) in set_n st3 (add_log (x_n st3) (EvEnd rid k true))
    end.
End Exec.

(* ---- non-real-time ---------------------------------------------------------------------------- *)
(* ClockTask._wakeup(time): a Paused routine raises PausedStream, a Done one StopStream: dropped *)
Definition xnrt_wake (gen : Z -> list Z -> Z -> Z) (dd : bool) (p : xprog) (st : xstate) (e : entry) : xstate :=
  let T := e_time e in
  let c := e_clock e in
  let rid := e_rid e in
  let n0 := set_mtime (x_n st) T in
  let beats := Qred (s2b (n_tcs n0) c T) in
  match nth_error (x_routs st) rid with
  | None => set_n st n0
  | Some r =>
      match xr_st r with
      | RSusp =>
          let k := xr_k r in
          let st1 := set_n st (add_log n0 (EvResume rid k c T beats)) in
          let '(st2, oc) := xrun gen dd None p st1 rid k T c (xr_rest r) in
          x_after st2 oc rid k c
            (fun s d => let nb := beats + d in set_n s (xpush dd (x_n s) (b2s (n_tcs (x_n s)) c nb) c rid nb))
      | _ => set_n st n0
      end
  end.

Fixpoint xnrt_loop (gen : Z -> list Z -> Z -> Z) (dd : bool) (p : xprog) (fuel : nat) (st : xstate) : xstate :=
  match fuel with
  | O => st
  | S f => match n_q (x_n st) with
           | [] => st
           | e :: rest => xnrt_loop gen dd p f (xnrt_wake gen dd p (set_n st (set_q (x_n st) rest)) e)
           end
  end.

(* the state after Routine(body 0).play(SystemClock) at logical time t0; the tempo clocks are created
   by the root when it starts, i.e. with base time t0 *)
Definition x_init (rt : option Z) (p : xprog) (t0 : Q) (n : nstate) : xstate :=
  let n1 := set_mtime (set_tcs n (map (fun t => tc_new t t0) (xp_tempos p))) t0 in
  match nth_error (xp_bodies p) 0 with
  | None => mkX n1 [] [(xp_mseed p, [])] (repeat (false, []) (xp_nconds p)) (repeat (None, []) (xp_nflows p)) []
  | Some body =>
      mkX (x_sched_play true rt (add_log n1 (EvPlay None 0 CSystem t0)) t0 CSystem 0)
          [mkXR 0 body CSystem 0 RSusp 0] [(xp_mseed p, [])]
          (repeat (false, []) (xp_nconds p)) (repeat (None, []) (xp_nflows p)) []
  end.

Definition xnrt_init (p : xprog) : xstate :=
  x_init None p 0 (score_add (mkN [] 0 [] [] 0 [] 0 [] false) 0 (SBundle false 0 0 [SMsg gnew_msg])).

(* main.process(tail) *)
Definition xnrt_run (gen : Z -> list Z -> Z -> Z) (dd : bool) (p : xprog) (fuel : nat) : xstate :=
  let st := xnrt_loop gen dd p fuel (xnrt_init p) in
  set_n st (nrt_finish repaired (xp_tail p) (x_n st)).
Definition xnrt_completed (gen : Z -> list Z -> Z -> Z) (dd : bool) (p : xprog) (fuel : nat) : bool :=
  match n_q (x_n (xnrt_loop gen dd p fuel (xnrt_init p))) with [] => true | _ => false end.

(* ---- real time: a transition system driven by an oracle ------------------------------------------ *)
(* the oracle: the physical time t0 at which the program is started (what main_tt reads), then a
   sequence of wake-ups (which routine's task its clock thread performs next, what the physical
   clock reads).  As in KRt: a wake-up is enabled when the task is at the head of ITS clock's queue;
   physical readings only feed xs_early/xs_now, never the logical time. *)
Definition xrt_wake (gen : Z -> list Z -> Z -> Z) (off : Z) (p : xprog) (st : xstate) (e : entry) : xstate :=
  let key := e_time e in
  let c := e_clock e in
  let rid := e_rid e in
  let T := Qred (b2s (n_tcs (x_n st)) c key) in
  let n0 := set_mtime (x_n st) T in
  match nth_error (x_routs st) rid with
  | None => set_n st n0
  | Some r =>
      match xr_st r with
      | RSusp =>
          let k := xr_k r in
          let beats := Qred (s2b (n_tcs n0) c T) in
          let st1 := set_n st (add_log n0 (EvResume rid k c T beats)) in
          let '(st2, oc) := xrun gen true (Some off) p st1 rid k T c (xr_rest r) in
          x_after st2 oc rid k c (fun s d => let nk := key + d in set_n s (xpush true (x_n s) nk c rid nk))
      | _ => set_n st n0
      end
  end.

Record xrtstate := mkXRS { xs : xstate; xs_now : Q; xs_early : bool; xs_bad : bool }.

Definition xrt_init (p : xprog) (t0 : Q) : xrtstate :=
  mkXRS (x_init (Some 0%Z) p t0 (mkN [] 0 [] [] 0 [] 0 [] false)) t0 false false.

Definition xrt_step (gen : Z -> list Z -> Z -> Z) (off : Z) (p : xprog) (s : xrtstate) (ch : nat * Q) : xrtstate :=
  let '(rid, t) := ch in
  let now := advance (xs_now s) t in
  let q := n_q (x_n (xs s)) in
  match find_rid rid q with
  | None => mkXRS (xs s) (xs_now s) (xs_early s) true
  | Some e0 =>
      match pop_clock (e_clock e0) q with
      | None => mkXRS (xs s) (xs_now s) (xs_early s) true
      | Some (e, rest) =>
          if Nat.eqb (e_rid e) rid then
            let early := negb (eligible (n_tcs (x_n (xs s))) now e) in
            mkXRS (xrt_wake gen off p (set_n (xs s) (set_q (x_n (xs s)) rest)) e) now (xs_early s || early) (xs_bad s)
          else mkXRS (xs s) (xs_now s) (xs_early s) true
      end
  end.

Definition xrt_run (gen : Z -> list Z -> Z -> Z) (off : Z) (p : xprog) (t0 : Q) (sched : list (nat * Q)) : xrtstate :=
  fold_left (xrt_step gen off p) sched (xrt_init p t0).

(* the interleaving that follows logical time (the order of the non-real-time scheduler): always the
   task with the least (seconds, insertion count) *)
Definition secs_of (tcs : list tclock) (e : entry) : Q := b2s tcs (e_clock e) (e_time e).
Fixpoint min_entry (tcs : list tclock) (best : entry) (q : list entry) : entry :=
  match q with
  | [] => best
  | e :: r => min_entry tcs (if key_leb (secs_of tcs best) (e_cnt best) (secs_of tcs e) (e_cnt e) then best else e) r
  end.
Fixpoint xrt_ordered (gen : Z -> list Z -> Z -> Z) (off : Z) (p : xprog) (fuel : nat) (s : xrtstate) : xrtstate :=
  match fuel with
  | O => s
  | S f => match n_q (x_n (xs s)) with
           | [] => s
           | e :: r => let m := min_entry (n_tcs (x_n (xs s))) e r in
                       xrt_ordered gen off p f (xrt_step gen off p s (e_rid m, b2s (n_tcs (x_n (xs s))) (e_clock m) (e_time m)))
           end
  end.

(* ---- the non-real-time SEMANTICS performed in a given order -------------------------------------------------- *)
(* The task of routine rid is performed if it is the first of ITS clock's entries (what a real-time clock
   accepts); the scheduler proper always takes the head of the whole queue (xnrt_order).  The flag becomes
   false when a step is refused or a task runs at a negative logical time (a timetag could not be packed). *)
Definition xnrt_step_rid (gen : Z -> list Z -> Z -> Z) (p : xprog) (s : xstate * bool) (rid : nat) : xstate * bool :=
  let st := fst s in
  match find_rid rid (n_q (x_n st)) with
  | None => (st, false)
  | Some e0 =>
      match pop_clock (e_clock e0) (n_q (x_n st)) with
      | None => (st, false)
      | Some (e, rest) =>
          if Nat.eqb (e_rid e) rid
          then (xnrt_wake gen true p (set_n st (set_q (x_n st) rest)) e, snd s && Qle_bool 0 (e_time e))
          else (st, false)
      end
  end.
Definition xnrt_follow (gen : Z -> list Z -> Z -> Z) (p : xprog) (rids : list nat) : xstate * bool :=
  fold_left (xnrt_step_rid gen p) rids (xnrt_init p, true).
(* the order of the non-real-time scheduler *)
Fixpoint xnrt_order (gen : Z -> list Z -> Z -> Z) (p : xprog) (fuel : nat) (st : xstate) : list nat :=
  match fuel with
  | O => []
  | S f => match n_q (x_n st) with
           | [] => []
           | e :: rest => e_rid e :: xnrt_order gen p f (xnrt_wake gen true p (set_n st (set_q (x_n st) rest)) e)
           end
  end.
