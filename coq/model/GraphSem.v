(* GraphSem.v -- denotational semantics for C01 (definitions only).

   Values are canonical rationals Qc (Leibniz equality, a field).  An interpretation gives
   * every output of every non-arithmetic unit *instance* (identified by the index of the
     source instruction that created it, `tag`) an arbitrary function of its input values,
   * every non-ring unary / binary operator an arbitrary function,
   * every control slot an arbitrary value.
   + - * / and neg are interpreted as the field operations, MulAdd as a*b+c, Sum3/Sum4 as
   sums, DC as its input (a DC unit outputs the constant it is given; Out.ar replaces literal
   zeros by DC.ar(0)).  Equality of denotations for all interpretations is "equal up to the
   ring identities".  *)
From Coq Require Import ZArith QArith Qcanon List String Bool Arith.
Import ListNotations.
Require Import SC3.model.Graph.
Open Scope string_scope.
Open Scope list_scope.

Record interp := mkI {
  I_unit : nat -> string -> list Qc -> nat -> Qc;
  I_un : string -> Qc -> Qc;
  I_bin : string -> Qc -> Qc -> Qc;
  I_ctl : nat -> Qc }.

Definition bin_sem (I : interp) (op : string) (x y : Qc) : Qc :=
  if String.eqb op "+" then (x + y)%Qc else if String.eqb op "-" then (x - y)%Qc
  else if String.eqb op "*" then (x * y)%Qc else if String.eqb op "/" then (x / y)%Qc
  else I_bin I op x y.
Definition un_sem (I : interp) (op : string) (x : Qc) : Qc :=
  if String.eqb op "neg" then (- x)%Qc else I_un I op x.
Definition qsum (l : list Qc) : Qc := fold_left Qcplus l (Q2Qc 0).

Definition row := list Qc.
Definition nthq (l : list Qc) (n : nat) : Qc := nth n l (Q2Qc 0).

(* value of a unit from the values of its inputs *)
Definition unit_sem (I : interp) (k : kind) (cls op : string) (tag nouts : nat) (special : Z) (xs : list Qc) : row :=
  match k with
  | KBin => [bin_sem I op (nthq xs 0) (nthq xs 1)]
  | KUn => [un_sem I op (nthq xs 0)]
  | KMulAdd => [(nthq xs 0 * nthq xs 1 + nthq xs 2)%Qc]
  | KSum3 | KSum4 => [qsum xs]
  | KCtl => map (fun j => I_ctl I (Z.to_nat special + j)) (seq 0 nouts)
  | KPlain | KOut =>
      if String.eqb cls "DC" then [nthq xs 0]
      else map (fun ch => I_unit I tag cls xs ch) (seq 0 (Nat.max nouts 1))
  end.

(* ---------------------------------------------------------------- stores (during construction) *)
(* units are evaluated in creation order; a reference to a unit that is not yet in the table is 0 *)
Definition val_den (tab : list row) (v : inp) : Qc :=
  match v with K q => Q2Qc q | O u ch => nthq (nth u tab []) ch end.
Definition unit_val (I : interp) (tab : list row) (U : unit) : row :=
  unit_sem I (ukind U) (cls U) (opname U) (tag U) (nouts U) (special U) (map (val_den tab) (ins U)).
Definition den_list (I : interp) (tab : list row) (us : list unit) : list row :=
  fold_left (fun t U => t ++ [unit_val I t U]) us tab.
Definition den_store (I : interp) (s : st) : list row := den_list I [] (units s).

(* ---------------------------------------------------------------- emitted graphs *)
Definition gin_val (tab : list row) (i : ginp) : Qc :=
  match i with GK q => Q2Qc q | GO idx ch => nthq (nth (Z.to_nat idx) tab []) ch end.
Definition gunit_val (I : interp) (tab : list row) (g : gunit) : row :=
  unit_sem I (g_kind g) (g_cls g) (g_op g) (g_tag g) (g_nouts g) (g_special g) (map (gin_val tab) (g_ins g)).
Definition den_graph (I : interp) (g : graph) : list row :=
  fold_left (fun t u => t ++ [gunit_val I t u]) (gr_units g) [].

(* what is observable: every effectful catalogue unit / output unit instance with the values it reads *)
Definition observable (k : kind) (pure : bool) (tag : nat) : bool :=
  match k with KPlain | KOut => negb pure && negb (Nat.eqb tag 0) | _ => false end.
Definition obs := (nat * string * list Qc)%type.
Definition obs_graph (I : interp) (g : graph) : list obs :=
  let tab := den_graph I g in
  flat_map (fun '(i, u) => if observable (g_kind u) (g_pure u) (g_tag u)
                           then [(g_tag u, g_cls u, map (gin_val (firstn i tab)) (g_ins u))] else [])
           (combine (seq 0 (List.length (gr_units g))) (gr_units g)).

(* ---------------------------------------------------------------- source programs *)
Section Src.
Variable T : optabs.
Variable I : interp.

Record senv := mkSE { se_vals : list row; se_nir : nat }.
Definition sarg (e : senv) (a : arg) : Qc :=
  match a with
  | AC q => Q2Qc q
  | AV i ch => nthq (nth i (se_vals e) []) ch
  | AP kr j => I_ctl I (if kr then se_nir e + j else j)
  end.
Definition scn (py : string) : string :=
  match sc_spindex_opname T py with Some (_, n) => n | None => py end.

Definition sstep (e : senv) (idx : nat) (i : instr) : row * list obs :=
  match i with
  | IU name r args =>
      match assoc name catalogue with
      | None => ([], [])
      | Some c =>
          let a := map (sarg e) args in
          let xs := map (fun x => match x with inl n => nthq a n | inr q => Q2Qc q end) (c_inputs c) in
          let vals := unit_sem I KPlain (c_cls c) "" (S idx) (c_nouts c) 0%Z xs in
          (if c_hasval c then vals else [], if c_pure c then [] else [(S idx, c_cls c, xs)])
      end
  | IUn py a => ([un_sem I (scn py) (sarg e a)], [])
  | IBin py a b => ([bin_sem I (scn py) (sarg e a) (sarg e b)], [])
  | IMulAdd a b c => ([(sarg e a * sarg e b + sarg e c)%Qc], [])
  | ISum xs => ([qsum (map (sarg e) xs)], [])
  | ISum3 a b c => ([qsum [sarg e a; sarg e b; sarg e c]], [])
  | ISum4 a b c d => ([qsum [sarg e a; sarg e b; sarg e c; sarg e d]], [])
  | IOut r bus xs => ([], [(S idx, "Out", sarg e bus :: map (sarg e) xs)])
  | IRaise _ => ([], [])
  end.

Fixpoint srun (e : senv) (idx : nat) (l : list instr) : list obs :=
  match l with
  | [] => []
  | i :: t => let '(v, o) := sstep e idx i in o ++ srun (mkSE (se_vals e ++ [v]) (se_nir e)) (S idx) t
  end.
Definition obs_src (p : prog) : list obs := srun (mkSE [] (List.length (p_ir p))) 0 (p_ins p).
End Src.

(* ---------------------------------------------------------------- comparing observations *)
Definition qc_eqb (a b : Qc) : bool := Qeq_bool a b.
Definition obs_eqb (a b : obs) : bool :=
  let '(t1, c1, x1) := a in let '(t2, c2, x2) := b in
  Nat.eqb t1 t2 && String.eqb c1 c2 && list_eqb qc_eqb x1 x2.
Definition obs_sorted (l : list obs) : list obs := sort_by (fun o : obs => Z.of_nat (fst (fst o))) l.
Definition obs_match (a b : list obs) : bool := list_eqb obs_eqb (obs_sorted a) (obs_sorted b).

(* a concrete, deliberately irregular interpretation used by the executable test *)
Fixpoint str_hash (s : string) (acc : Z) : Z :=
  match s with EmptyString => acc | String c t => str_hash t (acc * 31 + Z.of_nat (Ascii.nat_of_ascii c))%Z end.
Definition zq (z : Z) : Qc := Q2Qc (inject_Z z).
Definition wsum (xs : list Qc) : Qc :=
  snd (fold_left (fun '(k, acc) x => ((k + 1)%Z, (acc + zq (2 * k + 3) * x + x * x * zq (k + 1))%Qc)) xs (0%Z, Q2Qc 0)).
Definition I0 : interp := mkI
  (fun tag cls xs ch => (zq (Z.of_nat tag * 7 + Z.of_nat ch * 3 + 1) + wsum xs * Q2Qc (1 # 3))%Qc)
  (fun op x => (x * x * Q2Qc (1 # 2) + zq (str_hash op 7 mod 101) - x)%Qc)
  (fun op x y => (x * zq 2 - y * zq 3 + x * y * Q2Qc (1 # 5) + zq (str_hash op 11 mod 103))%Qc)
  (fun j => Q2Qc (Z.of_nat j * 2 + 5 # 7)).
Definition I1 : interp := mkI
  (fun tag cls xs ch => (zq (Z.of_nat tag * 5 + Z.of_nat ch + 2) - wsum xs * Q2Qc (2 # 7))%Qc)
  (fun op x => (zq (str_hash op 3 mod 97) + x * Q2Qc (3 # 2))%Qc)
  (fun op x y => (x * y - y * y * Q2Qc (1 # 3) + x + zq (str_hash op 5 mod 89))%Qc)
  (fun j => Q2Qc (Z.of_nat j * 3 + 1 # 4)).

(* model-level test: the emitted graph denotes what the source says under I0 and I1 *)
Definition sem_test (T : optabs) (strict guard subguard : bool) (p : prog) : bool :=
  match compile T strict guard subguard p with
  | Ok g => obs_match (obs_src T I0 p) (obs_graph I0 g) && obs_match (obs_src T I1 p) (obs_graph I1 g)
  | Err _ => true
  end.
