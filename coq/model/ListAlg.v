(* C15 (lifting half) -- sc3/base/utils.py: wrap_extend, list_unop, list_binop, list_narop, flop.
   Executable definitions only.

   The algorithms are written once, generically over the element type X, because the
   library uses them at two levels:
     * on plain nested lists of numbers (utils.list_* called directly, e.g. by Env), X = v;
     * on ChannelList objects whose leaves are arbitrary objects and whose leaf operator is
       the *dispatching* operator (AbstractSequence._compose_*, model/Lift.v), X = obj.
   `view x` is Python's `isinstance(x, (list, tuple))` together with the concrete type
   and the items; `mk k items` is the type cast `t(...)`.

   Python source modelled (utils.py:123-203, 307-320):

     def wrap_extend(lst, n):
         l = len(lst)
         if l == 0 or n <= 0: return []
         return lst * (n // l) + lst[:n % l]

     def list_binop(op, a, b, t=None):
         if isinstance(a, t_seq) and isinstance(b, t_seq):
             if len(a) >= len(b): b = wrap_extend(list(b), len(a))
             else:                a = wrap_extend(list(a), len(b))
             if any(isinstance(i, t_seq) for i in a) or any(isinstance(i, t_seq) for i in b):
                 for i in range(len(a)): ... ret.append(list_binop(op, a[i], b[i], t2))   (IndexError when b == [])
                 return t(ret)
             else:
                 return t(op(i[0], i[1]) for i in zip(a, b))
         elif isinstance(a, t_seq): return t(list_binop(op, item_a, b, type(item_a)) for item_a in a)
         elif isinstance(b, t_seq): return t(list_binop(op, a, item_b, type(item_b)) for item_b in b)
         else: return op(a, b)
*)
From Coq Require Import ZArith List Bool Arith PeanoNat.
Require Import SC3.lib.PyNum.
Import ListNotations.
Local Open Scope nat_scope.

(* concrete sequence types: list, tuple, ChannelList (a list subclass that is an AbstractObject) *)
Inductive kind := KList | KTuple | KChan.
Definition kind_eqb (a b : kind) : bool :=
  match a, b with KList, KList | KTuple, KTuple | KChan, KChan => true | _, _ => false end.
Definition is_tuple (k : kind) : bool := match k with KTuple => true | _ => false end.

(* exceptions of this model *)
Inductive err :=
| EIndex      (* IndexError: list_binop on a nested list against an empty one *)
| EType       (* TypeError: an operator reached operands the library does not lift *)
| EObjArg     (* a numeric kernel received an unevaluated composed object as argument *)
| EFuel.      (* recursion fuel exhausted: proved unreachable under the stated bound *)

(* ---------------------------------------------------------------------- *)
(* wrap_extend                                                             *)

Fixpoint repeat_list {A} (l : list A) (k : nat) : list A :=
  match k with O => [] | S k' => l ++ repeat_list l k' end.

Definition wrap_extend {A} (l : list A) (n : nat) : list A :=
  match length l, n with
  | O, _ => []
  | _, O => []
  | len, _ => repeat_list l (n / len) ++ firstn (n mod len) l
  end.

(* zip truncating to the shorter (Python zip) *)
Fixpoint zip {A B} (a : list A) (b : list B) : list (A * B) :=
  match a, b with
  | x :: a', y :: b' => (x, y) :: zip a' b'
  | _, _ => []
  end.

(* ---------------------------------------------------------------------- *)
Section Generic.
  Variable X : Type.
  Variable view : X -> option (kind * list X).  (* isinstance(x, (list, tuple)) + type + items *)
  Variable mk : kind -> list X -> X.             (* t(items) *)
  Variable mkerr : err -> X.

  Definition is_seq (x : X) : bool := match view x with Some _ => true | None => false end.
  Definition type_of (x : X) : kind := match view x with Some (k, _) => k | None => KList end.
  Definition any_seq (l : list X) : bool := existsb is_seq l.

  (* t2 of the nested branch: tuple if either element is a tuple, else list (the element
     types list/ChannelList both count as "list"); irrelevant when neither is a sequence *)
  Definition t2_of (x y : X) : kind :=
    match view x, view y with
    | Some (kx, _), Some (ky, _) => if is_tuple kx || is_tuple ky then KTuple else KList
    | Some (kx, _), None => if is_tuple kx then KTuple else KList
    | None, Some (ky, _) => if is_tuple ky then KTuple else KList
    | None, None => KList
    end.

  (* list_unop(op, a, t) -- fuel = nesting depth + 1 *)
  Fixpoint list_unop_f (fuel : nat) (op : X -> X) (a : X) (t : kind) : X :=
    match fuel with
    | O => mkerr EFuel
    | S fuel' =>
      match view a with
      | Some (_, items) =>
          if any_seq items
          then mk t (map (fun i => list_unop_f fuel' op i (type_of i)) items)
          else mk t (map op items)
      | None => op a
      end
    end.

  (* list_narop(op, a, *args, t): only the first argument is traversed *)
  Fixpoint list_narop_f (fuel : nat) (op : X -> list X -> X) (a : X) (args : list X) (t : kind) : X :=
    match fuel with
    | O => mkerr EFuel
    | S fuel' =>
      match view a with
      | Some (_, items) =>
          if any_seq items
          then mk t (map (fun i => list_narop_f fuel' op i args (type_of i)) items)
          else mk t (map (fun i => op i args) items)
      | None => op a args
      end
    end.

  (* list_binop(op, a, b, t) *)
  Fixpoint list_binop_f (fuel : nat) (op : X -> X -> X) (a b : X) (t : kind) : X :=
    match fuel with
    | O => mkerr EFuel
    | S fuel' =>
      match view a, view b with
      | Some (_, la), Some (_, lb) =>
          let la' := if length lb <=? length la then la else wrap_extend la (length lb) in
          let lb' := if length lb <=? length la then wrap_extend lb (length la) else lb in
          if any_seq la' || any_seq lb'
          then (* for i in range(len(a)): a[i], b[i] -- b[i] raises IndexError when b is shorter,
                  which happens exactly when wrap_extend returned [] for an empty b *)
               if length lb' <? length la' then mkerr EIndex
               else mk t (map (fun p => list_binop_f fuel' op (fst p) (snd p) (t2_of (fst p) (snd p)))
                              (zip la' lb'))
          else mk t (map (fun p => op (fst p) (snd p)) (zip la' lb'))
      | Some (_, la), None =>
          mk t (map (fun i => list_binop_f fuel' op i b (type_of i)) la)
      | None, Some (_, lb) =>
          mk t (map (fun i => list_binop_f fuel' op a i (type_of i)) lb)
      | None, None => op a b
      end
    end.
End Generic.

Arguments is_seq {X}. Arguments type_of {X}. Arguments any_seq {X}. Arguments t2_of {X}.
Arguments list_unop_f {X}. Arguments list_narop_f {X}. Arguments list_binop_f {X}.

(* ---------------------------------------------------------------------- *)
(* plain values: nested lists / tuples / channel lists of numbers          *)

Inductive v := N (n : num) | L (k : kind) (items : list v) | VErr (e : err).

Definition vview (x : v) : option (kind * list v) :=
  match x with L k items => Some (k, items) | _ => None end.

Fixpoint vdepth (x : v) : nat :=
  match x with
  | L _ items => S (fold_right (fun i m => Nat.max (vdepth i) m) 0 items)
  | _ => 0
  end.

Definition lift_num1 (f : num -> num) (x : v) : v :=
  match x with N n => N (f n) | VErr e => VErr e | L _ _ => VErr EType end.
Definition lift_num2 (f : num -> num -> num) (x y : v) : v :=
  match x, y with
  | N a, N b => N (f a b)
  | VErr e, _ => VErr e
  | _, VErr e => VErr e
  | _, _ => VErr EType
  end.
Fixpoint nums_of (l : list v) : option (list num) :=
  match l with
  | [] => Some []
  | N n :: r => match nums_of r with Some r' => Some (n :: r') | None => None end
  | _ :: _ => None
  end.
Definition lift_num3 (f : num -> list num -> num) (x : v) (args : list v) : v :=
  match x, nums_of args with
  | N a, Some l => N (f a l)
  | VErr e, _ => VErr e
  | _, _ => VErr EType
  end.

(* utils.list_unop / list_binop / list_narop on values; the fuel bound is the nesting depth *)
Definition list_unop (f : num -> num) (a : v) (t : kind) : v :=
  list_unop_f vview L VErr (S (vdepth a)) (lift_num1 f) a t.
Definition list_binop (f : num -> num -> num) (a b : v) (t : kind) : v :=
  list_binop_f vview L VErr (S (Nat.max (vdepth a) (vdepth b))) (lift_num2 f) a b t.
Definition list_narop (f : num -> list num -> num) (a : v) (args : list v) (t : kind) : v :=
  list_narop_f vview L VErr (S (vdepth a)) (lift_num3 f) a args t.

(* ---------------------------------------------------------------------- *)
(* flop (utils.py:307): rows x columns transposition with wrap-around.
   `lst` is a list of columns; a non-list column x (number or tuple) stands for [x] (as_list);
   an empty column yields [] in every row (the ZeroDivisionError branch).           *)

Definition as_column (x : v) : list v :=
  match x with
  | L KTuple _ => [x]            (* as_list bubbles tuples: a tuple is one item, not a column *)
  | L _ items => items
  | _ => [x]
  end.

Definition flop (lst : list v) : list (list v) :=
  let cols := map as_column lst in
  match cols with
  | [] => [[]]
  | _ =>
    let len := fold_right (fun c m => Nat.max (length c) m) 0 cols in
    map (fun i => map (fun c => match c with
                                | [] => L KList []
                                | _ => nth (i mod length c) c (VErr EIndex)
                                end) cols)
        (seq 0 len)
  end.

(* flop on explicit columns, generic in the element type (used at the object level by
   ChannelList._multichannel_perform): row i takes column c at i mod |c|; an empty column gives `empty` *)
Definition flop_rows {A} (empty dflt : A) (cols : list (list A)) : list (list A) :=
  let len := fold_right (fun c m => Nat.max (length c) m) 0 cols in
  map (fun i => map (fun c => match c with [] => empty | _ => nth (i mod length c) c dflt end) cols) (seq 0 len).

(* ---------------------------------------------------------------------- *)
(* canonical comparison of values (used by the correspondence)            *)
Fixpoint v_eqb (a b : v) : bool :=
  match a, b with
  | N x, N y => canon_eqb (canon x) (canon y)
  | L k1 l1, L k2 l2 =>
      kind_eqb k1 k2 &&
      (fix go (l1 l2 : list v) : bool :=
         match l1, l2 with
         | [], [] => true
         | x :: r1, y :: r2 => v_eqb x y && go r1 r2
         | _, _ => false
         end) l1 l2
  | VErr _, VErr _ => true
  | _, _ => false
  end.
Fixpoint v_has_err (a : v) : bool :=
  match a with
  | N NErr => true
  | N _ => false
  | VErr _ => true
  | L _ items => existsb v_has_err items
  end.
(* an exception anywhere aborts the whole Python expression *)
Definition v_norm (a : v) : v := if v_has_err a then VErr EType else a.
