(* TaskQ -- executable model of sc3/base/_taskq.py (class TaskQueue), definitions only.

   Modelling decisions (see notes/C09.md):
   * priorities are rationals (Python ints and finite floats compare exactly, 1 == 1.0);
   * tasks are integer identifiers (the real tasks are hashable objects; only their
     identity is used by TaskQueue);
   * an entry is the Python list [prio, count, task]; the tombstone class
     TaskQueue._REMOVED in the task slot is [None];
   * the heap list [_queue] is a BAG: heapq is modelled by its specification
     (heappush adds an element, heappop extracts the minimum for Python's
     lexicographic list order); theorems are independent of the arrangement;
   * [_entry_finder] maps a task to its entry OBJECT; an entry object is identified
     by its count (itertools.count gives every entry a fresh one), so the model
     stores the count and "entry[-1] = _REMOVED" is [tomb_count];
   * [_removed_counter] is a Python int: Z here, so that no truncated subtraction
     hides an underflow. *)
From Coq Require Import QArith ZArith List Bool Arith.
Import ListNotations.
Local Open Scope nat_scope.

Definition task := Z.

Record entry := mkE { e_prio : Q; e_count : nat; e_task : option task }.

Record tq := mkTQ {
  heap    : list entry;          (* self._queue          *)
  finder  : list (task * nat);   (* self._entry_finder   *)
  counter : nat;                 (* next(self._counter)  *)
  removed : Z                    (* self._removed_counter *)
}.

(* ---- Python comparisons -------------------------------------------------- *)
Definition key := (Q * nat)%type.

(* [p1, c1] < [p2, c2] for Python lists: first differing position decides. *)
Definition key_ltb (a b : key) : bool :=
  if Qeq_bool (fst a) (fst b) then snd a <? snd b else Qle_bool (fst a) (fst b).

Definition ekey (e : entry) : key := (e_prio e, e_count e).

(* entry < entry as heapq sees it ([prio, count, task] lists).  When prio and count
   are both equal Python goes on to compare the tasks (and may raise TypeError);
   here that case answers [false]; it is unreachable under [inv] (counts distinct). *)
Definition entry_ltb (a b : entry) : bool := key_ltb (ekey a) (ekey b).

(* keys used by peek: _small_key / _large_key.  [None] is the key of a tombstone:
   [inf, inf] for _small_key, [-inf, -inf] for _large_key. *)
Definition xkey (e : entry) : option key :=
  match e_task e with Some _ => Some (ekey e) | None => None end.

(* _small_key x < _small_key best *)
Definition small_better (x best : entry) : bool :=
  match xkey x, xkey best with
  | Some a, Some b => key_ltb a b
  | Some _, None => true          (* [p, c] < [inf, inf] *)
  | None, _ => false              (* [inf, inf] < anything : False *)
  end.

(* _large_key x > _large_key best *)
Definition large_better (x best : entry) : bool :=
  match xkey x, xkey best with
  | Some a, Some b => key_ltb b a
  | Some _, None => true          (* [p, c] > [-inf, -inf] *)
  | None, _ => false
  end.

(* min(iterable, key=...) / max(iterable, key=...): the first best element in
   iteration order is kept; it is replaced only by a strictly better one. *)
Fixpoint select (better : entry -> entry -> bool) (best : entry) (l : list entry) : entry :=
  match l with
  | [] => best
  | x :: r => select better (if better x best then x else best) r
  end.

(* ---- heapq by specification ---------------------------------------------- *)
Definition heappush (h : list entry) (e : entry) : list entry := e :: h.

(* heappop: remove and return a minimum of the bag. *)
Fixpoint extract_min (l : list entry) : option (entry * list entry) :=
  match l with
  | [] => None
  | x :: r =>
      match extract_min r with
      | None => Some (x, [])
      | Some (m, r') => if entry_ltb m x then Some (m, x :: r') else Some (x, r)
      end
  end.

(* sorted(iterable): stable insertion sort with Python's <. *)
Fixpoint insert_by {A} (k : A -> key) (x : A) (l : list A) : list A :=
  match l with
  | [] => [x]
  | y :: r => if key_ltb (k y) (k x) then y :: insert_by k x r else x :: l
  end.
Fixpoint sort_by {A} (k : A -> key) (l : list A) : list A :=
  match l with
  | [] => []
  | x :: r => insert_by k x (sort_by k r)
  end.

(* ---- the dict _entry_finder ---------------------------------------------- *)
Fixpoint fget (t : task) (f : list (task * nat)) : option nat :=
  match f with
  | [] => None
  | (t', c) :: r => if Z.eqb t t' then Some c else fget t r
  end.
Definition fdel (t : task) (f : list (task * nat)) : list (task * nat) :=
  filter (fun x => negb (Z.eqb t (fst x))) f.
Definition fset (t : task) (c : nat) (f : list (task * nat)) : list (task * nat) :=
  (t, c) :: fdel t f.

(* entry[-1] = _REMOVED on the entry object whose count is c *)
Definition tomb_count (c : nat) (l : list entry) : list entry :=
  map (fun e => if e_count e =? c then mkE (e_prio e) (e_count e) None else e) l.

(* ---- results --------------------------------------------------------------- *)
Inductive out :=
| RNone                               (* method returned None *)
| RItem (p : Q) (t : task)            (* (prio, task) *)
| RKeyError
| RBool (b : bool)
| RList (l : list (Q * task))         (* list(iter(q)) *)
| ROutOfFuel.                         (* never produced with the stated fuel *)

(* ---- the methods ------------------------------------------------------------ *)
Definition tq_init : tq := mkTQ [] [] 0 0%Z.

(* def remove(self, task) *)
Definition tq_remove (t : task) (s : tq) : tq :=
  match fget t (finder s) with
  | Some c =>                                        (* entry = self._entry_finder.pop(task) *)
      mkTQ (tomb_count c (heap s))                   (* entry[-1] = _REMOVED *)
           (fdel t (finder s)) (counter s)
           (removed s + 1)%Z                         (* self._removed_counter += 1 *)
  | None => s                                        (* except KeyError: return *)
  end.

(* def add(self, prio, task) *)
Definition tq_add (p : Q) (t : task) (s : tq) : tq :=
  let s1 := match fget t (finder s) with             (* if task in self._entry_finder: *)
            | Some _ => tq_remove t s                (*     self.remove(task)          *)
            | None => s
            end in
  let c := counter s1 in                             (* count = next(self._counter) *)
  let e := mkE p c (Some t) in                       (* entry = [prio, count, task] *)
  mkTQ (heappush (heap s1) e)                        (* heapq.heappush(self._queue, entry) *)
       (fset t c (finder s1))                        (* self._entry_finder[task] = entry *)
       (S c) (removed s1).

(* def pop(self): the while loop, on fuel *)
Fixpoint pop_loop (fuel : nat) (s : tq) : tq * out :=
  match extract_min (heap s) with
  | None => (s, RKeyError)                           (* while self._queue: ... raise KeyError *)
  | Some (e, h') =>                                  (* prio, count, task = heappop(self._queue) *)
      match fuel with
      | 0 => (s, ROutOfFuel)
      | S f =>
          match e_task e with
          | Some t =>                                (* task is not _REMOVED *)
              match fget t (finder s) with
              | Some _ => (mkTQ h' (fdel t (finder s)) (counter s) (removed s),
                           RItem (e_prio e) t)       (* del finder[task]; return (prio, task) *)
              | None => (mkTQ h' (finder s) (counter s) (removed s), RKeyError)
                                                     (* del raises KeyError *)
              end
          | None =>                                  (* self._removed_counter -= 1 *)
              pop_loop f (mkTQ h' (finder s) (counter s) (removed s - 1)%Z)
          end
      end
  end.
Definition pop_fuel (s : tq) : nat := length (heap s).
Definition tq_pop (s : tq) : tq * out := pop_loop (pop_fuel s) s.

(* def peek(self, smallest=True) *)
Definition tq_peek (smallest : bool) (s : tq) : out :=
  match heap s with
  | [] => RKeyError                                  (* if self._queue: ... else raise *)
  | e0 :: r =>
      let e := select (if smallest then small_better else large_better) e0 r in
      match e_task e with
      | Some t => RItem (e_prio e) t                 (* if task is not self._REMOVED: return *)
      | None => RKeyError                            (* falls through to raise KeyError *)
      end
  end.

(* def empty(self) *)
Definition tq_empty (s : tq) : bool :=
  (Z.of_nat (length (heap s)) - removed s =? 0)%Z.

(* def __iter__(self), fully consumed *)
Definition tq_iter (s : tq) : list (Q * task) :=
  flat_map (fun e => match e_task e with Some t => [(e_prio e, t)] | None => [] end)
           (sort_by ekey (heap s)).

(* ---- histories -------------------------------------------------------------- *)
Inductive op :=
| OAdd (p : Q) (t : task)
| ORemove (t : task)
| OPop
| OPeek (smallest : bool)
| OEmpty
| OClear
| OIter.

Definition step (o : op) (s : tq) : tq * out :=
  match o with
  | OAdd p t => (tq_add p t s, RNone)
  | ORemove t => (tq_remove t s, RNone)
  | OPop => tq_pop s
  | OPeek b => (s, tq_peek b s)
  | OEmpty => (s, RBool (tq_empty s))
  | OClear => (tq_init, RNone)                       (* self._init() *)
  | OIter => (s, RList (tq_iter s))
  end.

Fixpoint run (ops : list op) (s : tq) : tq * list out :=
  match ops with
  | [] => (s, [])
  | o :: r => let '(s1, x) := step o s in
              let '(s2, xs) := run r s1 in (s2, x :: xs)
  end.

(* ---- abstract specification: a list sorted by (prio, seq) -------------------- *)
Definition item := (Q * nat * task)%type.
Definition ikey (x : item) : key := (fst (fst x), snd (fst x)).
Definition itask (x : item) : task := snd x.
Definition ipair (x : item) : Q * task := (fst (fst x), snd x).

Definition spec := (list item * nat)%type.            (* sorted contents, next seq *)
Definition spec_init : spec := ([], 0).

Definition remove_task (t : task) (l : list item) : list item :=
  filter (fun x => negb (Z.eqb t (itask x))) l.

Fixpoint last_opt {A} (l : list A) : option A :=
  match l with
  | [] => None
  | [x] => Some x
  | _ :: r => last_opt r
  end.

Definition spec_step (o : op) (s : spec) : spec * out :=
  let '(l, n) := s in
  match o with
  | OAdd p t => ((insert_by ikey (p, n, t) (remove_task t l), S n), RNone)
  | ORemove t => ((remove_task t l, n), RNone)
  | OPop => match l with
            | [] => (s, RKeyError)
            | x :: r => ((r, n), RItem (fst (fst x)) (snd x))
            end
  | OPeek true => (s, match l with [] => RKeyError | x :: _ => RItem (fst (fst x)) (snd x) end)
  | OPeek false => (s, match last_opt l with None => RKeyError | Some x => RItem (fst (fst x)) (snd x) end)
  | OEmpty => (s, RBool (match l with [] => true | _ => false end))
  | OClear => (spec_init, RNone)
  | OIter => (s, RList (map ipair l))
  end.

Fixpoint spec_run (ops : list op) (s : spec) : spec * list out :=
  match ops with
  | [] => (s, [])
  | o :: r => let '(s1, x) := spec_step o s in
              let '(s2, xs) := spec_run r s1 in (s2, x :: xs)
  end.

(* live entries of a bag, as items *)
Definition live_of (e : entry) : list item :=
  match e_task e with Some t => [(e_prio e, e_count e, t)] | None => [] end.
Definition live (l : list entry) : list item := flat_map live_of l.
Definition tombs (l : list entry) : nat :=
  length (filter (fun e => match e_task e with None => true | Some _ => false end) l).

(* abstraction function *)
Definition contents (s : tq) : list item := live (sort_by ekey (heap s)).
Definition abs (s : tq) : spec := (contents s, counter s).

(* ---- boolean comparison of results, for the correspondence ------------------- *)
Definition pair_eqb (a b : Q * task) : bool := Qeq_bool (fst a) (fst b) && (snd a =? snd b)%Z.
Fixpoint list_eqb {A} (eqb : A -> A -> bool) (a b : list A) : bool :=
  match a, b with
  | [], [] => true
  | x :: a', y :: b' => eqb x y && list_eqb eqb a' b'
  | _, _ => false
  end.
Definition out_eqb (a b : out) : bool :=
  match a, b with
  | RNone, RNone => true
  | RItem p t, RItem q u => pair_eqb (p, t) (q, u)
  | RKeyError, RKeyError => true
  | RBool x, RBool y => Bool.eqb x y
  | RList x, RList y => list_eqb pair_eqb x y
  | _, _ => false
  end.

(* observable internal state, compared with the real object after a history:
   len(_queue), _removed_counter, the next count, the number of tombstones in _queue,
   then _entry_finder as (task, count-of-its-entry) sorted by task, then the live
   entries (count, task) in queue order *)
Definition obs (s : tq) : list Z :=
  [Z.of_nat (length (heap s)); removed s; Z.of_nat (counter s); Z.of_nat (tombs (heap s))]
  ++ flat_map (fun x : task * nat => [fst x; Z.of_nat (snd x)])
       (sort_by (fun x : task * nat => (inject_Z (fst x), 0)) (finder s))
  ++ flat_map (fun x : item => [Z.of_nat (snd (fst x)); snd x]) (contents s).

(* one correspondence case: history, outputs of the real object, its final state *)
Definition case_ok (c : list op * list out * list Z) : bool :=
  let '(ops, outs, st) := c in
  let '(s, xs) := run ops tq_init in
  list_eqb out_eqb xs outs && list_eqb Z.eqb (obs s) st.
Definition spec_case_ok (c : list op * list out * list Z) : bool :=
  let '(ops, outs, _) := c in
  list_eqb out_eqb (snd (spec_run ops spec_init)) outs.
