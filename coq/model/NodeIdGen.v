(* C16 -- NodeIDAllocator.alloc with the wrap computed by the REGENERATED sc3.base.builtins.wrap
   (gen/Gen_builtins.py_wrap), i.e. the allocator as the library executes it.  Definitions only.
   None = bi.wrap did not return an int (never happens, proofs/C16_nodeid.v). *)
From Coq Require Import ZArith List.
Require Import SC3.lib.PyNum SC3.gen.Gen_builtins SC3.model.NodeId.
Open Scope Z_scope.

(* alloc(): x = _temp; _temp = bi.wrap(x + 1, _init_temp, 0x03FFFFFF); return x | _mask *)
Definition nalloc_py (s : nid) : option (nid * Z) :=
  let x := temp s in
  match py_wrap (I (x + 1)) (I (init_temp s)) (I temp_max) with
  | I t => Some (mkN (user s) (init_temp s) t (mask s), Z.lor x (mask s))
  | _ => None
  end.

Fixpoint nalloc_py_many (s : nid) (k : nat) : option (nid * list Z) :=
  match k with
  | O => Some (s, nil)
  | S k' => match nalloc_py s with
            | Some (s1, x) => match nalloc_py_many s1 k' with
                              | Some (s2, xs) => Some (s2, cons x xs)
                              | None => None
                              end
            | None => None
            end
  end.
