(* C16 -- executable model of sc3/synth/_engine.py : ContiguousBlock and
   ContiguousBlockAllocator (lines 162-346), written from the code line by line.
   Definitions only (no proofs).

   Conventions
   * addresses, sizes: Z.  The Python list [_array] is [list (option block)]
     indexed by RELATIVE address (addr - addr_offset) with Python's indexing rules
     (negative indices count from the end, anything else raises IndexError).
   * a ContiguousBlock object is the value (start, size, used).  The dict [_freed]
     (size -> set of block objects) is an association list in INSERTION order
     (the scan "for size, set_ in self._freed.items()" depends on it); a set of
     block objects is the list of their start addresses (object identity = start
     address inside one size class; the harness checks on the implementation that
     every object in _freed *is* the object stored in _array at its start).
   * bi.choice(list(set_)) is the oracle argument [c] = start address chosen; every
     member of the candidate set is obtained for c := that member.
   * exceptions: [Raise IndexError] (list index out of range), [Raise AttributeError]
     (attribute of None).
   * [rel : bool] selects the test at the end of _find_next:
       rel = true   ->  "i - self.addr_offset < self.size"   (proposed fix, F1)
       rel = false  ->  "i < self.size"                      (snapshot of /repo)
     The two coincide when addr_offset = 0. *)
From Coq Require Import ZArith List Bool.
Import ListNotations.
Open Scope Z_scope.

Record block := mkB { bstart : Z; bsize : Z; bused : bool }.
Definition bend (b : block) : Z := bstart b + bsize b.
Definition set_used (b : block) (u : bool) : block := mkB (bstart b) (bsize b) u.

Inductive err := IndexError | AttributeError.
Inductive res (A : Type) := Ok (a : A) | Raise (e : err).
Arguments Ok {A} a.
Arguments Raise {A} e.
Definition bind {A B} (r : res A) (f : A -> res B) : res B :=
  match r with Ok a => f a | Raise e => Raise e end.
Notation "x <- r ;; k" := (bind r (fun x => k)) (at level 61, r at next level, right associativity).
Notation "' p <- r ;; k" := (bind r (fun p => k)) (at level 61, p pattern, r at next level, right associativity).

(* ---- Python list indexing -------------------------------------------------- *)
Definition py_index (len i : Z) : res Z :=
  if (0 <=? i) && (i <? len) then Ok i
  else if (- len <=? i) && (i <? 0) then Ok (i + len)
  else Raise IndexError.

Fixpoint upd {A} (l : list A) (n : nat) (v : A) : list A :=
  match l, n with
  | [], _ => []
  | _ :: r, O => v :: r
  | x :: r, S n' => x :: upd r n' v
  end.

Definition array := list (option block).
Definition alen (a : array) : Z := Z.of_nat (length a).
Definition aget (a : array) (i : Z) : res (option block) :=
  j <- py_index (alen a) i ;; Ok (nth (Z.to_nat j) a None).
Definition aset (a : array) (i : Z) (v : option block) : res array :=
  j <- py_index (alen a) i ;; Ok (upd a (Z.to_nat j) v).

(* ---- ContiguousBlock ------------------------------------------------------ *)
(* adjoins(self, block) *)
Definition adjoins (s b : block) : bool :=
  let st := bstart s in let sz := bsize s in
  let st2 := bstart b in let sz2 := bsize b in
  ((st <? st2) && (st2 <=? st + sz)) || ((st2 <? st) && (st <=? st2 + sz2)).

(* join(self, block): a NEW block (used = False) or None *)
Definition join (s b : block) : option block :=
  if adjoins s b then
    let start := Z.min (bstart s) (bstart b) in
    let size := Z.max (bstart s + bsize s) (bstart b + bsize b) - start in
    Some (mkB start size false)
  else None.

(* split(self, span): [new, leftover]; (Some self, None) when span = size *)
Definition bsplit (s : block) (span : Z) : option block * option block :=
  if span <? bsize s then
    (Some (mkB (bstart s) span false), Some (mkB (bstart s + span) (bsize s - span) false))
  else if span =? bsize s then (Some s, None)
  else (None, None).

(* ---- the _freed dict ------------------------------------------------------ *)
Definition fdict := list (Z * list Z).

Fixpoint fr_get (f : fdict) (k : Z) : option (list Z) :=
  match f with
  | [] => None
  | (k', s) :: r => if k' =? k then Some s else fr_get r k
  end.

Fixpoint zmem (a : Z) (s : list Z) : bool :=
  match s with [] => false | x :: r => (x =? a) || zmem a r end.
Fixpoint zremove (a : Z) (s : list Z) : list Z :=
  match s with [] => [] | x :: r => if x =? a then zremove a r else x :: zremove a r end.
Definition zadd (a : Z) (s : list Z) : list Z := if zmem a s then s else s ++ [a].

(* _add_to_freed(block): new size classes go to the END of the dict *)
Fixpoint fr_add (f : fdict) (k a : Z) : fdict :=
  match f with
  | [] => [(k, [a])]
  | (k', s) :: r => if k' =? k then (k', zadd a s) :: r else (k', s) :: fr_add r k a
  end.

(* _remove_from_freed(block): an emptied size class is deleted *)
Fixpoint fr_remove (f : fdict) (k a : Z) : fdict :=
  match f with
  | [] => []
  | (k', s) :: r =>
      if k' =? k then
        match zremove a s with [] => r | s' => (k', s') :: r end
      else (k', s) :: fr_remove r k a
  end.

(* ---- allocator state ------------------------------------------------------ *)
Record st := mkS {
  arr : array;      (* self._array *)
  freed : fdict;    (* self._freed *)
  top : Z;          (* self.top    (absolute) *)
  pos : Z;          (* self.pos    (absolute: reserved + addr_offset) *)
  off : Z;          (* self.addr_offset *)
  size : Z          (* self.size *)
}.
Definition with_arr (s : st) (a : array) := mkS a (freed s) (top s) (pos s) (off s) (size s).
Definition with_freed (s : st) (f : fdict) := mkS (arr s) f (top s) (pos s) (off s) (size s).
Definition with_top (s : st) (t : Z) := mkS (arr s) (freed s) t (pos s) (off s) (size s).

(* __init__(size, pos, addr_offset) *)
Definition init (sz p o : Z) : res st :=
  let a := repeat (@None block) (Z.to_nat sz) in
  a' <- aset a p (Some (mkB (p + o) (sz - p) false)) ;;
  Ok (mkS a' [] (p + o) (p + o) o sz).

Definition add_to_freed (s : st) (b : block) : st := with_freed s (fr_add (freed s) (bsize b) (bstart b)).
Definition remove_from_freed (s : st) (b : block) : st := with_freed s (fr_remove (freed s) (bsize b) (bstart b)).

(* _find_previous(addr): for i in reversed(range(self.pos, addr)) *)
Fixpoint find_prev_loop (a : array) (o : Z) (i : Z) (k : nat) : res (option block) :=
  match k with
  | O => Ok None
  | S k' => v <- aget a (i - o) ;;
            match v with
            | Some b => Ok (Some b)
            | None => find_prev_loop a o (i - 1) k'
            end
  end.
Definition find_previous (s : st) (addr : Z) : res (option block) :=
  find_prev_loop (arr s) (off s) (addr - 1) (Z.to_nat (addr - pos s)).

(* the while loop of _find_next: "while i <= self.top and self._array[i - off] is None: i += 1";
   at most top - addr iterations, so the fuel below is exact *)
Fixpoint find_next_loop (a : array) (o t : Z) (i : Z) (k : nat) : res Z :=
  match k with
  | O => Ok i
  | S k' => if i <=? t then
              v <- aget a (i - o) ;;
              match v with None => find_next_loop a o t (i + 1) k' | Some _ => Ok i end
            else Ok i
  end.

(* _find_next(addr) *)
Definition find_next (rel : bool) (s : st) (addr : Z) : res (option block) :=
  tmp <- aget (arr s) (addr - off s) ;;
  i <- match tmp with
       | Some t => Ok (bstart t + bsize t)
       | None => find_next_loop (arr s) (off s) (top s) (addr + 1) (Z.to_nat (top s - addr))
       end ;;
  if (if rel then i - off s else i) <? size s then aget (arr s) (i - off s) else Ok None.

(* bi.choice(list(set_)) with the oracle c *)
Definition pick (sz : Z) (x : Z) (l : list Z) (c : Z) : block :=
  mkB (if zmem c (x :: l) then c else x) sz false.

(* _find_available(n) *)
Definition find_available (s : st) (n c : Z) : res (option block) :=
  match fr_get (freed s) n with
  | Some (x :: l) => Ok (Some (pick n x l c))
  | _ =>
    match find (fun e => (n <=? fst e) && (match snd e with [] => false | _ => true end)) (freed s) with
    | Some (sz, x :: l) => Ok (Some (pick sz x l c))
    | _ =>
      if size s <? top s + n - off s then Ok None
      else
        t <- aget (arr s) (top s - off s) ;;
        match t with
        | None => Raise AttributeError
        | Some b => if bused b then Ok None else Ok (Some b)
        end
    end
  end.

(* _split(avail_block, n, used) *)
Definition split_ (s : st) (avail : block) (n : Z) (used : bool) : res (st * (block * option block)) :=
  match bsplit avail n with
  | (None, _) => Raise AttributeError            (* new.used = used  on None *)
  | (Some new0, leftover) =>
      let new := set_used new0 used in
      let s := remove_from_freed s avail in
      let s := if used then s else add_to_freed s new in
      a <- aset (arr s) (bstart new - off s) (Some new) ;;
      let s := with_arr s a in
      match leftover with
      | None => Ok (s, (new, None))
      | Some lo =>
          a <- aset (arr s) (bstart lo - off s) (Some lo) ;;
          let s := with_arr s a in
          let s := with_top s (Z.max (top s) (bstart lo)) in
          let s := if bstart lo <? top s then add_to_freed s lo else s in
          Ok (s, (new, Some lo))
      end
  end.

(* _reserve(addr, size, avail_block, prev_block) *)
Definition reserve_ (s : st) (addr n : Z) (avail prev : option block) : res (st * block) :=
  prev <- match avail, prev with
          | None, None => find_previous s addr
          | _, _ => Ok prev
          end ;;
  let avail := match avail with None => prev | Some _ => avail end in
  match avail with
  | None => Raise AttributeError
  | Some av =>
      '(s, avail2) <- (if bstart av <? addr then
                         '(s1, (_, lo)) <- split_ s av (addr - bstart av) false ;; Ok (s1, lo)
                       else Ok (s, Some av)) ;;
      match avail2 with
      | None => Raise AttributeError
      | Some av2 => '(s2, (new, _)) <- split_ s av2 n true ;; Ok (s2, new)
      end
  end.

(* alloc(n) *)
Definition alloc (s : st) (n c : Z) : res (st * option Z) :=
  fb <- find_available s n c ;;
  match fb with
  | Some b => '(s', nb) <- reserve_ s (bstart b) n (Some b) None ;; Ok (s', Some (bstart nb))
  | None => Ok (s, None)
  end.

(* the two merge steps of free(), as written *)
Definition merge_prev (s : st) (addr : Z) (blk : block) : res (st * block) :=
  prev <- find_previous s addr ;;
  match prev with
  | Some p =>
      if negb (bused p) then
        match join p blk with
        | Some tmp =>
            let s := if bstart blk =? top s then with_top s (bstart tmp) else s in
            a <- aset (arr s) (bstart tmp - off s) (Some tmp) ;;
            a <- aset a (bstart blk - off s) None ;;
            let s := with_arr s a in
            let s := remove_from_freed s p in
            let s := remove_from_freed s blk in
            let s := if bstart tmp <? top s then add_to_freed s tmp else s in
            Ok (s, tmp)
        | None => Ok (s, blk)
        end
      else Ok (s, blk)
  | None => Ok (s, blk)
  end.

Definition merge_next (rel : bool) (s : st) (blk : block) : res st :=
  next <- find_next rel s (bstart blk) ;;
  match next with
  | Some nx =>
      if negb (bused nx) then
        match join nx blk with
        | Some tmp =>
            let s := if bstart nx =? top s then with_top s (bstart tmp) else s in
            a <- aset (arr s) (bstart tmp - off s) (Some tmp) ;;
            a <- aset a (bstart nx - off s) None ;;
            let s := with_arr s a in
            let s := remove_from_freed s nx in
            let s := remove_from_freed s blk in
            let s := if bstart tmp <? top s then add_to_freed s tmp else s in
            Ok s
        | None => Ok s
        end
      else Ok s
  | None => Ok s
  end.

(* free(addr)   (addr is not None) *)
Definition free (rel : bool) (s : st) (addr : Z) : res st :=
  (* "if not 0 <= addr - self.addr_offset < self.size: return"  (fix of D2: no negative indexing) *)
  if negb ((0 <=? addr - off s) && (addr - off s <? size s)) then Ok s else
  b <- aget (arr s) (addr - off s) ;;
  match b with
  | Some blk =>
      if bused blk then
        let blk' := set_used blk false in                      (* block.used = False *)
        a <- aset (arr s) (addr - off s) (Some blk') ;;        (*   (the object sits in _array) *)
        let s := with_arr s a in
        let s := add_to_freed s blk' in
        '(s, blk2) <- merge_prev s addr blk' ;;
        merge_next rel s blk2
      else Ok s
  | None => Ok s
  end.

(* blocks() *)
Definition used_blocks (s : st) : list block :=
  flat_map (fun x => match x with Some b => if bused b then [b] else [] | None => [] end) (arr s).

(* ---- histories ------------------------------------------------------------- *)
Inductive op := OAlloc (n c : Z) | OFree (a : Z).

Definition step (rel : bool) (s : st) (o : op) : res (st * option Z) :=
  match o with
  | OAlloc n c => alloc s n c
  | OFree a => s' <- free rel s a ;; Ok (s', None)
  end.

Fixpoint run (rel : bool) (s : st) (ops : list op) : res (st * list (option Z)) :=
  match ops with
  | [] => Ok (s, [])
  | o :: r => '(s1, x) <- step rel s o ;; '(s2, xs) <- run rel s1 r ;; Ok (s2, x :: xs)
  end.

(* ---- observation used by the correspondence -------------------------------- *)
Fixpoint cells_from (a : array) (i : Z) : list (Z * (Z * Z * bool)) :=
  match a with
  | [] => []
  | None :: r => cells_from r (i + 1)
  | Some b :: r => (i, (bstart b, bsize b, bused b)) :: cells_from r (i + 1)
  end.
Fixpoint zinsert (a : Z) (s : list Z) : list Z :=
  match s with [] => [a] | x :: r => if a <=? x then a :: s else x :: zinsert a r end.
Definition zsort (s : list Z) : list Z := fold_right zinsert [] s.
(* (top, non-None cells with their index, _freed in dict order with sorted sets) *)
Definition obs (s : st) : Z * list (Z * (Z * Z * bool)) * list (Z * list Z) :=
  (top s, cells_from (arr s) 0, map (fun e => (fst e, zsort (snd e))) (freed s)).

(* result of one op as the harness sees it:
   0 = returned None / free returned, 1 a = alloc returned a, 2 = IndexError, 3 = AttributeError *)
Definition err_code (e : err) : Z := match e with IndexError => 2 | AttributeError => 3 end.

(* trace: after every op the return code and the observation; stops at the first exception *)
Fixpoint trace (rel : bool) (s : st) (ops : list op)
  : list (Z * Z * (Z * list (Z * (Z * Z * bool)) * list (Z * list Z))) :=
  match ops with
  | [] => []
  | o :: r =>
      match step rel s o with
      | Ok (s1, Some a) => (1, a, obs s1) :: trace rel s1 r
      | Ok (s1, None) => (0, 0, obs s1) :: trace rel s1 r
      | Raise e => [(err_code e, 0, (0, [], []))]
      end
  end.

(* ---- server partitions (server.py:826-855) ---------------------------------- *)
(* _new_bus_allocators / _new_buffer_allocators: (size, pos, addr_offset) of the allocator of
   [client] when [total] indices of which the first [io] are not allocatable are shared by
   [logins] clients and [reserved] indices are reserved per client *)
Definition partition (total io logins reserved client : Z) : Z * Z * Z :=
  let per := (total - io) / logins in
  (per, reserved, per * client + io).

(* ---- boolean comparisons used by the correspondence shards ------------------- *)
Fixpoint list_eqb {A} (e : A -> A -> bool) (a b : list A) : bool :=
  match a, b with
  | [], [] => true
  | x :: r, y :: r' => e x y && list_eqb e r r'
  | _, _ => false
  end.
Definition cell := (Z * (Z * Z * bool))%type.
Definition observation := (Z * list cell * list (Z * list Z))%type.
Definition entry := (Z * Z * observation)%type.
Definition cell_eqb (x y : cell) : bool :=
  let '(i, (a, n, u)) := x in let '(i', (a', n', u')) := y in
  (i =? i') && (a =? a') && (n =? n') && Bool.eqb u u'.
Definition obs_eqb (x y : observation) : bool :=
  let '(t, c, f) := x in let '(t', c', f') := y in
  (t =? t') && list_eqb cell_eqb c c'
  && list_eqb (fun p q => (fst p =? fst q) && list_eqb Z.eqb (snd p) (snd q)) f f'.
Definition entry_eqb (x y : entry) : bool :=
  let '(k, a, o) := x in let '(k', a', o') := y in (k =? k') && (a =? a') && obs_eqb o o'.

(* one correspondence case: constructor arguments, history (with recorded choices), what the
   implementation produced after every op *)
Definition check_case (rel : bool) (c : (Z * Z * Z) * list op * list entry) : bool :=
  let '((sz, p, o), ops, expected) := c in
  match init sz p o with
  | Ok s0 => list_eqb entry_eqb (trace rel s0 ops) expected
  | Raise e => list_eqb entry_eqb [(err_code e, 0, (0, [], []))] expected
  end.

(* same through the server options: the implementation's constructor arguments must be [partition] *)
Definition check_part (rel : bool)
  (c : (Z * Z * Z * Z * Z) * (Z * Z * Z) * list op * list entry) : bool :=
  let '((total, io, logins, reserved, client), (sz, p, o), ops, expected) := c in
  let '(sz', p', o') := partition total io logins reserved client in
  (sz =? sz') && (p =? p') && (o =? o') && check_case rel ((sz, p, o), ops, expected).
