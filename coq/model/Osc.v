(* C06 -- executable model of sc3/base/_osclib.py (writers, readers, message
   builder + parser, bundle builder + parser, OscPacket) and of the sc3 layer
   sc3/base/_oscinterface.py:_build_msg/_build_bundle.  Definitions only.

   Conventions (DESIGN.md section 3):
   - bytes are [list Z] with 0 <= b < 256 ([wf_bytes]);
   - a Python str is its UTF-8 byte list (the harness encodes);
   - a float argument is the opaque 4-byte word struct.pack('>f', x) supplied
     by the harness; the timetag of a bundle is the integer the real
     _get_timetag returned for the latency (computing it is C07's business),
     the latency itself is kept as an exact rational for _check_subtime;
   - Python exceptions are the small enum [err];
   - [nc] ("NUL check") selects the repaired write_string (true: a str with a
     NUL byte is refused, build/proposed_fixes/C06_nul_in_string.diff) or the
     snapshot's (false: it is encoded as is).  Everything else is common. *)
From Coq Require Import ZArith QArith List Bool.
Import ListNotations.
Open Scope Z_scope.

Definition bytes := list Z.
Definition is_byte (b : Z) : bool := (0 <=? b) && (b <? 256).
Definition wf_bytes (l : bytes) : bool := forallb is_byte l.

Inductive err := EValue | EBuild | EParse | EOther | EFuel.
Inductive res (A : Type) := Ok (a : A) | Err (e : err).
Arguments Ok {A} a.
Arguments Err {A} e.
Definition bind {A B} (r : res A) (f : A -> res B) : res B :=
  match r with Ok a => f a | Err e => Err e end.
Notation "r >>= f" := (bind r f) (at level 50, left associativity).

Definition zlen {A} (l : list A) : Z := Z.of_nat (length l).

(* ---- Python indexing and slicing (negative indices count from the end) ---- *)
Definition norm_idx (n i : Z) : Z := if i <? 0 then Z.max 0 (n + i) else Z.min i n.
Definition slice {A} (l : list A) (i j : Z) : list A :=
  let n := zlen l in
  let a := norm_idx n i in
  let b := norm_idx n j in
  firstn (Z.to_nat (b - a)) (skipn (Z.to_nat a) l).
Definition slice_from {A} (l : list A) (i : Z) : list A :=
  skipn (Z.to_nat (norm_idx (zlen l) i)) l.

Definition zeros (n : Z) : bytes := repeat 0 (Z.to_nat n).

(* ---- fixed-width big-endian numbers (struct.pack / unpack) ---- *)
Definition be32 (u : Z) : bytes :=
  [(u / 16777216) mod 256; (u / 65536) mod 256; (u / 256) mod 256; u mod 256].
Definition be64 (u : Z) : bytes := be32 (u / 4294967296) ++ be32 (u mod 4294967296).
Fixpoint be_val (l : bytes) (acc : Z) : Z :=
  match l with [] => acc | b :: r => be_val r (acc * 256 + b) end.
Definition signed32 (u : Z) : Z := if u <? 2147483648 then u else u - 4294967296.

(* write_int: struct.pack('>i') raises struct.error outside int32 *)
Definition write_int (z : Z) : res bytes :=
  if (-2147483648 <=? z) && (z <? 2147483648) then Ok (be32 (z mod 4294967296)) else Err EBuild.
(* write_timetag: struct.pack('>Q') *)
Definition write_timetag (t : Z) : res bytes :=
  if (0 <=? t) && (t <? 18446744073709551616) then Ok (be64 t) else Err EBuild.

Definition has_nul (s : bytes) : bool := existsb (Z.eqb 0) s.

(* write_string: UTF-8 bytes, then 4 - len mod 4 NUL bytes (1..4) *)
Definition write_string (nc : bool) (s : bytes) : res bytes :=
  if nc && has_nul s then Err EBuild
  else Ok (s ++ zeros (4 - zlen s mod 4)).

(* write_blob: refuses the empty blob; int32 size, data, NULs up to a multiple of 4 *)
Definition write_blob (b : bytes) : res bytes :=
  match b with
  | [] => Err EBuild
  | _ => write_int (zlen b) >>= fun h => Ok (h ++ b ++ zeros ((- zlen b) mod 4))
  end.

(* ---- readers: (value, new index) or OscTypeParseError ---- *)
Fixpoint find_nul (l : bytes) (k : Z) : option Z :=
  match l with
  | [] => None
  | b :: r => if b =? 0 then Some k else find_nul r (k + 1)
  end.

(* get_string.  The `== _EMPTY_STR_DGRAM` shortcut of the source compares an int
   with a bytes object and is never taken; it is not modelled. *)
Definition get_string (dgram : bytes) (start : Z) : res (bytes * Z) :=
  if start <? 0 then Err EParse else
  match find_nul (skipn (Z.to_nat start) dgram) 0 with
  | None => Err EParse                       (* IndexError *)
  | Some offset =>
      let offset := if offset mod 4 =? 0 then offset + 4 else offset + (- offset) mod 4 in
      if zlen (slice_from dgram start) <? offset then Err EParse
      else Ok (filter (fun b => negb (b =? 0)) (slice dgram start (start + offset)), start + offset)
  end.

Definition get_fixed (n : Z) (dgram : bytes) (start : Z) : res (bytes * Z) :=
  if zlen (slice_from dgram start) <? n then Err EParse
  else let s := slice dgram start (start + n) in
       if zlen s =? n then Ok (s, start + n) else Err EParse.   (* struct.error *)

Definition get_int (dgram : bytes) (start : Z) : res (Z * Z) :=
  get_fixed 4 dgram start >>= fun '(s, i) => Ok (signed32 (be_val s 0), i).
Definition get_uint (dgram : bytes) (start : Z) : res (Z * Z) :=
  get_fixed 4 dgram start >>= fun '(s, i) => Ok (be_val s 0, i).
Definition get_timetag (dgram : bytes) (start : Z) : res (Z * Z) :=
  get_fixed 8 dgram start >>= fun '(s, i) => Ok (be_val s 0, i).
Definition get_double (dgram : bytes) (start : Z) : res (bytes * Z) := get_fixed 8 dgram start.
(* get_float pads a short datagram with NULs before unpacking *)
Definition get_float (dgram : bytes) (start : Z) : res (bytes * Z) :=
  let r := zlen (slice_from dgram start) in
  let d := if r <? 4 then dgram ++ zeros (4 - r) else dgram in
  let s := slice d start (start + 4) in
  if zlen s =? 4 then Ok (s, start + 4) else Err EParse.

Definition get_blob (dgram : bytes) (start : Z) : res (bytes * Z) :=
  get_int dgram start >>= fun '(size, int_offset) =>
  let total := size + (- size) mod 4 in
  let end_index := int_offset + size in
  if zlen (slice_from dgram start) <? end_index - start then Err EParse
  else Ok (slice dgram int_offset (int_offset + size), int_offset + total).

(* ---- parsed values ---- *)
Inductive pval :=
| PInt (z : Z) | PFloat (w : bytes) | PDouble (w : bytes) | PStr (s : bytes) | PBlob (b : bytes)
| PRgba (z : Z) | PMidi (w : bytes) | PTime (z : Z) | PTrue | PFalse
| PArr (l : list pval).

(* OscMessage._parse_datagram: the type-tag loop with its array stack.  Each stack
   entry is the reversed list being filled; the source appends the new array to its
   parent at '[' and fills it in place, which yields the same final value. *)
Fixpoint tag_loop (dgram : bytes) (tags : bytes) (i : Z) (stack : list (list pval)) : res (list pval) :=
  let push (v : pval) (st : list (list pval)) : list (list pval) :=
    match st with top :: rest => (v :: top) :: rest | [] => [[v]] end in
  match tags with
  | [] => match stack with [top] => Ok (rev top) | _ => Err EParse end
  | t :: ts =>
      if t =? 105 then get_int dgram i >>= fun '(v, j) => tag_loop dgram ts j (push (PInt v) stack)
      else if t =? 102 then get_float dgram i >>= fun '(v, j) => tag_loop dgram ts j (push (PFloat v) stack)
      else if t =? 100 then get_double dgram i >>= fun '(v, j) => tag_loop dgram ts j (push (PDouble v) stack)
      else if t =? 115 then get_string dgram i >>= fun '(v, j) => tag_loop dgram ts j (push (PStr v) stack)
      else if t =? 98 then get_blob dgram i >>= fun '(v, j) => tag_loop dgram ts j (push (PBlob v) stack)
      else if t =? 114 then get_uint dgram i >>= fun '(v, j) => tag_loop dgram ts j (push (PRgba v) stack)
      else if t =? 109 then get_fixed 4 dgram i >>= fun '(v, j) => tag_loop dgram ts j (push (PMidi v) stack)
      else if t =? 116 then get_timetag dgram i >>= fun '(v, j) => tag_loop dgram ts j (push (PTime v) stack)
      else if t =? 84 then tag_loop dgram ts i (push PTrue stack)
      else if t =? 70 then tag_loop dgram ts i (push PFalse stack)
      else if t =? 91 then tag_loop dgram ts i ([] :: stack)
      else if t =? 93 then
        match stack with
        | a :: p :: rest => tag_loop dgram ts i ((PArr (rev a) :: p) :: rest)
        | _ => Err EParse
        end
      else tag_loop dgram ts i stack            (* unhandled tag: warning, skipped *)
  end.

Definition parse_msg (dgram : bytes) : res (bytes * list pval) :=
  get_string dgram 0 >>= fun '(addr, i) =>
  match slice_from dgram i with
  | [] => Ok (addr, [])
  | _ => get_string dgram i >>= fun '(tg, j) =>
         let tg := match tg with 44 :: r => r | _ => tg end in
         tag_loop dgram tg j [[]] >>= fun ps => Ok (addr, ps)
  end.

(* ---- packets ---- *)
Inductive packet :=
| PMsg (addr : bytes) (params : list pval)
| PBundle (tt : Z) (contents : list packet).

Definition bundle_prefix : bytes := [35; 98; 117; 110; 100; 108; 101; 0].   (* b'#bundle\0' *)
Fixpoint starts_with (p l : bytes) : bool :=
  match p, l with
  | [], _ => true
  | a :: p', b :: l' => (a =? b) && starts_with p' l'
  | _ :: _, [] => false
  end.
Definition is_bundle (d : bytes) : bool := starts_with bundle_prefix d.
Definition is_message (d : bytes) : bool := starts_with [47] d.

(* OscBundle.__init__ / _parse_contents.  The `while` loop and the recursion into
   nested bundles both consume [fuel]; [EFuel] = the real code would not return
   (before the F4 repair it did not for a negative element size; with the bounds check
   every iteration advances by at least 4 bytes). *)
Fixpoint parse_bundle (fuel : nat) (dgram : bytes) : res packet :=
  match fuel with
  | O => Err EFuel
  | S f =>
      get_timetag dgram 8 >>= fun '(tm, i) =>
      parse_contents f dgram i [] >>= fun cs => Ok (PBundle tm cs)
  end
with parse_contents (fuel : nat) (dgram : bytes) (index : Z) (acc : list packet) : res (list packet) :=
  match fuel with
  | O => Err EFuel
  | S f =>
      match slice_from dgram index with
      | [] => Ok (rev acc)
      | _ =>
          get_int dgram index >>= fun '(size, i1) =>
          (* bounds check of the repaired _parse_contents (fix of DESIGN.md F4, property C18) *)
          if (size <? 0) || (zlen dgram <? i1 + size) then Err EParse else
          let content := slice dgram i1 (i1 + size) in
          let i2 := i1 + size in
          if is_bundle content then
            parse_bundle f content >>= fun b => parse_contents f dgram i2 (b :: acc)
          else if is_message content then
            parse_msg content >>= fun '(a, ps) => parse_contents f dgram i2 (PMsg a ps :: acc)
          else parse_contents f dgram i2 acc            (* warning, element dropped *)
      end
  end.

Definition parse_bundle_top (dgram : bytes) : res packet := parse_bundle (S (length dgram)) dgram.

(* OscPacket: a bundle is flattened to (time, message) pairs, stably sorted by
   time (`x.time or 0`); a lone message has time None. *)
Fixpoint flatten_pkt (p : packet) (tt : Z) : list (option Z * (bytes * list pval)) :=
  match p with
  | PMsg a ps => [(Some tt, (a, ps))]
  | PBundle t cs =>
      (fix go (l : list packet) : list (option Z * (bytes * list pval)) :=
         match l with [] => [] | c :: r => flatten_pkt c t ++ go r end) cs
  end.
Definition time_key (t : option Z) : Z := match t with Some z => z | None => 0 end.
Fixpoint insert_timed {A} (x : option Z * A) (l : list (option Z * A)) : list (option Z * A) :=
  match l with
  | [] => [x]
  | y :: r => if time_key (fst x) <=? time_key (fst y) then x :: l else y :: insert_timed x r
  end.
(* stable: elements are inserted from the right, each before the first one that is not earlier *)
Definition sort_timed {A} (l : list (option Z * A)) : list (option Z * A) :=
  fold_right insert_timed [] l.

Definition parse_packet (dgram : bytes) : res (list (option Z * (bytes * list pval))) :=
  if is_bundle dgram then
    parse_bundle_top dgram >>= fun b => Ok (sort_timed (flatten_pkt b 0))
  else if is_message dgram then
    parse_msg dgram >>= fun m => Ok [(None, m)]
  else Err EParse.

(* ---- the argument language of _build_msg / _build_bundle ---- *)
Inductive arg :=
| ANone
| ABool (b : bool)
| AInt (z : Z)
| AFloat (w : bytes)                    (* struct.pack('>f', x) *)
| AStr (s : bytes)                      (* UTF-8 of a str; '[' and ']' are array markers *)
| ABytes (b : bytes)
| ATime (lat : option Q) (tag : Z)      (* an int/float/None at the head of a list: its exact
                                           value and the timetag _get_timetag gave for it *)
| AOther                                (* an object OscMessageBuilder cannot type *)
| AList (l : list arg).

(* typed arguments held by OscMessageBuilder after the add_arg phase *)
Inductive targ := TInt (z : Z) | TFloat (w : bytes) | TStr (s : bytes) | TBlob (b : bytes) | TOpen | TClose.

Definition tag_of (t : targ) : Z :=
  match t with TInt _ => 105 | TFloat _ => 102 | TStr _ => 115 | TBlob _ => 98 | TOpen => 91 | TClose => 93 end.

Definition enc_targ (nc : bool) (t : targ) : res bytes :=
  match t with
  | TInt z => write_int z
  | TFloat w => Ok w
  | TStr s => write_string nc s
  | TBlob b => write_blob b
  | TOpen | TClose => Ok []
  end.
Fixpoint enc_targs (nc : bool) (l : list targ) : res bytes :=
  match l with
  | [] => Ok []
  | t :: r => enc_targ nc t >>= fun a => enc_targs nc r >>= fun b => Ok (a ++ b)
  end.

(* OscMessageBuilder.build: the writer ... *)
Definition enc_msg (nc : bool) (addr : bytes) (targs : list targ) : res bytes :=
  match addr with
  | [] => Err EBuild                                  (* 'OSC addresses cannot be empty' *)
  | _ =>
      write_string nc addr >>= fun a =>
      write_string nc (44 :: map tag_of targs) >>= fun t =>
      enc_targs nc targs >>= fun v => Ok (a ++ t ++ v)
  end.
(* ... followed by OscMessage(dgram), which parses what was written and raises
   OscMessageParseError (e.g. unbalanced array markers) *)
Definition check_msg (d : bytes) : res bytes :=
  match parse_msg d with Ok _ => Ok d | Err _ => Err EParse end.
Definition check_bundle (d : bytes) : res bytes :=
  match parse_bundle_top d with Ok _ => Ok d | Err _ => Err EParse end.

Definition is_str (a : arg) : bool := match a with AStr _ => true | _ => false end.
Definition is_time (a : arg) : bool := match a with ATime _ _ => true | _ => false end.
Definition is_list (a : arg) : bool := match a with AList _ => true | _ => false end.

(* _check_subtime(time, subtime) *)
Definition check_subtime (t s : option Q) : bool :=
  match t with
  | None => true
  | Some tq => match s with None => false | Some sq => Qle_bool tq sq end   (* raises iff time > subtime *)
  end.

(* OscBundleBuilder.build: the writer (contents are already built datagrams) *)
Fixpoint enc_contents (cs : list bytes) : res bytes :=
  match cs with
  | [] => Ok []
  | c :: r => write_int (zlen c) >>= fun h => enc_contents r >>= fun t => Ok (h ++ c ++ t)
  end.
Definition enc_bundle (tag : Z) (cs : list bytes) : res bytes :=
  write_timetag tag >>= fun t => enc_contents cs >>= fun b => Ok (bundle_prefix ++ t ++ b).

(* _build_msg / _build_bundle applied to a Python list.  [build_pkt nc a] builds the
   list [a] as a message when its head is a str and as a bundle when its head is a
   number or None.  Structural recursion on the nested argument tree. *)
Fixpoint build_pkt (nc : bool) (a : arg) {struct a} : res bytes :=
  match a with
  | AList (AStr addr :: args) =>
      (* _build_msg: the add_arg phase, in argument order *)
      (fix coerce (l : list arg) : res (list targ) :=
         match l with
         | [] => Ok []
         | x :: r =>
             (match x with
              | ANone => Ok (TInt 0)
              | ABool b => Ok (TInt (if b then 1 else 0))
              | AList [] => Ok (TInt 0)
              | AList (AStr _ :: _) => build_pkt nc x >>= fun d => Ok (TBlob d)
              | AList (ATime _ _ :: AList _ :: _) => build_pkt nc x >>= fun d => Ok (TBlob d)
              | AList _ => Err EValue
              | AStr s => Ok (if match s with [91] => true | _ => false end then TOpen
                              else if match s with [93] => true | _ => false end then TClose
                              else TStr s)
              | AInt z => Ok (TInt z)
              | AFloat w => Ok (TFloat w)
              | ABytes b => Ok (TBlob b)
              | ATime _ _ => Err EOther          (* not produced by the harness outside a list head *)
              | AOther => Err EValue             (* _get_arg_type: type not supported *)
              end) >>= fun t => coerce r >>= fun ts => Ok (t :: ts)
         end) args >>= fun targs =>
      enc_msg nc addr targs >>= check_msg
  | AList (ATime lat tag :: elems) =>
      (* _build_bundle *)
      (fix contents (l : list arg) : res (list bytes) :=
         match l with
         | [] => Ok []
         | e :: r =>
             (match e with
              | AList (AStr _ :: _) => build_pkt nc e
              | AList (ATime sub _ :: _) =>
                  if check_subtime lat sub then build_pkt nc e else Err EValue
              | AList [] => Err EOther           (* arg[0]: IndexError *)
              | AList _ => Err EValue
              | _ => Err EOther                  (* not a list: outside the modelled inputs *)
              end) >>= fun d => contents r >>= fun ds => Ok (d :: ds)
         end) elems >>= fun cs =>
      enc_bundle tag cs >>= check_bundle
  | _ => Err EOther
  end.

(* the add_arg phase on its own (same text as the inner loop above; proofs/C06 shows
   build_pkt unfolds to it) *)
Definition coerce1 (nc : bool) (x : arg) : res targ :=
  match x with
  | ANone => Ok (TInt 0)
  | ABool b => Ok (TInt (if b then 1 else 0))
  | AList [] => Ok (TInt 0)
  | AList (AStr _ :: _) => build_pkt nc x >>= fun d => Ok (TBlob d)
  | AList (ATime _ _ :: AList _ :: _) => build_pkt nc x >>= fun d => Ok (TBlob d)
  | AList _ => Err EValue
  | AStr s => Ok (if match s with [91] => true | _ => false end then TOpen
                  else if match s with [93] => true | _ => false end then TClose
                  else TStr s)
  | AInt z => Ok (TInt z)
  | AFloat w => Ok (TFloat w)
  | ABytes b => Ok (TBlob b)
  | ATime _ _ => Err EOther
  | AOther => Err EValue
  end.
Fixpoint coerce_args (nc : bool) (l : list arg) : res (list targ) :=
  match l with
  | [] => Ok []
  | x :: r => coerce1 nc x >>= fun t => coerce_args nc r >>= fun ts => Ok (t :: ts)
  end.
Definition build_elem (nc : bool) (lat : option Q) (e : arg) : res bytes :=
  match e with
  | AList (AStr _ :: _) => build_pkt nc e
  | AList (ATime sub _ :: _) => if check_subtime lat sub then build_pkt nc e else Err EValue
  | AList [] => Err EOther
  | AList _ => Err EValue
  | _ => Err EOther
  end.
Fixpoint build_elems (nc : bool) (lat : option Q) (l : list arg) : res (list bytes) :=
  match l with
  | [] => Ok []
  | e :: r => build_elem nc lat e >>= fun d => build_elems nc lat r >>= fun ds => Ok (d :: ds)
  end.

(* representation invariant of the harness: a float word has 4 bytes *)
Fixpoint floats4 (a : arg) : bool :=
  match a with
  | AFloat w => zlen w =? 4
  | AList l => (fix go (l : list arg) : bool := match l with [] => true | x :: r => floats4 x && go r end) l
  | _ => true
  end.

(* ---- what the receiver is expected to see (specification side) ---- *)
Inductive tok := KVal (v : pval) | KOpen | KClose.
Definition tok_of (t : targ) : tok :=
  match t with
  | TInt z => KVal (PInt z) | TFloat w => KVal (PFloat w) | TStr s => KVal (PStr s)
  | TBlob b => KVal (PBlob b) | TOpen => KOpen | TClose => KClose
  end.
(* bracket matching: None when the markers are unbalanced *)
Fixpoint nest (toks : list tok) (stack : list (list pval)) : option (list pval) :=
  match toks with
  | [] => match stack with [top] => Some (rev top) | _ => None end
  | KVal v :: r => match stack with top :: rest => nest r ((v :: top) :: rest) | [] => None end
  | KOpen :: r => nest r ([] :: stack)
  | KClose :: r => match stack with a :: p :: rest => nest r ((PArr (rev a) :: p) :: rest) | _ => None end
  end.

(* ---- boolean equalities used by the correspondence ---- *)
Fixpoint bytes_eqb (a b : bytes) : bool :=
  match a, b with
  | [], [] => true
  | x :: a', y :: b' => (x =? y) && bytes_eqb a' b'
  | _, _ => false
  end.
Fixpoint pval_eqb (a b : pval) {struct a} : bool :=
  match a, b with
  | PInt x, PInt y | PRgba x, PRgba y | PTime x, PTime y => x =? y
  | PFloat x, PFloat y | PDouble x, PDouble y | PStr x, PStr y | PBlob x, PBlob y | PMidi x, PMidi y => bytes_eqb x y
  | PTrue, PTrue | PFalse, PFalse => true
  | PArr x, PArr y =>
      (fix go (l : list pval) (m : list pval) {struct l} : bool :=
         match l, m with
         | [], [] => true
         | u :: l', v :: m' => pval_eqb u v && go l' m'
         | _, _ => false
         end) x y
  | _, _ => false
  end.
Fixpoint pvals_eqb (l m : list pval) : bool :=
  match l, m with
  | [], [] => true
  | u :: l', v :: m' => pval_eqb u v && pvals_eqb l' m'
  | _, _ => false
  end.
Definition msg_eqb (a b : bytes * list pval) : bool := bytes_eqb (fst a) (fst b) && pvals_eqb (snd a) (snd b).
Definition optz_eqb (a b : option Z) : bool :=
  match a, b with Some x, Some y => x =? y | None, None => true | _, _ => false end.
Fixpoint timed_eqb (l m : list (option Z * (bytes * list pval))) : bool :=
  match l, m with
  | [], [] => true
  | (t, x) :: l', (u, y) :: m' => optz_eqb t u && msg_eqb x y && timed_eqb l' m'
  | _, _ => false
  end.
Definition err_code (e : err) : Z :=
  match e with EValue => 1 | EBuild => 2 | EParse => 3 | EOther => 4 | EFuel => 5 end.
(* canonical result of a build: (0, bytes) or (error code, []) *)
Definition build_canon (r : res bytes) : Z * bytes :=
  match r with Ok d => (0, d) | Err e => (err_code e, []) end.
Definition build_canon_eqb (a b : Z * bytes) : bool := (fst a =? fst b) && bytes_eqb (snd a) (snd b).

(* ---- guards of the round-trip theorems ---- *)
(* one datagram read back as a packet: the dispatch of OscPacket / _parse_contents *)
Definition parse_any (fuel : nat) (d : bytes) : res packet :=
  if is_bundle d then parse_bundle fuel d
  else if is_message d then parse_msg d >>= fun '(a, ps) => Ok (PMsg a ps)
  else Err EParse.
Definition str_nul_free (x : arg) : bool := match x with AStr s => negb (has_nul s) | _ => true end.
(* every message that is a bundle element (at any depth) has an address beginning with
   '/'; when the writer does not check for NUL (nc = false), its address and string
   arguments are NUL-free *)
Fixpoint pkt_guard (nc : bool) (a : arg) : bool :=
  match a with
  | AList (AStr addr :: args) =>
      starts_with [47] addr && (nc || (negb (has_nul addr) && forallb str_nul_free args))
  | AList (ATime _ _ :: elems) =>
      (fix go (l : list arg) : bool := match l with [] => true | x :: r => pkt_guard nc x && go r end) elems
  | _ => true
  end.
