(* KProg -- script programs of routines (C05, C07) and the pure kernels they share:
   tempo maps (TempoClock.beats2secs/secs2beats/tempo.setter), bundle stamping
   (_get_timetag both variants, _get_logical_time, _check_subtime, _build_bundle order),
   SystemClock.elapsed_time_to_osc / osc_to_elapsed_time, the (time, count) ordered insertion
   used by ClockScheduler and OscScore.   Executable definitions only.
   Python floats are ideal floats (Q), timetags are Z  (DESIGN.md section 3). *)
From Coq Require Import ZArith QArith Qround List Bool.
Import ListNotations.
Open Scope Q_scope.

(* ---- syntax ------------------------------------------------------------ *)
Inductive clockid := CSystem | CApp | CTempo (i : nat).

(* bundle element: a message ['/m', m] or a nested bundle [lat, elems...] *)
Inductive elem := EMsg (m : Z) | EBundle (lat : option Q) (es : list elem).

Inductive act :=
| Yield (d : Q)                                   (* yield d *)
| Send (lat : option Q) (m : Z)                   (* addr.send_bundle(lat, ['/m', m]) *)
| SendMsg (m : Z)                                 (* addr.send_msg('/m', m) *)
| SendBundle (lat : option Q) (es : list elem)    (* addr.send_bundle(lat, *es) *)
| Play (r : nat) (c : clockid)                    (* Routine(body r).play(c, 0) *)
| Fork (r : nat)                                  (* Routine(body r).play(None, 0): inherits the clock *)
| SetTempo (i : nat) (v : Q)                      (* tempoclocks[i].tempo = v *)
| Return.                                         (* return *)

Record prog := mkProg {
  p_tempos : list Q;            (* TempoClock(tempo) created first, outside routines *)
  p_bodies : list (list act);   (* routine bodies, instantiated by Play/Fork *)
  p_main : list act;            (* executed outside any routine (Yield is skipped there) *)
  p_tail : Q                    (* main.process(tailtime) *)
}.

(* what the real code has been observed to do (as found) versus the repaired behaviour *)
Record quirks := mkQuirks {
  qk_app_abs : bool;        (* F20: NRT AppClock.sched takes delta as an absolute time *)
  qk_tail_early : bool;     (* F17: finish() puts the marker at now + tailtime even when bundles lie later *)
  qk_tempo_frozen : bool    (* F11: NRT ClockTask keeps the seconds computed at scheduling time *)
}.
Definition as_found := mkQuirks true true true.
Definition repaired := mkQuirks false false false.

(* ---- small Q helpers ---------------------------------------------------- *)
Definition Qltb (x y : Q) : bool := negb (Qle_bool y x).
Definition Qtrunc (q : Q) : Z := if Qle_bool 0 q then Qfloor q else Qceiling q.   (* int(float) *)
Definition two32 : Q := inject_Z 4294967296.
Definition Qmaxq (x y : Q) : Q := if Qle_bool x y then y else x.

(* ---- tempo maps ----------------------------------------------------------- *)
Record tclock := mkT { t_tempo : Q; t_bdur : Q; t_bsecs : Q; t_bbeats : Q }.
Definition tc_new (tempo now : Q) : tclock :=                      (* TempoClock.__init__ *)
  let t := if Qeq_bool tempo 0 then 1 else tempo in mkT t (1 / t) now 0.
Definition tc_b2s (t : tclock) (b : Q) : Q := (b - t_bbeats t) * t_bdur t + t_bsecs t.
Definition tc_s2b (t : tclock) (s : Q) : Q := (s - t_bsecs t) * t_tempo t + t_bbeats t.
(* tempo.setter at logical time T; None = ValueError *)
Definition tc_set_tempo (t : tclock) (T v : Q) : option tclock :=
  if Qeq_bool v 0 then None
  else if Qltb (t_tempo t) 0 then None
  else if Qltb v 0 then None
  else let beats := tc_s2b t T in
       Some (mkT v (Qred (1 / v)) (Qred (tc_b2s t beats)) (Qred beats)).

Definition b2s (tcs : list tclock) (c : clockid) (b : Q) : Q :=
  match c with CTempo i => match nth_error tcs i with Some t => tc_b2s t b | None => b end | _ => b end.
Definition s2b (tcs : list tclock) (c : clockid) (s : Q) : Q :=
  match c with CTempo i => match nth_error tcs i with Some t => tc_s2b t s | None => s end | _ => s end.
Definition clock_ok (tcs : list tclock) (c : clockid) : bool :=
  match c with CTempo i => match nth_error tcs i with Some _ => true | None => false end | _ => true end.
Definition clock_eqb (a b : clockid) : bool :=
  match a, b with CSystem, CSystem => true | CApp, CApp => true | CTempo i, CTempo j => Nat.eqb i j | _, _ => false end.

Fixpoint set_nth {A} (l : list A) (i : nat) (x : A) : list A :=
  match l, i with
  | [], _ => []
  | _ :: r, O => x :: r
  | y :: r, S j => y :: set_nth r j x
  end.

(* ---- stamping ------------------------------------------------------------- *)
(* a stamped element: imm = the timetag is IMMEDIATELY (RT only); time = logical seconds the
   bundle is due; tag = OSC timetag *)
Inductive selem := SMsg (m : Z) | SBundle (imm : bool) (time : Q) (tag : Z) (es : list selem).

Definition lat_immediate (lat : option Q) : bool :=
  match lat with None => true | Some l => Qltb l 0 end.
Definition lat_val (lat : option Q) : Q :=
  match lat with None => 0 | Some l => if Qltb l 0 then 0 else l end.

(* _check_subtime(time, subtime): true = does not raise *)
Definition check_subtime (p s : option Q) : bool :=
  match p with
  | None => true
  | Some pt => match s with None => false | Some st => negb (Qltb st pt) end
  end.

(* SystemClock.elapsed_time_to_osc / osc_to_elapsed_time *)
Definition elapsed_to_osc (offset : Z) (t : Q) : Z := (Qtrunc (t * two32) + offset)%Z.
Definition osc_to_elapsed (offset : Z) (o : Z) : Q := inject_Z (o - offset) / two32.

(* stamping mode: NRT (inside a routine or not) or RT with the clock's osc offset *)
Inductive smode := MNrt (inside : bool) | MRt (offset : Z).

(* OscScore._get_logical_time / the seconds a bundle is due *)
Definition stamp_time (md : smode) (send_time : Q) (lat : option Q) : Q :=
  Qred match md with
       | MNrt inside => lat_val lat + (if inside then send_time else 0)
       | MRt _ => lat_val lat + send_time
       end.
(* _get_timetag: OscNrtInterface variant and OscInterface variant *)
Definition stamp_tag (md : smode) (send_time : Q) (lat : option Q) : Z :=
  match md with
  | MNrt inside => Qtrunc (stamp_time md send_time lat * two32)
  | MRt off => if lat_immediate lat then 1%Z else elapsed_to_osc off (lat_val lat + send_time)
  end.
Definition stamp_imm (md : smode) (lat : option Q) : bool :=
  match md with MNrt _ => false | MRt _ => lat_immediate lat end.

(* _build_bundle(send_time, [lat, *es]): None = ValueError (nested bundle before its parent) *)
Section StampList.
  Context (f : elem -> option selem).
  Fixpoint stamp_list (es : list elem) : option (list selem) :=
    match es with
    | [] => Some []
    | e :: rest =>
        match f e with
        | None => None
        | Some s => match stamp_list rest with Some ss => Some (s :: ss) | None => None end
        end
    end.
End StampList.
(* struct.pack('>Q', timetag) refuses a negative timetag (OscBundleBuildError) *)
Definition tag_ok (z : Z) : bool := (0 <=? z)%Z.
(* one element of a bundle whose own latency is plat *)
Fixpoint stamp_elem (md : smode) (send_time : Q) (plat : option Q) (e : elem) {struct e} : option selem :=
  match e with
  | EMsg m => Some (SMsg m)
  | EBundle l sub =>
      if check_subtime plat l && tag_ok (stamp_tag md send_time l) then
        match stamp_list (stamp_elem md send_time l) sub with
        | Some ss => Some (SBundle (stamp_imm md l) (stamp_time md send_time l) (stamp_tag md send_time l) ss)
        | None => None
        end
      else None
  end.
Definition stamp_elems (md : smode) (send_time : Q) (plat : option Q) (es : list elem) : option (list selem) :=
  stamp_list (stamp_elem md send_time plat) es.
Definition stamp_bundle (md : smode) (send_time : Q) (lat : option Q) (es : list elem) : option selem :=
  match (if tag_ok (stamp_tag md send_time lat) then stamp_elems md send_time lat es else None) with
  | Some ss => Some (SBundle (stamp_imm md lat) (stamp_time md send_time lat) (stamp_tag md send_time lat) ss)
  | None => None
  end.

(* ---- (time, count) ordered collections (TaskQueue as used by the scheduler and the score) *)
Definition key_leb (t1 : Q) (c1 : nat) (t2 : Q) (c2 : nat) : bool :=
  Qltb t1 t2 || (Qeq_bool t1 t2 && Nat.leb c1 c2).

Section Ins.
  Context {A : Type} (ktime : A -> Q) (kcnt : A -> nat).
  Fixpoint kinsert (x : A) (l : list A) : list A :=
    match l with
    | [] => [x]
    | y :: r => if key_leb (ktime y) (kcnt y) (ktime x) (kcnt x) then y :: kinsert x r else x :: l
    end.
End Ins.

(* ---- events observed on a run (what the harness records on the real library) *)
Inductive event :=
| EvResume (rid k : nat) (c : clockid) (secs beats : Q)        (* k-th resumption: current_tt._seconds, clock.beats *)
| EvPlay (parent : option (nat * nat)) (child : nat) (c : clockid) (secs : Q)   (* play() called at logical time secs *)
| EvSend (origin : option (nat * nat)) (secs : Q) (lat : option Q) (es : list elem) (res : option selem)
| EvSendMsg (origin : option (nat * nat)) (secs : Q) (m : Z)
| EvTempo (origin : option (nat * nat)) (i : nat) (v : Q) (ok : bool)
| EvEnd (rid k : nat) (raised : bool).

Fixpoint yields (body : list act) : list Q :=
  match body with
  | [] => []
  | Return :: _ => []
  | Yield d :: r => d :: yields r
  | _ :: r => yields r
  end.
Fixpoint Qsum (l : list Q) : Q := match l with [] => 0 | x :: r => x + Qsum r end.
(* Qred: values are kept in lowest terms only to keep vm_compute fast; Qred q == q. *)
