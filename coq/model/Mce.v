(* Mce.v -- executable model of multichannel expansion in sc3 (property C03).
   Definitions only (no proofs).  Sources modelled, line by line:

     sc3/synth/ugen.py      SynthObject._multi_new (250-279), ChannelList._multichannel_perform
                            and the convenience methods built on it, ChannelList.madd,
                            SynthObject._replace_zeroes_with_silence (425-435)
     sc3/base/utils.py      as_list, wrap_extend, flop, list_unop, list_binop, list_narop
     sc3/synth/ugens/inout.py  Out.ar / Out.kr argument splicing
     sc3/synth/_graphparam.py  UGenSequence._as_ugen_input (identity on these trees)

   Values.  What a graph function hands to a constructor is a tree:
     Scalar a   a Python object that is neither list nor tuple: a number (K, by value), a
                unit-generator output (U uid channel: a UGen object or an OutputProxy),
                a string / None / other opaque thing (Str id);
     Tuple l    a Python tuple;
     Lst l      a Python list or a ChannelList (a list subclass; both satisfy
                isinstance(x, list), which is the only test the expansion code makes).
   The rate string that every constructor passes as first argument of _multi_new is a
   scalar (never expanded); it is folded into the class identifier [cls] of a unit.

   State.  The list of units created so far in the SynthDef under construction
   (synthdef._children), in creation order; a unit's uid is its position.  A unit is the
   record of the constructor call that made it: class id and argument vector.
   Exceptions are an enum; a raising computation has no final state (the build is aborted). *)
From Coq Require Import ZArith List Bool Arith.
Import ListNotations.

Inductive atom := K (z : Z) | U (uid : nat) (ch : nat) | Str (sid : Z).
Inductive arg := Scalar (a : atom) | Tuple (l : list arg) | Lst (l : list arg).

Record unit_rec := mkUnit { ucls : Z; uargs : list arg }.
Definition state := list unit_rec.

Inductive err := ZeroDivisionError | IndexError | TypeError | AttributeError | OutOfFuel | NotModelled.
Inductive res (A : Type) := Ok (a : A) (st : state) | Err (e : err).
Arguments Ok {A} _ _.
Arguments Err {A} _.
Definition M (A : Type) := state -> res A.
Definition ret {A} (a : A) : M A := fun st => Ok a st.
Definition raise {A} (e : err) : M A := fun _ => Err e.
Definition bind {A B} (m : M A) (f : A -> M B) : M B :=
  fun st => match m st with Ok a st' => f a st' | Err e => Err e end.

(* for i in range(count): results.append(body(start + i)) *)
Fixpoint loop {A} (body : nat -> M A) (i count : nat) : M (list A) :=
  match count with
  | O => ret []
  | S c => bind (body i) (fun r => bind (loop body (S i) c) (fun rs => ret (r :: rs)))
  end.
Section MapM.
  Context {A B : Type} (f : A -> M B).
  Fixpoint mapM (l : list A) : M (list B) :=
    match l with
    | [] => ret []
    | x :: r => bind (f x) (fun y => bind (mapM r) (fun ys => ret (y :: ys)))
    end.
End MapM.

(* ---- tree helpers ------------------------------------------------------- *)
Definition is_lst (a : arg) : bool := match a with Lst _ => true | _ => false end.
Definition is_tuple (a : arg) : bool := match a with Tuple _ => true | _ => false end.
Definition is_seq (a : arg) : bool := match a with Scalar _ => false | _ => true end.   (* isinstance(x, (list, tuple)) *)
Definition items (a : arg) : list arg := match a with Tuple l | Lst l => l | Scalar _ => [] end.
Definition lst_len (a : arg) : nat := match a with Lst l => length l | _ => 0 end.

Definition list_max (l : list nat) : nat := fold_right Nat.max 0 l.
(* nesting depth through lists only (tuples are opaque to _multi_new) *)
Fixpoint ldepth (a : arg) : nat :=
  match a with Lst l => S (list_max (map ldepth l)) | _ => 0 end.
Definition depth_args (args : list arg) : nat := list_max (map ldepth args).
(* nesting depth through lists and tuples (both are sequences to list_binop) *)
Fixpoint sdepth (a : arg) : nat :=
  match a with Lst l | Tuple l => S (list_max (map sdepth l)) | Scalar _ => 0 end.

(* ---- SynthObject._multi_new --------------------------------------------- *)
(* length = 0; for item in args: if isinstance(item, list): length = max(length, len(item)) *)
Definition maxlen (args : list arg) : nat := list_max (map lst_len args).
(* item[i % len(item)] if isinstance(item, list) else item ; None = ZeroDivisionError *)
Definition pick (i : nat) (a : arg) : option arg :=
  match a with
  | Lst [] => None
  | Lst l => nth_error l (i mod length l)
  | _ => Some a
  end.
Fixpoint pick_all (i : nat) (args : list arg) : option (list arg) :=
  match args with
  | [] => Some []
  | a :: r => match pick i a with
              | None => None
              | Some x => match pick_all i r with None => None | Some xs => Some (x :: xs) end
              end
  end.

Section MultiNew.
  Variable new1 : list arg -> M arg.       (* cls._new1( *args) *)
  Fixpoint multi_new_f (fuel : nat) (args : list arg) : M arg :=
    match fuel with
    | O => raise OutOfFuel
    | S f =>
      if maxlen args =? 0 then new1 args            (* if not length: return cls._new1( *args) *)
      else bind (loop (fun i => match pick_all i args with
                                | None => raise ZeroDivisionError
                                | Some new_args => multi_new_f f new_args
                                end) 0 (maxlen args))
                (fun results => ret (Lst results))   (* ChannelList(results) *)
    end.
  Definition multi_new (args : list arg) : M arg := multi_new_f (S (depth_args args)) args.
End MultiNew.

(* _new1 of a class that only stores its inputs (UGen._init_ugen): one unit, returns self;
   MultiOutUGen._init_outputs(n): one unit, returns the proxy (n = 1) or the ChannelList of
   the n proxies; AbstractOut: one unit (return value unused). *)
Definition proxies (uid n : nat) : list arg := map (fun c => Scalar (U uid c)) (seq 0 n).
Definition new1_plain (cls : Z) (nouts : nat) (args : list arg) : M arg :=
  fun st => let uid := length st in
            Ok (if nouts <=? 1 then Scalar (U uid 0) else Lst (proxies uid nouts))
               (st ++ [mkUnit cls args]).

(* ---- calculation rates --------------------------------------------------------------- *)
(* A class id carries the unit's rate: id = 4 * base + code (scalar 0, control 1, audio 2,
   demand 3); [base] identifies class name, operator, number of outputs and special index.
   So the rate of every created unit is part of what is compared with the implementation. *)
Inductive rate := RScalar | RControl | RAudio | RDemand.
Definition rate_code (r : rate) : Z :=
  match r with RScalar => 0 | RControl => 1 | RAudio => 2 | RDemand => 3 end.
Definition with_rate (base : Z) (r : rate) : Z := 4 * base + rate_code r.
Definition cls_rate (c : Z) : rate :=
  match (c mod 4)%Z with 1%Z => RControl | 2%Z => RAudio | 3%Z => RDemand | _ => RScalar end.
(* the rate of a UGen object / OutputProxy: that of the unit it belongs to *)
Definition unit_rate (st : state) (uid : nat) : rate :=
  match nth_error st uid with Some u => cls_rate (ucls u) | None => RScalar end.
(* utils.list_min on the rate NAMES: 'audio' < 'control' < 'demand' < 'scalar' *)
Definition alpha_rank (r : rate) : nat :=
  match r with RAudio => 0 | RControl => 1 | RDemand => 2 | RScalar => 3 end.
Definition alpha_min (a b : rate) : rate := if alpha_rank b <? alpha_rank a then b else a.
(* ugen_param(x)._as_ugen_rate(): numbers, strings (and None inside sequences) 'scalar'; a
   sequence of one element has that element's rate, otherwise list_min of the elements' rates;
   None = IndexError (list_min of an empty sequence) *)
Fixpoint arg_rate (st : state) (a : arg) : option rate :=
  match a with
  | Scalar (U uid _) => Some (unit_rate st uid)
  | Scalar _ => Some RScalar
  | Tuple l | Lst l =>
    match l with
    | [] => None
    | x :: r =>
      match r with
      | [] => arg_rate st x
      | _ => (fix go (l : list arg) (acc : option rate) : option rate :=
                match l with
                | [] => acc
                | y :: r' => match acc, arg_rate st y with
                             | Some m, Some ry => go r' (Some (alpha_min m ry))
                             | _, _ => None
                             end
                end) r (arg_rate st x)
      end
    end
  end.
(* BinaryOpUGen._determine_rate: demand, audio, control, scalar in this order of precedence *)
Definition max_rate (a b : rate) : rate :=
  match a, b with
  | RDemand, _ | _, RDemand => RDemand
  | RAudio, _ | _, RAudio => RAudio
  | RControl, _ | _, RControl => RControl
  | _, _ => RScalar
  end.
Definition ratefn := state -> list arg -> option rate.
Definition binop_ratef : ratefn := fun st args =>
  match args with
  | [a; b] => match arg_rate st a, arg_rate st b with
              | Some x, Some y => Some (max_rate x y) | _, _ => None end
  | _ => None
  end.
Definition unop_ratef : ratefn := fun st args =>          (* UnaryOpUGen: the input's rate *)
  match args with [a] => arg_rate st a | _ => None end.
Definition inputs_ratef : ratefn := fun st args => arg_rate st (Tuple args).   (* MulAdd: rate of the inputs tuple *)
(* _new1 of a class whose _init_ugen determines the rate from the unit's OWN inputs *)
Definition new1_rated (base : Z) (nouts : nat) (rf : ratefn) (args : list arg) : M arg :=
  fun st => match rf st args with
            | Some r => new1_plain (with_rate base r) nouts args st
            | None => Err IndexError
            end.

(* number of units an expansion creates for a one-unit constructor (pure) *)
Fixpoint count_calls_f (fuel : nat) (args : list arg) : nat :=
  match fuel with
  | O => 0
  | S f => if maxlen args =? 0 then 1
           else list_sum (map (fun i => match pick_all i args with
                                        | None => 0 | Some a => count_calls_f f a end)
                              (seq 0 (maxlen args)))
  end.
Definition count_calls (args : list arg) : nat := count_calls_f (S (depth_args args)) args.

(* no list reachable through list nesting is empty: the guard under which
   item[i % len(item)] never raises *)
Fixpoint noempty (a : arg) : bool :=
  match a with
  | Lst [] => false
  | Lst l => forallb noempty l
  | _ => true
  end.
(* the non-list values reachable from a through list nesting *)
Fixpoint leaves (a : arg) : list arg :=
  match a with Lst l => flat_map leaves l | _ => [a] end.

(* ---- utils.py ------------------------------------------------------------ *)
(* as_list: tuples and strings are bubbled, lists copied, other objects bubbled *)
Definition as_list (a : arg) : list arg := match a with Lst l => l | _ => [a] end.

(* wrap_extend(lst, n): l = len(lst); if l == 0 or n <= 0: return []
   return lst * (n // l) + lst[:n % l] *)
Definition wrap_extend (l : list arg) (n : nat) : list arg :=
  match l with
  | [] => []
  | _ => concat (repeat l (n / length l)) ++ firstn (n mod length l) l
  end.

(* flop: lst = [as_list(x) ...]; n == 0 -> [[]]; length = max(len);
   ret[i][j] = lst[j][i % len(lst[j])], and [] when lst[j] is empty *)
Definition flop (lst : list arg) : list (list arg) :=
  let cols := map as_list lst in
  match cols with
  | [] => [[]]
  | _ => map (fun i => map (fun col => match col with
                                       | [] => Lst []
                                       | _ => nth (i mod length col) col (Lst [])
                                       end) cols)
             (seq 0 (list_max (map (@length arg) cols)))
  end.

Inductive kind := KList | KTuple.
Definition mk (t : kind) (l : list arg) : arg := match t with KList => Lst l | KTuple => Tuple l end.
Definition kind_of (a : arg) : kind := match a with Tuple _ => KTuple | _ => KList end.
(* a2 = list(a[i]) if tuple ... a2 = a2 or a[i] *)
Definition untuple (a : arg) : arg := match a with Tuple (x :: r) => Lst (x :: r) | _ => a end.
Definition elem_kind (x y : arg) : kind := if is_tuple x || is_tuple y then KTuple else KList.

Section ListOps.
  Variable op1 : arg -> M arg.             (* operands are scalars when these are reached *)
  Variable op2 : arg -> arg -> M arg.

  Fixpoint list_unop_f (fuel : nat) (a : arg) (t : kind) : M arg :=
    match fuel with
    | O => raise OutOfFuel
    | S f =>
      if is_seq a then
        if existsb is_seq (items a)
        then bind (mapM (fun i => list_unop_f f i (kind_of i)) (items a)) (fun r => ret (mk t r))
        else bind (mapM op1 (items a)) (fun r => ret (mk t r))
      else op1 a
    end.
  Definition list_unop (a : arg) (t : kind) : M arg := list_unop_f (S (sdepth a)) a t.

  Fixpoint list_binop_f (fuel : nat) (a b : arg) (t : kind) : M arg :=
    match fuel with
    | O => raise OutOfFuel
    | S f =>
      match is_seq a, is_seq b with
      | true, true =>
        let la := if length (items b) <=? length (items a) then items a
                  else wrap_extend (items a) (length (items b)) in
        let lb := if length (items b) <=? length (items a) then wrap_extend (items b) (length (items a))
                  else items b in
        if existsb is_seq la || existsb is_seq lb then
          bind (loop (fun i => match nth_error la i, nth_error lb i with
                               | Some x, Some y => list_binop_f f (untuple x) (untuple y) (elem_kind x y)
                               | _, _ => raise IndexError
                               end) 0 (length la))
               (fun r => ret (mk t r))
        else bind (mapM (fun p => op2 (fst p) (snd p)) (combine la lb)) (fun r => ret (mk t r))
      | true, false =>
        bind (mapM (fun x => list_binop_f f x b (kind_of x)) (items a)) (fun r => ret (mk t r))
      | false, true =>
        bind (mapM (fun y => list_binop_f f a y (kind_of y)) (items b)) (fun r => ret (mk t r))
      | false, false => op2 a b
      end
    end.
  Definition list_binop (a b : arg) (t : kind) : M arg :=
    list_binop_f (S (sdepth a + sdepth b)) a b t.
End ListOps.

(* list_narop(op, a, *args): like list_unop with the extra arguments passed along unchanged *)
Definition list_narop (opn : arg -> list arg -> M arg) (a : arg) (extra : list arg) (t : kind) : M arg :=
  list_unop (fun x => opn x extra) a t.

(* ---- operators on UGens and ChannelLists -------------------------------- *)
(* class ids are assigned by the harness; the operator name is part of the id. *)
Definition is_unit (a : arg) : bool := match a with Scalar (U _ _) => true | _ => false end.

(* The classes the arithmetic creates: BinaryOpUGen '+', '-', '*', UnaryOpUGen 'neg', MulAdd
   (base ids, see "calculation rates") *)
Record obases := mkBases { b_add : Z; b_sub : Z; b_mul : Z; b_neg : Z; b_muladd : Z }.
Inductive bop := OAdd | OSub | OMul.
Definition bop_base (B : obases) (o : bop) : Z :=
  match o with OAdd => b_add B | OSub => b_sub B | OMul => b_mul B end.
Definition bop_num (o : bop) : Z -> Z -> Z :=
  match o with OAdd => Z.add | OSub => Z.sub | OMul => Z.mul end.
Definition num_of (a : arg) : option Z := match a with Scalar (K z) => Some z | _ => None end.
Definition is_num (a : arg) (z : Z) : bool :=
  match num_of a with Some v => Z.eqb v z | None => false end.
(* -x for a UGen x: UnaryOpUGen.new('neg', x); for a number Python's negation *)
Definition neg_of (B : obases) (x : arg) : M arg :=
  match x with
  | Scalar (K a) => ret (Scalar (K (- a)))
  | Scalar (Str _) => raise TypeError
  | _ => multi_new (new1_rated (b_neg B) 1 unop_ratef) [x]
  end.
(* BinaryOpUGen._new1(rate, selector, a, b), INCLUDING its shortcuts for the numbers 0, 1, -1
   (ints, floats, -0.0 and bools alike: isinstance(x, (int, float)) and ==):
     '*': a == 0 -> 0.0; b == 0 -> 0.0; a == 1 -> b; a == -1 -> -b; b == 1 -> a; b == -1 -> -a
     '+': a == 0 -> b; b == 0 -> a          '-': a == 0 -> -b; b == 0 -> a
   otherwise one unit whose rate is _determine_rate(a, b). *)
Definition binop_new1 (B : obases) (o : bop) (args : list arg) : M arg :=
  match args with
  | [a; b] =>
    match o with
    | OMul =>
      if is_num a 0 || is_num b 0 then ret (Scalar (K 0%Z))
      else if is_num a 1 then ret b
      else if is_num a (-1) then neg_of B b
      else if is_num b 1 then ret a
      else if is_num b (-1) then neg_of B a
      else new1_rated (b_mul B) 1 binop_ratef [a; b]
    | OAdd =>
      if is_num a 0 then ret b else if is_num b 0 then ret a
      else new1_rated (b_add B) 1 binop_ratef [a; b]
    | OSub =>
      if is_num a 0 then neg_of B b else if is_num b 0 then ret a
      else new1_rated (b_sub B) 1 binop_ratef [a; b]
    end
  | _ => raise TypeError
  end.
(* x op y on two non-sequence Python objects: numbers: Python arithmetic; a UGen on either side:
   UGen._compose_binop/_rcompose_binop -> BinaryOpUGen.new(sel, a, b) -> _multi_new('audio', sel, a, b),
   operand order kept *)
Definition scalar_binop (B : obases) (o : bop) (x y : arg) : M arg :=
  match x, y with
  | Scalar (K a), Scalar (K b) => ret (Scalar (K (bop_num o a b)))
  | Scalar (Str _), _ | _, Scalar (Str _) => raise TypeError
  | _, _ => multi_new (binop_new1 B o) [x; y]
  end.
(* UGen op y  (y any tree): invalid (empty) sequences raise TypeError, otherwise BinaryOpUGen.new;
   the rate of every created unit is _determine_rate of ITS two inputs *)
Definition ugen_binop (B : obases) (o : bop) (x y : arg) : M arg :=
  match y with
  | Lst [] | Tuple [] | Scalar (Str _) => raise TypeError
  | _ => multi_new (binop_new1 B o) [x; y]
  end.
Definition ugen_rbinop (B : obases) (o : bop) (y x : arg) : M arg :=      (* y op UGen *)
  match y with
  | Lst [] | Tuple [] | Scalar (Str _) => raise TypeError
  | _ => multi_new (binop_new1 B o) [y; x]
  end.
Definition scalar_unop (B : obases) (x : arg) : M arg := neg_of B x.
(* AbstractSequence._compose_binop / _rcompose_binop / _compose_unop on a ChannelList *)
Definition cl_binop (B : obases) (o : bop) (self other : arg) : M arg :=
  list_binop (scalar_binop B o) self other KList.
Definition cl_rbinop (B : obases) (o : bop) (other self : arg) : M arg :=
  list_binop (scalar_binop B o) other self KList.
Definition cl_unop (B : obases) (self : arg) : M arg :=
  list_unop (scalar_unop B) self KList.

(* ---- named operators (every AbstractObject binary / unary method other than + - * and neg) ---- *)
(* bi.<name>(a, b) on two non-sequences (the scbuiltin wrapper): a UGen on the left composes
   (a._compose_binop), otherwise a UGen on the right composes REFLECTED (b._rcompose_binop): both give
   BinaryOpUGen.new(name, a, b) with the operands in the order written; BinaryOpUGen._new1 has no
   shortcut for these selectors.  Two plain numbers: the numeric kernel of builtins (property C15). *)
Definition scalar_binop_named (base : Z) (x y : arg) : M arg :=
  match x, y with
  | Scalar (K _), Scalar (K _) => raise NotModelled
  | Scalar (Str _), _ | _, Scalar (Str _) => raise TypeError
  | _, _ => multi_new (new1_rated base 1 binop_ratef) [x; y]
  end.
Definition cl_binop_named (base : Z) (self other : arg) : M arg :=
  list_binop (scalar_binop_named base) self other KList.
Definition cl_rbinop_named (base : Z) (other self : arg) : M arg :=
  list_binop (scalar_binop_named base) other self KList.
Definition ugen_binop_named (base : Z) (x y : arg) : M arg :=
  match y with
  | Lst [] | Tuple [] | Scalar (Str _) => raise TypeError
  | _ => multi_new (new1_rated base 1 binop_ratef) [x; y]
  end.
Definition ugen_rbinop_named (base : Z) (y x : arg) : M arg :=
  match y with
  | Lst [] | Tuple [] | Scalar (Str _) => raise TypeError
  | _ => multi_new (new1_rated base 1 binop_ratef) [y; x]
  end.
Definition scalar_unop_named (base : Z) (x : arg) : M arg :=
  match x with
  | Scalar (K _) => raise NotModelled
  | Scalar (Str _) => raise TypeError
  | _ => multi_new (new1_rated base 1 unop_ratef) [x]
  end.
Definition cl_unop_named (base : Z) (self : arg) : M arg :=
  list_unop (scalar_unop_named base) self KList.

(* ---- MulAdd ------------------------------------------------------------------------------ *)
(* MulAdd._can_be_muladd(input, mul, add) *)
Definition can_be_muladd (st : state) (i m a : arg) : option bool :=
  match arg_rate st i with
  | Some RAudio => Some true
  | Some RControl =>
    match arg_rate st m, arg_rate st a with
    | Some rm, Some ra =>
      Some (match rm with RControl | RScalar => true | _ => false end &&
            match ra with RControl | RScalar => true | _ => false end)
    | _, _ => None
    end
  | Some _ => Some false
  | None => None
  end.
(* MulAdd._new1(rate, input, mul, add), complete for a UGen input:
     mul == 0 -> add;  mul == 1 and add == 0 -> input;  mul == -1 and add == 0 -> -input;
     add == 0 -> input * mul;  mul == -1 -> add - input;  mul == 1 -> input + add;
   then a MulAdd unit on (input, mul, add) or on (mul, input, add) when the rates allow it,
   otherwise (input * mul) + add.  The [rate] argument (computed ONCE by MulAdd.new from the
   complete argument lists) is ignored: _init_ugen sets the unit's rate from its own inputs. *)
Definition muladd_new1 (B : obases) (args : list arg) : M arg :=
  match args with
  | [input; mul; add] =>
    match input with
    | Scalar (U _ _) =>
      if is_num mul 0 then ret add
      else if is_num mul 1 && is_num add 0 then ret input
      else if is_num mul (-1) && is_num add 0 then neg_of B input
      else if is_num add 0 then ugen_binop B OMul input mul
      else if is_num mul (-1) then ugen_rbinop B OSub add input
      else if is_num mul 1 then ugen_binop B OAdd input add
      else fun st =>
        match can_be_muladd st input mul add with
        | None => Err IndexError
        | Some true => new1_rated (b_muladd B) 1 inputs_ratef [input; mul; add] st
        | Some false =>
          match can_be_muladd st mul input add with
          | None => Err IndexError
          | Some true => new1_rated (b_muladd B) 1 inputs_ratef [mul; input; add] st
          | Some false => bind (ugen_binop B OMul input mul) (fun x => ugen_binop B OAdd x add) st
          end
        end
    | _ => raise NotModelled
    end
  | _ => raise TypeError
  end.
Definition muladd_new (B : obases) (input mul add : arg) : M arg :=
  multi_new (muladd_new1 B) [input; mul; add].

(* ---- ChannelList convenience methods ------------------------------------ *)
(* UGen.<method>( *args) for the methods that go straight to a constructor:
   Clip/LagUD/Slew:  Cls.ar(self, *args) -> _multi_new('audio', self, *args)
   lag family: Lag.ar returns its input when lag_time is the number 0. *)
Inductive meth :=
  | MDirect (base : Z)                 (* LagUD, Slew: ar kr *)
  | MLag (base : Z)                    (* Lag, Lag2, Lag3: ar kr, input returned for time 0 *)
  | MClip (base : Z)                   (* Clip, Fold, Wrap, ModDif: ar kr ir *)
  | MRange (B : obases).               (* range(lo, hi) of a bipolar unit: MulAdd *)
(* the constructor is selected by the RECEIVER's rate (Cls._method_selector_for_rate(self.rate)):
   the rate of each channel's unit is the rate of that channel's receiver element *)
Definition ugen_method (m : meth) (x : arg) (args : list arg) : M arg :=
  fun st =>
    match x with
    | Scalar (U u _) =>
      let r := unit_rate st u in
      match m with
      | MClip b => match r with
                   | RDemand => Err AttributeError
                   | _ => multi_new (new1_plain (with_rate b r) 1) (x :: args) st
                   end
      | MDirect b => match r with
                     | RScalar | RDemand => Err AttributeError
                     | _ => multi_new (new1_plain (with_rate b r) 1) (x :: args) st
                     end
      | MLag b => match r with
                  | RScalar | RDemand => Err AttributeError
                  | _ => match args with
                         | [Scalar (K 0%Z)] => Ok x st
                         | _ => multi_new (new1_plain (with_rate b r) 1) (x :: args) st
                         end
                  end
      | MRange B =>
        (* mul = (hi - lo) * 0.5; add = mul + lo; MulAdd.new(self, mul, add) *)
        match args with
        | [Scalar (K lo); Scalar (K hi)] =>
          if Z.even (hi - lo)
          then muladd_new B x (Scalar (K ((hi - lo) / 2))) (Scalar (K ((hi - lo) / 2 + lo))) st
          else Err NotModelled
        | _ => Err NotModelled
        end
      end
    | _ => Err AttributeError
    end.
(* _multichannel_perform(selector, *args):
     l = [ugen_param(i) for i in self]
     l = [getattr(i[0], selector)( *i[1:]) for i in flop([l, *args])]
   [leaf x rest] is getattr(ugen_param(x), selector)( *rest) for an element x that is not a
   list (a UGen's own method, UGenScalar's method for a number, AttributeError otherwise): a
   parameter, so that the expansion is modelled for EVERY selector; a nested (non-empty)
   ChannelList element performs recursively; the [] that flop puts in the place of an empty
   receiver is a plain list and has no such attribute. *)
Section McPerform.
  Variable leaf : arg -> list arg -> M arg.
  Definition mc_row (rec : list arg -> list arg -> M arg) (row : list arg) : M arg :=
    match row with
    | Lst (x :: l) :: rest => rec (x :: l) rest
    | Lst [] :: _ => raise AttributeError
    | x :: rest => leaf x rest
    | [] => raise AttributeError
    end.
  Fixpoint mc_perform_gen_f (fuel : nat) (self : list arg) (args : list arg) : M arg :=
    match fuel with
    | O => raise OutOfFuel
    | S f => bind (mapM (mc_row (mc_perform_gen_f f)) (flop (Lst self :: args))) (fun r => ret (Lst r))
    end.
  Definition mc_perform_gen (self : list arg) (args : list arg) : M arg :=
    mc_perform_gen_f (S (ldepth (Lst self))) self args.
End McPerform.
(* the selectors whose UGen method goes straight to a constructor; numbers answer
   lag/lag2/lag3/lagud/slew with themselves (UGenScalar.lag ...) and clip/fold/wrap/moddif with
   a numeric kernel of builtins (property C15: not modelled here) *)
Definition leaf_method (m : meth) (x : arg) (rest : list arg) : M arg :=
  match x with
  | Scalar (U u c) => ugen_method m (Scalar (U u c)) rest
  | Scalar (K z) => match m with MClip _ | MRange _ => raise NotModelled | _ => ret (Scalar (K z)) end
  | _ => raise AttributeError
  end.
Definition mc_perform (m : meth) (self : list arg) (args : list arg) : M arg :=
  mc_perform_gen (leaf_method m) self args.

(* ---- ChannelList.dup / sum / poll / dpoll ------------------------------------------- *)
(* dup(n): ChannelList([self] * n): no unit is created *)
Definition cl_dup (self : list arg) (n : nat) : M arg := ret (Lst (repeat (Lst self) n)).
(* sum(): list_sum(self, type(self)):  res = 0; for item in lst: res = list_binop(add, res, item, t)
   (the first addition always meets BinaryOpUGen's 0 + x shortcut) *)
Definition cl_sum (B : obases) (self : list arg) : M arg :=
  fold_left (fun res item => bind res (fun r => list_binop (scalar_binop B OAdd) r item KList)) self
            (ret (Scalar (K 0%Z))).
(* Poll._new1(rate, trig, input, label, trig_id): a numeric trig becomes Impulse.<rate>(trig, 0)
   (one more unit, created first); the unit's inputs are trig, input, trig_id, len(label), *label,
   recorded here as [trig; input; trig_id; label] (the harness decodes the bytes back).
   Dpoll._new1(rate, input, label, run, trig_id): inputs input, trig_id, run, label.
   A label that is None or '' is replaced by a default naming the input's type: the callers of
   this model always give labels.  Receivers are audio-rate units, so rate = 'audio' per channel
   (the list of rates that Poll.new passes has the length of the receiver and changes nothing). *)
Definition rate_sid (r : rate) : Z := (-1 - rate_code r)%Z.        (* the rate NAME as a string atom *)
Definition sid_rate (z : Z) : option rate :=
  match z with (-1)%Z => Some RScalar | (-2)%Z => Some RControl | (-3)%Z => Some RAudio | (-4)%Z => Some RDemand | _ => None end.
Definition poll_new1 (poll impulse : Z) (args : list arg) : M arg :=
  match args with
  | [Scalar (Str rs); trig; input; label; tid] =>
    match sid_rate rs with
    | Some r =>
      let r' := match r with RScalar => RControl | _ => r end in
      bind (match trig with
            | Scalar (K z) => multi_new (new1_plain (with_rate impulse r') 1) [trig; Scalar (K 0%Z)]
            | _ => ret trig
            end) (fun trig' => new1_plain (with_rate poll r') 1 [trig'; input; tid; label])
    | None => raise TypeError
    end
  | _ => raise TypeError
  end.
Definition dpoll_new1 (dpoll : Z) (args : list arg) : M arg :=
  match args with
  | [input; label; run; tid] => new1_plain dpoll 1 [input; tid; run; label]
  | _ => raise TypeError
  end.
(* ChannelList.poll(trig, label, trig_id): label None -> ['ChannelList UGen [i]' for i < len(self)]
   ([deflabels], supplied with that length); Poll.new(trig, self, label, trig_id) returns self *)
Definition none_arg : arg := Scalar (Str 0%Z).
Definition is_none (a : arg) : bool := match a with Scalar (Str 0%Z) => true | _ => false end.
(* Poll.new: rate = unbubble([rate of item for item in as_list(input)]) goes through the
   expansion as one more (list) argument: a channel's Poll gets the rate of ITS receiver element *)
Definition unbubble (a : arg) : arg := match a with Lst [x] => x | _ => a end.
Fixpoint rates_of (st : state) (l : list arg) : option (list arg) :=
  match l with
  | [] => Some []
  | x :: r => match arg_rate st x, rates_of st r with
              | Some rx, Some rr => Some (Scalar (Str (rate_sid rx)) :: rr)
              | _, _ => None
              end
  end.
Definition cl_poll (poll impulse : Z) (self : list arg) (trig label tid : arg) (deflabels : list arg) : M arg :=
  let label' := if is_none label then Lst deflabels else label in
  fun st => match rates_of st self with
            | Some rs => bind (multi_new (poll_new1 poll impulse) [unbubble (Lst rs); trig; Lst self; label'; tid])
                              (fun _ => ret (Lst self)) st
            | None => Err IndexError
            end.
(* ChannelList.dpoll(label, run, trig_id): dmd.Dpoll(self, label, run, trig_id) -> Dpoll.dr(...) *)
Definition cl_dpoll (dpoll : Z) (self : list arg) (label run tid : arg) (deflabels : list arg) : M arg :=
  let label' := if is_none label then Lst deflabels else label in
  multi_new (dpoll_new1 dpoll) [Lst self; label'; run; tid].

(* ChannelList.madd: return MulAdd.new(self, mul, add)   (since fix 925c2da; sclang's Array.madd) *)
Definition cl_madd (B : obases) (self : list arg) (mul add : arg) : M arg :=
  muladd_new B (Lst self) mul add.
(* ChannelList.madd as written before that fix:
     return type(self)(MulAdd.new(i, mul, add) for i in self)
   mul and add are NOT zipped with self: every channel is expanded against the whole of them. *)
Definition cl_madd_unpatched (B : obases) (self : list arg) (mul add : arg) : M arg :=
  bind (mapM (fun i => muladd_new B i mul add) self) (fun r => ret (Lst r)).

(* ---- Out ------------------------------------------------------------------ *)
(* _replace_zeroes_with_silence(lst): silence = DC.ar(0) is created on EVERY call (also the
   recursive ones, also when there is no zero); numbers equal to 0 become that unit's output;
   sub-lists are replaced deeply, tuples are not entered. *)
Section Silence.
  Variable dc : Z.   (* class id of DC at audio rate *)
  Fixpoint rz (a : arg) : M arg :=
    match a with
    | Lst l =>
      bind (multi_new (new1_plain dc 1) [Scalar (K 0%Z)]) (fun silence =>
      bind ((fix go (l : list arg) : M (list arg) :=
               match l with
               | [] => ret []
               | x :: r =>
                 bind (match x with
                       | Scalar (K 0%Z) => ret silence
                       | Lst _ => rz x
                       | _ => ret x
                       end) (fun x' => bind (go r) (fun r' => ret (x' :: r')))
               end) l) (fun l' => ret (Lst l')))
    | _ => ret a
    end.
  Definition replace_zeroes (l : list arg) : M (list arg) :=
    bind (rz (Lst l)) (fun r => ret (items r)).

  (* Out.ar(bus, output): output = as_list(output) (as ugen input: identity);
     output = _replace_zeroes_with_silence(output); cls._multi_new('audio', bus, *output) *)
  Definition out_ar (out : Z) (bus output : arg) : M arg :=
    bind (replace_zeroes (as_list output)) (fun chans =>
    multi_new (new1_plain out 1) (bus :: chans)).
  (* EVERY audio-rate output constructor has this shape: Out/ReplaceOut/OffsetOut.ar(bus, output),
     XOut.ar(bus, xfade, output), LocalOut.ar(output):
       output = as_list(output); output = _replace_zeroes_with_silence(output);
       cls._multi_new('audio', *fixed, *output)            [fixed] = the arguments before the channels *)
  Definition out_ar_gen (out : Z) (fixed : list arg) (output : arg) : M arg :=
    bind (replace_zeroes (as_list output)) (fun chans =>
    multi_new (new1_plain out 1) (fixed ++ chans)).
End Silence.
(* the control-rate ones (Out/ReplaceOut.kr, XOut.kr, LocalOut.kr): cls._multi_new(rate, *fixed, *as_list(output)):
   the channel array is SPLICED, every channel is one more argument *)
Definition out_kr_gen (out : Z) (fixed : list arg) (output : arg) : M arg :=
  multi_new (new1_plain out 1) (fixed ++ as_list output).
(* Out.kr(bus, output): cls._multi_new('control', bus, *as_list(output)) *)
Definition out_kr (out : Z) (bus output : arg) : M arg :=
  multi_new (new1_plain out 1) (bus :: as_list output).

(* ---- conversion of a signal input to audio rate -------------------------------------------- *)
(* ugen_param(x)._as_audio_rate_input(), used by the .ar constructors of the delay-line family
   (DelayN/L/C, CombN/L/C, AllpassN/L/C, BufDelay*, BufComb*, BufAllpass*, DelTapWr) BEFORE they
   hand their arguments to _multi_new:
     UGenScalar   (numbers, bools):  0 -> Silent.ar() = DC.ar(0);  v -> DC.ar(v)   (one DC unit, its proxy)
     UGen / OutputProxy:             audio rate -> itself;  otherwise K2A.ar(self)
     UGenString / UGenNone ...:      rate is not 'audio' -> K2A.ar(value)
     UGenSequence (list AND tuple):  the same conversion of EVERY element, in order, recursively,
                                     in a sequence of the same type -- an element's conversion does
                                     not depend on its neighbours *)
Section AudioIn.
  Variables dc k2a : Z.      (* class ids of DC and K2A at audio rate *)
  Fixpoint as_audio (a : arg) : M arg :=
    match a with
    | Scalar (K z) => multi_new (new1_plain dc 1) [Scalar (K z)]
    | Scalar (U u c) =>
      fun st => match unit_rate st u with
                | RAudio => Ok a st
                | _ => multi_new (new1_plain k2a 1) [a] st
                end
    | Scalar (Str _) => multi_new (new1_plain k2a 1) [a]
    | Tuple l =>
      bind ((fix go (l : list arg) : M (list arg) :=
               match l with
               | [] => ret []
               | x :: r => bind (as_audio x) (fun x' => bind (go r) (fun r' => ret (x' :: r')))
               end) l) (fun l' => ret (Tuple l'))
    | Lst l =>
      bind ((fix go (l : list arg) : M (list arg) :=
               match l with
               | [] => ret []
               | x :: r => bind (as_audio x) (fun x' => bind (go r) (fun r' => ret (x' :: r')))
               end) l) (fun l' => ret (Lst l'))
    end.
  (* Cls.ar( *before, input, *after):  input = as_audio_rate_input(input);
     cls._multi_new('audio', *before, input, *after) *)
  Definition audio_in_ctor (cls : Z) (before : list arg) (input : arg) (after : list arg) : M arg :=
    bind (as_audio input) (fun inp => multi_new (new1_plain cls 1) (before ++ inp :: after)).
End AudioIn.

(* _replace_zeroes_with_silence as a pure function of the uid [n] of the next unit: the result
   and the uid after it.  One DC unit per list reached through lists, numbered in pre-order. *)
Fixpoint rzp (n : nat) (a : arg) : arg * nat :=
  match a with
  | Lst l =>
    let silence := Scalar (U n 0) in
    let '(l', n') :=
      (fix go (l : list arg) (n : nat) : list arg * nat :=
         match l with
         | [] => ([], n)
         | x :: r =>
           let '(x', n1) := match x with
                            | Scalar (K 0%Z) => (silence, n)
                            | Lst _ => rzp n x
                            | _ => (x, n)
                            end in
           let '(r', n2) := go r n1 in (x' :: r', n2)
         end) l (S n) in
    (Lst l', n')
  | _ => (a, n)
  end.
(* number of lists reachable through lists = number of DC units created *)
Fixpoint nlists (a : arg) : nat :=
  match a with Lst l => S (list_sum (map nlists l)) | _ => 0 end.
Fixpoint has_zero (a : arg) : bool :=
  match a with
  | Scalar (K 0%Z) => true
  | Lst l => existsb has_zero l
  | _ => false
  end.

(* ---- boolean equality, for the correspondence ---------------------------- *)
Definition atom_eqb (a b : atom) : bool :=
  match a, b with
  | K x, K y => Z.eqb x y
  | U u c, U v d => Nat.eqb u v && Nat.eqb c d
  | Str x, Str y => Z.eqb x y
  | _, _ => false
  end.
Fixpoint arg_eqb (a b : arg) : bool :=
  match a, b with
  | Scalar x, Scalar y => atom_eqb x y
  | Tuple l, Tuple m | Lst l, Lst m =>
    (fix go (l m : list arg) : bool :=
       match l, m with
       | [], [] => true
       | x :: l', y :: m' => arg_eqb x y && go l' m'
       | _, _ => false
       end) l m
  | _, _ => false
  end.
Fixpoint list_eqb {A} (eqb : A -> A -> bool) (l m : list A) : bool :=
  match l, m with
  | [], [] => true
  | x :: l', y :: m' => eqb x y && list_eqb eqb l' m'
  | _, _ => false
  end.
Definition unit_eqb (u v : unit_rec) : bool :=
  Z.eqb (ucls u) (ucls v) && list_eqb arg_eqb (uargs u) (uargs v).
Definition err_code (e : err) : Z :=
  match e with ZeroDivisionError => 1 | IndexError => 2 | TypeError => 3 | AttributeError => 4 | OutOfFuel => 9 | NotModelled => 10 end%Z.
(* observation of a run that starts after [pre] prelude units: result tree and the units
   created (all of them, prelude included), or the exception *)
Inductive obs := ORes (r : arg) (units : list unit_rec) | OErr (code : Z).
Definition observe (m : M arg) (pre : state) : obs :=
  match m pre with Ok r st => ORes r st | Err e => OErr (err_code e) end.
Definition obs_eqb (a b : obs) : bool :=
  match a, b with
  | ORes r u, ORes r' u' => arg_eqb r r' && list_eqb unit_eqb u u'
  | OErr c, OErr d => Z.eqb c d
  | _, _ => false
  end.
