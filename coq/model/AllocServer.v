(* C16 -- the allocators one Server builds for the client ids 0 .. max_logins-1 (server.py
   _new_bus_allocators / _new_buffer_allocators) and interleaved histories on them.  Definitions only. *)
From Coq Require Import ZArith List.
Import ListNotations.
Require Import SC3.model.Alloc.
Open Scope Z_scope.

Definition mk_client (total io logins reserved k : Z) : res st :=
  let '(sz, p, o) := partition total io logins reserved k in init sz p o.

Fixpoint mk_clients_from (total io logins reserved k : Z) (cnt : nat) : res (list st) :=
  match cnt with
  | O => Ok []
  | S c => s <- mk_client total io logins reserved k ;;
           r <- mk_clients_from total io logins reserved (k + 1) c ;;
           Ok (s :: r)
  end.

Definition mk_clients (total io logins reserved : Z) : res (list st) :=
  mk_clients_from total io logins reserved 0 (Z.to_nat logins).

(* an interleaved history: (client id, operation) *)
Fixpoint run_multi (rel : bool) (cs : list st) (h : list (nat * op)) : res (list st * list (option Z)) :=
  match h with
  | [] => Ok (cs, [])
  | (i, o) :: r =>
      match nth_error cs i with
      | None => Raise IndexError
      | Some s => '(s1, x) <- step rel s o ;;
                  '(cs2, xs) <- run_multi rel (upd cs i s1) r ;;
                  Ok (cs2, x :: xs)
      end
  end.
