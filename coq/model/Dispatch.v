(* C18 (b) -- responders and dispatchers: sc3/base/responders.py
   (AbstractResponderFunc, OscFunc, AbstractWrappingDispatcher, OscMessageDispatcher,
   OscMessagePatternDispatcher, the Osc*Matcher wrappers) and the receive path of
   sc3/base/_oscinterface.py (_handle_request, _msg_dispatch).

   State: responders in creation order (index = identity); per dispatcher the dict
   `active : path -> list of wrapped functions` as an insertion-ordered association list;
   the CmdPeriod registry of the (non-permanent) enabled responders in insertion order.
   A wrapped function is identified by the responder that owns it (every responder is given
   its own function object: an assumption, see notes/C18.md) and carries the function captured
   when it was wrapped.

   The main definitions describe the REPAIRED tree (proposed fixes C18_oneshot_skip.diff: the
   dispatchers iterate over a copy of the list; C18_template_index.diff: a template longer than
   the message rejects instead of raising).  The *_orig definitions at the end follow the tree as
   found and are used only by the ..._refuted theorems.
   Executable definitions only. *)
From Coq Require Import ZArith List Bool.
Import ListNotations.
Require Import SC3.model.OscMatch SC3.model.OscBundleParse.
Open Scope Z_scope.

(* user functions are opaque tags; one_shot() wraps the current function in a closure that frees
   the responder and then calls it *)
Inductive func := FUser (tag : nat) | FOneShot (inner : func).

(* template items: None, a value (compared with Python ==), a callable whose result is taken by
   truthiness; TPredX: a callable that may raise (None) *)
Inductive titem := TAny | TEq (v : oval) | TPred (p : oval -> bool) | TPredX (p : oval -> option bool).

(* Python == on the values a message can carry: int, bool and float compare numerically
   (0 == 0.0 == False), NaN equals nothing, str/bytes/tuple/list only their own kind *)
Definition f64_parts (w : Z) : option (Z * Z) :=          (* finite: value = fst * 2^snd *)
  let s := Z.shiftr w 63 in
  let e := Z.land (Z.shiftr w 52) 2047 in
  let f := Z.land w 4503599627370495 in
  if e =? 2047 then None
  else let m := if e =? 0 then f else f + 4503599627370496 in
       Some (if s =? 0 then m else - m, (if e =? 0 then 1 else e) - 1075).
Definition num_of (v : oval) : option (Z * Z) :=
  match v with
  | VInt z => Some (z, 0)
  | VBool b => Some (if b then 1 else 0, 0)
  | VFloat w => f64_parts w
  | _ => None
  end.
Definition num_eqb (a b : Z * Z) : bool :=
  let lo := Z.min (snd a) (snd b) in
  (fst a * 2 ^ (snd a - lo)) =? (fst b * 2 ^ (snd b - lo)).
Fixpoint py_eqb (a b : oval) : bool :=
  match a, b with
  | VStr x, VStr y => list_eqb Z.eqb x y
  | VBlob x, VBlob y => list_eqb Z.eqb x y
  | VMidi x, VMidi y => list_eqb Z.eqb x y
  | VArr x, VArr y =>
    (fix go (l1 l2 : list oval) : bool :=
       match l1, l2 with
       | [], [] => true
       | u :: l1', v :: l2' => py_eqb u v && go l1' l2'
       | _, _ => false
       end) x y
  | _, _ =>
    match num_of a, num_of b with
    | Some x, Some y => num_eqb x y
    | None, None => match a, b with
                    | VFloat x, VFloat y => (x =? y) && negb (x =? nan64)     (* inf == inf, nan != nan *)
                    | _, _ => false
                    end
    | _, _ => false
    end
  end.

Record responder := {
  r_path : list Z;                       (* after OscFunc.__init__ added the leading '/' *)
  r_matching : bool;                     (* OscFunc.matching: the pattern dispatcher *)
  r_src : option (Z * option Z);         (* src_id: NetAddr.addr, NetAddr.port or None *)
  r_port : option Z;                     (* recv_port *)
  r_tmpl : option (list titem);          (* arg_template *)
  r_func : func;
  r_enabled : bool }.

Record wrapped := { w_id : nat; w_func : func }.
Definition table := list (list Z * list wrapped).

Record dstate := {
  resps : list responder;
  act_exact : table;                     (* OscFunc._default_dispatcher.active *)
  act_match : table;                     (* OscFunc._default_matching_dispatcher.active *)
  cmdp : list nat }.                     (* CmdPeriod._actions keys that are responders' __on_cmd_period *)

Definition init_state : dstate := {| resps := []; act_exact := []; act_match := []; cmdp := [] |}.

Definition bytes_eqb := list_eqb Z.eqb.

(* ---- dict operations on `active` ---------------------------------------------------------------- *)
Fixpoint tbl_get (t : table) (k : list Z) : option (list wrapped) :=
  match t with [] => None | (k', l) :: r => if bytes_eqb k k' then Some l else tbl_get r k end.
(* active[key].append(func), or active[key] = [func] at the end of the dict *)
Fixpoint tbl_append (t : table) (k : list Z) (w : wrapped) : table :=
  match t with
  | [] => [(k, [w])]
  | (k', l) :: r => if bytes_eqb k k' then (k', l ++ [w]) :: r else (k', l) :: tbl_append r k w
  end.
Fixpoint remove_first (id : nat) (l : list wrapped) : list wrapped :=
  match l with [] => [] | w :: r => if Nat.eqb (w_id w) id then r else w :: remove_first id r end.
(* active[key].remove(func); if not active[key]: del active[key] *)
Fixpoint tbl_remove (t : table) (k : list Z) (id : nat) : table :=
  match t with
  | [] => []
  | (k', l) :: r =>
    if bytes_eqb k k' then
      match remove_first id l with [] => r | l' => (k', l') :: r end
    else (k', l) :: tbl_remove r k id
  end.
(* update_func_for_func_proxy: replace in place *)
Definition replace_func (id : nat) (f : func) (l : list wrapped) : list wrapped :=
  map (fun w => if Nat.eqb (w_id w) id then {| w_id := id; w_func := f |} else w) l.
Fixpoint tbl_update (t : table) (k : list Z) (id : nat) (f : func) : table :=
  match t with
  | [] => []
  | (k', l) :: r => if bytes_eqb k k' then (k', replace_func id f l) :: r else (k', l) :: tbl_update r k id f
  end.

Definition set_resp (st : dstate) (id : nat) (r : responder) : list responder :=
  firstn id (resps st) ++ r :: skipn (S id) (resps st).
Definition with_enabled (r : responder) (b : bool) : responder :=
  {| r_path := r_path r; r_matching := r_matching r; r_src := r_src r; r_port := r_port r;
     r_tmpl := r_tmpl r; r_func := r_func r; r_enabled := b |}.
Definition with_func (r : responder) (f : func) : responder :=
  {| r_path := r_path r; r_matching := r_matching r; r_src := r_src r; r_port := r_port r;
     r_tmpl := r_tmpl r; r_func := f; r_enabled := r_enabled r |}.

(* ---- responder operations -------------------------------------------------------------------------- *)
Definition enable (st : dstate) (id : nat) : dstate :=
  match nth_error (resps st) id with
  | None => st
  | Some r =>
    if r_enabled r then st
    else
      let w := {| w_id := id; w_func := r_func r |} in
      {| resps := set_resp st id (with_enabled r true);
         act_exact := if r_matching r then act_exact st else tbl_append (act_exact st) (r_path r) w;
         act_match := if r_matching r then tbl_append (act_match st) (r_path r) w else act_match st;
         cmdp := cmdp st ++ [id] |}
  end.

Definition disable (st : dstate) (id : nat) : dstate :=
  match nth_error (resps st) id with
  | None => st
  | Some r =>
    if r_enabled r then
      {| resps := set_resp st id (with_enabled r false);
         act_exact := if r_matching r then act_exact st else tbl_remove (act_exact st) (r_path r) id;
         act_match := if r_matching r then tbl_remove (act_match st) (r_path r) id else act_match st;
         cmdp := filter (fun j => negb (Nat.eqb j id)) (cmdp st) |}
    else st
  end.

(* free(): forget the responder in _all_func_proxies (not observable here) and disable it *)
Definition free (st : dstate) (id : nat) : dstate := disable st id.

(* func setter: store, then NotificationCenter.notify(self, 'function'); the dispatcher is
   registered for that notification exactly while the responder is enabled *)
Definition set_func (st : dstate) (id : nat) (f : func) : dstate :=
  match nth_error (resps st) id with
  | None => st
  | Some r =>
    {| resps := set_resp st id (with_func r f);
       act_exact := if r_enabled r && negb (r_matching r) then tbl_update (act_exact st) (r_path r) id f else act_exact st;
       act_match := if r_enabled r && r_matching r then tbl_update (act_match st) (r_path r) id f else act_match st;
       cmdp := cmdp st |}
  end.

Definition one_shot (st : dstate) (id : nat) : dstate :=
  match nth_error (resps st) id with
  | None => st
  | Some r => set_func st id (FOneShot (r_func r))
  end.

Definition create (st : dstate) (path : list Z) (matching : bool) (src : option (Z * option Z))
           (port : option Z) (tmpl : option (list titem)) (tag : nat) : dstate :=
  match path with
  | [] => st                                   (* path[0] raises IndexError: no responder *)
  | c :: _ =>
    let path' := if c =? ch_slash then path else ch_slash :: path in
    let r := {| r_path := path'; r_matching := matching; r_src := src; r_port := port; r_tmpl := tmpl;
                r_func := FUser tag; r_enabled := false |} in
    let id := length (resps st) in
    enable {| resps := resps st ++ [r]; act_exact := act_exact st; act_match := act_match st; cmdp := cmdp st |} id
  end.

(* CmdPeriod.run: for action in _actions.copy(): if still registered: action() -- each is free() *)
Definition cmd_period (st : dstate) : dstate :=
  fold_left (fun s id => if existsb (Nat.eqb id) (cmdp s) then free s id else s) (cmdp st) st.

(* ---- an incoming message --------------------------------------------------------------------------------- *)
Record inv := { i_id : nat; i_tag : nat; i_msg : omsg; i_time : mtime; i_src : Z * Z; i_port : Z }.

(* OscArgsMatcher (repaired): None accepts anything, also a missing argument; a value or a
   predicate needs the argument to be there *)
Fixpoint tmpl_accepts (tm : list titem) (args : list oval) : bool :=
  match tm with
  | [] => true
  | it :: tm' =>
    match it, args with
    | TAny, _ => tmpl_accepts tm' (tl args)
    | _, [] => false
    | TEq v, a :: args' => py_eqb v a && tmpl_accepts tm' args'
    | TPred p, a :: args' => p a && tmpl_accepts tm' args'
    | TPredX p, a :: args' => match p a with Some true => tmpl_accepts tm' args' | _ => false end
    end
  end.

Definition src_accepts (f : option (Z * option Z)) (src : Z * Z) : bool :=
  match f with
  | None => true
  | Some (a, None) => a =? fst src
  | Some (a, Some p) => (a =? fst src) && (p =? snd src)
  end.
Definition port_accepts (f : option Z) (port : Z) : bool :=
  match f with None => true | Some p => p =? port end.

Definition accepts (r : responder) (m : omsg) (src : Z * Z) (port : Z) : bool :=
  src_accepts (r_src r) src && port_accepts (r_port r) port &&
  match r_tmpl r with None => true | Some tm => tmpl_accepts tm (m_args m) end.

(* calling a function: one_shot_func frees the responder, then calls what it wrapped *)
Fixpoint run_func (st : dstate) (id : nat) (f : func) : dstate * nat :=
  match f with
  | FUser tag => (st, tag)
  | FOneShot g => run_func (free st id) id g
  end.

Definition call_wrapped (st : dstate) (w : wrapped) (m : omsg) (t : mtime) (src : Z * Z) (port : Z)
  : dstate * list inv :=
  match nth_error (resps st) (w_id w) with
  | None => (st, [])
  | Some r =>
    if accepts r m src port then
      let '(st', tag) := run_func st (w_id w) (w_func w) in
      (st', [{| i_id := w_id w; i_tag := tag; i_msg := m; i_time := t; i_src := src; i_port := port |}])
    else (st, [])
  end.

(* for func in list(funcs): ...   (a snapshot: the repaired loop) *)
Fixpoint call_all (st : dstate) (l : list wrapped) (m : omsg) (t : mtime) (src : Z * Z) (port : Z)
  : dstate * list inv :=
  match l with
  | [] => (st, [])
  | w :: r => let '(st1, o1) := call_wrapped st w m t src port in
              let '(st2, o2) := call_all st1 r m t src port in (st2, o1 ++ o2)
  end.

(* OscMessageDispatcher.__call__ *)
Definition dispatch_exact_d (st : dstate) (m : omsg) (t : mtime) (src : Z * Z) (port : Z) : dstate * list inv :=
  match tbl_get (act_exact st) (m_addr m) with
  | None => (st, [])
  | Some l => call_all st l m t src port
  end.

(* OscMessagePatternDispatcher.__call__ (repaired, C18_matching_order.diff):
     matched = [key for key in self.active.copy() if _match_osc_address_pattern(pattern, key)]
     for func_proxy, func in list(self.wrapped_funcs.items()):
         if func_proxy.path in matched: fn.value(func, ...)
   The message address is the PATTERN, the responder's path the address it is matched against; an
   ill-formed pattern raises re.error at the first key: nothing is invoked.  `wrapped_funcs` is a dict
   keyed by responder: insertion at add(), deletion at remove(), value replaced in place by the
   function setter, so it lists this dispatcher's responders in the order of their current
   registration with the wrapper of their current function -- the matching responders of `cmdp`. *)
Fixpoint matched_keys (m : omsg) (ks : table) : option (list (list Z)) :=
  match ks with
  | [] => Some []
  | (k, _) :: r =>
    match osc_rematch (m_addr m) k with
    | MTrue => match matched_keys m r with Some l => Some (k :: l) | None => None end
    | MFalse => matched_keys m r
    | _ => None
    end
  end.
Definition reg_entries (st : dstate) (matched : list (list Z)) : list wrapped :=
  flat_map (fun id => match nth_error (resps st) id with
                      | Some r => if r_matching r && existsb (bytes_eqb (r_path r)) matched
                                  then [{| w_id := id; w_func := r_func r |}] else []
                      | None => []
                      end) (cmdp st).
Definition dispatch_match_d (st : dstate) (m : omsg) (t : mtime) (src : Z * Z) (port : Z) : dstate * list inv :=
  match matched_keys m (act_match st) with
  | None => (st, [])
  | Some ks => call_all st (reg_entries st ks) m t src port
  end.

(* _msg_dispatch: every registered receive function gets the message (the two dispatchers live
   in a set; the model lists the exact dispatcher's invocations first) *)
Definition incoming (st : dstate) (m : omsg) (t : mtime) (src : Z * Z) (port : Z) : dstate * list inv :=
  let '(st1, o1) := dispatch_exact_d st m t src port in
  let '(st2, o2) := dispatch_match_d st1 m t src port in (st2, o1 ++ o2).

(* _handle_request: parse the WHOLE datagram first; any exception: log it, dispatch nothing *)
Fixpoint incoming_all (st : dstate) (ms : list (mtime * omsg)) (src : Z * Z) (port : Z) : dstate * list inv :=
  match ms with
  | [] => (st, [])
  | (t, m) :: r => let '(st1, o1) := incoming st m t src port in
                   let '(st2, o2) := incoming_all st1 r src port in (st2, o1 ++ o2)
  end.
Definition handle_request (st : dstate) (d : list Z) (src : Z * Z) (port : Z) : dstate * list inv :=
  match parse_packet d with
  | POk ms => incoming_all st ms src port
  | _ => (st, [])
  end.

(* ---- histories ------------------------------------------------------------------------------------------------ *)
Inductive op :=
| OpCreate (path : list Z) (matching : bool) (src : option (Z * option Z)) (port : option Z)
           (tmpl : option (list titem)) (tag : nat)
| OpEnable (id : nat) | OpDisable (id : nat) | OpOneShot (id : nat) | OpFree (id : nat)
| OpSetFunc (id : nat) (tag : nat) | OpCmdPeriod
| OpIncoming (m : omsg) (t : mtime) (src : Z * Z) (port : Z)
| OpDatagram (d : list Z) (src : Z * Z) (port : Z).

Definition step (st : dstate) (o : op) : dstate * list inv :=
  match o with
  | OpCreate p mt s po tm tag => (create st p mt s po tm tag, [])
  | OpEnable id => (enable st id, [])
  | OpDisable id => (disable st id, [])
  | OpOneShot id => (one_shot st id, [])
  | OpFree id => (free st id, [])
  | OpSetFunc id tag => (set_func st id (FUser tag), [])
  | OpCmdPeriod => (cmd_period st, [])
  | OpIncoming m t s p => incoming st m t s p
  | OpDatagram d s p => handle_request st d s p
  end.

Fixpoint run (st : dstate) (h : list op) : dstate * list (list inv) :=
  match h with
  | [] => (st, [])
  | o :: r => let '(st1, out) := step st o in let '(st2, outs) := run st1 r in (st2, out :: outs)
  end.
Definition final (h : list op) : dstate := fst (run init_state h).

(* comparison of the observable part of an invocation log with what the harness recorded:
   (responder id, function tag) per invocation; message, time, sender and port are compared
   by the harness on the parse side (they are passed through unchanged, see i_msg .. i_port) *)
Definition inv_key (i : inv) : nat * nat := (i_id i, i_tag i).
Definition log_eqb (a b : list (nat * nat)) : bool :=
  list_eqb (fun x y => Nat.eqb (fst x) (fst y) && Nat.eqb (snd x) (snd y)) a b.

(* ============ the tree as found (used only by the ..._refuted theorems) ============================================ *)
(* OscArgsMatcher as found: args[i] raises IndexError for a value or predicate item past the end *)
Inductive tres := TAccept | TReject | TRaise.
Fixpoint tmpl_orig (tm : list titem) (args : list oval) : tres :=
  match tm with
  | [] => TAccept
  | it :: tm' =>
    match it, args with
    | TAny, _ => tmpl_orig tm' (tl args)
    | _, [] => TRaise
    | TEq v, a :: args' => if py_eqb v a then tmpl_orig tm' args' else TReject
    | TPred p, a :: args' => if p a then tmpl_orig tm' args' else TReject
    | TPredX p, a :: args' => match p a with Some true => tmpl_orig tm' args' | Some false => TReject | None => TRaise end
    end
  end.

(* `for func in self.active[msg[0]]` over the LIVE list: Python's list iterator keeps an index;
   a one-shot responder removes its own entry while the loop runs, so the next entry moves
   into the slot just visited and is skipped.  An exception ends the whole loop. *)
Fixpoint iter_live_orig (fuel : nat) (st : dstate) (key : list Z) (i : nat)
         (m : omsg) (t : mtime) (src : Z * Z) (port : Z) : dstate * list inv :=
  match fuel with
  | O => (st, [])
  | S f =>
    match tbl_get (act_exact st) key with
    | None => (st, [])
    | Some l =>
      match nth_error l i with
      | None => (st, [])
      | Some w =>
        match nth_error (resps st) (w_id w) with
        | None => (st, [])
        | Some r =>
          if src_accepts (r_src r) src && port_accepts (r_port r) port then
            match (match r_tmpl r with None => TAccept | Some tm => tmpl_orig tm (m_args m) end) with
            | TRaise => (st, [])
            | TReject => iter_live_orig f st key (S i) m t src port
            | TAccept =>
              let '(st', tag) := run_func st (w_id w) (w_func w) in
              let '(st'', o) := iter_live_orig f st' key (S i) m t src port in
              (st'', {| i_id := w_id w; i_tag := tag; i_msg := m; i_time := t; i_src := src; i_port := port |} :: o)
            end
          else iter_live_orig f st key (S i) m t src port
        end
      end
    end
  end.
Definition dispatch_exact_orig (st : dstate) (m : omsg) (t : mtime) (src : Z * Z) (port : Z) : dstate * list inv :=
  match tbl_get (act_exact st) (m_addr m) with
  | None => (st, [])
  | Some l => iter_live_orig (S (length l)) st (m_addr m) 0 m t src port
  end.

(* OscMessagePatternDispatcher.__call__ as found (with the list copies of C18_oneshot_skip.diff): walks the table PATH BY
   PATH, so responders of different paths are not invoked in one registration order:
   for key, funcs in self.active.copy().items():
   the message address is the PATTERN, the responder's path the address it is matched against.
   An ill-formed pattern raises re.error at the first key: nothing is invoked. *)
Fixpoint dispatch_keys_orig (st : dstate) (keys : table) (m : omsg) (t : mtime) (src : Z * Z) (port : Z)
  : dstate * list inv :=
  match keys with
  | [] => (st, [])
  | (k, l) :: r =>
    match osc_rematch (m_addr m) k with
    | MTrue => let '(st1, o1) := call_all st l m t src port in
               let '(st2, o2) := dispatch_keys_orig st1 r m t src port in (st2, o1 ++ o2)
    | MFalse => dispatch_keys_orig st r m t src port
    | _ => (st, [])
    end
  end.
Definition dispatch_match_orig (st : dstate) (m : omsg) (t : mtime) (src : Z * Z) (port : Z) : dstate * list inv :=
  dispatch_keys_orig st (act_match st) m t src port.

