(* C19 -- executable model of sc3/synth/envelope.py (class Env), single-channel case:
   every level / time / curve item is a number or a shape name (no nested lists, no ugens).

   Numbers are PyNum.num (I = int, F = ideal float).  The shape table, the numeric-curve
   shape number, the "absent node" constant, the exponent of the cubed shape and the
   linear threshold of numeric curves come from gen/Gen_envtables.v, which is REGENERATED
   from the source on every run.  Definitions only; proofs are in proofs/C19_*.v. *)
From Coq Require Import ZArith QArith Qabs Qround String List Bool.
Require Import SC3.lib.PyNum SC3.gen.Gen_envtables.
Import ListNotations.
Open Scope Z_scope.

(* ---------------------------------------------------------------- results / errors *)
Inductive eerr := ValueError | ZeroDivisionError | TypeError | IndexError | KeyError
                | OtherError
                | Inexact.   (* Inexact: not a Python error -- the executable model declines to
                                compute a transcendental value that is not exactly rational *)
Inductive res (A : Type) := Ok (a : A) | Err (e : eerr).
Arguments Ok {A} a.
Arguments Err {A} e.
Definition bind {A B} (r : res A) (f : A -> res B) : res B :=
  match r with Ok a => f a | Err e => Err e end.
Notation "'do' x <- r ; k" := (bind r (fun x => k)) (at level 200, x ident, r at level 100, k at level 200).

(* ---------------------------------------------------------------- curves and shapes *)
Inductive curve := CName (s : string) | CNum (x : num).

Fixpoint assoc (k : string) (l : list (string * Z)) : option Z :=
  match l with
  | [] => None
  | (k', v) :: r => if String.eqb k k' then Some v else assoc k r
  end.

(* Env._shape_number on one item *)
Definition shape_number (c : curve) : res Z :=
  match c with
  | CNum _ => Ok env_numeric_shape
  | CName s => match assoc s env_shape_names with Some k => Ok k | None => Err ValueError end
  end.
(* Env._curve_value on one item *)
Definition curve_value (c : curve) : num :=
  match c with CNum x => x | CName _ => I 0 end.

(* ---------------------------------------------------------------- the object *)
Record env := mkenv {
  levels : list num; times : list num; curves : list curve;
  release : option Z; loop : option Z; offset : option num }.

(* utl.wrap_extend: lst * (n // l) + lst[:n % l] *)
Definition wrap_extend {A} (l : list A) (n : nat) : list A :=
  match length l with
  | O => []
  | len => concat (repeat l (n / len)) ++ firstn (n mod len) l
  end.

Inductive targ := TNone | TScalar (x : num) | TList (l : list num).
Inductive carg := CScalar (c : curve) | CList (l : list curve).

(* `times or [1, 1]` then utl.as_list *)
Definition times_list (t : targ) : list num :=
  match t with
  | TNone => [I 1; I 1]
  | TScalar x => if truth x then [x] else [I 1; I 1]
  | TList [] => [I 1; I 1]
  | TList l => l
  end.
Definition curves_list (c : carg) : list curve :=
  match c with CScalar c => [c] | CList l => l end.

(* Env.__init__ *)
Definition env_init (lv : option (list num)) (t : targ) (c : carg)
           (rel lp : option Z) (off : option num) : env :=
  let lv' := match lv with None | Some [] => [I 0; I 1; I 0] | Some l => l end in
  {| levels := lv'; times := wrap_extend (times_list t) (length lv' - 1);
     curves := curves_list c; release := rel; loop := lp; offset := off |}.

(* ---------------------------------------------------------------- _envgen_format *)
Definition node_or_absent (o : option Z) : num :=
  match o with Some z => I z | None => I env_absent_node end.

(* the body of `for i in range(size)`: reads levels[i + 1], times[i], curves[i % len(curves)] *)
Fixpoint fmt_segments (lv tm : list num) (cv : list curve) (i : nat) {struct tm} : res (list num) :=
  match tm with
  | [] => Ok []
  | t :: tm' =>
    match lv with
    | [] => Err IndexError
    | l :: lv' =>
      match cv with
      | [] => Err ZeroDivisionError
      | c0 :: _ =>
        let c := nth (i mod length cv) cv c0 in
        do sh <- shape_number c;
        do rest <- fmt_segments lv' tm' cv (S i);
        Ok (l :: t :: I sh :: curve_value c :: rest)
      end
    end
  end.

Definition envgen_format (e : env) : res (list num) :=
  match levels e with
  | [] => Err IndexError
  | l0 :: lv' =>
    do segs <- fmt_segments lv' (times e) (curves e) 0;
    Ok (l0 :: I (Z.of_nat (length (times e))) :: node_or_absent (release e) :: node_or_absent (loop e) :: segs)
  end.

(* ---------------------------------------------------------------- _interpolation_format *)
Fixpoint ifmt_segments (lv tm : list num) (cv : list curve) (i : nat) {struct tm} : res (list num) :=
  match tm with
  | [] => Ok []
  | t :: tm' =>
    match lv with
    | [] => Err IndexError
    | l :: lv' =>
      match cv with
      | [] => Err ZeroDivisionError
      | c0 :: _ =>
        let c := nth (i mod length cv) cv c0 in
        do sh <- shape_number c;
        do rest <- ifmt_segments lv' tm' cv (S i);
        Ok (t :: I sh :: curve_value c :: l :: rest)
      end
    end
  end.
(* utl.list_sum on scalars: res = 0; res = res + item *)
Definition list_sum (l : list num) : num := fold_left nadd l (I 0).

Definition interpolation_format (e : env) : res (list num) :=
  match levels e with
  | [] => Err IndexError
  | l0 :: lv' =>
    do segs <- ifmt_segments lv' (times e) (curves e) 0;
    Ok (match offset e with Some o => o | None => I 0 end
        :: l0 :: I (Z.of_nat (length (times e))) :: list_sum (times e) :: segs)
  end.

(* ---------------------------------------------------------------- the SERVER's layout
   (EnvGen help: [initial level, number of segments, release node, loop node,
    then for each segment: target level, duration, shape number, curvature]) *)
Record seg := mkseg { s_target : num; s_dur : num; s_shape : num; s_curve : num }.
Record decoded := mkdec { d_init : num; d_n : Z; d_rel : num; d_loop : num; d_segs : list seg }.

Fixpoint take_segs (n : nat) (l : list num) : option (list seg) :=
  match n with
  | O => match l with [] => Some [] | _ => None end
  | S n' => match l with
            | a :: b :: c :: d :: r =>
              match take_segs n' r with Some s => Some (mkseg a b c d :: s) | None => None end
            | _ => None
            end
  end.
Definition decode_env (l : list num) : res decoded :=
  match l with
  | init :: I n :: rel :: lp :: rest =>
    if n <? 0 then Err ValueError else
    match take_segs (Z.to_nat n) rest with
    | Some s => Ok (mkdec init n rel lp s)
    | None => Err ValueError
    end
  | _ => Err ValueError
  end.

(* IEnvGen help: [offset, initial level, number of segments, total duration,
   then for each segment: duration, shape number, curvature, target level] *)
Record idecoded := mkidec { i_offset : num; i_init : num; i_n : Z; i_total : num; i_segs : list seg }.
Fixpoint take_isegs (n : nat) (l : list num) : option (list seg) :=
  match n with
  | O => match l with [] => Some [] | _ => None end
  | S n' => match l with
            | b :: c :: d :: a :: r =>
              match take_isegs n' r with Some s => Some (mkseg a b c d :: s) | None => None end
            | _ => None
            end
  end.
Definition decode_ienv (l : list num) : res idecoded :=
  match l with
  | off :: init :: I n :: tot :: rest =>
    if n <? 0 then Err ValueError else
    match take_isegs (Z.to_nat n) rest with
    | Some s => Ok (mkidec off init n tot s)
    | None => Err ValueError
    end
  | _ => Err ValueError
  end.

(* ---------------------------------------------------------------- reference (trusted, hand-transcribed)
   SuperCollider server shape numbers (EnvGen help / Env.shapeNames):
   step 0, lin 1, exp 2, sin 3, wel 4, (numeric curvature 5), sqr 6, cub 7, hold 8 *)
Definition server_shape_names : list (string * Z) :=
  [("step", 0); ("lin", 1); ("linear", 1); ("exp", 2); ("exponential", 2);
   ("sin", 3); ("sine", 3); ("wel", 4); ("welch", 4); ("sqr", 6); ("squared", 6);
   ("cub", 7); ("cubed", 7); ("hold", 8)]%string.
Definition server_numeric_shape : Z := 5.
Definition server_absent_node : Z := -99.

Definition server_shape (c : curve) : option Z :=
  match c with CNum _ => Some server_numeric_shape | CName s => assoc s server_shape_names end.
Definition valid_curve (c : curve) : bool :=
  match server_shape c with Some _ => true | None => false end.

(* what the server must receive for an envelope: the specification side of env_format_layout *)
Definition wrap_at {A} (l : list A) (i : nat) (d : A) : A := nth (i mod length l) l d.
Definition norm_seg (e : env) (i : nat) : seg :=
  let c := wrap_at (curves e) i (CName "") in
  {| s_target := nth (S i) (levels e) NErr; s_dur := nth i (times e) NErr;
     s_shape := I (match server_shape c with Some k => k | None => -1 end);
     s_curve := match c with CNum x => x | CName _ => I 0 end |}.
Definition normalise (e : env) : decoded :=
  let n := length (times e) in
  {| d_init := hd NErr (levels e); d_n := Z.of_nat n;
     d_rel := I (match release e with Some r => r | None => server_absent_node end);
     d_loop := I (match loop e with Some r => r | None => server_absent_node end);
     d_segs := map (norm_seg e) (seq 0 n) |}.
Definition inormalise (e : env) : idecoded :=
  let n := length (times e) in
  {| i_offset := match offset e with Some o => o | None => I 0 end;
     i_init := hd NErr (levels e); i_n := Z.of_nat n; i_total := list_sum (times e);
     i_segs := map (norm_seg e) (seq 0 n) |}.

(* ---------------------------------------------------------------- client-side evaluation *)
Open Scope Q_scope.

(* exact partial evaluators of the transcendental library calls: Some v only where the
   binary64 result is exactly the rational v (so that the correspondence can compare
   exactly); None elsewhere.  xpow follows the DOCUMENTED bi.pow
   ("a >= 0 ? pow(a, b) : -pow(-a, b)"). *)
Definition ppow (a b : Q) : option Q :=       (* math.pow(a, b) for a >= 0 *)
  if Qeq_bool b 0 then Some 1
  else if Qlt_bool b 0 then None
  else if Qeq_bool a 0 then Some 0
  else if Qeq_bool a 1 then Some 1
  else None.
Definition xpow (a b : Q) : option Q :=
  if Qle_bool 0 a then ppow a b else option_map Qopp (ppow (- a) b).

Definition zsqrt_exact (z : Z) : option Z :=
  let r := Z.sqrt z in if (r * r =? z)%Z then Some r else None.
Definition psqrt (a : Q) : option Q :=        (* math.sqrt(a) for a >= 0, exact on squares *)
  let r := Qred a in
  match zsqrt_exact (Qnum r), zsqrt_exact (Zpos (Qden r)) with
  | Some n, Some d => match d with Zpos p => Some (n # p) | _ => None end
  | _, _ => None
  end.
Definition xsqrt (a : Q) : option Q :=        (* bi.sqrt: x < 0 -> -sqrt(-x) *)
  if Qlt_bool a 0 then option_map Qopp (psqrt (- a)) else psqrt a.
Definition xcos_pi (x : Q) : option Q := if Qeq_bool x 0 then Some 1 else None.   (* cos(pi * x) *)
Definition xsin_pi2 (x : Q) : option Q :=                                         (* sin(pi/2 * x) *)
  if Qeq_bool x 0 then Some 0 else if Qeq_bool x 1 then Some 1 else None.
Definition xexp (x : Q) : option Q := if Qeq_bool x 0 then Some 1 else None.

Record xfun := mkx { x_pow : Q -> Q -> option Q; x_sqrt : Q -> option Q;
                     x_cos_pi : Q -> option Q; x_sin_pi2 : Q -> option Q; x_exp : Q -> option Q }.
Definition xexact : xfun := mkx xpow xsqrt xcos_pi xsin_pi2 xexp.

Definition inex (o : option Q) : res Q := match o with Some v => Ok v | None => Err Inexact end.

(* shape == shape_names['...']  (KeyError when the name is not in the table) *)
Definition shape_is (sh : Q) (name : string) : res bool :=
  match assoc name env_shape_names with
  | Some k => Ok (Qeq_bool sh (inject_Z k))
  | None => Err KeyError
  end.

(* the if/elif chain of Env._env_at for one located segment *)
Definition seg_value (X : xfun) (sh cu s t pos : Q) : res Q :=
  do b <- shape_is sh "step"; if b then Ok t else
  do b <- shape_is sh "hold"; if b then Ok s else
  do b <- shape_is sh "linear"; if b then Ok (pos * (t - s) + s) else
  do b <- shape_is sh "exponential";
  if b then (if Qeq_bool s 0 then Ok 0 else do p <- inex (x_pow X (t / s) pos); Ok (s * p)) else
  do b <- shape_is sh "sine";
  if b then (do c <- inex (x_cos_pi X pos); Ok (s + (t - s) * (- c * (1 # 2) + (1 # 2)))) else
  do b <- shape_is sh "welch";
  if b then (if Qlt_bool s t
             then do w <- inex (x_sin_pi2 X pos); Ok (s + (t - s) * w)
             else do w <- inex (x_sin_pi2 X (1 - pos)); Ok (t - (t - s) * w)) else
  if Qeq_bool sh 5 then
    (if Qlt_bool (Qabs cu) env_curve_eps then Ok (pos * (t - s) + s)
     else do e1 <- inex (x_exp X (pos * cu));
          if Qeq_bool (1 - e1) 0 then Ok (s + (t - s) * 0)      (* 0 / (1 - exp(curve)) *)
          else do e2 <- inex (x_exp X cu); Ok (s + (t - s) * ((1 - e1) / (1 - e2)))) else
  do b <- shape_is sh "squared";
  if b then (do a <- inex (x_sqrt X s); do c <- inex (x_sqrt X t);
             let l := pos * (c - a) + a in Ok (l * Qabs l)) else      (* sign-keeping square, see notes/C19.md *)
  do b <- shape_is sh "cubed";
  if b then (do a <- inex (x_pow X s env_cub_exponent); do c <- inex (x_pow X t env_cub_exponent);
             let l := pos * (c - a) + a in Ok (l * l * l)) else
  Err ValueError.

(* segments as the evaluation reads them (all floats) *)
Record qseg := mkq { q_target : Q; q_dur : Q; q_shape : Q; q_curve : Q }.
Definition SV := Q -> Q -> Q -> Q -> Q -> res Q.     (* shape curve start target pos *)

(* the `for i in range(4, num_stages * 4 + 1, 4)` loop, on located segments *)
Fixpoint at_segs (sv : SV) (segs : list qseg) (start begin time : Q) : res Q :=
  match segs with
  | [] => Ok start
  | s :: r =>
    let end_ := begin + q_dur s in
    if Qlt_bool time end_
    then sv (q_shape s) (q_curve s) start (q_target s) ((time - begin) / q_dur s)
    else at_segs sv r (q_target s) end_ time
  end.

(* the same loop reading the flat data tuple, as the code does *)
Fixpoint at_loop (sv : SV) (n : nat) (d : list num) (start begin time : Q) : res Q :=
  match n with
  | O => Ok start
  | S n' =>
    match d with
    | tl :: du :: sh :: cu :: r =>
      let end_ := begin + toQ du in
      if Qlt_bool time end_
      then sv (toQ sh) (toQ cu) start (toQ tl) ((time - begin) / toQ du)
      else at_loop sv n' r (toQ tl) end_ time
    | _ => Err IndexError
    end
  end.

Definition env_at_data (sv : SV) (data : list num) (time : Q) : res Q :=
  if (length data <? 8)%nat then Err ValueError else
  match data with
  | l0 :: I n :: _ :: _ :: rest => at_loop sv (Z.to_nat n) rest (toQ l0) 0 time
  | _ => Err TypeError
  end.

(* Env._at: time = max(0, time - self.offset) *)
Definition offsetQ (e : env) : Q := match offset e with Some o => toQ o | None => 0 end.
Definition rel_time (e : env) (t : Q) : Q := if Qlt_bool 0 (t - offsetQ e) then t - offsetQ e else 0.
Definition env_at_with (sv : SV) (e : env) (t : Q) : res Q :=
  do data <- envgen_format e;
  match offset e with
  | None => Err TypeError                      (* time - None *)
  | Some _ => env_at_data sv data (rel_time e t)
  end.
Definition env_at (e : env) (t : Q) : res Q := env_at_with (seg_value xexact) e t.

(* breakpoints: cumulative times and levels *)
Definition qsum (l : list Q) : Q := fold_right Qplus 0 l.
Definition breaktime (e : env) (k : nat) : Q := qsum (firstn k (map toQ (times e))).
Definition level_at (e : env) (k : nat) : Q := toQ (nth k (levels e) NErr).
Definition breakpoints (e : env) : list (Q * Q) :=
  map (fun k => (breaktime e k, level_at e k)) (seq 0 (length (levels e))).

(* ---------------------------------------------------------------- constructors *)
Definition lin : carg := CScalar (CName "lin").
Definition half : num := F (1 # 2).

Definition env_triangle (dur level : num) : env :=
  let d := nmul dur half in env_init (Some [I 0; level; I 0]) (TList [d; d]) lin None None (Some (I 0)).
Definition env_sine (dur level : num) : env :=
  let d := nmul dur half in
  env_init (Some [I 0; level; I 0]) (TList [d; d]) (CScalar (CName "sine")) None None (Some (I 0)).
Definition env_perc (attack release_ level : num) (c : carg) : env :=
  env_init (Some [I 0; level; I 0]) (TList [attack; release_]) c None None (Some (I 0)).
Definition env_linen (attack sustain release_ level : num) (c : carg) : env :=
  env_init (Some [I 0; level; level; I 0]) (TList [attack; sustain; release_]) c None None (Some (I 0)).
(* cutoff: eps is the value of bi.dbamp(-100) (a transcendental kernel, supplied) *)
Definition env_cutoff (eps : num) (release_ level : num) (c : curve) : res env :=
  do k <- shape_number c;
  let rl := if (k =? 2)%Z then eps else I 0 in
  Ok (env_init (Some [level; rl]) (TList [release_]) (CScalar c) (Some 0%Z) None (Some (I 0))).
(* _shape_number on a list item: every element in order (ValueError at the first unknown name) *)
Fixpoint shape_numbers (l : list curve) : res (list num) :=
  match l with
  | [] => Ok []
  | c :: r => do k <- shape_number c; do rest <- shape_numbers r; Ok (I k :: rest)
  end.
(* cutoff with the curve in any accepted form: cls._shape_number(curve) is a number for a name, a
   number or a ONE-element list (utl.unbubble), a list otherwise -- and only the number 2 selects -100 dB *)
Definition cutoff_shape (c : carg) : res (option Z) :=
  match c with
  | CScalar c => do k <- shape_number c; Ok (Some k)
  | CList [c] => do k <- shape_number c; Ok (Some k)
  | CList l => do ks <- shape_numbers l; Ok None
  end.
Definition env_cutoff_c (eps : num) (release_ level : num) (c : carg) : res env :=
  do k <- cutoff_shape c;
  let rl := match k with Some k => if (k =? 2)%Z then eps else I 0 | None => I 0 end in
  Ok (env_init (Some [level; rl]) (TList [release_]) c (Some 0%Z) None (Some (I 0))).
Definition add_bias (l : list num) (bias : num) : list num := map (fun x => nadd x bias) l.
Definition env_dadsr (delay attack decay sustain release_ peak : num) (c : carg) (bias : num) : env :=
  env_init (Some (add_bias [I 0; I 0; peak; nmul peak sustain; I 0] bias))
           (TList [delay; attack; decay; release_]) c (Some 3%Z) None (Some (I 0)).
Definition env_adsr (attack decay sustain release_ peak : num) (c : carg) (bias : num) : env :=
  env_init (Some (add_bias [I 0; peak; nmul peak sustain; I 0] bias))
           (TList [attack; decay; release_]) c (Some 2%Z) None (Some (I 0)).
Definition env_asr (attack sustain release_ : num) (c : carg) : env :=
  env_init (Some [I 0; sustain; I 0]) (TList [attack; release_]) c (Some 1%Z) None (Some (I 0)).

(* step: as DOCUMENTED (release_level defaults to None = not sustained) *)
Definition env_step (lv tm : option (list num)) (rel lp : option Z) (off : option num) : res env :=
  let lv' := match lv with None | Some [] => [I 0; I 1] | Some l => l end in
  let tm' := match tm with None | Some [] => [I 1; I 1] | Some l => l end in
  if negb (length lv' =? length tm')%nat then Err ValueError else
  Ok (env_init (Some (hd NErr lv' :: lv')) (TList tm') (CScalar (CName "step"))
               (option_map (fun r => (r - 1)%Z) rel) lp off).

(* xyc: stable sort by time, differentiate the times, drop the last curve *)
Definition pt := (num * num * curve)%type.
Definition pt_time (p : pt) : num := fst (fst p).
Fixpoint insert_pt (p : pt) (l : list pt) : list pt :=
  match l with
  | [] => [p]
  | q :: r => if nlt (pt_time p) (pt_time q) then p :: l else q :: insert_pt p r
  end.
(* stable: an element is inserted AFTER the elements with an equal key that precede it *)
Definition sort_pts (l : list pt) : list pt := fold_left (fun acc p => insert_pt p acc) l [].
Fixpoint diffs (l : list num) : list num :=
  match l with
  | a :: ((b :: _) as r) => nsub b a :: diffs r
  | _ => []
  end.
Definition env_xyc (pts : list pt) : res env :=
  match sort_pts pts with
  | [] => Err ValueError            (* flop of [] gives [[]]: the unpacking raises ValueError *)
  | (p0 :: _) as s =>
    let tms := map pt_time s in
    Ok (env_init (Some (map (fun p => snd (fst p)) s)) (TList (diffs tms))
                 (CList (removelast (map snd s))) None None (Some (pt_time p0)))
  end.
Inductive pcurves := PNone | PScalar (c : curve) | PList (l : list curve).
Definition env_pairs (ps : list (num * num)) (c : pcurves) : res env :=
  match c with
  | PNone => env_xyc (map (fun p => (fst p, snd p, CName "lin")) ps)
  | PScalar c => env_xyc (map (fun p => (fst p, snd p, c)) ps)
  | PList l => if negb (length ps =? length l)%nat then Err ValueError
               else env_xyc (map (fun pc => (fst (fst pc), snd (fst pc), snd pc)) (combine ps l))
  end.

(* ---------------------------------------------------------------- canonical forms (correspondence) *)
Definition eerr_eqb (a b : eerr) : bool :=
  match a, b with
  | ValueError, ValueError | ZeroDivisionError, ZeroDivisionError | TypeError, TypeError
  | IndexError, IndexError | KeyError, KeyError | OtherError, OtherError | Inexact, Inexact => true
  | _, _ => false
  end.
Fixpoint clist_eqb (a b : list (Z * Z * Z)) : bool :=
  match a, b with
  | [], [] => true
  | x :: a', y :: b' => canon_eqb x y && clist_eqb a' b'
  | _, _ => false
  end.
Definition fmt_agrees (r : res (list num)) (expected : res (list (Z * Z * Z))) : bool :=
  match r, expected with
  | Ok l, Ok x => clist_eqb (map canon l) x
  | Err a, Err b => eerr_eqb a b
  | _, _ => false
  end.
Definition env_fmt_agrees (r : res env) (f : env -> res (list num)) (expected : res (list (Z * Z * Z))) : bool :=
  fmt_agrees (bind r f) expected.
(* evaluation: the model may decline (Inexact); everything else must agree exactly *)
Definition at_agrees (r : res Q) (expected : res (Z * Z * Z)) : bool :=
  match r, expected with
  | Err Inexact, _ => true
  | Ok v, Ok x => canon_eqb (canon (F v)) x
  | Err a, Err b => eerr_eqb a b
  | _, _ => false
  end.
Definition at_all_agree (e : res env) (cases : list (Q * res (Z * Z * Z))) : bool :=
  forallb (fun c => at_agrees (bind e (fun e => env_at e (fst c))) (snd c)) cases.
Definition at_count_exact (e : res env) (cases : list (Q * res (Z * Z * Z))) : nat :=
  length (filter (fun c => match bind e (fun e => env_at e (fst c)) with Err Inexact => false | _ => true end) cases).

(* ================================================================ multichannel envelopes
   A level / time item may be a list of numbers, a curve item a list of names / numbers (one level
   of nesting).  _envgen_format builds the same `contents` list, whose entries are now numbers or
   lists, and returns  [tuple(i) for i in utl.flop(contents)]:  one array per channel, channel j
   taking entry[j % len(entry)] of every list entry. *)
Inductive mitem := MS (x : num) | ML (l : list num).
Inductive mcurve := MCS (c : curve) | MCL (l : list curve).
Record menv := mkmenv {
  m_levels : list mitem; m_times : list mitem; m_curves : list mcurve;
  m_release : option Z; m_loop : option Z; m_offset : option num }.

(* Env.__init__ on item lists *)
Definition menv_init (lv tm : list mitem) (cv : list mcurve) (rel lp : option Z) (off : option num) : menv :=
  let lv' := match lv with [] => [MS (I 0); MS (I 1); MS (I 0)] | _ => lv end in
  let tm' := match tm with [] => [MS (I 1); MS (I 1)] | _ => tm end in
  {| m_levels := lv'; m_times := wrap_extend tm' (length lv' - 1); m_curves := cv;
     m_release := rel; m_loop := lp; m_offset := off |}.

Definition mshape (c : mcurve) : res mitem :=
  match c with
  | MCS c => do k <- shape_number c; Ok (MS (I k))
  | MCL l => do ks <- shape_numbers l; Ok (ML ks)
  end.
Definition mcurve_value (c : mcurve) : mitem :=
  match c with MCS c => MS (curve_value c) | MCL l => ML (map curve_value l) end.

Fixpoint mc_segments (lv tm : list mitem) (cv : list mcurve) (i : nat) {struct tm} : res (list mitem) :=
  match tm with
  | [] => Ok []
  | t :: tm' =>
    match lv with
    | [] => Err IndexError
    | l :: lv' =>
      match cv with
      | [] => Err ZeroDivisionError
      | c0 :: _ =>
        let c := nth (i mod length cv) cv c0 in
        do sh <- mshape c;
        do rest <- mc_segments lv' tm' cv (S i);
        Ok (l :: t :: sh :: mcurve_value c :: rest)
      end
    end
  end.
Definition mc_contents (e : menv) : res (list mitem) :=
  match m_levels e with
  | [] => Err IndexError
  | l0 :: lv' =>
    do segs <- mc_segments lv' (m_times e) (m_curves e) 0;
    Ok (l0 :: MS (I (Z.of_nat (length (m_times e)))) :: MS (node_or_absent (m_release e))
           :: MS (node_or_absent (m_loop e)) :: segs)
  end.

(* utl.flop on a list of numbers / non-empty lists of numbers *)
Definition item_width (x : mitem) : nat := match x with MS _ => 1%nat | ML l => length l end.
Definition item_at (j : nat) (x : mitem) : num :=
  match x with MS v => v | ML l => nth (j mod length l) l NErr end.
Definition items_nonempty (cs : list mitem) : bool :=
  forallb (fun x => match x with ML [] => false | _ => true end) cs.
Definition width (cs : list mitem) : nat := fold_right (fun x w => Nat.max (item_width x) w) 1%nat cs.
(* an empty list item makes flop put a list into the arrays: not representable here (OtherError) *)
Definition flop (cs : list mitem) : res (list (list num)) :=
  if items_nonempty cs then Ok (map (fun j => map (item_at j) cs) (seq 0 (width cs))) else Err OtherError.
Definition mc_envgen_format (e : menv) : res (list (list num)) := do cs <- mc_contents e; flop cs.

(* channel j of a multichannel envelope, as a single-channel envelope *)
Definition proj_curve (j : nat) (c : mcurve) : curve :=
  match c with MCS c => c | MCL l => nth (j mod length l) l (CName "") end.
Definition project (e : menv) (j : nat) : env :=
  {| levels := map (item_at j) (m_levels e); times := map (item_at j) (m_times e);
     curves := map (proj_curve j) (m_curves e);
     release := m_release e; loop := m_loop e; offset := m_offset e |}.

(* Env._at: one value per channel *)
Fixpoint sequence {A} (l : list (res A)) : res (list A) :=
  match l with
  | [] => Ok []
  | Ok a :: r => do rest <- sequence r; Ok (a :: rest)
  | Err e :: _ => Err e
  end.
Definition mc_env_at (e : menv) (t : Q) : res (list Q) :=
  do chans <- mc_envgen_format e;
  match m_offset e with
  | None => Err TypeError
  | Some o => sequence (map (fun data => env_at_data (seg_value xexact) data
                                           (if Qlt_bool 0 (t - toQ o) then t - toQ o else 0)) chans)
  end.

Fixpoint cchans_eqb (a b : list (list (Z * Z * Z))) : bool :=
  match a, b with
  | [], [] => true
  | x :: a', y :: b' => clist_eqb x y && cchans_eqb a' b'
  | _, _ => false
  end.
Definition mc_fmt_agrees (r : res (list (list num))) (expected : res (list (list (Z * Z * Z)))) : bool :=
  match r, expected with
  | Ok l, Ok x => cchans_eqb (map (map canon) l) x
  | Err a, Err b => eerr_eqb a b
  | _, _ => false
  end.
Definition mc_at_agrees (r : res (list Q)) (expected : res (list (Z * Z * Z))) : bool :=
  match r, expected with
  | Err Inexact, _ => true
  | Ok l, Ok x => clist_eqb (map (fun v => canon (F v)) l) x
  | Err a, Err b => eerr_eqb a b
  | _, _ => false
  end.
