(* C06 -- the documented domain of the encoder, as a decidable predicate on argument trees.
   [in_domain strict a]: the Python list [a] is a message (head str) or a bundle (head time)
   all of whose values can be represented in OSC 1.0 as sc3 sends them:
     - addresses are not empty and contain no NUL; strings contain no NUL;
     - ints are int32; blobs are not empty and shorter than 2^31 bytes;
     - None / bool / float words / [] are always fine; other objects are not;
     - a list argument is message-shaped, or bundle-shaped with a second element that is a list;
     - array markers balance;
     - bundle elements are message- or bundle-shaped lists, a nested bundle is not earlier than
       its enclosing bundle (_check_subtime), time tags fit 64 bits.
   With [strict = true] additionally (what the success theorem needs, not the refusal theorem):
     - every message that is a bundle element has an address beginning with '/' (otherwise the
       library's own parser, run by the builder on its output, does not recognise it);
     - every nested list that is sent as a blob or as a bundle element is predicted (hence is)
       shorter than 2^31 bytes, the range of its int32 size field.
   Definitions only. *)
From Coq Require Import ZArith QArith List Bool.
Import ListNotations.
Require Import SC3.model.Osc SC3.model.OscSize.
Open Scope Z_scope.

Definition int32 (z : Z) : bool := (-2147483648 <=? z) && (z <? 2147483648).
Definition uint64 (z : Z) : bool := (0 <=? z) && (z <? 18446744073709551616).
Definition is_open_s (s : bytes) : bool := match s with [91] => true | _ => false end.
Definition is_close_s (s : bytes) : bool := match s with [93] => true | _ => false end.

(* array markers among the arguments balance ([depth] arrays are open) *)
Fixpoint balanced (l : list arg) (depth : nat) : bool :=
  match l with
  | [] => Nat.eqb depth 0
  | AStr s :: r =>
      if is_open_s s then balanced r (S depth)
      else if is_close_s s then match depth with O => false | S d => balanced r d end
      else balanced r depth
  | _ :: r => balanced r depth
  end.

(* predicted, hence real, size below the range of an int32 size field *)
Definition size_ok (x : arg) : bool :=
  match calc_pkt true x with Ok n => n <? 2147483648 | Err _ => false end.

Fixpoint in_domain (strict : bool) (a : arg) {struct a} : bool :=
  match a with
  | AList (AStr addr :: args) =>
      negb (match addr with [] => true | _ => false end) && negb (has_nul addr) && balanced args 0 &&
      (fix go (l : list arg) : bool :=
         match l with
         | [] => true
         | x :: r =>
             (match x with
              | ANone | ABool _ | AFloat _ => true
              | AInt z => int32 z
              | AStr s => negb (has_nul s)
              | ABytes b => negb (match b with [] => true | _ => false end) && (zlen b <? 2147483648)
              | AList [] => true
              | AList (AStr _ :: _) => in_domain strict x && (negb strict || size_ok x)
              | AList (ATime _ _ :: AList _ :: _) => in_domain strict x && (negb strict || size_ok x)
              | _ => false
              end) && go r
         end) args
  | AList (ATime lat tag :: elems) =>
      uint64 tag &&
      (fix go (l : list arg) : bool :=
         match l with
         | [] => true
         | e :: r =>
             (match e with
              | AList (AStr addr :: _) =>
                  in_domain strict e && (negb strict || (starts_with [47] addr && size_ok e))
              | AList (ATime sub _ :: _) =>
                  check_subtime lat sub && in_domain strict e && (negb strict || size_ok e)
              | _ => false
              end) && go r
         end) elems
  | _ => false
  end.

(* the same tests on their own (proofs/C06_domain shows in_domain unfolds to them) *)
Definition arg_ok (strict : bool) (x : arg) : bool :=
  match x with
  | ANone | ABool _ | AFloat _ => true
  | AInt z => int32 z
  | AStr s => negb (has_nul s)
  | ABytes b => negb (match b with [] => true | _ => false end) && (zlen b <? 2147483648)
  | AList [] => true
  | AList (AStr _ :: _) => in_domain strict x && (negb strict || size_ok x)
  | AList (ATime _ _ :: AList _ :: _) => in_domain strict x && (negb strict || size_ok x)
  | _ => false
  end.
Definition elem_ok (strict : bool) (lat : option Q) (e : arg) : bool :=
  match e with
  | AList (AStr addr :: _) => in_domain strict e && (negb strict || (starts_with [47] addr && size_ok e))
  | AList (ATime sub _ :: _) => check_subtime lat sub && in_domain strict e && (negb strict || size_ok e)
  | _ => false
  end.
