(* C18 (c) -- the structural parser of the receive path: sc3/base/_osclib.py
   OscPacket.__init__ / OscBundle.__init__ / OscBundle._parse_contents / OscMessage._parse_datagram
   and the get_* readers, over ARBITRARY byte lists (list Z, each 0..255).

   Indices are Z because the Python code computes with indices that can leave [0, len]
   (a negative blob size moves the index backwards, an unchecked bundle element size moves it
   anywhere); slicing follows Python's rules for negative and out-of-range bounds (pyslice).
   Loops run on explicit fuel and return BFuel / POutOfFuel when it is exhausted.

   `strict` selects the tree: false = as found (no check of the bundle element size),
   true = repaired (build/proposed_fixes/C18_bundle_size.diff: a negative size or a size that
   reaches past the end of the datagram is a parse error).
   Executable definitions only. *)
From Coq Require Import ZArith List Bool.
Import ListNotations.
Open Scope Z_scope.

(* ---- Python sequence operations ----------------------------------------------------------- *)
Definition zlen {A} (d : list A) : Z := Z.of_nat (length d).
(* slice bound normalisation: negative counts from the end, then clamp to [0, len] *)
Definition norm_idx (len i : Z) : Z := if i <? 0 then Z.max 0 (i + len) else Z.min i len.
Definition pyslice {A} (d : list A) (a b : Z) : list A :=
  let lo := norm_idx (zlen d) a in let hi := norm_idx (zlen d) b in
  if hi <=? lo then [] else firstn (Z.to_nat (hi - lo)) (skipn (Z.to_nat lo) d).
Definition pyfrom {A} (d : list A) (a : Z) : list A := skipn (Z.to_nat (norm_idx (zlen d) a)) d.
(* d[i]: None = IndexError *)
Definition pyindex (d : list Z) (i : Z) : option Z :=
  let j := if i <? 0 then i + zlen d else i in
  if (j <? 0) || (zlen d <=? j) then None else nth_error d (Z.to_nat j).

Fixpoint starts_with (p d : list Z) : bool :=
  match p, d with
  | [], _ => true
  | x :: p', y :: d' => (x =? y) && starts_with p' d'
  | _ :: _, [] => false
  end.
Definition bundle_prefix : list Z := [35; 98; 117; 110; 100; 108; 101; 0].   (* b'#bundle\0' *)
Definition is_bundle (d : list Z) : bool := starts_with bundle_prefix d.
Definition is_message (d : list Z) : bool := starts_with [47] d.              (* b'/' *)

(* ---- big-endian words ------------------------------------------------------------------------ *)
Fixpoint be_unsigned (acc : Z) (bs : list Z) : Z :=
  match bs with [] => acc | b :: t => be_unsigned (acc * 256 + b) t end.
Definition be_signed32 (bs : list Z) : Z :=
  let u := be_unsigned 0 bs in if u <? 2147483648 then u else u - 4294967296.

(* Floats reach the responder as Python floats (binary64); the model keeps the 64-bit word.
   All NaN bit patterns are identified (the harness cannot observe the payload of a NaN). *)
Definition nan64 : Z := 9221120237041090560.                       (* 0x7ff8000000000000 *)
Definition canon_f64 (w : Z) : Z :=
  if (Z.land w 9218868437227405312 =? 9218868437227405312) && negb (Z.land w 4503599627370495 =? 0)
  then nan64 else w.
(* exact widening binary32 -> binary64 (struct.unpack('>f') returns a double) *)
Definition f32_to_f64 (w : Z) : Z :=
  let s := Z.shiftl (Z.shiftr w 31) 63 in
  let e := Z.land (Z.shiftr w 23) 255 in
  let m := Z.land w 8388607 in
  if e =? 255 then (if m =? 0 then s + 9218868437227405312 else nan64)
  else if e =? 0 then
    (if m =? 0 then s
     else let k := Z.log2 m in                                      (* m = 2^k + rest, k <= 22 *)
          s + Z.shiftl (k - 149 + 1023) 52 + Z.shiftl (m - Z.shiftl 1 k) (52 - k))
  else s + Z.shiftl (e - 127 + 1023) 52 + Z.shiftl m 29.

(* ---- values ---------------------------------------------------------------------------------- *)
(* Python values handed to responders: int (types i r t), float (f d, as a binary64 word),
   str (UTF-8 bytes), bytes, 4-tuple (m), bool, list *)
Inductive oval :=
| VInt (z : Z) | VFloat (w : Z) | VStr (bs : list Z) | VBlob (bs : list Z)
| VMidi (bs : list Z) | VBool (b : bool) | VArr (l : list oval).

Record omsg := { m_addr : list Z; m_args : list oval }.

Fixpoint list_eqb {A} (eq : A -> A -> bool) (a b : list A) : bool :=
  match a, b with
  | [], [] => true
  | x :: a', y :: b' => eq x y && list_eqb eq a' b'
  | _, _ => false
  end.
Fixpoint oval_eqb (a b : oval) : bool :=
  match a, b with
  | VInt x, VInt y => x =? y
  | VFloat x, VFloat y => x =? y
  | VStr x, VStr y => list_eqb Z.eqb x y
  | VBlob x, VBlob y => list_eqb Z.eqb x y
  | VMidi x, VMidi y => list_eqb Z.eqb x y
  | VBool x, VBool y => Bool.eqb x y
  | VArr x, VArr y =>
    (fix go (l1 l2 : list oval) : bool :=
       match l1, l2 with
       | [], [] => true
       | u :: l1', v :: l2' => oval_eqb u v && go l1' l2'
       | _, _ => false
       end) x y
  | _, _ => false
  end.
Definition omsg_eqb (a b : omsg) : bool :=
  list_eqb Z.eqb (m_addr a) (m_addr b) && list_eqb oval_eqb (m_args a) (m_args b).

(* ---- strict UTF-8 (bytes.decode('utf-8')) ------------------------------------------------------ *)
Definition cont (b : Z) : bool := (128 <=? b) && (b <=? 191).
Definition btw (lo b hi : Z) : bool := (lo <=? b) && (b <=? hi).
Fixpoint utf8_ok (s : list Z) : bool :=
  match s with
  | [] => true
  | b0 :: t =>
    if b0 <? 128 then utf8_ok t
    else if btw 194 b0 223 then
      match t with b1 :: t1 => cont b1 && utf8_ok t1 | _ => false end
    else if btw 224 b0 239 then
      match t with
      | b1 :: b2 :: t2 =>
        (if b0 =? 224 then btw 160 b1 191 else if b0 =? 237 then btw 128 b1 159 else cont b1)
        && cont b2 && utf8_ok t2
      | _ => false
      end
    else if btw 240 b0 244 then
      match t with
      | b1 :: b2 :: b3 :: t3 =>
        (if b0 =? 240 then btw 144 b1 191 else if b0 =? 244 then btw 128 b1 143 else cont b1)
        && cont b2 && cont b3 && utf8_ok t3
      | _ => false
      end
    else false
  end.

(* ---- readers: None = an exception (all exceptions are equivalent for the receive path) ----------- *)
(* get_int: `len(dgram[i:]) < 4` -> error; struct.unpack of dgram[i:i+4] (error unless 4 bytes) *)
Definition get_bytes (n : Z) (d : list Z) (i : Z) : option (list Z * Z) :=
  if zlen (pyfrom d i) <? n then None
  else let b := pyslice d i (i + n) in
       if zlen b =? n then Some (b, i + n) else None.
Definition get_int (d : list Z) (i : Z) : option (Z * Z) :=
  match get_bytes 4 d i with Some (b, j) => Some (be_signed32 b, j) | None => None end.
Definition get_uint (d : list Z) (i : Z) : option (Z * Z) :=
  match get_bytes 4 d i with Some (b, j) => Some (be_unsigned 0 b, j) | None => None end.
Definition get_timetag (d : list Z) (i : Z) : option (Z * Z) :=
  match get_bytes 8 d i with Some (b, j) => Some (be_unsigned 0 b, j) | None => None end.
Definition get_double (d : list Z) (i : Z) : option (Z * Z) :=
  match get_bytes 8 d i with Some (b, j) => Some (canon_f64 (be_unsigned 0 b), j) | None => None end.
(* get_float pads a short datagram with zero bytes first *)
Definition get_float (d : list Z) (i : Z) : option (Z * Z) :=
  let short := 4 - zlen (pyfrom d i) in
  let d' := if 0 <? short then d ++ repeat 0 (Z.to_nat short) else d in
  let b := pyslice d' i (i + 4) in
  if zlen b =? 4 then Some (f32_to_f64 (be_unsigned 0 b), i + 4) else None.
Definition get_midi (d : list Z) (i : Z) : option (list Z * Z) :=
  match get_bytes 4 d i with Some (b, j) => Some (b, j) | None => None end.

(* get_string: offset of the first NUL at or after start (IndexError if none), padded to the next
   multiple of 4 (a full word if already aligned); the chunk with its NULs removed is decoded. *)
Fixpoint find_nul (d : list Z) (k : nat) : option nat :=
  match d with [] => None | b :: t => if b =? 0 then Some k else find_nul t (S k) end.
Definition get_string (d : list Z) (start : Z) : option (list Z * Z) :=
  if start <? 0 then None
  else if zlen d <=? start then None                       (* dgram[start] raises IndexError *)
  else match find_nul (skipn (Z.to_nat start) d) O with
       | None => None
       | Some k =>
         let off := Z.of_nat k in
         let off' := if off mod 4 =? 0 then off + 4 else off + ((- off) mod 4) in
         if zlen (pyfrom d start) <? off' then None
         else let chunk := filter (fun b => negb (b =? 0)) (pyslice d start (start + off')) in
              if utf8_ok chunk then Some (chunk, start + off') else None
       end.

(* get_blob: the size is NOT checked for sign; slices follow Python's rules *)
Definition get_blob (d : list Z) (i : Z) : option (list Z * Z) :=
  match get_int d i with
  | None => None
  | Some (size, io) =>
    let total := size + ((- size) mod 4) in
    if zlen (pyfrom d i) <? (io + size) - i then None
    else Some (pyslice d io (io + size), io + total)
  end.

(* ---- OscMessage._parse_datagram ---------------------------------------------------------------- *)
(* stack: innermost array first, each accumulated in reverse *)
Fixpoint parse_args (tags : list Z) (d : list Z) (i : Z) (stack : list (list oval)) : option (list oval) :=
  match tags with
  | [] => match stack with [top] => Some (rev top) | _ => None end   (* missing closing bracket *)
  | t :: tags' =>
    let push (v : option (oval * Z)) :=
      match v with
      | None => None
      | Some (x, j) => match stack with
                       | top :: below => parse_args tags' d j ((x :: top) :: below)
                       | [] => None
                       end
      end in
    let lift {A} (f : A -> oval) (r : option (A * Z)) :=
      match r with Some (a, j) => Some (f a, j) | None => None end in
    if t =? 105 then push (lift VInt (get_int d i))                    (* i *)
    else if t =? 102 then push (lift VFloat (get_float d i))           (* f *)
    else if t =? 100 then push (lift VFloat (get_double d i))         (* d *)
    else if t =? 115 then push (lift VStr (get_string d i))            (* s *)
    else if t =? 98 then push (lift VBlob (get_blob d i))              (* b *)
    else if t =? 114 then push (lift VInt (get_uint d i))             (* r *)
    else if t =? 109 then push (lift VMidi (get_midi d i))             (* m *)
    else if t =? 116 then push (lift VInt (get_timetag d i))          (* t *)
    else if t =? 84 then push (Some (VBool true, i))                   (* T *)
    else if t =? 70 then push (Some (VBool false, i))                  (* F *)
    else if t =? 91 then parse_args tags' d i ([] :: stack)            (* [ *)
    else if t =? 93 then                                               (* ] *)
      match stack with
      | inner :: parent :: below => parse_args tags' d i ((VArr (rev inner) :: parent) :: below)
      | _ => None                                                      (* unexpected closing bracket *)
      end
    else parse_args tags' d i stack                                    (* unhandled type: skipped *)
  end.

Definition parse_message (d : list Z) : option omsg :=
  match get_string d 0 with
  | None => None
  | Some (addr, i) =>
    match pyfrom d i with
    | [] => Some {| m_addr := addr; m_args := [] |}
    | _ :: _ =>
      match get_string d i with
      | None => None
      | Some (tg, j) =>
        let tags := match tg with c :: r => if c =? 44 then r else tg | [] => tg end in
        match parse_args tags d j [[]] with
        | Some args => Some {| m_addr := addr; m_args := args |}
        | None => None
        end
      end
    end
  end.

(* ---- OscBundle ------------------------------------------------------------------------------------ *)
Inductive bres := BOk (ms : list (Z * omsg)) | BErr | BFuel.

(* _parse_contents, one fuel unit per loop iteration and per nested bundle.  A nested bundle
   (OscBundle(content_dgram)) reads its own timetag and runs the same loop on its own datagram. *)
Fixpoint parse_contents (strict : bool) (fuel : nat) (d : list Z) (tg idx : Z) : bres :=
  match fuel with
  | O => BFuel
  | S f =>
    match pyfrom d idx with
    | [] => BOk []
    | _ :: _ =>
      match get_int d idx with
      | None => BErr
      | Some (size, idx1) =>
        if strict && ((size <? 0) || (zlen d <? idx1 + size)) then BErr
        else
          let content := pyslice d idx1 (idx1 + size) in
          let this :=
            if is_bundle content then
              match get_timetag content 8 with
              | None => BErr
              | Some (tg', idx') => parse_contents strict f content tg' idx'
              end
            else if is_message content then
              match parse_message content with Some m => BOk [(tg, m)] | None => BErr end
            else BOk [] in
          match this with
          | BOk ms => match parse_contents strict f d tg (idx1 + size) with
                      | BOk rest => BOk (ms ++ rest)
                      | e => e
                      end
          | e => e
          end
      end
    end
  end.

Definition parse_bundle (strict : bool) (fuel : nat) (d : list Z) : bres :=
  match get_timetag d 8 with
  | None => BErr
  | Some (tg, idx) => parse_contents strict fuel d tg idx
  end.

(* ---- OscPacket: flatten (done above), stable sort by `time or 0` ------------------------------------ *)
Inductive mtime := TNow | TTag (tg : Z).          (* None / IMMEDIATELY -> time of reception *)
Fixpoint insert_by_time (x : Z * omsg) (l : list (Z * omsg)) : list (Z * omsg) :=
  match l with
  | [] => [x]
  | y :: r => if fst y <? fst x then y :: insert_by_time x r else x :: y :: r
  end.
Fixpoint sort_by_time (l : list (Z * omsg)) : list (Z * omsg) :=
  match l with [] => [] | x :: r => insert_by_time x (sort_by_time r) end.

Inductive presult := POk (msgs : list (mtime * omsg)) | PError | POutOfFuel.

Definition time_of (tg : Z) : mtime := if tg =? 1 then TNow else TTag tg.

Definition parse_packet_gen (strict : bool) (fuel : nat) (d : list Z) : presult :=
  if is_bundle d then
    match parse_bundle strict fuel d with
    | BOk ms => POk (map (fun x => (time_of (fst x), snd x)) (sort_by_time ms))
    | BErr => PError
    | BFuel => POutOfFuel
    end
  else if is_message d then
    match parse_message d with Some m => POk [(TNow, m)] | None => PError end
  else PError.

Definition mtime_eqb (a b : mtime) : bool :=
  match a, b with TNow, TNow => true | TTag x, TTag y => x =? y | _, _ => false end.
Definition presult_eqb (a b : presult) : bool :=
  match a, b with
  | POk x, POk y => list_eqb (fun u v => mtime_eqb (fst u) (fst v) && omsg_eqb (snd u) (snd v)) x y
  | PError, PError => true
  | POutOfFuel, POutOfFuel => true
  | _, _ => false
  end.

(* the fuel every theorem uses: one more than the number of bytes *)
Definition parse_packet (d : list Z) : presult := parse_packet_gen true (S (length d)) d.
Definition parse_packet_orig (fuel : nat) (d : list Z) : presult := parse_packet_gen false fuel d.

(* the datagram of DESIGN section 6 / F4: "#bundle\0", a timetag, an element of size -4 *)
Definition hostile_dgram : list Z := bundle_prefix ++ [0; 0; 0; 0; 0; 0; 0; 1] ++ [255; 255; 255; 252].
