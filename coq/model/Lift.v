(* C15 (lifting half) -- composition objects of sc3 and the dispatch that builds them.
   Executable definitions only.

   Sources modelled:
     sc3/base/builtins.py:35-80   scbuiltin.unop/binop/narop  (who composes)
     sc3/base/absobject.py        dunder and named methods -> _compose_unop/_compose_binop/
                                  _rcompose_binop/_compose_narop; AbstractSequence (ChannelList)
     sc3/base/functions.py        UnopFunction / BinopFunction / NaropFunction .__call__
     sc3/base/stream.py           Stream._compose_*, Unop/Binop/NaropStream.next, ValueStream, stream()
     sc3/seq/pattern.py           Pattern._compose_*, Punop/Pbinop/Pnarop.__stream__
     sc3/base/operand.py          Operand._compose_*; sc3/seq/event.py Rest

   An operator is the numeric function itself (Python stores the selector function in the
   composed object): op1 = num -> num, etc.  Theorems quantify over all of them.

   Python's binary-operator protocol and scbuiltin.binop agree on who composes:
     left operand's _compose_binop if it is an AbstractObject (its __op__ never returns
     NotImplemented), else the right operand's _rcompose_binop (__rop__), else the numbers.
   (Python would try the right operand first only when its type is a subclass of the left's
   type *overriding* the reflected method; Rest < Operand does not override, and
   ChannelList < list only matters when the left is a plain list, which is not an
   AbstractObject, so the order is the same.)                                          *)
From Coq Require Import ZArith List Bool Arith PeanoNat.
Require Import SC3.lib.PyNum SC3.model.ListAlg.
Import ListNotations.
Local Open Scope nat_scope.

(* A selector is the numeric function plus the way it reaches the composed object:
     SPy   a Python operator (operator.add, ...): `x + y` on runtime values goes through the dunder
           protocol again and composes with the same selector;
     SDec  the DECORATED builtin that AbstractObject's named methods and __mod__ pass
           (`self._compose_binop(bi.mod, other)`): applied to runtime values it dispatches once more,
           but scbuiltin.binop then composes with the UNDECORATED kernel
           (`a._compose_binop(func, b)`), i.e. with SRaw;
     SRaw  the undecorated kernel (what `bi.mod(a, b)` passes on): applied to runtime values it
           runs the numeric kernel on whatever they are.                                        *)
Inductive smode := SPy | SDec | SRaw.
Definition op1 := (smode * (num -> num))%type.
Definition op2 := (smode * (num -> num -> num))%type.
Definition op3 := (smode * (num -> list num -> num))%type.        (* selector(a, *args) *)
Definition demote {F} (g : smode * F) : smode * F := (SRaw, snd g).
Definition interp (o : op2) : num -> num -> num := snd o.
Definition interp1 (o : op1) : num -> num := snd o.
Definition interp3 (o : op3) : num -> list num -> num := snd o.

Inductive obj :=
| ONum (n : num)
| OFn (id : nat)                          (* Function(lambda x: <number>): value env id at the argument *)
| OUnFn (o : op1) (a : obj)               (* UnopFunction(selector, a) *)
| OBinFn (o : op2) (a b : obj)            (* BinopFunction(selector, a, b) *)
| ONarFn (o : op3) (a : obj) (args : list obj)
| OStr (items : list num)                 (* a fresh Routine yielding items, then StopStream *)
| OValStr (a : obj)                       (* ValueStream(a): a, forever *)
| OUnStr (o : op1) (a : obj)
| OBinStr (o : op2) (a b : obj)
| ONarStr (o : op3) (a : obj) (args : list obj)
| OPat (items : list num)                 (* Pseq(items) *)
| OUnPat (o : op1) (a : obj)
| OBinPat (o : op2) (a b : obj)
| ONarPat (o : op3) (a : obj) (args : list obj)
| OPseq (items : list obj) (repeats : nat)  (* Pseq(items, repeats) around arbitrary items: each item is EMBEDDED *)
| OPn (p : obj) (repeats : nat)           (* Pn(p, repeats) *)
| OPatStr (p : obj)                       (* PatternValueStream(p): next() drives embed(p) *)
| OPfunc (id : nat)                       (* Pfunc(lambda inval: ...): every next(inval) yields a function of THAT input *)
| OSeq (k : kind) (items : list obj)      (* list / tuple / ChannelList *)
| OOperand (rest : bool) (a : obj)        (* Operand(value) / Rest(value) *)
| OErr (e : err).                         (* an exception was raised *)

Inductive cls := CNum | CFn | CStr | CPat | CSeq (k : kind) | COperand (rest : bool) | CErr.

Definition class_of (o : obj) : cls :=
  match o with
  | ONum _ => CNum
  | OFn _ | OUnFn _ _ | OBinFn _ _ _ | ONarFn _ _ _ => CFn
  | OStr _ | OValStr _ | OUnStr _ _ | OBinStr _ _ _ | ONarStr _ _ _ | OPatStr _ => CStr
  | OPat _ | OUnPat _ _ | OBinPat _ _ _ | ONarPat _ _ _ | OPseq _ _ | OPn _ _ | OPfunc _ => CPat
  | OSeq k _ => CSeq k
  | OOperand r _ => COperand r
  | OErr _ => CErr
  end.

Definition is_fn (o : obj) : bool := match class_of o with CFn => true | _ => false end.   (* callable(o) *)

Definition oview (o : obj) : option (kind * list obj) :=
  match o with OSeq k items => Some (k, items) | _ => None end.

Fixpoint odepth (o : obj) : nat :=
  match o with
  | OSeq _ items => S (fold_right (fun i m => Nat.max (odepth i) m) 0 items)
  | OOperand _ a => S (odepth a)
  | _ => 0
  end.

(* Operand.__init__: Operand(Operand(x)) = Operand(x) *)
Definition mk_operand (r : bool) (x : obj) : obj :=
  match x with OOperand _ y => OOperand r y | OErr e => OErr e | _ => OOperand r x end.
Definition operand_value (o : obj) : obj := match o with OOperand _ y => y | _ => o end.

(* stream.stream(x): x.__stream__() if it has one, else ValueStream(x) *)
Fixpoint to_stream (o : obj) : obj :=
  match o with
  | OStr _ | OValStr _ | OUnStr _ _ | OBinStr _ _ _ | ONarStr _ _ _ | OPatStr _ => o
  | OPseq _ _ | OPn _ _ | OPfunc _ => OPatStr o   (* Pattern.__stream__: PatternValueStream(self) / FunctionStream *)
  | OPat items => OStr items
  | OUnPat g a => OUnStr g (to_stream a)
  | OBinPat g a b => OBinStr g (to_stream a) (to_stream b)
  | ONarPat g a args => ONarStr g (to_stream a) (map to_stream args)
  | OErr e => OErr e
  | _ => OValStr o
  end.

Fixpoint onums_of (l : list obj) : option (list num) :=
  match l with
  | [] => Some []
  | ONum n :: r => match onums_of r with Some r' => Some (n :: r') | None => None end
  | _ :: _ => None
  end.
Fixpoint first_err (l : list obj) : option err :=
  match l with [] => None | OErr e :: _ => Some e | _ :: r => first_err r end.

(* the undecorated kernel applied to runtime values: numbers, or else unspecified *)
Definition raw_apply1 (g : op1) (a : obj) : obj :=
  match a with ONum x => ONum (snd g x) | OErr e => OErr e | _ => OErr EObjArg end.
(* (nested single matches instead of `match a, b`: the latter expands to 17 x 17 branches) *)
Definition is_err (o : obj) : bool := match o with OErr _ => true | _ => false end.
Definition num_of (o : obj) : option num := match o with ONum x => Some x | _ => None end.
Definition raw_apply2 (g : op2) (a b : obj) : obj :=
  if is_err a then a else if is_err b then b
  else match num_of a, num_of b with
       | Some x, Some y => ONum (snd g x y)
       | _, _ => OErr EObjArg
       end.
Definition raw_apply3 (g : op3) (a : obj) (args : list obj) : obj :=
  match first_err args with
  | Some e => OErr e
  | None => match a, onums_of args with
            | ONum x, Some l => ONum (snd g x l)
            | OErr e, _ => OErr e
            | _, _ => OErr EObjArg
            end
  end.

(* ---------------------------------------------------------------------- *)
(* dispatch: `-a`, `bi.f(a)` *)
Fixpoint apply_unop_f (fuel : nat) (g : op1) (a : obj) : obj :=
  match fuel with
  | O => OErr EFuel
  | S n =>
    match class_of a with
    | CErr => a
    | CFn => OUnFn g a
    | CStr => OUnStr g a
    | CPat => OUnPat g a
    | CSeq KChan => list_unop_f oview OSeq OErr n (match fst g with SRaw => raw_apply1 g | SDec => apply_unop_f n (demote g) | SPy => apply_unop_f n g end) a KChan
    | COperand r => mk_operand r ((match fst g with SRaw => raw_apply1 g | SDec => apply_unop_f n (demote g) | SPy => apply_unop_f n g end) (operand_value a))
    | CNum => match a with ONum x => ONum (snd g x) | _ => OErr EType end
    | CSeq _ => OErr EType          (* -[1, 2], bi.squared([1, 2]): plain sequences are not lifted *)
    end
  end.

(* dispatch: `a op b`, `bi.f(a, b)` *)
Fixpoint apply_binop_f (fuel : nat) (g : op2) (a b : obj) : obj :=
  match fuel with
  | O => OErr EFuel
  | S n =>
    let sel := match fst g with SRaw => raw_apply2 g | SDec => apply_binop_f n (demote g) | SPy => apply_binop_f n g end in    (* selector(x, y) on runtime values *)
    if is_err a then a else if is_err b then b else        (* an exception propagates *)
      match class_of a with
      | CFn => OBinFn g a b                                     (* AbstractFunction._compose_binop *)
      | CStr => OBinStr g a (to_stream b)                       (* Stream._compose_binop *)
      | CPat => OBinPat g a b                                   (* Pattern._compose_binop *)
      | CSeq KChan => list_binop_f oview OSeq OErr n sel a b KChan
      | COperand r =>                                           (* Operand._compose_binop *)
          mk_operand r (sel (operand_value a) (operand_value b))
      | _ =>                                                    (* left is not an AbstractObject *)
        match class_of b with
        | CFn => OBinFn g a b                                   (* _rcompose_binop: (selector, other, self) *)
        | CStr => OBinStr g (to_stream a) b
        | CPat => OBinPat g a b
        | CSeq KChan => list_binop_f oview OSeq OErr n sel a b KChan
        | COperand r => mk_operand r (sel a (operand_value b))
        | _ => match num_of a, num_of b with
               | Some x, Some y => ONum (snd g x y)
               | _, _ => OErr EType                             (* plain list/tuple: Python's own meaning, not lifted *)
               end
        end
      end
  end.

(* dispatch: `a.clip(lo, hi)`, `bi.clip(a, lo, hi)`: only the first argument is looked at *)
Fixpoint apply_narop_f (fuel : nat) (g : op3) (a : obj) (args : list obj) : obj :=
  match fuel with
  | O => OErr EFuel
  | S n =>
    match first_err args with
    | Some e => OErr e
    | None =>
      match class_of a with
      | CErr => a
      | CFn => ONarFn g a args
      | CStr => ONarStr g a (map to_stream args)
      | CPat => ONarPat g a args
      | CSeq KChan => list_narop_f oview OSeq OErr n (match fst g with SRaw => raw_apply3 g | SDec => apply_narop_f n (demote g) | SPy => apply_narop_f n g end) a args KChan
      | COperand r => mk_operand r ((match fst g with SRaw => raw_apply3 g | SDec => apply_narop_f n (demote g) | SPy => apply_narop_f n g end) (operand_value a) args)   (* args are NOT unwrapped *)
      | CNum => match a, onums_of args with
                | ONum x, Some l => ONum (snd g x l)
                | _, _ => OErr EObjArg      (* the numeric kernel runs on unevaluated objects *)
                end
      | CSeq _ => OErr EType
      end
    end
  end.

(* fuel: one unit per Operand / sequence level plus one for the leaf call of utils.list_* *)
Definition apply_unop (g : op1) (a : obj) : obj := apply_unop_f (S (S (odepth a))) g a.
Definition apply_binop (g : op2) (a b : obj) : obj := apply_binop_f (S (S (odepth a + odepth b))) g a b.
Definition apply_narop (g : op3) (a : obj) (args : list obj) : obj := apply_narop_f (S (S (odepth a))) g a args.

(* selector(values...) inside a composed object, at evaluation time *)
Definition sel_apply1 (g : op1) (a : obj) : obj :=
  match fst g with SRaw => raw_apply1 g a | SDec => apply_unop (demote g) a | SPy => apply_unop g a end.
Definition sel_apply2 (g : op2) (a b : obj) : obj :=
  match fst g with SRaw => raw_apply2 g a b | SDec => apply_binop (demote g) a b | SPy => apply_binop g a b end.
Definition sel_apply3 (g : op3) (a : obj) (args : list obj) : obj :=
  match fst g with SRaw => raw_apply3 g a args | SDec => apply_narop (demote g) a args | SPy => apply_narop g a args end.

(* ---------------------------------------------------------------------- *)
(* Function.__call__ (functions.py:167): the wrapped function receives the positional arguments
   truncated to its number of parameters and ONLY the keyword arguments it declares:

     def __call__(self, args.., kwargs..):
         kwargs = {k: kwargs[k] for k in kwargs.keys() & self._kwords}
         return self.func(args[:self._nargs].., filtered kwargs..)

   followed by Python's own binding: a parameter takes its positional value, else its keyword, else
   its default; positional AND keyword for one parameter, or none of the three, is a TypeError.
   A primitive is `lambda p0, p1=d1, ...: c + k0*p0 + k1*p1 + ...` (parameter names are numbers).
   Composed functions pass the SAME positional and keyword arguments to every operand function
   (Unop/Binop/NaropFunction.__call__), so one argument record determines the environment. *)
Record prim := { p_params : list (nat * option num); p_coef : list num; p_const : num }.
Definition callargs := (list num * list (nat * num))%type.       (* positional, keywords *)

Fixpoint kw_lookup (n : nat) (kw : list (nat * num)) : option num :=
  match kw with
  | [] => None
  | (m, v) :: r => if Nat.eqb n m then Some v else kw_lookup n r
  end.
Definition declares (params : list (nat * option num)) (n : nat) : bool :=
  existsb (fun p => Nat.eqb n (fst p)) params.
Fixpoint bind_params (params : list (nat * option num)) (i : nat) (pos : list num) (kw : list (nat * num))
  : option (list num) :=
  match params with
  | [] => Some []
  | (name, dflt) :: r =>
      let v := match nth_error pos i, kw_lookup name kw with
               | Some _, Some _ => None             (* got multiple values for argument *)
               | Some pv, None => Some pv
               | None, Some kv => Some kv
               | None, None => dflt                 (* missing required argument when there is no default *)
               end in
      match v, bind_params r (S i) pos kw with
      | Some x, Some l => Some (x :: l)
      | _, _ => None
      end
  end.
Definition prim_call (p : prim) (c : callargs) : num :=
  let pos := firstn (length (p_params p)) (fst c) in                        (* args[:self._nargs] *)
  let kw := filter (fun e => declares (p_params p) (fst e)) (snd c) in       (* kwargs.keys() & self._kwords *)
  match bind_params (p_params p) 0 pos kw with
  | None => NErr
  | Some vals => fold_left (fun acc kv => nadd acc (nmul (fst kv) (snd kv))) (zip (p_coef p) vals) (p_const p)
  end.
(* the environment of one call: every primitive evaluated on the same argument record *)
Definition env_of (prims : list prim) (c : callargs) : nat -> num :=
  fun id => match nth_error prims id with Some p => prim_call p c | None => NErr end.

(* ---------------------------------------------------------------------- *)
(* evaluation of functions at one argument; env id = value of the primitive function id there *)
Section Eval.
  Variable env : nat -> num.
  (* NaropFunction.__call__ evaluates `x(..) if isinstance(x, Function) else x`:
     false = the code as it is (only Function instances, i.e. OFn);
     true  = the repaired code (`callable(x)`, as BinopFunction does).                 *)
  Variable narop_fixed : bool.

  Definition narg_is_evaluated (x : obj) : bool :=
    if narop_fixed then is_fn x else match x with OFn _ => true | _ => false end.

  Fixpoint call (o : obj) : obj :=
    match o with
    | OFn id => ONum (env id)
    | OUnFn g a => sel_apply1 g (call a)                                  (* selector(self.a(..)) *)
    | OBinFn g a b =>                                                     (* callable(x) and x(..) or x *)
        sel_apply2 g (if is_fn a then call a else a) (if is_fn b then call b else b)
    | ONarFn g a args =>
        sel_apply3 g (call a) (map (fun x => if narg_is_evaluated x then call x else x) args)
    | _ => o
    end.
  Definition callv (o : obj) : obj := if is_fn o then call o else o.
End Eval.

(* ---------------------------------------------------------------------- *)
(* streams: the sequence of values next() returns until StopStream *)
Inductive strm (A : Type) := SFin (l : list A) | SConst (a : A).
Arguments SFin {A}. Arguments SConst {A}.

Definition smap {A B} (f : A -> B) (s : strm A) : strm B :=
  match s with SFin l => SFin (map f l) | SConst a => SConst (f a) end.
(* both operands are pulled in lock step; the first StopStream ends the result *)
Definition szip {A B C} (f : A -> B -> C) (s : strm A) (t : strm B) : strm C :=
  match s, t with
  | SFin l, SFin m => SFin (map (fun p => f (fst p) (snd p)) (zip l m))
  | SFin l, SConst b => SFin (map (fun a => f a b) l)
  | SConst a, SFin m => SFin (map (fun b => f a b) m)
  | SConst a, SConst b => SConst (f a b)
  end.
Definition sseq {A} (l : list (strm A)) : strm (list A) :=
  fold_right (szip cons) (SConst []) l.
Definition slen {A} (s : strm A) : option nat := match s with SFin l => Some (length l) | SConst _ => None end.

(* concatenation of finite streams (an infinite one makes the whole infinite: never generated) *)
Fixpoint sconcat {A} (l : list (strm A)) : strm A :=
  match l with
  | [] => SFin []
  | SConst a :: _ => SConst a
  | SFin x :: r => match sconcat r with SFin y => SFin (x ++ y) | SConst a => SConst a end
  end.
Fixpoint srepeat {A} (n : nat) (s : strm A) : strm A :=
  match n with
  | O => SFin []
  | S n' => sconcat [s; srepeat n' s]
  end.

(* Three ways a sequence of values is drawn from an object:
     MPull    o is a Stream object: o.next() until StopStream;
     MStream  stream(o) is made first (o.__stream__() or ValueStream(o)), then pulled;
     MEmbed   `yield from embed(o)` inside an enclosing pattern (o.__embed__, or ValueStream(o).__embed__
              which yields o once).
   Punop and Pnarop have their OWN __embed__ loops (pattern.py:174, 226) next to their __stream__;
   Pbinop embeds through Pattern.__embed__ = self.__stream__().__embed__().  The three are transcribed
   separately below although the formulas coincide (proofs/C15_lift.v: embed_eq_stream).
   Routines are modelled as fresh values: a Pseq/Pn with repeats > 1 around a Routine (which would be
   found exhausted, or half consumed, the second time) is outside the model (never generated). *)
Inductive pmode := MPull | MStream | MEmbed.
Fixpoint xpull (m : pmode) (o : obj) : strm obj :=
  match o with
  (* stream objects: the same in the three modes, except ValueStream.__embed__ which yields once *)
  | OStr items => SFin (map ONum items)
  | OValStr a => match m with MEmbed => SFin [a] | _ => SConst a end
  | OUnStr g a => smap (sel_apply1 g) (xpull MPull a)
  | OBinStr g a b => szip (sel_apply2 g) (xpull MPull a) (xpull MPull b)
  | ONarStr g a args => szip (sel_apply3 g) (xpull MPull a) (sseq (map (xpull MPull) args))
  | OPatStr p => xpull MEmbed p
  (* patterns *)
  | OPat items => match m with MPull => SConst o | _ => SFin (map ONum items) end
  | OUnPat g a =>
      match m with
      | MPull => SConst o
      | MStream => smap (sel_apply1 g) (xpull MStream a)         (* UnopStream(selector, stream(a)) *)
      | MEmbed => smap (sel_apply1 g) (xpull MStream a)          (* Punop.__embed__: its own loop *)
      end
  | OBinPat g a b =>
      match m with
      | MPull => SConst o
      | MStream => szip (sel_apply2 g) (xpull MStream a) (xpull MStream b)   (* BinopStream(sel, stream(a), stream(b)) *)
      | MEmbed => szip (sel_apply2 g) (xpull MStream a) (xpull MStream b)    (* self.__stream__().__embed__() *)
      end
  | ONarPat g a args =>
      match m with
      | MPull => SConst o
      | MStream => szip (sel_apply3 g) (xpull MStream a) (sseq (map (xpull MStream) args))   (* NaropStream *)
      | MEmbed => szip (sel_apply3 g) (xpull MStream a) (sseq (map (xpull MStream) args))    (* Pnarop.__embed__: own loop,
                                                             every argument stream is advanced for every element *)
      end
  | OPseq items r =>
      match m with
      | MPull => SConst o
      | _ => srepeat r (sconcat (map (xpull MEmbed) items))      (* for item in lst: yield from embed(item) *)
      end
  | OPn p r =>
      match m with
      | MPull => SConst o
      | _ => srepeat r (xpull MEmbed p)
      end
  | OPfunc _ => match m with MPull => SConst o | _ => SConst (ONum NErr) end   (* input-dependent, never ends: see ipull *)
  (* anything else: a value; stream(o) = ValueStream(o), embed(o) yields o once *)
  | _ => match m with MEmbed => SFin [o] | _ => SConst o end
  end.
Definition pull (o : obj) : strm obj := xpull MPull o.

(* ---------------------------------------------------------------------- *)
(* ChannelList.clip / fold / wrap / blend (METHOD form, ugen.py:53): not list_narop but
     l = [ugen_param(i) for i in self]
     l = [getattr(row[0], selector)(row[1], row[2], ..) for row in utl.flop([l, args..])]
   i.e. the channels AND every argument are columns of a flop: the result has as many channels as the
   LONGEST of them, each taken with wrap-around; a number channel is a UGenScalar whose method is
   bi.clip(value, lo, hi) etc.  (as_list: a tuple or a scalar argument is a one-item column.)
   Channels that are not numbers (UGens, nested lists) are outside this model. *)
Definition as_col (o : obj) : list obj :=
  match o with
  | OSeq KTuple _ => [o]
  | OSeq _ items => items
  | _ => [o]
  end.
Definition chan_method_narop (g : op3) (a : obj) (args : list obj) : obj :=
  match first_err args with
  | Some e => OErr e
  | None =>
    match a with
    | OSeq KChan items =>
        OSeq KChan (map (fun row => match row with
                                    | ONum x :: rest => apply_narop g (ONum x) rest
                                    | _ => OErr EType
                                    end)
                        (flop_rows (OSeq KList []) (OErr EIndex) (items :: map as_col args)))
    | _ => OErr EType
    end
  end.

(* ---------------------------------------------------------------------- *)
(* next(inval): the value passed to next() is handed to every operand stream of a composite
   (`a = self.a.next(inval); b = self.b.next(inval)`) and threaded through embedding generators
   (`inval = yield ...`; `inval = yield from embed(item, inval)`), so the k-th value drawn from an enclosing
   pattern is computed from the k-th input, wherever the operand sits.  `ipull` is `xpull` with the
   index of the next() call made explicit: `off` is the number of values the enclosing stream has yielded
   before this object starts, `ienv id idx` the value of the input-dependent primitive id (a Pfunc) for the
   idx-th input, `hor` the number of next() calls that are observed (Pfunc streams never end).  *)
Section InPull.
  Variable ienv : nat -> nat -> num.
  Variable hor : nat.
  Definition sapp_at (f : nat -> strm obj) (g : nat -> strm obj) (off : nat) : strm obj :=
    match f off with
    | SFin x => match g (off + length x) with SFin y => SFin (x ++ y) | SConst a => SConst a end
    | SConst a => SConst a
    end.
  Fixpoint ipull (m : pmode) (off : nat) (o : obj) : strm obj :=
    match o with
    | OPfunc id => match m with
                   | MPull => SConst o
                   | _ => SFin (map (fun k => ONum (ienv id (off + k))) (seq 0 (hor - off)))
                   end
    | OStr items => SFin (map ONum items)
    | OValStr a => match m with MEmbed => SFin [a] | _ => SConst a end
    | OUnStr g a => smap (sel_apply1 g) (ipull MPull off a)
    | OBinStr g a b => szip (sel_apply2 g) (ipull MPull off a) (ipull MPull off b)
    | ONarStr g a args => szip (sel_apply3 g) (ipull MPull off a) (sseq (map (ipull MPull off) args))
    | OPatStr p => ipull MEmbed off p
    | OPat items => match m with MPull => SConst o | _ => SFin (map ONum items) end
    | OUnPat g a => match m with MPull => SConst o | _ => smap (sel_apply1 g) (ipull MStream off a) end
    | OBinPat g a b =>
        match m with MPull => SConst o | _ => szip (sel_apply2 g) (ipull MStream off a) (ipull MStream off b) end
    | ONarPat g a args =>
        match m with
        | MPull => SConst o
        | _ => szip (sel_apply3 g) (ipull MStream off a) (sseq (map (ipull MStream off) args))
        end
    | OPseq items r =>
        match m with
        | MPull => SConst o
        | _ =>
          (fix rep (r : nat) : nat -> strm obj :=
             match r with
             | O => fun _ => SFin []
             | S r' => sapp_at ((fix go (its : list obj) : nat -> strm obj :=
                                   match its with
                                   | [] => fun _ => SFin []
                                   | it :: rest => sapp_at (fun off' => ipull MEmbed off' it) (go rest)
                                   end) items)
                               (rep r')
             end) r off
        end
    | OPn p r =>
        match m with
        | MPull => SConst o
        | _ => (fix rep (r : nat) : nat -> strm obj :=
                  match r with
                  | O => fun _ => SFin []
                  | S r' => sapp_at (fun off' => ipull MEmbed off' p) (rep r')
                  end) r off
        end
    | _ => match m with MEmbed => SFin [o] | _ => SConst o end
    end.
  (* what an observer calling next(ins[0]), next(ins[1]), ... sees *)
  Definition observe (o : obj) : strm obj :=
    match ipull (match class_of o with CStr => MPull | _ => MStream end) 0 o with
    | SFin l => SFin (firstn hor l)
    | SConst a => SConst a
    end.
End InPull.

(* ---------------------------------------------------------------------- *)
(* deep evaluation, as an observer would do it: call what is callable (at the fixed
   argument), exhaust what is a stream, embed what is a pattern, look inside sequences
   and operands; every step leaves a tag so that the *shape* is compared too.        *)
Inductive den :=
| DNum (n : num)
| DCall (d : den)
| DStr (l : list den)
| DSeq (k : kind) (l : list den)
| DOp (rest : bool) (d : den)
| DErr (e : err).

Section Deep.
  Variable env : nat -> num.
  Variable narop_fixed : bool.
  Fixpoint eval_f (fuel : nat) (o : obj) : den :=
    match fuel with
    | O => DErr EFuel
    | S n =>
      match o with
      | ONum x => DNum x
      | OErr e => DErr e
      | OSeq k items => DSeq k (map (eval_f n) items)
      | OOperand r a => DOp r (eval_f n a)
      | _ =>
        match class_of o with
        | CFn => DCall (eval_f n (call env narop_fixed o))
        | CStr => match pull o with
                  | SFin l => DStr (map (eval_f n) l)
                  | SConst _ => DErr EFuel          (* infinite stream: never generated *)
                  end
        | CPat => match xpull MStream o with
                  | SFin l => DStr (map (eval_f n) l)
                  | SConst _ => DErr EFuel
                  end
        | _ => DErr EType
        end
      end
    end.
End Deep.

Fixpoint den_has_err (d : den) : bool :=
  match d with
  | DNum NErr => true
  | DNum _ => false
  | DErr _ => true
  | DCall x => den_has_err x
  | DOp _ x => den_has_err x
  | DStr l => existsb den_has_err l
  | DSeq _ l => existsb den_has_err l
  end.
Fixpoint den_has_objarg (d : den) : bool :=
  match d with
  | DErr EObjArg => true
  | DNum _ | DErr _ => false
  | DCall x => den_has_objarg x
  | DOp _ x => den_has_objarg x
  | DStr l => existsb den_has_objarg l
  | DSeq _ l => existsb den_has_objarg l
  end.
Fixpoint den_eqb (a b : den) : bool :=
  let fix go (l1 l2 : list den) : bool :=
      match l1, l2 with
      | [], [] => true
      | x :: r1, y :: r2 => den_eqb x y && go r1 r2
      | _, _ => false
      end in
  match a, b with
  | DNum x, DNum y => canon_eqb (canon x) (canon y)
  | DCall x, DCall y => den_eqb x y
  | DStr l1, DStr l2 => go l1 l2
  | DSeq k1 l1, DSeq k2 l2 => kind_eqb k1 k2 && go l1 l2
  | DOp r1 x, DOp r2 y => Bool.eqb r1 r2 && den_eqb x y
  | DErr _, DErr _ => true
  | _, _ => false
  end.
(* an exception anywhere aborts the whole evaluation *)
Definition den_norm (d : den) : den := if den_has_err d then DErr EType else d.

(* ---------------------------------------------------------------------- *)
(* expressions of the correspondence: what the harness builds with Python operators *)
Inductive expr :=
| ELeaf (o : obj)
| EUn (g : op1) (a : expr)
| EBin (g : op2) (a b : expr)
| ENar (g : op3) (a : expr) (args : list expr)
| EPseq (items : list expr) (repeats : nat)     (* Pseq([...], repeats) around built expressions *)
| EPn (a : expr) (repeats : nat)
| ECNar (g : op3) (a : expr) (args : list expr).   (* ChannelList.clip/fold/wrap/blend METHOD form *)

(* Python builds eagerly: an exception raised while an element of a sequence / the value of an
   Operand is computed aborts the whole sub-expression at once (it cannot sit inside a list that a
   later operator might drop, e.g. by zipping against an empty list) *)
Fixpoint raised (o : obj) : bool :=
  match o with
  | OErr _ => true
  | ONum NErr => true
  | OSeq _ items => existsb raised items
  | OOperand _ a => raised a
  | _ => false
  end.
Definition eager (o : obj) : obj := if raised o then OErr EType else o.

Fixpoint build (e : expr) : obj :=
  match e with
  | ELeaf o => o
  | EUn g a => eager (apply_unop g (build a))
  | EBin g a b => eager (apply_binop g (build a) (build b))
  | ENar g a args => eager (apply_narop g (build a) (map build args))
  | EPseq items r => OPseq (map build items) r
  | EPn a r => OPn (build a) r
  | ECNar g a args => eager (chan_method_narop g (build a) (map build args))
  end.
