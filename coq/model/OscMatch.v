(* C18 (a) -- the OSC address-pattern matcher of sc3/base/_oscmatch.py
   (osc_rematch_pattern, the function bound to responders._match_osc_address_pattern).

   The Python code rewrites the incoming address pattern, token by token, into the text of a
   Python regular expression (table _rewrite_symbols, applied by re.sub left to right) and asks
   `re` whether it matches the responder's path.  The model does the same in two stages:

     rewrite   : pattern text -> regex text          (the table, in the order re.sub applies it)
     re_parse  : regex text   -> regex AST           (the part of sre_parse the rewrite can reach:
                                                      escapes, (?:..|..), ., .*, [..], [^..], literals)
   and decides membership with Brzozowski derivatives (rmatch).  re.fullmatch is "the whole path
   is in the language", re.match is "some prefix of the path is in the language" (rprefix).

   Characters are code points (Z).  Executable definitions only. *)
From Coq Require Import ZArith List Bool.
Import ListNotations.
Open Scope Z_scope.

(* ---- characters ---------------------------------------------------------------------- *)
Definition ch_nl := 10.      Definition ch_bang := 33.    Definition ch_dollar := 36.
Definition ch_lpar := 40.    Definition ch_rpar := 41.    Definition ch_star := 42.
Definition ch_plus := 43.    Definition ch_comma := 44.   Definition ch_minus := 45.
Definition ch_dot := 46.     Definition ch_slash := 47.   Definition ch_colon := 58.
Definition ch_quest := 63.   Definition ch_lbrk := 91.    Definition ch_bsl := 92.
Definition ch_rbrk := 93.    Definition ch_caret := 94.   Definition ch_lbrace := 123.
Definition ch_bar := 124.    Definition ch_rbrace := 125.

(* ---- regex AST, language by derivatives ------------------------------------------------ *)
Inductive regex :=
| REmpty                                   (* no string *)
| REps                                     (* the empty string *)
| RChr (c : Z)
| RAny (excl : list Z)                     (* one character not in excl: "." is RAny [\n] *)
| RSet (neg : bool) (items : list (Z * Z)) (* [..] / [^..]; a literal c is the range (c,c) *)
| RCat (r1 r2 : regex)
| RAlt (r1 r2 : regex)
| RStar (r : regex).

Definition in_items (c : Z) (items : list (Z * Z)) : bool :=
  existsb (fun it => (fst it <=? c) && (c <=? snd it)) items.
Definition in_list (c : Z) (l : list Z) : bool := existsb (Z.eqb c) l.

Fixpoint nullable (r : regex) : bool :=
  match r with
  | REmpty => false | REps => true | RChr _ => false | RAny _ => false | RSet _ _ => false
  | RCat a b => nullable a && nullable b
  | RAlt a b => nullable a || nullable b
  | RStar _ => true
  end.

Fixpoint deriv (r : regex) (c : Z) : regex :=
  match r with
  | REmpty => REmpty
  | REps => REmpty
  | RChr d => if c =? d then REps else REmpty
  | RAny excl => if in_list c excl then REmpty else REps
  | RSet neg items => if xorb neg (in_items c items) then REps else REmpty
  | RCat a b => if nullable a then RAlt (RCat (deriv a c) b) (deriv b c) else RCat (deriv a c) b
  | RAlt a b => RAlt (deriv a c) (deriv b c)
  | RStar a => RCat (deriv a c) (RStar a)
  end.

(* re.fullmatch *)
Fixpoint rmatch (r : regex) (s : list Z) : bool :=
  match s with [] => nullable r | c :: t => rmatch (deriv r c) t end.
(* re.match: some prefix of s matches *)
Fixpoint rprefix (r : regex) (s : list Z) : bool :=
  nullable r || match s with [] => false | c :: t => rprefix (deriv r c) t end.

(* the language a regex denotes (specification of `re` on this fragment) *)
Inductive lang : regex -> list Z -> Prop :=
| L_eps : lang REps []
| L_chr : forall c, lang (RChr c) [c]
| L_any : forall excl c, in_list c excl = false -> lang (RAny excl) [c]
| L_set : forall neg items c, xorb neg (in_items c items) = true -> lang (RSet neg items) [c]
| L_cat : forall a b s1 s2, lang a s1 -> lang b s2 -> lang (RCat a b) (s1 ++ s2)
| L_altl : forall a b s, lang a s -> lang (RAlt a b) s
| L_altr : forall a b s, lang b s -> lang (RAlt a b) s
| L_star0 : forall a, lang (RStar a) []
| L_star1 : forall a s1 s2, lang a s1 -> lang (RStar a) s2 -> lang (RStar a) (s1 ++ s2).

(* ---- stage 1: the rewrite table (re.sub over the alternation of the keys) ---------------- *)
(* '(' ')' '^' '.' '$' '+' '|' '\' are escaped *)
Definition is_escaped (c : Z) : bool :=
  in_list c [ch_lpar; ch_rpar; ch_caret; ch_dot; ch_dollar; ch_plus; ch_bar; ch_bsl].

(* any_text: what '*' and '?' and "[!" are rewritten with.  The tree as found uses
   ".*" / "." / "[^" ; the repaired tree (C18_slash.diff) uses "[^/]*" / "[^/]" / "[^/". *)
Inductive dialect := AsFound | Repaired.

Definition txt_one (d : dialect) : list Z :=
  match d with AsFound => [ch_dot] | Repaired => [ch_lbrk; ch_caret; ch_slash; ch_rbrk] end.
Definition txt_neg (d : dialect) : list Z :=
  match d with AsFound => [ch_lbrk; ch_caret] | Repaired => [ch_lbrk; ch_caret; ch_slash] end.

Fixpoint rewrite (d : dialect) (p : list Z) : list Z :=
  match p with
  | [] => []
  | c :: t =>
    if is_escaped c then ch_bsl :: c :: rewrite d t
    else if c =? ch_lbrace then ch_lpar :: ch_quest :: ch_colon :: rewrite d t
    else if c =? ch_comma then ch_bar :: rewrite d t
    else if c =? ch_rbrace then ch_rpar :: rewrite d t
    else if c =? ch_star then txt_one d ++ ch_star :: rewrite d t
    else if c =? ch_quest then txt_one d ++ rewrite d t
    else match t with
         | e :: t' =>
           if (c =? ch_lbrk) && (e =? ch_bang) then txt_neg d ++ rewrite d t'
           else if (c =? ch_minus) && (e =? ch_rbrk) then ch_rbrk :: rewrite d t'
           else c :: rewrite d t
         | [] => [c]
         end
  end.

(* ---- stage 2: the reachable part of sre_parse -------------------------------------------- *)
Inductive pres (A : Type) := POk (a : A) (rest : list Z) | PErr | PFuel.
Arguments POk {A}. Arguments PErr {A}. Arguments PFuel {A}.

(* character set body, after "[" and the optional "^" (re/_parser.py, the `this == "["` branch):
   "]" closes only a non-empty set; "\c" is the literal c; "a-b" a range (error when b < a);
   "a-]" is the two literals a and '-'. *)
Fixpoint class_loop (fuel : nat) (set : list (Z * Z)) (s : list Z) : pres (list (Z * Z)) :=
  match fuel with
  | O => PFuel
  | S f =>
    match s with
    | [] => PErr                                            (* unterminated character set *)
    | c :: t =>
      if (c =? ch_rbrk) && negb (match set with [] => true | _ => false end) then POk set t
      else
        let code1 := if c =? ch_bsl then match t with e :: t1 => Some (e, t1) | [] => None end
                     else Some (c, t) in
        match code1 with
        | None => PErr
        | Some (c1, t1) =>
          match t1 with
          | m :: t2 =>
            if m =? ch_minus then
              match t2 with
              | [] => PErr
              | e :: t3 =>
                if e =? ch_rbrk then POk (set ++ [(c1, c1); (ch_minus, ch_minus)]) t3
                else
                  let code2 := if e =? ch_bsl then match t3 with e2 :: t4 => Some (e2, t4) | [] => None end
                               else Some (e, t3) in
                  match code2 with
                  | None => PErr
                  | Some (c2, t4) => if c2 <? c1 then PErr          (* bad character range *)
                                     else class_loop f (set ++ [(c1, c2)]) t4
                  end
              end
            else class_loop f (set ++ [(c1, c1)]) t1
          | [] => class_loop f (set ++ [(c1, c1)]) t1
          end
        end
    end
  end.

Definition parse_class (s : list Z) : pres regex :=
  let '(neg, body) := match s with c :: t => if c =? ch_caret then (true, t) else (false, s) | [] => (false, s) end in
  match class_loop (S (length body)) [] body with
  | POk set rest => POk (RSet neg set) rest
  | PErr => PErr
  | PFuel => PFuel
  end.

(* p_alt: branch ('|' branch)* up to (not including) ')' or the end.
   p_seq: atoms up to '|' , ')' or the end. *)
Fixpoint p_alt (fuel : nat) (s : list Z) : pres regex :=
  match fuel with
  | O => PFuel
  | S f =>
    match p_seq f s with
    | POk r1 (c :: rest) =>
      if c =? ch_bar then
        match p_alt f rest with
        | POk r2 rest' => POk (RAlt r1 r2) rest'
        | e => e
        end
      else POk r1 (c :: rest)
    | other => other
    end
  end
with p_seq (fuel : nat) (s : list Z) : pres regex :=
  match fuel with
  | O => PFuel
  | S f =>
    match s with
    | [] => POk REps []
    | c :: t =>
      if (c =? ch_bar) || (c =? ch_rpar) then POk REps s
      else
        let continue (a : pres regex) :=
          match a with
          | POk r rest => match p_seq f rest with
                          | POk r' rest' => POk (RCat r r') rest'
                          | e => e
                          end
          | e => e
          end in
        if c =? ch_bsl then
          match t with
          | e :: t1 => continue (POk (RChr e) t1)
          | [] => PErr                                      (* bad escape (end of pattern) *)
          end
        else if c =? ch_dot then
          match t with
          | e :: t1 => if e =? ch_star then continue (POk (RStar (RAny [ch_nl])) t1)
                       else continue (POk (RAny [ch_nl]) t)
          | [] => continue (POk (RAny [ch_nl]) t)
          end
        else if c =? ch_lpar then
          match t with
          | q :: k :: t2 =>
            if (q =? ch_quest) && (k =? ch_colon) then
              match p_alt f t2 with
              | POk r (cl :: rest) => if cl =? ch_rpar then continue (POk r rest) else PErr
              | POk _ [] => PErr                            (* missing ), unterminated subpattern *)
              | e => e
              end
            else PErr                                       (* not produced by the rewrite *)
          | _ => PErr
          end
        else if c =? ch_lbrk then
          match parse_class t with
          | POk r (e :: t1) => if e =? ch_star then continue (POk (RStar r) t1)
                               else continue (POk r (e :: t1))
          | other => continue other
          end
        else if (c =? ch_star) || (c =? ch_quest) || (c =? ch_plus) || (c =? ch_lbrace)
                || (c =? ch_caret) || (c =? ch_dollar) then
          PErr                                              (* not produced by the rewrite *)
        else continue (POk (RChr c) t)
    end
  end.

Definition re_parse (s : list Z) : pres regex :=
  match p_alt (3 * length s + 4) s with
  | POk r [] => POk r []
  | POk _ (_ :: _) => PErr                                  (* unbalanced parenthesis *)
  | e => e
  end.

(* ---- the matching function used by responders --------------------------------------------- *)
Inductive mres := MTrue | MFalse | MReError | MOutOfFuel.
Definition mres_eqb (a b : mres) : bool :=
  match a, b with MTrue, MTrue | MFalse, MFalse | MReError, MReError | MOutOfFuel, MOutOfFuel => true | _, _ => false end.

Definition osc_rematch_gen (d : dialect) (whole : bool) (pattern address : list Z) : mres :=
  match re_parse (rewrite d pattern) with
  | POk r _ => if (if whole then rmatch r address else rprefix r address) then MTrue else MFalse
  | PErr => MReError
  | PFuel => MOutOfFuel
  end.

(* as found: ".*"/"." and re.match (prefix).  repaired (C18_fullmatch.diff, C18_slash.diff):
   wildcards stay inside one address part and re.fullmatch *)
Definition osc_rematch_orig := osc_rematch_gen AsFound false.
Definition osc_rematch := osc_rematch_gen Repaired true.
(* intermediate trees (one of the two repairs applied), used to classify a disagreement *)
Definition osc_rematch_full_only := osc_rematch_gen AsFound true.
Definition osc_rematch_slash_only := osc_rematch_gen Repaired false.

(* ---- specification: the OSC 1.0 address pattern language ------------------------------------- *)
(* OSC 1.0: an address pattern matches an address when they have the same number of '/'-separated
   parts and each part matches: '?' one character, '*' any sequence of zero or more characters,
   [..] one listed character (ranges a-b, leading '!' negates), {foo,bar} one of the strings, any
   other character itself.  Since a part never contains '/', part-wise matching is the same as
   matching the whole text with wildcards that never match '/'. *)
Inductive otok :=
| OLit (c : Z)
| OAny
| OStar
| OClass (neg : bool) (items : list (Z * Z))
| OAlt (alts : list (list Z)).

Definition wild_ok (c : Z) : bool := negb (c =? ch_slash).

Inductive osc_lang : list otok -> list Z -> Prop :=
| OL_nil : osc_lang [] []
| OL_lit : forall c ts a, osc_lang ts a -> osc_lang (OLit c :: ts) (c :: a)
| OL_any : forall c ts a, wild_ok c = true -> osc_lang ts a -> osc_lang (OAny :: ts) (c :: a)
| OL_star : forall w ts a, forallb wild_ok w = true -> osc_lang ts a -> osc_lang (OStar :: ts) (w ++ a)
| OL_class : forall (neg : bool) items c ts a,
    (if neg then negb (in_items c items) && wild_ok c else in_items c items) = true ->
    osc_lang ts a -> osc_lang (OClass neg items :: ts) (c :: a)
| OL_alt : forall alts w ts a, In w alts -> osc_lang ts a -> osc_lang (OAlt alts :: ts) (w ++ a).

(* the regex a token sequence denotes *)
Fixpoint lit_re (w : list Z) : regex :=
  match w with [] => REps | c :: t => RCat (RChr c) (lit_re t) end.
Fixpoint alts_re (alts : list (list Z)) : regex :=
  match alts with [] => REmpty | w :: r => RAlt (lit_re w) (alts_re r) end.
Definition tok_re (t : otok) : regex :=
  match t with
  | OLit c => RChr c
  | OAny => RAny [ch_slash]
  | OStar => RStar (RAny [ch_slash])
  | OClass false items => RSet false items
  | OClass true items => RSet true ((ch_slash, ch_slash) :: items)
  | OAlt alts => alts_re alts
  end.
Fixpoint compile (ts : list otok) : regex :=
  match ts with [] => REps | t :: r => RCat (tok_re t) (compile r) end.

(* the text of a token sequence *)
Fixpoint render_items (items : list (Z * Z)) : list Z :=
  match items with
  | [] => []
  | (lo, hi) :: r => (if lo =? hi then [lo] else [lo; ch_minus; hi]) ++ render_items r
  end.
Fixpoint render_alts (alts : list (list Z)) : list Z :=
  match alts with
  | [] => []
  | w :: r => match r with [] => w | _ :: _ => w ++ ch_comma :: render_alts r end
  end.
Definition render_tok (t : otok) : list Z :=
  match t with
  | OLit c => [c]
  | OAny => [ch_quest]
  | OStar => [ch_star]
  | OClass neg items => ch_lbrk :: (if neg then [ch_bang] else []) ++ render_items items ++ [ch_rbrk]
  | OAlt alts => ch_lbrace :: render_alts alts ++ [ch_rbrace]
  end.
Fixpoint render (ts : list otok) : list Z :=
  match ts with [] => [] | t :: r => render_tok t ++ render r end.

(* characters that stand for themselves in a pattern *)
Definition plain (c : Z) : bool :=
  negb (in_list c [ch_lpar; ch_rpar; ch_caret; ch_dot; ch_dollar; ch_plus; ch_bar; ch_bsl;
                    ch_lbrace; ch_comma; ch_rbrace; ch_star; ch_quest; ch_lbrk; ch_rbrk]).

(* ---- well-formed pattern TEXT and the token sequence it denotes ------------------------------------ *)
(* characters allowed inside [..]: plain, and not '-' (range sign), '!' (negation sign), '/' (a part
   never contains it); characters of a {..} string: plain and not '/' *)
Definition cplain (c : Z) : bool :=
  plain c && negb (c =? ch_minus) && negb (c =? ch_bang) && negb (c =? ch_slash).
Definition aplain (c : Z) : bool := plain c && negb (c =? ch_slash).
(* a range a-b: a <= b and '/' not inside *)
Definition item_ok (it : Z * Z) : bool :=
  cplain (fst it) && cplain (snd it) && (fst it <=? snd it)
  && negb ((fst it <=? ch_slash) && (ch_slash <=? snd it)).
Definition tok_ok (t : otok) : bool :=
  match t with
  | OLit c => plain c
  | OAny => true
  | OStar => true
  | OClass _ items => match items with [] => false | _ :: _ => forallb item_ok items end
  | OAlt alts => match alts with [] => false | _ :: _ => forallb (forallb aplain) alts end
  end.

(* pat_text ts p: p is a well-formed OSC 1.0 address pattern text and ts the tokens it denotes.
   A '-' written just before the closing ']' of a class is allowed and means nothing. *)
Inductive pat_text : list otok -> list Z -> Prop :=
| PT_nil : pat_text [] []
| PT_lit : forall c ts p, plain c = true -> pat_text ts p -> pat_text (OLit c :: ts) (c :: p)
| PT_any : forall ts p, pat_text ts p -> pat_text (OAny :: ts) (ch_quest :: p)
| PT_star : forall ts p, pat_text ts p -> pat_text (OStar :: ts) (ch_star :: p)
| PT_class : forall (neg dash : bool) items ts p,
    tok_ok (OClass neg items) = true -> pat_text ts p ->
    pat_text (OClass neg items :: ts)
             (ch_lbrk :: (if neg then [ch_bang] else []) ++ render_items items
                      ++ (if dash then [ch_minus] else []) ++ ch_rbrk :: p)
| PT_alt : forall alts ts p,
    tok_ok (OAlt alts) = true -> pat_text ts p ->
    pat_text (OAlt alts :: ts) (ch_lbrace :: render_alts alts ++ ch_rbrace :: p).

(* number of '/' = number of parts *)
Fixpoint count_slash (a : list Z) : nat :=
  match a with [] => O | c :: t => if c =? ch_slash then S (count_slash t) else count_slash t end.
Fixpoint count_slash_toks (ts : list otok) : nat :=
  match ts with
  | [] => O
  | OLit c :: r => if c =? ch_slash then S (count_slash_toks r) else count_slash_toks r
  | _ :: r => count_slash_toks r
  end.
