(* GraphScgf -- bridge between the graph COMPILER model (model/Graph.v, build-C01's: `compile`
   returns the ordered unit list + constant table + control defaults) and the FORMAT model
   (model/Scgf.v): the structure SynthDef._write_def serialises for a compiled graph.
   Definitions only.  Graph.v is only Required (not imported): both files define inp/res/Ok/... *)
From Coq Require Import ZArith QArith List Bool String.
Import ListNotations.
Require SC3.model.Graph.
Require Import SC3.model.Scgf.
Open Scope Z_scope.

(* UGenScalar._write_input_spec: synthdef._constants[float(value)] -- a dict keyed by the float
   (KeyError -> 'constant not found' exception = None) *)
Fixpoint const_index_from (q : Q) (l : list Q) (i : Z) : option Z :=
  match l with
  | [] => None
  | x :: r => if Qeq_bool x q then Some i else const_index_from q r (i + 1)
  end.
Definition const_index (q : Q) (l : list Q) : option Z := const_index_from q l 0.

Definition conv_inp (consts : list Q) (i : Graph.ginp) : option inp :=
  match i with
  | Graph.GK q => match const_index q consts with Some k => Some (IConst k) | None => None end
  | Graph.GO idx ch => Some (IOut idx (Z.of_nat ch))        (* _synth_index, _output_index *)
  end.
Fixpoint conv_inps (consts : list Q) (l : list Graph.ginp) : option (list inp) :=
  match l with
  | [] => Some []
  | i :: r => match conv_inp consts i, conv_inps consts r with
              | Some x, Some xs => Some (x :: xs)
              | _, _ => None
              end
  end.

(* SynthObject._write_def: name(), _rate_number(), inputs, one output spec per channel -- every
   OutputProxy (and a single-output unit itself) writes the unit's own rate number *)
Definition conv_unit (consts : list Q) (g : Graph.gunit) : option ugen :=
  match conv_inps consts (Graph.g_ins g) with
  | Some ins => Some (mkUgen (bs_of_string (Graph.g_cls g)) (Graph.rate_num (Graph.g_rate g)) ins
                             (repeat (Graph.rate_num (Graph.g_rate g)) (Graph.g_nouts g))
                             (Graph.g_special g))
  | None => None
  end.
Fixpoint conv_units (consts : list Q) (l : list Graph.gunit) : option (list ugen) :=
  match l with
  | [] => Some []
  | g :: r => match conv_unit consts g, conv_units consts r with
              | Some u, Some us => Some (u :: us)
              | _, _ => None
              end
  end.

(* f32: struct.pack('>f', x) as a word (opaque, supplied by the caller); name and parameter-name
   table are not part of the compiler model's output (C04's) and are arguments too; the compiler
   model has no variants *)
Definition to_sdef (f32 : Q -> Z) (name : bytes) (pnames : list (bytes * Z)) (g : Graph.graph) : option sdef :=
  match conv_units (Graph.gr_consts g) (Graph.gr_units g) with
  | Some us => Some (mkSdef name (List.map f32 (Graph.gr_consts g)) (List.map f32 (Graph.gr_controls g))
                            pnames us [])
  | None => None
  end.

(* ------------------------------------------------------------------ *)
(* what the compiler has to guarantee about its output (executable): every input is a collected
   constant or an output of a strictly earlier unit, control units cover existing control slots,
   class names / special indices / counts fit their fields *)
Definition ginp_ok (consts : list Q) (before : list Z) (i : Graph.ginp) : bool :=
  match i with
  | Graph.GK q => match const_index q consts with Some _ => true | None => false end
  | Graph.GO idx ch =>
    i32_ok idx && i32_ok (Z.of_nat ch)
    && match nth_z before idx with Some no => Z.of_nat ch <? no | None => false end
  end.

Definition gunit_ok (consts : list Q) (nctl : Z) (before : list Z) (g : Graph.gunit) : bool :=
  let cls := bs_of_string (Graph.g_cls g) in
  pstr_ok cls && negb (bytes_eqb cls [])
  && i16_ok (Graph.g_special g)
  && i32_ok (zlen (Graph.g_ins g)) && i32_ok (Z.of_nat (Graph.g_nouts g))
  && forallb (ginp_ok consts before) (Graph.g_ins g)
  && (if is_ctl_cls cls
      then (0 <=? Graph.g_special g) && (Graph.g_special g + Z.of_nat (Graph.g_nouts g) <=? nctl)
      else true).

Fixpoint gunits_ok (consts : list Q) (nctl : Z) (before : list Z) (l : list Graph.gunit) : bool :=
  match l with
  | [] => true
  | g :: r => gunit_ok consts nctl before g
              && gunits_ok consts nctl (before ++ [Z.of_nat (Graph.g_nouts g)]) r
  end.

Definition graph_ok (g : Graph.graph) : bool :=
  i32_ok (zlen (Graph.gr_consts g)) && i32_ok (zlen (Graph.gr_controls g)) && i32_ok (zlen (Graph.gr_units g))
  && gunits_ok (Graph.gr_consts g) (zlen (Graph.gr_controls g)) [] (Graph.gr_units g).

(* graph_ok = a STRUCTURAL part, which every output of the compiler is expected to satisfy whatever the
   program (this is compile_wf, the compiler's obligation), and a SIZE part, which fails for programs
   that do not fit the file format (more than 32767 control slots before a control unit, ...): for
   those the real writer raises (struct.error) although the compiler succeeds *)
Definition ginp_core (consts : list Q) (before : list Z) (i : Graph.ginp) : bool :=
  match i with
  | Graph.GK q => match const_index q consts with Some _ => true | None => false end
  | Graph.GO idx ch => match nth_z before idx with Some no => Z.of_nat ch <? no | None => false end
  end.
Definition gunit_core (consts : list Q) (nctl : Z) (before : list Z) (g : Graph.gunit) : bool :=
  let cls := bs_of_string (Graph.g_cls g) in
  pstr_ok cls && negb (bytes_eqb cls [])
  && forallb (ginp_core consts before) (Graph.g_ins g)
  && (if is_ctl_cls cls
      then (0 <=? Graph.g_special g) && (Graph.g_special g + Z.of_nat (Graph.g_nouts g) <=? nctl)
      else true).
Fixpoint gunits_core (consts : list Q) (nctl : Z) (before : list Z) (l : list Graph.gunit) : bool :=
  match l with
  | [] => true
  | g :: r => gunit_core consts nctl before g
              && gunits_core consts nctl (before ++ [Z.of_nat (Graph.g_nouts g)]) r
  end.
Definition graph_core_ok (g : Graph.graph) : bool :=
  gunits_core (Graph.gr_consts g) (zlen (Graph.gr_controls g)) [] (Graph.gr_units g).

Definition ginp_small (i : Graph.ginp) : bool :=
  match i with Graph.GK _ => true | Graph.GO idx ch => i32_ok idx && i32_ok (Z.of_nat ch) end.
Definition gunit_small (g : Graph.gunit) : bool :=
  i16_ok (Graph.g_special g) && i32_ok (zlen (Graph.g_ins g)) && i32_ok (Z.of_nat (Graph.g_nouts g))
  && forallb ginp_small (Graph.g_ins g).
Definition graph_small (g : Graph.graph) : bool :=
  i32_ok (zlen (Graph.gr_consts g)) && i32_ok (zlen (Graph.gr_controls g)) && i32_ok (zlen (Graph.gr_units g))
  && forallb gunit_small (Graph.gr_units g).

(* the structural part again split in two:
   graph_order_ok -- every constant input is in the constant table and every unit input refers to a
                     unit at a strictly smaller position (PROVED for every compiled program,
                     proofs/C02_link.v, from C01's topological-sort theorem);
   graph_local_ok -- facts local to one unit: class name, output index inside the referenced unit's
                     outputs, control units inside the control array (decidable on g) *)
Definition ginp_order (consts : list Q) (npos : Z) (i : Graph.ginp) : bool :=
  match i with
  | Graph.GK q => match const_index q consts with Some _ => true | None => false end
  | Graph.GO idx _ => (0 <=? idx) && (idx <? npos)
  end.
Fixpoint gunits_order (consts : list Q) (npos : Z) (l : list Graph.gunit) : bool :=
  match l with
  | [] => true
  | g :: r => forallb (ginp_order consts npos) (Graph.g_ins g) && gunits_order consts (npos + 1) r
  end.
Definition graph_order_ok (g : Graph.graph) : bool := gunits_order (Graph.gr_consts g) 0 (Graph.gr_units g).

Definition ginp_chan (units : list Graph.gunit) (i : Graph.ginp) : bool :=
  match i with
  | Graph.GK _ => true
  | Graph.GO idx ch => match nth_z units idx with
                       | Some V => Z.of_nat ch <? Z.of_nat (Graph.g_nouts V)
                       | None => true
                       end
  end.
Definition gunit_local (nctl : Z) (units : list Graph.gunit) (g : Graph.gunit) : bool :=
  let cls := bs_of_string (Graph.g_cls g) in
  pstr_ok cls && negb (bytes_eqb cls [])
  && forallb (ginp_chan units) (Graph.g_ins g)
  && (if is_ctl_cls cls
      then (0 <=? Graph.g_special g) && (Graph.g_special g + Z.of_nat (Graph.g_nouts g) <=? nctl)
      else true).
Definition graph_local_ok (g : Graph.graph) : bool :=
  forallb (gunit_local (zlen (Graph.gr_controls g)) (Graph.gr_units g)) (Graph.gr_units g).

(* what the caller has to guarantee about the name, the parameter-name table and the float words *)
Definition names_ok (name : bytes) (pnames : list (bytes * Z)) (nctl : Z) : bool :=
  pstr_ok name && i32_ok (zlen pnames) && forallb pname_ok pnames && forallb (pname_wf nctl) pnames.

(* ------------------------------------------------------------------ *)
(* correspondence glue: model compiler + model writer = the REAL bytes *)
Definition f32_of (tab : list (Q * Z)) (q : Q) : Z :=
  match find (fun p => Qeq_bool (fst p) q) tab with Some (_, w) => w | None => (-1) end.

(* 0 = agree; 1 model compiles, library raised (or vice versa); 2 constant not found; 3 graph_ok false;
   4 wf_def false; 5 bytes differ *)
(* cmp = Graph.compile applied to its tables and flags (kept abstract: only its type matters here) *)
Definition bridge_check (cmp : Graph.prog -> Graph.res Graph.graph) (p : Graph.prog)
           (name : bytes) (pnames : list (bytes * Z)) (tab : list (Q * Z)) (real : option bytes) : Z :=
  match cmp p, real with
  | Graph.Err _, None => 0
  | Graph.Err _, Some _ => 1
  | Graph.Ok _, None => 1
  | Graph.Ok g, Some bs =>
    match to_sdef (f32_of tab) name pnames g with
    | None => 2
    | Some d =>
      if negb (graph_ok g && graph_order_ok g && graph_local_ok g) then 3 else
      if negb (wf_def d) then 4 else
      if opt_eqb bytes_eqb (write_def d) (Some bs) then 0 else 5
    end
  end.
