(* C16 -- executable model of sc3/synth/_engine.py : NodeIDAllocator
   (__init__, id_offset, reset, alloc), over Z.  Definitions only.
   bi.wrap on ints is  (x - lo) mod (hi - lo + 1) + lo  (builtins.py, int branch);
   proofs/C16_nodeid.v proves that this is what the REGENERATED Gen_builtins.py_wrap computes. *)
From Coq Require Import ZArith.
Open Scope Z_scope.

Record nid := mkN { user : Z; init_temp : Z; temp : Z; mask : Z }.

Definition temp_max : Z := 67108863.            (* 0x03FFFFFF *)
Definition num_ids : Z := (2 ^ 32 / 2 - 1) / 64.  (* (2 ** 32 // 2 - 1) // 64 *)

Definition wrap_int (x lo hi : Z) : Z := (x - lo) mod (hi - lo + 1) + lo.

(* reset():  _mask = user << 26;  _temp = _init_temp *)
Definition nreset (s : nid) : nid := mkN (user s) (init_temp s) (init_temp s) (Z.shiftl (user s) 26).

(* __init__(user, init_temp): None = the exception "user id > 31" *)
Definition ninit (u it : Z) : option nid :=
  if 31 <? u then None else Some (nreset (mkN u it 0 0)).

Definition id_offset (s : nid) : Z := num_ids * user s.

(* alloc(): x = _temp; _temp = wrap(x + 1, _init_temp, 0x03FFFFFF); return x | _mask *)
Definition nalloc (s : nid) : nid * Z :=
  let x := temp s in
  (mkN (user s) (init_temp s) (wrap_int (x + 1) (init_temp s) temp_max) (mask s), Z.lor x (mask s)).

(* k successive allocations: the state after them and the ids in order *)
Fixpoint nalloc_many (s : nid) (k : nat) : nid * list Z :=
  match k with
  | O => (s, nil)
  | S k' => let '(s1, x) := nalloc s in let '(s2, xs) := nalloc_many s1 k' in (s2, cons x xs)
  end.

(* correspondence case: (user, init_temp, optional forced _temp, count) and the ids the implementation returned,
   its final _temp, mask and id_offset *)
From Coq Require Import List Bool.
Fixpoint zlist_eqb (a b : list Z) : bool :=
  match a, b with
  | nil, nil => true
  | cons x r, cons y r' => (x =? y) && zlist_eqb r r'
  | _, _ => false
  end.
Definition check_node (c : (Z * Z * option Z * nat) * (list Z * Z * Z * Z)) : bool :=
  let '((u, it, start, k), (ids, tfinal, m, ofs)) := c in
  match ninit u it with
  | None => false
  | Some s =>
      let s1 := match start with Some t => mkN (user s) (init_temp s) t (mask s) | None => s end in
      let '(s2, xs) := nalloc_many s1 k in
      zlist_eqb xs ids && (temp s2 =? tfinal) && (mask s =? m) && (id_offset s =? ofs)
  end.
