(* Graph.v -- executable model of the SynthDef graph compiler of sc3
   (sc3/synth/ugen.py, sc3/synth/synthdef.py), written line by line from the code.
   Definitions only (no proofs).  See notes/C01.md.

   A graph function is abstracted to the straight-line sequence of constructor calls it
   makes (`prog`).  `compile` runs: controls, the constructor calls (with the _new1
   shortcuts of BinaryOpUGen / MulAdd / Sum3 / Sum4), _optimize_graph (dead code
   elimination and the Sum3 / Sum4 / MulAdd / a+(-b) / a-(-b) rewrites with the
   descendant sets maintained exactly as the code maintains them, including the aliasing
   `replacement._descendants = self._descendants`), _collect_constants, _check_inputs,
   _topological_sort, _index_ugens, and returns the ordered unit list + constant table. *)
From Coq Require Import ZArith QArith List String Bool Arith.
Import ListNotations.
Open Scope string_scope.
Open Scope nat_scope.
Open Scope list_scope.

(* ------------------------------------------------------------------ basic types *)
Inductive rate := Scalar | Control | Audio | Demand.
Definition rate_eqb (a b : rate) : bool :=
  match a, b with Scalar, Scalar | Control, Control | Audio, Audio | Demand, Demand => true | _, _ => false end.
(* SCgf rate number (UGen._rate_number) *)
Definition rate_num (r : rate) : Z := match r with Scalar => 0 | Control => 1 | Audio => 2 | Demand => 3 end%Z.
(* order of the rate *strings* 'audio' < 'control' < 'demand' < 'scalar' (utl.list_min, list.sort(key=rate)) *)
Definition rate_strkey (r : rate) : Z := match r with Audio => 0 | Control => 1 | Demand => 2 | Scalar => 3 end%Z.

Inductive err := EKey | EValue | EType | EAttr | EGraphFunc | EGraphBase | EUnsupported | EFuel | EException | EInternal.
Inductive res (A : Type) := Ok (a : A) | Err (e : err).
Arguments Ok {A} _. Arguments Err {A} _.
Definition bind {A B} (r : res A) (f : A -> res B) : res B := match r with Ok a => f a | Err e => Err e end.
Notation "'do' x <- r ; k" := (bind r (fun x => k)) (at level 200, x name, r at level 100, k at level 200).
Notation "'do2' a , b <- r ; k" := (bind r (fun ab => let '(a, b) := ab in k))
  (at level 200, a name, b name, r at level 100, k at level 200).

(* an input / a value: a numeric constant or output `ch` of the unit with identity `u`.
   Whether a reference is an OutputProxy or the UGen object itself is a property of the
   unit's class (`multi`). *)
Inductive inp := K (q : Q) | O (u : nat) (ch : nat).
Definition inp_eqb (a b : inp) : bool :=   (* Python `a is b` for unit references *)
  match a, b with
  | O u c, O v d => Nat.eqb u v && Nat.eqb c d
  | _, _ => false
  end.

Inductive kind := KPlain | KUn | KBin | KMulAdd | KSum3 | KSum4 | KOut | KCtl.
Definition kind_eqb (a b : kind) : bool :=
  match a, b with KPlain, KPlain | KUn, KUn | KBin, KBin | KMulAdd, KMulAdd | KSum3, KSum3 | KSum4, KSum4
                | KOut, KOut | KCtl, KCtl => true | _, _ => false end.
(* which _check_inputs the class has *)
Inductive chk := ChkValid | ChkN (n : nat) | ChkSR | ChkOut (fixed : nat) | ChkDuty.

Record unit := mkU {
  uid : nat;            (* object identity = creation counter *)
  cls : string;
  urate : rate;
  ins : list inp;
  nouts : nat;
  special : Z;
  opname : string;      (* BasicOpUGen._operator, "" otherwise *)
  ukind : kind;
  pure : bool;          (* _optimize_graph performs dead code elimination *)
  multi : bool;         (* MultiOutUGen: references are OutputProxy objects *)
  isugen : bool;        (* isinstance(x, UGen) (WidthFirstUGen-only classes and AbstractOut are not) *)
  iswf : bool;          (* WidthFirstUGen *)
  uchk : chk;
  wfa : option (list nat);   (* _width_first_antecedents (None until _add_ugen / _replace_ugen) *)
  sidx : Z;             (* _synth_index *)
  dref : option nat;    (* _descendants: reference to a set object in `sets` (None = Python None) *)
  tag : nat             (* 1 + index of the source instruction that created a catalogue unit; 0 = derived *)
}.
Definition set_ins (U : unit) (l : list inp) : unit :=
  mkU (uid U) (cls U) (urate U) l (nouts U) (special U) (opname U) (ukind U) (pure U) (multi U) (isugen U) (iswf U) (uchk U) (wfa U) (sidx U) (dref U) (tag U).
Definition set_place (U : unit) (w : option (list nat)) (i : Z) (d : option nat) : unit :=
  mkU (uid U) (cls U) (urate U) (ins U) (nouts U) (special U) (opname U) (ukind U) (pure U) (multi U) (isugen U) (iswf U) (uchk U) w i d (tag U).
Definition set_dref (U : unit) (d : option nat) : unit := set_place U (wfa U) (sidx U) d.
Definition set_sidx (U : unit) (i : Z) : unit := set_place U (wfa U) i (dref U).

Record st := mkS {
  units : list unit;              (* every object ever created, position = uid *)
  children : list (option nat);   (* SynthDef._children (None = lazily removed) *)
  wfugens : list nat;             (* SynthDef._width_first_ugens *)
  rewriting : bool;               (* SynthDef._rewrite_in_progress *)
  sets : list (list nat);         (* heap of Python set objects (descendant sets) *)
  controls : list Q               (* SynthDef._controls *)
}.
Definition st0 : st := mkS [] [] [] false [] [].
Definition with_units (s : st) (us : list unit) := mkS us (children s) (wfugens s) (rewriting s) (sets s) (controls s).
Definition with_children (s : st) (c : list (option nat)) := mkS (units s) c (wfugens s) (rewriting s) (sets s) (controls s).
Definition with_sets (s : st) (x : list (list nat)) := mkS (units s) (children s) (wfugens s) (rewriting s) x (controls s).
Definition with_rewriting (s : st) (b : bool) := mkS (units s) (children s) (wfugens s) b (sets s) (controls s).

Fixpoint upd {A} (l : list A) (n : nat) (x : A) : list A :=
  match l, n with
  | [], _ => []
  | _ :: t, 0 => x :: t
  | h :: t, S k => h :: upd t k x
  end.
Definition get_unit (s : st) (u : nat) : option unit := nth_error (units s) u.
Definition put_unit (s : st) (U : unit) : st := with_units s (upd (units s) (uid U) U).

(* ------------------------------------------------------------------ Python sets as lists *)
Definition mem (x : nat) (l : list nat) : bool := existsb (Nat.eqb x) l.
Definition set_add (x : nat) (l : list nat) : list nat := if mem x l then l else l ++ [x].
Definition set_discard (x : nat) (l : list nat) : list nat := filter (fun y => negb (Nat.eqb x y)) l.
Definition get_set (s : st) (r : nat) : list nat := nth r (sets s) [].
Definition put_set (s : st) (r : nat) (l : list nat) : st := with_sets s (upd (sets s) r l).
Definition new_set (s : st) : st * nat := (with_sets s (sets s ++ [[]]), List.length (sets s)).

(* ------------------------------------------------------------------ operator tables (regenerated) *)
Record optabs := mkT { un_tab : list (list string); bin_tab : list (list string) }.
Fixpoint find_row (name : string) (rows : list (list string)) (i : Z) : option (Z * string) :=
  match rows with
  | [] => None
  | r :: t => if existsb (String.eqb name) r then Some (i, hd "" r) else find_row name t (i + 1)%Z
  end.
(* _specialindex.sc_spindex_opname: unary table first, then binary *)
Definition sc_spindex_opname (T : optabs) (name : string) : option (Z * string) :=
  match find_row name (un_tab T) 0%Z with
  | Some r => Some r
  | None => find_row name (bin_tab T) 0%Z
  end.

(* ------------------------------------------------------------------ rates *)
Definition vrate (s : st) (v : inp) : rate :=
  match v with
  | K _ => Scalar
  | O u _ => match get_unit s u with Some U => urate U | None => Scalar end
  end.
(* UGenSequence._as_ugen_rate: single element -> its rate, else the minimum of the rate strings *)
Definition rate_strmin (a b : rate) : rate := if (rate_strkey b <? rate_strkey a)%Z then b else a.
Definition seq_rate (s : st) (l : list inp) : rate :=
  match l with
  | [] => Scalar
  | x :: t => fold_left (fun acc y => rate_strmin acc (vrate s y)) t (vrate s x)
  end.
(* BinaryOpUGen._determine_rate *)
Definition bin_rate (ra rb : rate) : rate :=
  if rate_eqb ra Demand then Demand else if rate_eqb rb Demand then Demand
  else if rate_eqb ra Audio then Audio else if rate_eqb rb Audio then Audio
  else if rate_eqb ra Control then Control else if rate_eqb rb Control then Control
  else Scalar.
(* MulAdd._can_be_muladd *)
Definition can_be_muladd (s : st) (i m a : inp) : bool :=
  match vrate s i with
  | Audio => true
  | Control =>
      (match vrate s m with Control | Scalar => true | _ => false end) &&
      (match vrate s a with Control | Scalar => true | _ => false end)
  | _ => false
  end.

(* stable insertion sort by an integer key (list.sort(key=...)) *)
Fixpoint insert_by {A} (key : A -> Z) (x : A) (l : list A) : list A :=
  match l with
  | [] => [x]
  | y :: t => if (key x <=? key y)%Z then x :: y :: t else y :: insert_by key x t
  end.
Definition sort_by {A} (key : A -> Z) (l : list A) : list A := fold_right (insert_by key) [] l.

(* ------------------------------------------------------------------ object creation *)
(* SynthObject._new1: _create_ugen_object; _add_to_synth (SynthDef._add_ugen) ; the caller
   supplies the fields that _init_ugen sets. *)
Definition create (s : st) (mk : nat -> option (list nat) -> Z -> unit) (wfirst : bool) : st * nat :=
  let u := List.length (units s) in
  let '(w, i, ch) :=
    if rewriting s then (None, (-1)%Z, children s)
    else (Some (wfugens s), Z.of_nat (List.length (children s)), children s ++ [Some u]) in
  let U := mk u w i in
  (mkS (units s ++ [U]) ch (if wfirst then wfugens s ++ [u] else wfugens s) (rewriting s) (sets s) (controls s), u).

Definition qis (q : Q) (z : Z) : bool := Qeq_bool q (inject_Z z).
Definition kis (v : inp) (z : Z) : bool := match v with K q => qis q z | _ => false end.
Definition is_const (v : inp) : bool := match v with K _ => true | _ => false end.

Section WithTables.
Variable T : optabs.

(* UnaryOpUGen.new(selector, a)  (selector already an sc name or None) *)
Definition ctor_un (s : st) (scname : option string) (a : inp) : res (st * inp) :=
  let okty := match a with
              | O ua _ => match get_unit s ua with Some UA => isugen UA | None => false end
              | K _ => true end in
  if negb okty then Err EType else
  let look := match scname with Some n => sc_spindex_opname T n | None => None end in
  match look with
  | None => Err EException     (* operator setter: special index < 0 *)
  | Some (idx, nm) =>
      let r := vrate s a in
      let '(s1, u) := create s (fun u w i =>
         mkU u "UnaryOpUGen" r [a] 1 idx nm KUn true false true false ChkValid w i None 0) false in
      Ok (s1, O u 0)
  end.

Definition sc_opname (py : string) : option string :=
  match sc_spindex_opname T py with Some (_, n) => Some n | None => None end.

(* -x on a value *)
Definition vneg (s : st) (v : inp) : res (st * inp) :=
  match v with
  | K q => Ok (s, K (Qred (- q)))
  | _ => ctor_un s (sc_opname "neg") v
  end.

(* BinaryOpUGen.new(selector, a, b) -> _new1 with its shortcuts *)
Definition new_bin_unit (s : st) (scname : string) (a b : inp) : res (st * inp) :=
  match sc_spindex_opname T scname with
  | None => Err EException
  | Some (idx, nm) =>
      let r := bin_rate (vrate s a) (vrate s b) in
      let '(s1, u) := create s (fun u w i =>
         mkU u "BinaryOpUGen" r [a; b] 1 idx nm KBin true false true false ChkValid w i None 0) false in
      Ok (s1, O u 0)
  end.
Definition ctor_bin (s : st) (scname : string) (a b : inp) : res (st * inp) :=
  if negb (is_const a) && negb (is_const b) then new_bin_unit s scname a b
  else if String.eqb scname "*" then
    if kis a 0 then Ok (s, K 0) else if kis b 0 then Ok (s, K 0)
    else if kis a 1 then Ok (s, b) else if kis a (-1) then vneg s b
    else if kis b 1 then Ok (s, a) else if kis b (-1) then vneg s a
    else new_bin_unit s scname a b
  else if String.eqb scname "+" then
    if kis a 0 then Ok (s, b) else if kis b 0 then Ok (s, a) else new_bin_unit s scname a b
  else if String.eqb scname "-" then
    if kis a 0 then vneg s b else if kis b 0 then Ok (s, a) else new_bin_unit s scname a b
  else if String.eqb scname "/" then
    if kis b 1 then Ok (s, a) else if kis b (-1) then vneg s a else new_bin_unit s scname a b
  else new_bin_unit s scname a b.

Definition ugen_ok (s : st) (v : inp) : bool :=
  match v with K _ => true | O u _ => match get_unit s u with Some U => isugen U | None => false end end.

(* Python `a <op> b` / `a.<op>(b)` on two values, `py` = the selector's __name__ *)
Definition py_binop (s : st) (py : string) (a b : inp) : res (st * inp) :=
  match a, b with
  | K x, K y =>
      if String.eqb py "add" then Ok (s, K (Qred (x + y)))
      else if String.eqb py "sub" then Ok (s, K (Qred (x - y)))
      else if String.eqb py "mul" then Ok (s, K (Qred (x * y)))
      else Err EUnsupported
  | _, _ =>
      if ugen_ok s a && ugen_ok s b then
        match sc_opname py with
        | Some n => ctor_bin s n a b
        | None => Err EException
        end
      else Err EType
  end.
Definition py_unop (s : st) (py : string) (a : inp) : res (st * inp) :=
  match a with
  | K q => if String.eqb py "neg" then Ok (s, K (Qred (- q))) else Err EUnsupported
  | _ => ctor_un s (sc_opname py) a
  end.

(* MulAdd.new -> _new1 *)
Definition ctor_muladd (s : st) (i m a : inp) : res (st * inp) :=
  if kis m 0 then Ok (s, a) else
  let minus := kis m (-1) in let nomul := kis m 1 in let noadd := kis a 0 in
  if nomul && noadd then Ok (s, i)
  else if minus && noadd then py_unop s "neg" i
  else if noadd then py_binop s "mul" i m
  else if minus then py_binop s "sub" a i
  else if nomul then py_binop s "add" i a
  else
    let mkm (x y z : inp) :=
      let r := seq_rate s [x; y; z] in
      let '(s1, u) := create s (fun u w k =>
         mkU u "MulAdd" r [x; y; z] 1 0%Z "" KMulAdd false false true false ChkValid w k None 0) false in
      Ok (s1, O u 0) in
    if can_be_muladd s i m a then mkm i m a
    else if can_be_muladd s m i a then mkm m i a
    else do2 s1, p <- py_binop s "mul" i m; py_binop s1 "add" p a.

(* Sum3._new1 *)
Definition sum3_new1 (s : st) (a b c : inp) : res (st * inp) :=
  if kis c 0 then py_binop s "add" a b
  else if kis b 0 then py_binop s "add" a c
  else if kis a 0 then py_binop s "add" b c
  else
    let l := [a; b; c] in
    let r := seq_rate s l in
    let sorted := sort_by (fun v => rate_strkey (vrate s v)) l in
    let '(s1, u) := create s (fun u w k =>
       mkU u "Sum3" r sorted 1 0%Z "" KSum3 false false true false ChkValid w k None 0) false in
    Ok (s1, O u 0).
(* Sum4._new1 *)
Definition sum4_new1 (s : st) (a b c d : inp) : res (st * inp) :=
  if kis a 0 then sum3_new1 s b c d
  else if kis b 0 then sum3_new1 s a c d
  else if kis c 0 then sum3_new1 s a b d
  else if kis d 0 then sum3_new1 s a b c
  else
    let l := [a; b; c; d] in
    let r := seq_rate s l in
    let sorted := sort_by (fun v => rate_strkey (vrate s v)) l in
    let '(s1, u) := create s (fun u w k =>
       mkU u "Sum4" r sorted 1 0%Z "" KSum4 false false true false ChkValid w k None 0) false in
    Ok (s1, O u 0).

(* ------------------------------------------------------------------ the UGen catalogue *)
Record centry := mkC {
  c_cls : string; c_rates : list rate; c_arity : nat;
  c_inputs : list (nat + Q);        (* stored inputs: argument number or a default constant *)
  c_nouts : nat; c_pure : bool; c_multi : bool; c_isugen : bool; c_wf : bool; c_chk : chk;
  c_hasval : bool }.
Definition A (n : nat) : nat + Q := inl n.
Definition D (q : Q) : nat + Q := inr q.
Definition ak := [Audio; Control].
Definition catalogue : list (string * centry) := [
  ("SinOsc",    mkC "SinOsc"   ak 2 [A 0; A 1] 1 true false true false ChkValid true);
  ("Impulse",   mkC "Impulse"  ak 2 [A 0; A 1] 1 true false true false ChkValid true);
  ("Saw",       mkC "Saw"      ak 1 [A 0] 1 false false true false ChkValid true);
  ("WhiteNoise", mkC "WhiteNoise" ak 0 [] 1 false false true false ChkValid true);
  ("LFNoise0",  mkC "LFNoise0" ak 1 [A 0] 1 false false true false ChkValid true);
  ("Line",      mkC "Line"     ak 4 [A 0; A 1; A 2; A 3] 1 false false true false ChkValid true);
  ("LPF",       mkC "LPF"      ak 2 [A 0; A 1] 1 true false true false ChkSR true);
  ("K2A",       mkC "K2A"      [Audio] 1 [A 0] 1 true false true false ChkValid true);
  ("DC",        mkC "DC"       ak 1 [A 0] 1 true true true false ChkValid true);
  ("In1",       mkC "In"       ak 1 [A 0] 1 false true true false ChkValid true);
  ("In2",       mkC "In"       ak 1 [A 0] 2 false true true false ChkValid true);
  ("Pan2",      mkC "Pan2"     ak 3 [A 0; A 1; A 2] 2 false true true false (ChkN 1) true);
  ("SampleRate", mkC "SampleRate" [Scalar] 0 [] 1 false false true false ChkValid true);
  ("Rand",      mkC "Rand"     [Scalar] 2 [A 0; A 1] 1 false false true false ChkValid true);
  ("RandSeed",  mkC "RandSeed" [Audio; Control; Scalar] 2 [A 0; A 1] 1 false false false true ChkValid false);
  ("FFT",       mkC "FFT"      [Control] 2 [A 0; A 1; D (1#2); D 0; D 1; D 0] 1 false false false true ChkValid true);
  ("IFFT",      mkC "IFFT"     ak 1 [A 0; D 0; D 0] 1 false false true true ChkValid true);
  ("Dseries",   mkC "Dseries"  [Demand] 3 [A 2; A 0; A 1] 1 false false true false ChkValid true);
  ("Duty",      mkC "Duty"     ak 3 [A 0; A 1; D 0; A 2] 1 false false true false ChkDuty true);
  ("Demand1",   mkC "Demand"   ak 3 [A 0; A 1; A 2] 1 false true true false ChkValid true)
].
Fixpoint assoc {B} (k : string) (l : list (string * B)) : option B :=
  match l with [] => None | (k', v) :: t => if String.eqb k k' then Some v else assoc k t end.

(* ------------------------------------------------------------------ programs *)
Inductive arg := AC (q : Q) | AV (i : nat) (ch : nat) | AP (kr : bool) (j : nat).
Inductive instr :=
| IU (name : string) (r : rate) (args : list arg)
| IUn (py : string) (a : arg)
| IBin (py : string) (a b : arg)
| IMulAdd (a b c : arg)
| ISum (xs : list arg)
| ISum3 (a b c : arg)
| ISum4 (a b c d : arg)
| IOut (r : rate) (bus : arg) (xs : list arg)
| IRaise (base : bool).
Record prog := mkP { p_ir : list Q; p_kr : list Q; p_ins : list instr }.

(* values of the instructions so far; parameters *)
Record env := mkE { e_vals : list (list inp); e_ir : list inp; e_kr : list inp }.
Definition lookup (e : env) (a : arg) : res inp :=
  match a with
  | AC q => Ok (K (Qred q))
  | AV i ch => match nth_error (e_vals e) i with
               | Some l => match nth_error l ch with Some v => Ok v | None => Err EUnsupported end
               | None => Err EUnsupported end
  | AP kr j => match nth_error (if kr then e_kr e else e_ir e) j with Some v => Ok v | None => Err EUnsupported end
  end.
Fixpoint lookups (e : env) (l : list arg) : res (list inp) :=
  match l with
  | [] => Ok []
  | a :: t => do v <- lookup e a; do r <- lookups e t; Ok (v :: r)
  end.

Definition chans (u n : nat) : list inp := map (fun c => O u c) (seq 0 n).

(* a catalogue constructor: cls.ar|kr|ir|dr(args...) -> _multi_new -> _new1 -> _init_ugen *)
Definition ctor_cat (s : st) (name : string) (r : rate) (args : list inp) (tg : nat) : res (st * list inp) :=
  match assoc name catalogue with
  | None => Err EUnsupported
  | Some c =>
      if negb (existsb (rate_eqb r) (c_rates c)) || negb (Nat.eqb (List.length args) (c_arity c)) then Err EUnsupported
      else
        let inputs := map (fun x => match x with inl n => nth n args (K 0) | inr q => K q end) (c_inputs c) in
        let '(s1, u) := create s (fun u w k =>
           mkU u (c_cls c) r inputs (c_nouts c) 0%Z "" KPlain (c_pure c) (c_multi c) (c_isugen c) (c_wf c) (c_chk c) w k None tg)
           (c_wf c) in
        Ok (s1, if c_hasval c then chans u (if c_multi c then c_nouts c else 1) else [])
  end.

(* Out.ar / Out.kr *)
Definition ctor_out (s : st) (r : rate) (bus : inp) (xs : list inp) (tg : nat) : res st :=
  let mk (s0 : st) (outs : list inp) :=
    fst (create s0 (fun u w k =>
       mkU u "Out" r (bus :: outs) 0 0%Z "" KOut false false false false (ChkOut 1) w k None tg) false) in
  match r with
  | Audio =>
      (* _replace_zeroes_with_silence: DC.ar(0) is created unconditionally *)
      let '(s1, d) := create s (fun u w k =>
         mkU u "DC" Audio [K 0] 1 0%Z "" KPlain true true true false ChkValid w k None 0) false in
      let outs := map (fun x => if kis x 0 then O d 0 else x) xs in
      Ok (mk s1 outs)
  | Control => Ok (mk s xs)
  | _ => Err EUnsupported
  end.

(* Control.ir / Control.kr for the function's parameters (_build_controls, ir then kr) *)
Definition ctor_ctl (s : st) (r : rate) (vals : list Q) : st * list inp :=
  match vals with
  | [] => (s, [])
  | _ =>
      let n := List.length vals in
      let sp := Z.of_nat (List.length (controls s)) in
      let '(s1, u) := create s (fun u w k =>
         mkU u "Control" r [] n sp "" KCtl false true true false ChkValid w k None 0) false in
      (mkS (units s1) (children s1) (wfugens s1) (rewriting s1) (sets s1) (controls s1 ++ map Qred vals), chans u n)
  end.

Definition step (s : st) (e : env) (idx : nat) (i : instr) : res (st * list inp) :=
  match i with
  | IU name r args => do a <- lookups e args; ctor_cat s name r a (S idx)
  | IUn py a => do x <- lookup e a; do2 s1, v <- py_unop s py x; Ok (s1, [v])
  | IBin py a b => do x <- lookup e a; do y <- lookup e b; do2 s1, v <- py_binop s py x y; Ok (s1, [v])
  | IMulAdd a b c => do x <- lookup e a; do y <- lookup e b; do z <- lookup e c;
                     do2 s1, v <- ctor_muladd s x y z; Ok (s1, [v])
  | ISum xs => do l <- lookups e xs;
               do2 s1, v <- fold_left (fun acc x => do2 s0, r <- acc; py_binop s0 "add" r x) l (Ok (s, K 0));
               Ok (s1, [v])
  | ISum3 a b c => do x <- lookup e a; do y <- lookup e b; do z <- lookup e c;
                   do2 s1, v <- sum3_new1 s x y z; Ok (s1, [v])
  | ISum4 a b c d => do x <- lookup e a; do y <- lookup e b; do z <- lookup e c; do w <- lookup e d;
                     do2 s1, v <- sum4_new1 s x y z w; Ok (s1, [v])
  | IOut r bus xs => do b <- lookup e bus; do l <- lookups e xs; do s1 <- ctor_out s r b l (S idx); Ok (s1, [])
  | IRaise base => Err (if base then EGraphBase else EGraphFunc)
  end.

Fixpoint run_ins (s : st) (e : env) (idx : nat) (l : list instr) : res st :=
  match l with
  | [] => Ok s
  | i :: t => do2 s1, v <- step s e idx i;
              run_ins s1 (mkE (e_vals e ++ [v]) (e_ir e) (e_kr e)) (S idx) t
  end.

(* _build_ugen_graph *)
Definition build_graph (p : prog) : res st :=
  let '(s1, irs) := ctor_ctl st0 Scalar (p_ir p) in
  let '(s2, krs) := ctor_ctl s1 Control (p_kr p) in
  run_ins s2 (mkE [] irs krs) 0 (p_ins p).

(* ------------------------------------------------------------------ _init_topo_sort *)
Definition live (s : st) : list nat := flat_map (fun o => match o with Some u => [u] | None => [] end) (children s).

Definition fresh_sets (s : st) : st :=
  fold_left (fun s0 u => match get_unit s0 u with
                         | Some U => let '(s1, r) := new_set s0 in put_unit s1 (set_dref U (Some r))
                         | None => s0 end) (live s) s.

(* the unit objects `self` gets as antecedents: inputs that are UGens (through proxies), then
   the width-first antecedents *)
Definition input_sources (s : st) (U : unit) : list nat :=
  flat_map (fun i => match i with
                     | O u _ => match get_unit s u with Some V => if isugen V then [u] else [] | None => [] end
                     | K _ => [] end) (ins U).
Definition assoc_add (k x : nat) (m : list (nat * list nat)) : list (nat * list nat) :=
  map (fun '(k', l) => if Nat.eqb k k' then (k', set_add x l) else (k', l)) m.
Definition assoc_get (k : nat) (m : list (nat * list nat)) : option (list nat) :=
  match find (fun '(k', _) => Nat.eqb k k') m with Some (_, l) => Some l | None => None end.

(* ugen._descendants.add(self): AttributeError when ugen._descendants is None *)
Definition desc_add (s : st) (ugen self : nat) : res st :=
  match get_unit s ugen with
  | Some V => match dref V with
              | Some r => Ok (put_set s r (set_add self (get_set s r)))
              | None => Err EAttr end
  | None => Err EInternal
  end.

Definition init_topo (s : st) : res (st * list (nat * list nat)) :=
  let s0 := fresh_sets s in
  let ante0 := map (fun u => (u, @nil nat)) (live s0) in
  fold_left (fun acc u =>
     do2 s1, an <- acc;
     match get_unit s1 u with
     | None => Err EInternal
     | Some U =>
         let srcs := input_sources s1 U ++ match wfa U with Some l => l | None => [] end in
         fold_left (fun acc2 g => do2 s2, an2 <- acc2;
                                  do s3 <- desc_add s2 g u; Ok (s3, assoc_add u g an2)) srcs (Ok (s1, an))
     end) (live s0) (Ok (s0, ante0)).

(* ------------------------------------------------------------------ optimiser *)
Definition desc_of (s : st) (U : unit) : option (list nat) :=
  match dref U with Some r => Some (get_set s r) | None => None end.

Definition set_child (s : st) (i : Z) (v : option nat) : st :=
  let n := Z.of_nat (List.length (children s)) in
  let j := if (i <? 0)%Z then (i + n)%Z else i in
  if (j <? 0)%Z || (n <=? j)%Z then s else with_children s (upd (children s) (Z.to_nat j) v).
(* SynthDef._remove_ugen *)
Definition remove_ugen (s : st) (u : nat) : st :=
  match get_unit s u with Some U => set_child s (sidx U) None | None => s end.

(* SynthDef._replace_ugen(a, b) *)
Definition replace_ugen (s : st) (a b : nat) : res st :=
  match get_unit s a, get_unit s b with
  | Some UA, Some UB =>
      let s1 := put_unit s (set_place UB (wfa UA) (sidx UA) (dref UA)) in
      let s2 := set_child s1 (sidx UA) (Some b) in
      Ok (fold_left (fun s0 c =>
            match get_unit s0 c with
            | Some C => put_unit s0 (set_ins C (map (fun i => match i with
                                                             | O u ch => if Nat.eqb u a then O b ch else i
                                                             | _ => i end) (ins C)))
            | None => s0 end) (live s2) s2)
  | _, _ => Err EInternal
  end.

(* BinaryOpUGen._optimize_update_descendants(self, replacement, deleted) *)
Fixpoint update_desc_loop (s : st) (self repl deleted : nat) (l : list inp) : st :=
  match l with
  | [] => s
  | K _ :: t => update_desc_loop s self repl deleted t
  | O u _ :: t =>
      match get_unit s u with
      | Some V =>
          if isugen V then
            match dref V with
            | None => s                                     (* `return` *)
            | Some r =>
                let d := set_discard deleted (set_discard self (set_add repl (get_set s r))) in
                update_desc_loop (put_set s r d) self repl deleted t
            end
          else update_desc_loop s self repl deleted t
      | None => s
      end
  end.
Definition update_desc (s : st) (self repl deleted : nat) : st :=
  match get_unit s repl with Some R => update_desc_loop s self repl deleted (ins R) | None => s end.

(* `x` is the object of a single-output unit of kind k (isinstance(x, cls)) [with operator op] *)
Definition direct_is (s : st) (v : inp) (k : kind) (op : string) : option unit :=
  match v with
  | O u _ => match get_unit s u with
             | Some U => if negb (multi U) && kind_eqb (ukind U) k && String.eqb (opname U) op then Some U else None
             | None => None end
  | K _ => None
  end.
(* len(x._descendants) == 1 ; TypeError when None *)
Definition one_desc (s : st) (U : unit) : res bool :=
  match desc_of s U with Some l => Ok (Nat.eqb (List.length l) 1) | None => Err EType end.

(* replacement._descendants = self._descendants ; _optimize_update_descendants *)
Definition adopt (s : st) (self : unit) (rv : inp) (deleted : nat) : res (st * nat) :=
  match rv with
  | O r _ => match get_unit s r with
             | Some R => if multi R then Err EInternal
                         else let s1 := put_unit s (set_dref R (dref self)) in
                              Ok (update_desc s1 (uid self) r deleted, r)
             | None => Err EInternal end
  | K _ => Err EAttr
  end.

Definition nth_in (U : unit) (n : nat) : inp := nth n (ins U) (K 0).

(* `isinstance(x, cls) [and x.operator == op] and len(x._descendants) == 1` *)
Definition sole (s : st) (v : inp) (k : kind) (op : string) : res (option unit) :=
  match direct_is s v k op with
  | Some UA => do o <- one_desc s UA; Ok (if o then Some UA else None)
  | None => Ok None
  end.
(* `self._synthdef._remove_ugen(x); replacement = <ctor>; replacement._descendants = self._descendants;
   self._optimize_update_descendants(replacement, x); return replacement` *)
Definition absorb (s : st) (self UA : unit) (mk : st -> res (st * inp)) : res (st * option nat) :=
  let s1 := remove_ugen s (uid UA) in
  do2 s2, rv <- mk s1;
  do2 s3, r <- adopt s2 self rv (uid UA);
  Ok (s3, Some r).

Definition opt_sum3 (s : st) (self : unit) : res (st * option nat) :=
  let a := nth_in self 0 in let b := nth_in self 1 in
  if rate_eqb (vrate s a) Demand || rate_eqb (vrate s b) Demand then Ok (s, None) else
  do ta <- sole s a KBin "+";
  match ta with
  | Some UA =>
      absorb s self UA (fun s1 => if inp_eqb a b then sum4_new1 s1 (nth_in UA 0) (nth_in UA 0) (nth_in UA 1) (nth_in UA 1)
                                  else sum3_new1 s1 (nth_in UA 0) (nth_in UA 1) b)
  | None =>
      do tb <- sole s b KBin "+";
      match tb with
      | Some UB => absorb s self UB (fun s1 => sum3_new1 s1 (nth_in UB 0) (nth_in UB 1) a)
      | None => Ok (s, None)
      end
  end.

Definition opt_sum4 (s : st) (self : unit) : res (st * option nat) :=
  let a := nth_in self 0 in let b := nth_in self 1 in
  if inp_eqb a b then Ok (s, None) else
  if rate_eqb (vrate s a) Demand || rate_eqb (vrate s b) Demand then Ok (s, None) else
  do ta <- sole s a KSum3 "";
  match ta with
  | Some UA => absorb s self UA (fun s1 => sum4_new1 s1 (nth_in UA 0) (nth_in UA 1) (nth_in UA 2) b)
  | None =>
      do tb <- sole s b KSum3 "";
      match tb with
      | Some UB => absorb s self UB (fun s1 => sum4_new1 s1 (nth_in UB 0) (nth_in UB 1) (nth_in UB 2) a)
      | None => Ok (s, None)
      end
  end.

(* one side of _optimize_to_muladd: x = the product, y = the other operand *)
Definition muladd_side (s : st) (self : unit) (x y : inp) : res (st * option nat) :=
  do tx <- sole s x KBin "*";
  match tx with
  | Some UX =>
      let x0 := nth_in UX 0 in let x1 := nth_in UX 1 in
      if can_be_muladd s x0 x1 y then absorb s self UX (fun s1 => ctor_muladd s1 x0 x1 y)
      else if can_be_muladd s x1 x0 y then absorb s self UX (fun s1 => ctor_muladd s1 x1 x0 y)
      else Ok (s, None)
  | None => Ok (s, None)
  end.
Definition opt_muladd (s : st) (self : unit) : res (st * option nat) :=
  let a := nth_in self 0 in let b := nth_in self 1 in
  if inp_eqb a b then Ok (s, None) else
  do2 s1, r <- muladd_side s self a b;
  match r with Some _ => Ok (s1, r) | None => muladd_side s1 self b a end.

Definition opt_addneg (s : st) (self : unit) : res (st * option nat) :=
  let a := nth_in self 0 in let b := nth_in self 1 in
  if inp_eqb a b then Ok (s, None) else
  do tb <- sole s b KUn "neg";
  match tb with
  | Some UB => absorb s self UB (fun s1 => ctor_bin s1 "-" a (nth_in UB 0))
  | None =>
      do ta <- sole s a KUn "neg";
      match ta with
      | Some UA => absorb s self UA (fun s1 => ctor_bin s1 "-" b (nth_in UA 0))
      | None => Ok (s, None)
      end
  end.

(* BinaryOpUGen._optimize_add *)
Definition opt_add (s : st) (self : unit) : res st :=
  do2 s1, r1 <- opt_sum3 s self;
  do2 s2, r2 <- match r1 with Some _ => Ok (s1, r1) | None => opt_sum4 s1 self end;
  do2 s3, r3 <- match r2 with Some _ => Ok (s2, r2) | None => opt_muladd s2 self end;
  do2 s4, r4 <- match r3 with Some _ => Ok (s3, r3) | None => opt_addneg s3 self end;
  match r4 with Some r => replace_ugen s4 (uid self) r | None => Ok s4 end.

Section Strict.
Variable strict : bool.    (* true: `input._descendants.remove(self)` ; false: `.discard(self)` *)
Variable guard : bool.     (* true: `if self._synthdef._children[input._synth_index] is input:` before
                              `input._optimize_graph()` in _perform_dead_code_elimination *)
Variable subguard : bool.  (* true: `if a is b: return None` at the start of _optimize_sub *)

(* Python list indexing self._children[i] (negative indices count from the end; None = IndexError) *)
Definition child_at (s : st) (i : Z) : option (option nat) :=
  let n := Z.of_nat (List.length (children s)) in
  let j := if (i <? 0)%Z then (i + n)%Z else i in
  if (j <? 0)%Z || (n <=? j)%Z then None else nth_error (children s) (Z.to_nat j).
Definition is_child (s : st) (V : unit) : option bool :=
  match child_at s (sidx V) with
  | None => None
  | Some c => Some (match c with Some w => Nat.eqb w (uid V) | None => false end)
  end.

(* the loop of _perform_dead_code_elimination over the tuple `self.inputs` read at its start;
   `rec` = _optimize_graph of an input *)
Fixpoint dce_loop (rec : st -> nat -> res st) (u : nat) (s0 : st) (l : list inp) : res st :=
  match l with
  | [] => Ok s0
  | K _ :: t => dce_loop rec u s0 t
  | O v _ :: t =>
      match get_unit s0 v with
      | None => Err EInternal
      | Some V =>
          if isugen V && negb (multi V) then
            match dref V with
            | Some r =>
                let d := get_set s0 r in
                if Nat.eqb (List.length d) 0 then dce_loop rec u s0 t
                else if strict && negb (mem u d) then Err EKey
                else
                  let s1 := put_set s0 r (set_discard u d) in
                  if guard then
                    match is_child s1 V with
                    | None => Err EException
                    | Some true => do s2 <- rec s1 v; dce_loop rec u s2 t
                    | Some false => dce_loop rec u s1 t
                    end
                  else do s2 <- rec s1 v; dce_loop rec u s2 t
            | None => dce_loop rec u s0 t
            end
          else dce_loop rec u s0 t
      end
  end.

(* BinaryOpUGen._optimize_sub up to (and including) _replace_ugen *)
Definition sub_rewrite (s : st) (U : unit) : res (option (st * nat)) :=
  let a := nth_in U 0 in let b := nth_in U 1 in
  if subguard && inp_eqb a b then Ok None else
  do tb <- sole s b KUn "neg";
  match tb with
  | Some UB =>
      do2 s3, ro <- absorb s U UB (fun s1 => ctor_bin s1 "+" a (nth_in UB 0));
      match ro with
      | Some r => do s4 <- replace_ugen s3 (uid U) r; Ok (Some (s4, r))
      | None => Err EInternal
      end
  | None => Ok None
  end.
(* ... followed by `replacement._optimize_graph()` *)
Definition opt_sub (rec : st -> nat -> res st) (s : st) (U : unit) : res st :=
  do o <- sub_rewrite s U;
  match o with
  | Some (s4, r) => rec s4 r
  | None => Ok s
  end.

(* ugen._optimize_graph() for the unit object u, `rec` = the same one level down *)
Definition opt_body (rec : st -> nat -> res st) (s : st) (u : nat) : res st :=
  match get_unit s u with
  | None => Err EInternal
  | Some U =>
      if negb (pure U) then Ok s else
      let dead := match desc_of s U with Some l => Nat.eqb (List.length l) 0 | None => true end in
      if dead then
        do s1 <- dce_loop rec u s (ins U);
        Ok (remove_ugen s1 u)
      else
        match ukind U with
        | KBin =>
            if String.eqb (opname U) "+" then opt_add s U
            else if String.eqb (opname U) "-" then opt_sub rec s U
            else Ok s
        | _ => Ok s
        end
  end.

Fixpoint opt_unit (fuel : nat) (s : st) (u : nat) : res st :=
  match fuel with
  | 0 => Err EFuel
  | S f => opt_body (opt_unit f) s u
  end.

(* the exact user set of a live single-output non-width-first UGen: what the rewrites'
   side condition `len(x._descendants) == 1` is meant to measure *)
Definition users (s : st) (u : nat) : list nat :=
  filter (fun c => match get_unit s c with
                   | Some C => existsb (fun i => match i with O v _ => Nat.eqb v u | _ => false end) (ins C)
                   | None => false end) (live s).
Definition same_set (a b : list nat) : bool :=
  forallb (fun x => mem x b) a && forallb (fun x => mem x a) b.
Definition desc_inv_ok (s : st) : bool :=
  forallb (fun u => match get_unit s u with
                    | Some U => if isugen U && negb (multi U) && negb (iswf U)
                                then match desc_of s U with
                                     | Some d => same_set d (users s u)
                                     | None => false end
                                else true
                    | None => false end) (live s).

(* SynthDef._index_ugens *)
Definition index_ugens (s : st) : st :=
  fst (fold_left (fun '(sa, i) u => match get_unit sa u with
                                     | Some U => (put_unit sa (set_sidx U i), (i + 1)%Z)
                                     | None => (sa, (i + 1)%Z) end) (live s) (s, 0%Z)).

(* `for ugen in self._children[:]: ugen._optimize_graph()`; the flag records whether desc_inv held
   after every step (a test) *)
Fixpoint opt_loop (fuel : nat) (s : st) (l : list nat) (ok : bool) : res (st * bool) :=
  match l with
  | [] => Ok (s, ok)
  | u :: t => do sb <- opt_unit fuel s u; opt_loop fuel sb t (ok && desc_inv_ok sb)
  end.
Definition opt_fuel (s : st) : nat := let n := List.length (units s) in S (4 * n * n + 8).

(* SynthDef._optimize_graph *)
Definition optimize (s : st) : res (st * bool) :=
  do2 s0, unused <- init_topo s;
  let s1 := with_rewriting s0 true in
  do2 s2, ok <- opt_loop (opt_fuel s1) s1 (live s1) (desc_inv_ok s1);
  let s3 := with_rewriting s2 false in
  let old := List.length (children s3) in
  let s4 := with_children s3 (map Some (live s3)) in
  if Nat.eqb old (List.length (children s4)) then Ok (s4, ok) else Ok (index_ugens s4, ok).
End Strict.

(* ------------------------------------------------------------------ constants, input checks *)
Definition const_add (q : Q) (l : list Q) : list Q := if existsb (Qeq_bool q) l then l else l ++ [q].
Definition collect_constants (s : st) : list Q :=
  fold_left (fun acc u => match get_unit s u with
                          | Some U => fold_left (fun a i => match i with K q => const_add q a | _ => a end) (ins U) acc
                          | None => acc end) (live s) [].

Definition check_unit (s : st) (U : unit) : bool :=    (* true = no error message *)
  let rt n := vrate s (nth_in U n) in
  match uchk U with
  | ChkValid => true
  | ChkN n => if rate_eqb (urate U) Audio
              then forallb (fun i => rate_eqb (vrate s i) Audio) (firstn n (ins U)) else true
  | ChkSR => match ins U with i :: _ => rate_eqb (urate U) (vrate s i) | [] => false end
  | ChkOut fixed => if rate_eqb (urate U) Audio
                    then forallb (fun i => rate_eqb (vrate s i) Audio) (skipn fixed (ins U))
                    else negb (List.length (ins U) <=? fixed)
  | ChkDuty => if rate_eqb (rt 0) Demand
               then (rate_eqb (rt 1) Demand || rate_eqb (rt 1) Scalar || rate_eqb (rt 1) (urate U))
               else true
  end.
Definition check_inputs (s : st) : bool :=
  forallb (fun u => match get_unit s u with Some U => check_unit s U | None => false end) (live s).

(* ------------------------------------------------------------------ topological sort *)
(* UGen._arrange: the order in which the descendants of `self` are released.  `enum` is the
   order in which Python enumerates the set. *)
Definition arrange_targets (key : nat -> Z) (enum : list nat) : list nat := rev (sort_by key enum).

Definition key_of (s : st) (u : nat) : Z := match get_unit s u with Some U => sidx U | None => (-1)%Z end.

Definition pop_last {A} (l : list A) : option (A * list A) :=
  match rev l with [] => None | x :: t => Some (x, rev t) end.

Fixpoint topo_loop (fuel : nat) (s : st) (ante : list (nat * list nat)) (avail out : list nat) : res (list nat) :=
  match fuel with
  | 0 => Err EFuel
  | S f =>
    match pop_last avail with
    | None => Ok out
    | Some (u, avail1) =>
        match get_unit s u with
        | None => Err EInternal
        | Some U =>
            let ds := arrange_targets (key_of s) (match desc_of s U with Some l => l | None => [] end) in
            do2 an, av <- fold_left (fun acc d =>
                  do2 an, av <- acc;
                  match assoc_get d an with
                  | None => Err EAttr
                  | Some l =>
                      if mem u l then
                        let l' := set_discard u l in
                        let an' := map (fun '(k, x) => if Nat.eqb k d then (k, l') else (k, x)) an in
                        Ok (an', if Nat.eqb (List.length l') 0 then av ++ [d] else av)
                      else Err EKey
                  end) ds (Ok (ante, avail1));
            topo_loop f s an av (out ++ [u])
        end
    end
  end.

Definition topological_sort (s : st) : res st :=
  do2 s1, ante <- init_topo s;
  let avail := flat_map (fun u => match assoc_get u ante with Some [] => [u] | _ => [] end) (rev (live s1)) in
  do out <- topo_loop (S (S (List.length (live s1)))) s1 ante avail [];
  Ok (index_ugens (with_children s1 (map Some out))).

(* ------------------------------------------------------------------ the emitted graph *)
Inductive ginp := GK (q : Q) | GO (idx : Z) (ch : nat).
Record gunit := mkG { g_cls : string; g_rate : rate; g_ins : list ginp; g_nouts : nat; g_special : Z;
                      g_pure : bool; g_tag : nat; g_kind : kind; g_op : string }.
Record graph := mkGr { gr_units : list gunit; gr_consts : list Q; gr_controls : list Q }.

Definition emit (s : st) (consts : list Q) : graph :=
  mkGr (flat_map (fun u => match get_unit s u with
                           | Some U => [mkG (cls U) (urate U)
                                            (map (fun i => match i with K q => GK q | O v ch => GO (key_of s v) ch end) (ins U))
                                            (nouts U) (special U) (pure U) (tag U) (ukind U) (opname U)]
                           | None => [] end) (live s))
       consts (controls s).

(* SynthDef._build: returns the graph and the desc_inv test flag *)
Definition compile_flag (strict guard subguard : bool) (p : prog) : res (graph * bool) :=
  do s1 <- build_graph p;
  do2 s2, ok <- optimize strict guard subguard s1;
  let consts := collect_constants s2 in
  if negb (check_inputs s2) then Err EValue else
  do s3 <- topological_sort s2;
  Ok (emit s3 consts, ok).
Definition compile (strict guard subguard : bool) (p : prog) : res graph :=
  do2 g, unused <- compile_flag strict guard subguard p; Ok g.

End WithTables.

(* ------------------------------------------------------------------ comparison with the implementation *)
Definition ginp_eqb (a b : ginp) : bool :=
  match a, b with
  | GK x, GK y => Qeq_bool x y
  | GO i c, GO j d => Z.eqb i j && Nat.eqb c d
  | _, _ => false
  end.
Fixpoint list_eqb {A} (f : A -> A -> bool) (a b : list A) : bool :=
  match a, b with
  | [], [] => true
  | x :: s, y :: t => f x y && list_eqb f s t
  | _, _ => false
  end.
(* what the harness reads off the real SynthDef: (class, rate, inputs, outputs, special index) *)
Definition iunit := (string * rate * list ginp * nat * Z)%type.
Definition gunit_matches (g : gunit) (i : iunit) : bool :=
  let '(c, r, l, n, sp) := i in
  String.eqb (g_cls g) c && rate_eqb (g_rate g) r && list_eqb ginp_eqb (g_ins g) l && Nat.eqb (g_nouts g) n && Z.eqb (g_special g) sp.
Inductive iresult := IOk (us : list iunit) (consts : list Q) (ctls : list Q) | IErr (e : err).
Definition err_eqb (a b : err) : bool :=
  match a, b with
  | EKey, EKey | EValue, EValue | EType, EType | EAttr, EAttr | EGraphFunc, EGraphFunc | EGraphBase, EGraphBase
  | EUnsupported, EUnsupported | EFuel, EFuel | EException, EException | EInternal, EInternal => true
  | _, _ => false
  end.
Fixpoint list_eqb2 {A B} (f : A -> B -> bool) (a : list A) (b : list B) : bool :=
  match a, b with
  | [], [] => true
  | x :: s, y :: t => f x y && list_eqb2 f s t
  | _, _ => false
  end.
Definition result_matches (r : res (graph * bool)) (i : iresult) : bool :=
  match r, i with
  | Ok (g, inv), IOk us cs ctl =>
      inv && list_eqb2 gunit_matches (gr_units g) us && list_eqb Qeq_bool (gr_consts g) cs
      && list_eqb Qeq_bool (gr_controls g) ctl
  | Err e, IErr e' => err_eqb e e'
  | _, _ => false
  end.
