(* ClockSched -- executable model of sc3/base/clock.py class ClockScheduler (the NRT scheduler
   behind SystemClock / TempoClock / AppClock), on top of the TaskQueue model.  Definitions only.

   * a ClockTask object is an integer identity [ct]; its attributes .clock and .task are given by
     the functions [ck] and [tk] (universally quantified in the theorems; the real key is
     (id(clock_task.clock), id(clock_task.task)));
   * [_pending] is a dict key -> ClockTask, modelled as an association list;
   * [retime(clock)] reads clock.beats2secs(clock_task.beats) for every pending task of the clock:
     that value is the function [f] (an oracle: universally quantified in the theorems, recorded
     from the implementation in the correspondence);
   * what a task does when it wakes up (ClockTask._wakeup) is not part of this model: a history
     interleaves the scheduler calls it makes ([SAdd], [SRetime]) with the iterations of
     ClockScheduler.run ([SStep]). *)
From Coq Require Import QArith ZArith List Bool Arith.
Import ListNotations.
Require Import SC3.model.TaskQ.
Local Open Scope nat_scope.

Definition skey := (Z * Z)%type.
Definition skey_eqb (a b : skey) : bool := (fst a =? fst b)%Z && (snd a =? snd b)%Z.

Fixpoint pget (k : skey) (p : list (skey * Z)) : option Z :=
  match p with
  | [] => None
  | (k', c) :: r => if skey_eqb k k' then Some c else pget k r
  end.
Definition pdel (k : skey) (p : list (skey * Z)) : list (skey * Z) :=
  filter (fun x => negb (skey_eqb k (fst x))) p.
Definition pset (k : skey) (c : Z) (p : list (skey * Z)) : list (skey * Z) := (k, c) :: pdel k p.

Record sched := mkS {
  squeue : tq;                      (* self.queue    *)
  spend : list (skey * Z)           (* self._pending *)
}.
Definition sched_init : sched := mkS tq_init [].

Section Sched.
  Variable ck tk : Z -> Z.          (* clock_task.clock, clock_task.task (identities) *)
  Definition keyof (ct : Z) : skey := (ck ct, tk ct).

  (* def add(self, time, clock_task) *)
  Definition sch_add (time : Q) (ct : Z) (s : sched) : sched :=
    let key := keyof ct in
    let q1 := match pget key (spend s) with          (* previous = self._pending.get(key) *)
              | Some prev => if (prev =? ct)%Z then squeue s      (* previous is clock_task *)
                             else tq_remove prev (squeue s)       (* self.queue.remove(previous) *)
              | None => squeue s
              end in
    mkS (tq_add time ct q1)                          (* self.queue.add(time, clock_task) *)
        (pset key ct (spend s)).                     (* self._pending[key] = clock_task  *)

  (* one iteration of  while not self.queue.empty(): ...  in run(); the wake-up itself is external *)
  Definition sch_step (s : sched) : sched * out :=
    if tq_empty (squeue s) then (s, RBool true)      (* loop condition false: run() returns *)
    else
      let '(q1, r) := tq_pop (squeue s) in           (* time, clock_task = self.queue.pop() *)
      match r with
      | RItem time ct =>
          let key := keyof ct in
          let p1 := match pget key (spend s) with    (* if self._pending.get(key) is clock_task: *)
                    | Some c => if (c =? ct)%Z then pdel key (spend s) else spend s
                    | None => spend s
                    end in
          (mkS q1 p1, RItem time ct)                 (* clock_task._wakeup(time) *)
      | _ => (mkS q1 (spend s), r)                   (* pop raised although not empty() *)
      end.

  (* def retime(self, clock):  for _, clock_task in list(self.queue): if clock_task.clock is clock: queue.add(...) *)
  Definition sch_retime (c : Z) (f : Z -> Q) (s : sched) : sched :=
    mkS (fold_left (fun q (x : Q * task) =>
                      if (ck (snd x) =? c)%Z then tq_add (f (snd x)) (snd x) q else q)
                   (tq_iter (squeue s)) (squeue s))
        (spend s).

  (* def reset(self) *)
  Definition sch_reset (s : sched) : sched := mkS tq_init [].           (* queue.clear(); _pending.clear() *)

  Inductive sop :=
  | SAdd (time : Q) (ct : Z)
  | SStep
  | SRetime (c : Z) (f : list (Z * Q))               (* the values beats2secs returned, by ClockTask *)
  | SReset
  | SIter.                                           (* list(self.queue): observation only *)

  Fixpoint assoc_q (l : list (Z * Q)) (ct : Z) : Q :=
    match l with
    | [] => 0
    | (c, v) :: r => if (c =? ct)%Z then v else assoc_q r ct
    end.

  Definition sstep (o : sop) (s : sched) : sched * out :=
    match o with
    | SAdd time ct => (sch_add time ct s, RNone)
    | SStep => sch_step s
    | SRetime c f => (sch_retime c (assoc_q f) s, RNone)
    | SReset => (sch_reset s, RNone)
    | SIter => (s, RList (tq_iter (squeue s)))
    end.

  Fixpoint srun (ops : list sop) (s : sched) : sched * list out :=
    match ops with
    | [] => (s, [])
    | o :: r => let '(s1, x) := sstep o s in
                let '(s2, xs) := srun r s1 in (s2, x :: xs)
    end.
End Sched.

(* ---- correspondence: clock and task of a ClockTask given by tables ---------------------------- *)
Fixpoint assoc_z (l : list (Z * Z)) (d : Z) (x : Z) : Z :=
  match l with
  | [] => d
  | (a, b) :: r => if (a =? x)%Z then b else assoc_z r d x
  end.

(* observable state: the _pending dict as (clock, task, ct) sorted, after the TaskQueue observation *)
Definition sobs (s : sched) : list Z :=
  obs (squeue s) ++
  flat_map (fun x : skey * Z => [fst (fst x); snd (fst x); snd x])
    (sort_by (fun x : skey * Z => (inject_Z (fst (fst x) * 1000000 + snd (fst x))%Z, 0)) (spend s)).

Definition scase_ok (c : list (Z * Z) * list (Z * Z) * list sop * list out * list Z) : bool :=
  let '(cks, tks, ops, outs, st) := c in
  let '(s, xs) := srun (assoc_z cks 0%Z) (assoc_z tks 0%Z) ops sched_init in
  list_eqb out_eqb xs outs && list_eqb Z.eqb (sobs s) st.
