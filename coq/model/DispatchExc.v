(* C18 -- dispatch when callbacks RAISE: what the code does when a responder function, a template
   callable or the matcher (re.error) raises inside the SystemClock task that delivers one message
   (_oscinterface._msg_dispatch.sched_func): the exception ends that task -- the remaining
   responders of that message are not invoked -- and SystemClock._run logs it and goes on with
   the next task (`except Exception`).  State changes made before the raise stay (a one-shot
   responder is freed BEFORE its function is called).  `raises tag` says whether the user
   function with that tag raises after logging.  Executable definitions only; with no raising
   callbacks this is model/Dispatch.v (proofs/C18_exc.v). *)
From Coq Require Import ZArith List Bool.
Import ListNotations.
Require Import SC3.model.OscMatch SC3.model.OscBundleParse SC3.model.Dispatch.
Open Scope Z_scope.

Inductive xres := XAccept | XReject | XRaise.
Fixpoint tmpl_x (tm : list titem) (args : list oval) : xres :=
  match tm with
  | [] => XAccept
  | it :: tm' =>
    match it, args with
    | TAny, _ => tmpl_x tm' (tl args)
    | _, [] => XReject
    | TEq v, a :: args' => if py_eqb v a then tmpl_x tm' args' else XReject
    | TPred p, a :: args' => if p a then tmpl_x tm' args' else XReject
    | TPredX p, a :: args' =>
      match p a with Some true => tmpl_x tm' args' | Some false => XReject | None => XRaise end
    end
  end.

Definition call_wrapped_x (raises : nat -> bool) (st : dstate) (w : wrapped) (m : omsg) (t : mtime)
           (src : Z * Z) (port : Z) : dstate * list inv * bool :=
  match nth_error (resps st) (w_id w) with
  | None => (st, [], false)
  | Some r =>
    if src_accepts (r_src r) src && port_accepts (r_port r) port then
      match (match r_tmpl r with None => XAccept | Some tm => tmpl_x tm (m_args m) end) with
      | XRaise => (st, [], true)
      | XReject => (st, [], false)
      | XAccept =>
        let '(st', tag) := run_func st (w_id w) (w_func w) in
        (st', [{| i_id := w_id w; i_tag := tag; i_msg := m; i_time := t; i_src := src; i_port := port |}], raises tag)
      end
    else (st, [], false)
  end.

Fixpoint call_all_x (raises : nat -> bool) (st : dstate) (l : list wrapped) (m : omsg) (t : mtime)
         (src : Z * Z) (port : Z) : dstate * list inv * bool :=
  match l with
  | [] => (st, [], false)
  | w :: r =>
    let '(st1, o1, ab) := call_wrapped_x raises st w m t src port in
    if ab then (st1, o1, true)
    else let '(st2, o2, ab2) := call_all_x raises st1 r m t src port in (st2, o1 ++ o2, ab2)
  end.

Definition dispatch_exact_x (raises : nat -> bool) (st : dstate) (m : omsg) (t : mtime) (src : Z * Z) (port : Z)
  : dstate * list inv * bool :=
  match tbl_get (act_exact st) (m_addr m) with
  | None => (st, [], false)
  | Some l => call_all_x raises st l m t src port
  end.

Definition dispatch_match_x (raises : nat -> bool) (st : dstate) (m : omsg) (t : mtime) (src : Z * Z) (port : Z)
  : dstate * list inv * bool :=
  match matched_keys m (act_match st) with
  | None => (st, [], true)                                  (* re.error *)
  | Some ks => call_all_x raises st (reg_entries st ks) m t src port
  end.

Definition incoming_x (raises : nat -> bool) (st : dstate) (m : omsg) (t : mtime) (src : Z * Z) (port : Z)
  : dstate * list inv * bool :=
  let '(st1, o1, ab) := dispatch_exact_x raises st m t src port in
  if ab then (st1, o1, true)
  else let '(st2, o2, ab2) := dispatch_match_x raises st1 m t src port in (st2, o1 ++ o2, ab2).

(* one clock task per message: an abort ends that message only *)
Fixpoint incoming_all_x (raises : nat -> bool) (st : dstate) (ms : list (mtime * omsg)) (src : Z * Z) (port : Z)
  : dstate * list inv :=
  match ms with
  | [] => (st, [])
  | (t, m) :: r => let '(st1, o1, _) := incoming_x raises st m t src port in
                   let '(st2, o2) := incoming_all_x raises st1 r src port in (st2, o1 ++ o2)
  end.

Definition step_x (raises : nat -> bool) (st : dstate) (o : op) : dstate * list inv :=
  match o with
  | OpIncoming m t s p => let '(st1, o1, _) := incoming_x raises st m t s p in (st1, o1)
  | OpDatagram d s p =>
    match parse_packet d with
    | POk ms => incoming_all_x raises st ms s p
    | _ => (st, [])
    end
  | _ => step st o
  end.
