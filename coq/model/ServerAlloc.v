(* C16 -- how a Server builds its allocators from its options (sc3/synth/server.py: ServerOptions.first_private_bus,
   _set_client_id, _new_allocators, _new_node_allocators, _new_bus_allocators, _new_buffer_allocators, _next_node_id)
   and server-level histories.  Definitions only.
   Offline (no login reply) _status_watcher.max_logins is options.max_logins ("self._max_logins or ..."). *)
From Coq Require Import ZArith List Bool.
Import ListNotations.
Require Import SC3.model.Alloc SC3.model.NodeId.
Open Scope Z_scope.

Record opts := mkO {
  audio_buses : Z; control_buses : Z; buffers : Z;
  input_channels : Z; output_channels : Z;
  reserved_audio_buses : Z; reserved_control_buses : Z; reserved_buffers : Z;
  max_logins : Z; initial_node_id : Z
}.

(* first_private_bus(): output_channels + input_channels *)
Definition first_private_bus (o : opts) : Z := output_channels o + input_channels o.

Inductive kind := KAudio | KControl | KBuffer.

(* the constructor arguments (size, pos, addr_offset) Server passes for client id cid *)
Definition alloc_args (o : opts) (k : kind) (cid : Z) : Z * Z * Z :=
  match k with
  | KControl =>
      let num_ctrl_per_client := control_buses o / max_logins o in
      (num_ctrl_per_client, reserved_control_buses o, num_ctrl_per_client * cid)
  | KAudio =>
      let audio_bus_io_offset := first_private_bus o in
      let num_audio_per_client := (audio_buses o - audio_bus_io_offset) / max_logins o in
      (num_audio_per_client, reserved_audio_buses o, num_audio_per_client * cid + audio_bus_io_offset)
  | KBuffer =>
      let num_buffers_per_client := buffers o / max_logins o in
      (num_buffers_per_client, reserved_buffers o, num_buffers_per_client * cid)
  end.

(* the index space of a kind: [first index, one past the last) *)
Definition space (o : opts) (k : kind) : Z * Z :=
  match k with
  | KAudio => (first_private_bus o, audio_buses o)
  | KControl => (0, control_buses o)
  | KBuffer => (0, buffers o)
  end.

Record srv := mkSrv {
  so : opts;            (* self.options (may be changed by the user at any time) *)
  cid : Z;              (* self._client_id *)
  a_audio : st; a_control : st; a_buffer : st;
  nodes : nid
}.

Definition get_alloc (s : srv) (k : kind) : st :=
  match k with KAudio => a_audio s | KControl => a_control s | KBuffer => a_buffer s end.
Definition set_alloc (s : srv) (k : kind) (a : st) : srv :=
  match k with
  | KAudio => mkSrv (so s) (cid s) a (a_control s) (a_buffer s) (nodes s)
  | KControl => mkSrv (so s) (cid s) (a_audio s) a (a_buffer s) (nodes s)
  | KBuffer => mkSrv (so s) (cid s) (a_audio s) (a_control s) a (nodes s)
  end.

Inductive serr := AllocErr (e : err) | UserIdTooLarge.
Inductive sres (A : Type) := SOk (a : A) | SRaise (e : serr).
Arguments SOk {A} a.
Arguments SRaise {A} e.

Definition mk_alloc (o : opts) (k : kind) (c : Z) : res st :=
  let '(sz, p, off_) := alloc_args o k c in init sz p off_.

(* _new_allocators(): node allocator first, then control + audio, then buffers *)
Definition new_allocators (o : opts) (c : Z) : sres srv :=
  match ninit c (initial_node_id o) with
  | None => SRaise UserIdTooLarge
  | Some n =>
    match mk_alloc o KControl c with Raise e => SRaise (AllocErr e) | Ok ac =>
    match mk_alloc o KAudio c with Raise e => SRaise (AllocErr e) | Ok aa =>
    match mk_alloc o KBuffer c with Raise e => SRaise (AllocErr e) | Ok ab =>
      SOk (mkSrv o c aa ac ab n)
    end end end
  end.

(* _set_client_id(value): ids outside 0 .. options.max_logins-1 are refused (logged), nothing changes *)
Definition set_client_id (s : srv) (v : Z) : sres srv :=
  if (v <? 0) || (max_logins (so s) <=? v) then SOk s else new_allocators (so s) v.

Inductive sop :=
  | SAlloc (k : kind) (n c : Z)        (* AudioBus(n) / ControlBus(n) / Buffer, new_consecutive(n): allocator.alloc(n) *)
  | SFree (k : kind) (a : Z)           (* .free() of an object with index a *)
  | SNode                              (* _next_node_id() *)
  | SSetClient (v : Z)                 (* _set_client_id(v) *)
  | SSetOpts (o : opts).               (* the user assigns options; allocators are rebuilt only by the next _set_client_id *)

Definition sstep (s : srv) (x : sop) : sres (srv * option Z) :=
  match x with
  | SAlloc k n c =>
      match alloc (get_alloc s k) n c with
      | Ok (a, r) => SOk (set_alloc s k a, r)
      | Raise e => SRaise (AllocErr e)
      end
  | SFree k a =>
      match free true (get_alloc s k) a with
      | Ok a' => SOk (set_alloc s k a', None)
      | Raise e => SRaise (AllocErr e)
      end
  | SNode => let '(n, x) := nalloc (nodes s) in
             SOk (mkSrv (so s) (cid s) (a_audio s) (a_control s) (a_buffer s) n, Some x)
  | SSetClient v => match set_client_id s v with SOk s' => SOk (s', None) | SRaise e => SRaise e end
  | SSetOpts o => SOk (mkSrv o (cid s) (a_audio s) (a_control s) (a_buffer s) (nodes s), None)
  end.

Fixpoint srun (s : srv) (h : list sop) : sres (srv * list (option Z)) :=
  match h with
  | [] => SOk (s, [])
  | x :: r => match sstep s x with
              | SRaise e => SRaise e
              | SOk (s1, y) => match srun s1 r with
                               | SRaise e => SRaise e
                               | SOk (s2, ys) => SOk (s2, y :: ys)
                               end
              end
  end.

(* ---- correspondence helpers -------------------------------------------------------------------- *)
Definition kind_of (z : Z) : kind := if z =? 0 then KAudio else if z =? 1 then KControl else KBuffer.

(* one allocator the real Server built: options at construction time, kind, client id, the constructor arguments
   observed on the implementation, the allocator-level history and what the implementation produced *)
Definition check_srv_seg (c : opts * Z * Z * (Z * Z * Z) * list op * list entry) : bool :=
  let '(o, k, client, (sz, p, off_), ops, expected) := c in
  let '(sz', p', off') := alloc_args o (kind_of k) client in
  (sz =? sz') && (p =? p') && (off_ =? off') && check_case true ((sz, p, off_), ops, expected).

(* _set_client_id(v) on a server with options o and client id c: resulting client id and "were the allocators rebuilt" *)
Definition check_setclient (c : opts * Z * Z * (Z * bool)) : bool :=
  let '(o, c0, v, (c1, rebuilt)) := c in
  let refused := (v <? 0) || (max_logins o <=? v) in
  if refused then (c1 =? c0) && negb rebuilt else (c1 =? v) && rebuilt.
