(* C16 -- how a Server builds its allocators from its options (sc3/synth/server.py: ServerOptions.first_private_bus,
   _set_client_id, _new_allocators, _new_node_allocators, _new_bus_allocators, _new_buffer_allocators, _next_node_id)
   and server-level histories.  Definitions only.
   Offline (no login reply) _status_watcher.max_logins is options.max_logins ("self._max_logins or ..."). *)
From Coq Require Import ZArith List Bool.
Import ListNotations.
Require Import SC3.model.Alloc SC3.model.NodeId.
Open Scope Z_scope.

Record opts := mkO {
  audio_buses : Z; control_buses : Z; buffers : Z;
  input_channels : Z; output_channels : Z;
  reserved_audio_buses : Z; reserved_control_buses : Z; reserved_buffers : Z;
  max_logins : Z; initial_node_id : Z
}.

(* first_private_bus(): output_channels + input_channels *)
Definition first_private_bus (o : opts) : Z := output_channels o + input_channels o.

Inductive kind := KAudio | KControl | KBuffer.

(* the constructor arguments (size, pos, addr_offset) Server passes for client id cid *)
Definition alloc_args (o : opts) (k : kind) (cid : Z) : Z * Z * Z :=
  match k with
  | KControl =>
      let num_ctrl_per_client := control_buses o / max_logins o in
      (num_ctrl_per_client, reserved_control_buses o, num_ctrl_per_client * cid)
  | KAudio =>
      let audio_bus_io_offset := first_private_bus o in
      let num_audio_per_client := (audio_buses o - audio_bus_io_offset) / max_logins o in
      (num_audio_per_client, reserved_audio_buses o, num_audio_per_client * cid + audio_bus_io_offset)
  | KBuffer =>
      let num_buffers_per_client := buffers o / max_logins o in
      (num_buffers_per_client, reserved_buffers o, num_buffers_per_client * cid)
  end.

(* the index space of a kind: [first index, one past the last) *)
Definition space (o : opts) (k : kind) : Z * Z :=
  match k with
  | KAudio => (first_private_bus o, audio_buses o)
  | KControl => (0, control_buses o)
  | KBuffer => (0, buffers o)
  end.

Record srv := mkSrv {
  so : opts;            (* self.options (may be changed by the user at any time) *)
  cid : Z;              (* self._client_id *)
  a_audio : st; a_control : st; a_buffer : st;
  nodes : nid;
  sw_max : option Z;    (* self._status_watcher._max_logins: the login count the server reported (None before a reply) *)
  inproc : bool         (* self._in_process *)
}.

Definition with_logins (o : opts) (l : Z) : opts :=
  mkO (audio_buses o) (control_buses o) (buffers o) (input_channels o) (output_channels o)
      (reserved_audio_buses o) (reserved_control_buses o) (reserved_buffers o) l (initial_node_id o).

(* ServerStatusWatcher.max_logins:  self._max_logins or self.server.options.max_logins *)
Definition eff_logins_of (sw : option Z) (o : opts) : Z :=
  match sw with Some m => if m =? 0 then max_logins o else m | None => max_logins o end.
Definition eff_logins (s : srv) : Z := eff_logins_of (sw_max s) (so s).
(* the options as the allocator constructors see them: the login count is the status watcher's *)
Definition eff_opts (s : srv) : opts := with_logins (so s) (eff_logins s).

Definition get_alloc (s : srv) (k : kind) : st :=
  match k with KAudio => a_audio s | KControl => a_control s | KBuffer => a_buffer s end.
Definition set_alloc (s : srv) (k : kind) (a : st) : srv :=
  match k with
  | KAudio => mkSrv (so s) (cid s) a (a_control s) (a_buffer s) (nodes s) (sw_max s) (inproc s)
  | KControl => mkSrv (so s) (cid s) (a_audio s) a (a_buffer s) (nodes s) (sw_max s) (inproc s)
  | KBuffer => mkSrv (so s) (cid s) (a_audio s) (a_control s) a (nodes s) (sw_max s) (inproc s)
  end.

Inductive serr := AllocErr (e : err) | UserIdTooLarge.
Inductive sres (A : Type) := SOk (a : A) | SRaise (e : serr).
Arguments SOk {A} a.
Arguments SRaise {A} e.

Definition mk_alloc (o : opts) (k : kind) (c : Z) : res st :=
  let '(sz, p, off_) := alloc_args o k c in init sz p off_.

(* _new_allocators() for options o, status-watcher count sw, client id c: node allocator first, then control + audio,
   then buffers; the per-client shares are computed with the status watcher's login count *)
Definition new_allocators (o : opts) (sw : option Z) (ip : bool) (c : Z) : sres srv :=
  let oe := with_logins o (eff_logins_of sw o) in
  match ninit c (initial_node_id o) with
  | None => SRaise UserIdTooLarge
  | Some n =>
    match mk_alloc oe KControl c with Raise e => SRaise (AllocErr e) | Ok ac =>
    match mk_alloc oe KAudio c with Raise e => SRaise (AllocErr e) | Ok aa =>
    match mk_alloc oe KBuffer c with Raise e => SRaise (AllocErr e) | Ok ab =>
      SOk (mkSrv o c aa ac ab n sw ip)
    end end end
  end.

(* _set_client_id(value): ids outside 0 .. N-1 are refused (logged), nothing changes.
   gl = true : N = options.max_logins                       (the code of the snapshot)
   gl = false: N = _status_watcher.max_logins               (proposed fix D7: the count the partitions are built with) *)
Definition set_client_id (gl : bool) (s : srv) (v : Z) : sres srv :=
  if (v <? 0) || ((if gl then max_logins (so s) else eff_logins s) <=? v) then SOk s
  else new_allocators (so s) (sw_max s) (inproc s) v.

Inductive sop :=
  | SAlloc (k : kind) (n c : Z)        (* AudioBus(n) / ControlBus(n) / Buffer, new_consecutive(n): allocator.alloc(n) *)
  | SFree (k : kind) (a : Z)           (* .free() of an object with index a *)
  | SNode                              (* _next_node_id() *)
  | SSetClient (v : Z)                 (* _set_client_id(v) *)
  | SSetOpts (o : opts)                (* the user assigns options; allocators are rebuilt only by the next _set_client_id *)
  | SLogin (id : Z) (m : option Z)     (* ServerStatusWatcher._handle_login_done(id, max_logins) *)
  | SNotifyDone (active : bool) (reply : list Z)
      (* the OSC reply ['/done', '/notify', *reply] reaching the 'done' responder of _send_notify_request;
         active = the watcher is booting or registering (otherwise the reply is not a login) *)
  | SNotifyFail.                       (* ['/fail', '/notify', text, ...]: registration failed, nothing is rebuilt *)

(* done(msg): new_client_id = msg[2] if len(msg) > 2 else None; new_max_logins = msg[3] if len(msg) > 3 else None
   (supernova sends no count; an unregistration reply carries no id); reply = msg[2:] *)
Definition parse_notify_reply (reply : list Z) : option (Z * option Z) :=
  match reply with
  | [] => None
  | [id] => Some (id, None)
  | id :: m :: _ => Some (id, Some m)
  end.

(* _handle_login_done: first the reported login count, then the granted client id *)
Definition login_done (gl : bool) (s : srv) (id : Z) (m : option Z) : sres srv :=
  let s1 := match m with
            | Some x => if inproc s then s
                        else mkSrv (so s) (cid s) (a_audio s) (a_control s) (a_buffer s) (nodes s) (Some x) (inproc s)
            | None => s
            end in
  set_client_id gl s1 id.

Definition sstep (gl : bool) (s : srv) (x : sop) : sres (srv * option Z) :=
  match x with
  | SAlloc k n c =>
      match alloc (get_alloc s k) n c with
      | Ok (a, r) => SOk (set_alloc s k a, r)
      | Raise e => SRaise (AllocErr e)
      end
  | SFree k a =>
      match free true (get_alloc s k) a with
      | Ok a' => SOk (set_alloc s k a', None)
      | Raise e => SRaise (AllocErr e)
      end
  | SNode => let '(n, x) := nalloc (nodes s) in
             SOk (mkSrv (so s) (cid s) (a_audio s) (a_control s) (a_buffer s) n (sw_max s) (inproc s), Some x)
  | SSetClient v => match set_client_id gl s v with SOk s' => SOk (s', None) | SRaise e => SRaise e end
  | SSetOpts o => SOk (mkSrv o (cid s) (a_audio s) (a_control s) (a_buffer s) (nodes s) (sw_max s) (inproc s), None)
  | SLogin id m => match login_done gl s id m with SOk s' => SOk (s', None) | SRaise e => SRaise e end
  | SNotifyDone active reply =>
      if active then
        match parse_notify_reply reply with
        | Some (id, m) => match login_done gl s id m with SOk s' => SOk (s', None) | SRaise e => SRaise e end
        | None => SOk (s, None)
        end
      else SOk (s, None)
  | SNotifyFail => SOk (s, None)
  end.

Fixpoint srun (gl : bool) (s : srv) (h : list sop) : sres (srv * list (option Z)) :=
  match h with
  | [] => SOk (s, [])
  | x :: r => match sstep gl s x with
              | SRaise e => SRaise e
              | SOk (s1, y) => match srun gl s1 r with
                               | SRaise e => SRaise e
                               | SOk (s2, ys) => SOk (s2, y :: ys)
                               end
              end
  end.

(* ---- correspondence helpers -------------------------------------------------------------------- *)
Definition params (a : st) : Z * Z * Z := (size a, pos a - off a, off a).
Definition sobservation := (Z * option Z * ((Z * Z * Z) * (Z * Z * Z) * (Z * Z * Z)))%type.
(* what the harness observes of a server after a control operation: client id, _max_logins, constructor arguments
   (size, reserved, addr_offset) of the audio, control and buffer allocators *)
Definition sobs (s : srv) : sobservation :=
  (cid s, sw_max s, (params (a_audio s), params (a_control s), params (a_buffer s))).
Definition p3_eqb (x y : Z * Z * Z) : bool :=
  let '(a, b, c) := x in let '(a', b', c') := y in (a =? a') && (b =? b') && (c =? c').
Definition optz_eqb (x y : option Z) : bool :=
  match x, y with Some a, Some b => a =? b | None, None => true | _, _ => false end.
Definition sobs_eqb (x y : sobservation) : bool :=
  let '(c, w, (pa, pc, pb)) := x in let '(c', w', (pa', pc', pb')) := y in
  (c =? c') && optz_eqb w w' && p3_eqb pa pa' && p3_eqb pc pc' && p3_eqb pb pb'.

(* the control operations of one real server (client id changes, option changes, login replies) replayed on the model *)
Fixpoint ctrl_trace (gl : bool) (s : srv) (h : list sop) : list sobservation :=
  match h with
  | [] => []
  | x :: r => match sstep gl s x with
              | SOk (s1, _) => sobs s1 :: ctrl_trace gl s1 r
              | SRaise _ => []
              end
  end.
Definition check_ctrl (gl : bool) (c : opts * Z * list sop * list sobservation) : bool :=
  let '(o, c0, h, expected) := c in
  match new_allocators o None false c0 with
  | SOk s0 => list_eqb sobs_eqb (sobs s0 :: ctrl_trace gl s0 h) expected
  | SRaise _ => false
  end.
