(* C06 -- an independent OSC 1.0 decoder, transcribed from the OSC 1.0 specification
   (opensoundcontrol.org/spec-1_0), NOT from sc3/base/_osclib.py.  It shares no code with
   model/Osc.v (standard library only; it consumes the byte list front to back instead of
   indexing into the datagram) and is strict where the library's parser is lenient.

   Specification clauses implemented:
   - "OSC-string: a sequence of non-null ASCII characters followed by a null, followed by
     0-3 additional null characters to make the total number of bits a multiple of 32"
     (bytes >= 128 are let through: sc3 documents UTF-8 strings);
   - "OSC-blob: an int32 size count, followed by that many 8-bit bytes of arbitrary binary
     data, followed by 0-3 additional zero bytes to make the total number of bits a
     multiple of 32";
   - int32: 32-bit big-endian two's complement; float32: 32-bit big-endian IEEE 754 (kept
     as its 4 bytes); OSC-timetag: 64-bit big-endian fixed point (kept as an integer);
   - "The size of an OSC packet is always a multiple of 4";
   - OSC message = address pattern (OSC-string beginning with '/') , type tag string
     (OSC-string beginning with ','), then the arguments in the order of the tags
     i f s b (standard), h t d S c r m T F N I [ ] (listed non-standard tags);
   - OSC bundle = OSC-string "#bundle", OSC-timetag, zero or more bundle elements, each an
     int32 size ("always a multiple of 4") followed by that many bytes: a message or a bundle.
   Strict: padding bytes must be NUL, sizes multiples of 4, brackets balanced, unknown tags
   are errors, and no byte may be left over. *)
From Coq Require Import ZArith List Bool.
Import ListNotations.
Open Scope Z_scope.

Module Osc10.

Definition bytes := list Z.

Inductive oarg :=
| OInt (z : Z) | OFloat (w : bytes) | OStr (s : bytes) | OBlob (b : bytes)
| OInt64 (z : Z) | OTime (z : Z) | ODouble (w : bytes) | OSym (s : bytes)
| OChar (w : bytes) | ORgba (w : bytes) | OMidi (w : bytes)
| OTrue | OFalse | ONil | OInf
| OArr (l : list oarg).

Inductive opacket :=
| OMessage (address : bytes) (args : list oarg)
| OBundle (timetag : Z) (elements : list opacket).

(* first n bytes and the rest; None when fewer than n are left *)
Fixpoint take (n : nat) (l : bytes) : option (bytes * bytes) :=
  match n with
  | O => Some ([], l)
  | S k => match l with
           | [] => None
           | b :: r => match take k r with Some (h, t) => Some (b :: h, t) | None => None end
           end
  end.

Fixpoint all_nul (l : bytes) : bool :=
  match l with [] => true | b :: r => (b =? 0) && all_nul r end.

(* the maximal NUL-free prefix and what follows it *)
Fixpoint until_nul (l : bytes) : bytes * bytes :=
  match l with
  | [] => ([], [])
  | b :: r => if b =? 0 then ([], l) else let (s, t) := until_nul r in (b :: s, t)
  end.

(* OSC-string: the characters, then 4 - (n mod 4) NULs (1..4) *)
Definition take_string (l : bytes) : option (bytes * bytes) :=
  let (s, t) := until_nul l in
  match take (4 - (length s) mod 4)%nat t with
  | Some (pad, rest) => if all_nul pad then Some (s, rest) else None
  | None => None
  end.

Fixpoint unsigned_be (l : bytes) (acc : Z) : Z :=
  match l with [] => acc | b :: r => unsigned_be r (256 * acc + b) end.
Definition int32_of (w : bytes) : Z :=
  let u := unsigned_be w 0 in if u <? 2 ^ 31 then u else u - 2 ^ 32.

Definition take_int32 (l : bytes) : option (Z * bytes) :=
  match take 4 l with Some (w, rest) => Some (int32_of w, rest) | None => None end.

(* OSC-blob *)
Definition take_blob (l : bytes) : option (bytes * bytes) :=
  match take_int32 l with
  | Some (n, r) =>
      if n <? 0 then None else
      match take (Z.to_nat n) r with
      | Some (data, r') =>
          match take ((4 - (Z.to_nat n) mod 4) mod 4)%nat r' with
          | Some (pad, rest) => if all_nul pad then Some (data, rest) else None
          | None => None
          end
      | None => None
      end
  | None => None
  end.

(* arguments, in the order of the type tags; [stack] holds the open arrays (innermost
   first, each reversed) *)
Fixpoint take_args (tags : bytes) (data : bytes) (stack : list (list oarg)) : option (list oarg) :=
  let put (v : oarg) (ts : bytes) (rest : bytes) :=
    match stack with
    | top :: below => take_args ts rest ((v :: top) :: below)
    | [] => None
    end in
  match tags with
  | [] => match stack, data with [top], [] => Some (rev top) | _, _ => None end
  | t :: ts =>
      if t =? 105 (* i *) then
        match take_int32 data with Some (v, r) => put (OInt v) ts r | None => None end
      else if t =? 102 (* f *) then
        match take 4 data with Some (w, r) => put (OFloat w) ts r | None => None end
      else if t =? 115 (* s *) then
        match take_string data with Some (s, r) => put (OStr s) ts r | None => None end
      else if t =? 98 (* b *) then
        match take_blob data with Some (b, r) => put (OBlob b) ts r | None => None end
      else if t =? 104 (* h *) then
        match take 8 data with
        | Some (w, r) => let u := unsigned_be w 0 in put (OInt64 (if u <? 2 ^ 63 then u else u - 2 ^ 64)) ts r
        | None => None end
      else if t =? 116 (* t *) then
        match take 8 data with Some (w, r) => put (OTime (unsigned_be w 0)) ts r | None => None end
      else if t =? 100 (* d *) then
        match take 8 data with Some (w, r) => put (ODouble w) ts r | None => None end
      else if t =? 83 (* S *) then
        match take_string data with Some (s, r) => put (OSym s) ts r | None => None end
      else if t =? 99 (* c *) then
        match take 4 data with Some (w, r) => put (OChar w) ts r | None => None end
      else if t =? 114 (* r *) then
        match take 4 data with Some (w, r) => put (ORgba w) ts r | None => None end
      else if t =? 109 (* m *) then
        match take 4 data with Some (w, r) => put (OMidi w) ts r | None => None end
      else if t =? 84 (* T *) then put OTrue ts data
      else if t =? 70 (* F *) then put OFalse ts data
      else if t =? 78 (* N *) then put ONil ts data
      else if t =? 73 (* I *) then put OInf ts data
      else if t =? 91 (* [ *) then take_args ts data ([] :: stack)
      else if t =? 93 (* ] *) then
        match stack with
        | inner :: outer :: below => take_args ts data ((OArr (rev inner) :: outer) :: below)
        | _ => None
        end
      else None
  end.

Definition decode_message (l : bytes) : option opacket :=
  match take_string l with
  | Some (47 :: a, r) =>
      match take_string r with
      | Some (44 :: tags, data) =>
          match take_args tags data [[]] with
          | Some args => Some (OMessage (47 :: a) args)
          | None => None
          end
      | _ => None
      end
  | _ => None
  end.

Definition bundle_tag : bytes := [35; 98; 117; 110; 100; 108; 101].     (* "#bundle" *)

Fixpoint bytes_eq (a b : bytes) : bool :=
  match a, b with
  | [], [] => true
  | x :: a', y :: b' => (x =? y) && bytes_eq a' b'
  | _, _ => false
  end.

(* a packet is a bundle when it begins with '#', else a message.  Every nested element is
   strictly shorter than its bundle, so [fuel] = length + 1 is enough at the top. *)
Fixpoint decode_fuel (fuel : nat) (l : bytes) : option opacket :=
  match fuel with
  | O => None
  | S f =>
      if negb ((length l) mod 4 =? 0)%nat then None else
      match l with
      | 35 :: _ =>
          match take_string l with
          | Some (name, r) =>
              if negb (bytes_eq name bundle_tag) then None else
              match take 8 r with
              | Some (tm, es) =>
                  match elements f es with
                  | Some ps => Some (OBundle (unsigned_be tm 0) ps)
                  | None => None
                  end
              | None => None
              end
          | None => None
          end
      | _ => decode_message l
      end
  end
with elements (fuel : nat) (l : bytes) : option (list opacket) :=
  match fuel with
  | O => None
  | S f =>
      match l with
      | [] => Some []
      | _ =>
          match take_int32 l with
          | Some (n, r) =>
              if (n <? 0) || negb (n mod 4 =? 0) then None else
              match take (Z.to_nat n) r with
              | Some (e, rest) =>
                  match decode_fuel f e, elements f rest with
                  | Some p, Some ps => Some (p :: ps)
                  | _, _ => None
                  end
              | None => None
              end
          | None => None
          end
      end
  end.

Definition decode (l : bytes) : option opacket := decode_fuel (S (length l)) l.

End Osc10.
