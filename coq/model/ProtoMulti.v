(* C17 -- several Server objects: the client state is one copy of the single-server state per
   server; every op addresses one server (through its target / server argument) and is executed
   by that server's copy.  Executable definitions only. *)
From Coq Require Import ZArith List Bool.
Import ListNotations.
Require Import SC3.model.ProtoGrammar SC3.model.Proto.

Definition st2 : Type := (st * st)%type.        (* (default server, the other server) *)
Definition sop : Type := (bool * op)%type.      (* false: addressed to the default server *)

Definition comp (k : bool) (s : st2) : st := if k then snd s else fst s.
Definition set_comp (k : bool) (s : st2) (x : st) : st2 := if k then (fst s, x) else (x, snd s).

(* one op: new state, the server whose address received the packets, the packets, error *)
Definition step2 (V : variant) (s : st2) (o : sop) : st2 * (bool * list wev * option err) :=
  let '(x, evs, e) := step V (comp (fst o) s) (snd o) in
  (set_comp (fst o) s x, (fst o, evs, e)).

Fixpoint run2 (V : variant) (s : st2) (ops : list sop) : list (bool * list wev * option err) * st2 :=
  match ops with
  | [] => ([], s)
  | o :: t =>
    let '(s1, r) := step2 V s o in
    let '(rs, s2) := run2 V s1 t in
    (r :: rs, s2)
  end.

(* the ops addressed to server k, and what server k's address received *)
Definition ops_of (k : bool) (ops : list sop) : list op :=
  map snd (filter (fun o => Bool.eqb (fst o) k) ops).
Definition seen_by (k : bool) (r : list (bool * list wev * option err)) : list (list wev * option err) :=
  map (fun x => (snd (fst x), snd x)) (filter (fun x => Bool.eqb (fst (fst x)) k) r).
