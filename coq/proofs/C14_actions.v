(* C14 -- every accepted spelling of an add action.  The model's action_number is transcribed from the Server Command
   Reference (0 head, 1 tail, 2 before, 3 after, 4 replace) and SuperCollider's Node.addActions; the table REGENERATED from
   sc3/synth/node.py (gen/Gen_proto.v, Node.add_actions) must say the same for every key, and accept nothing else. *)
From Coq Require Import String List ZArith.
Require Import SC3.lib.PyNum SC3.gen.Gen_proto SC3.model.Event.
Import ListNotations.
Open Scope string_scope.

Lemma add_actions_conform_l :
  Forall (fun p => action_number (VSym (fst p)) = snd p) add_actions_s /\
  Forall (fun p => action_number (VNum (I (fst p))) = snd p) add_actions_i /\
  List.length add_actions_s = 15%nat /\ List.length add_actions_i = 5%nat.
Proof. vm_compute. repeat constructor. Qed.

(* ... and the model accepts no other name: a name with an action number is a key of the regenerated table *)
Lemma add_actions_complete_l : forall s, action_number (VSym s) <> (-1)%Z -> In s (map fst add_actions_s).
Proof.
  intros s H. unfold action_number in H. cbn [sym_of] in H.
  repeat match type of H with
         | context [String.eqb s ?l] => destruct (String.eqb_spec s l); [subst; vm_compute; tauto|]
         end.
  cbn in H. congruence.
Qed.
