(* C03 -- closing the partial statements: the wrap-and-zip law spelled out for ChannelList.madd
   and for the ChannelList operators. *)
From Coq Require Import ZArith List Bool Arith Lia.
Import ListNotations.
Require Import SC3.model.Mce SC3.proofs.C03_mce SC3.proofs.C03_lists SC3.proofs.C03_full.

Lemma maxlen_self_pos : forall self mul add, self <> [] -> maxlen [Lst self; mul; add] <> 0.
Proof.
  intros self mul add H. unfold maxlen.
  assert (length self <= list_max (map lst_len [Lst self; mul; add])) by (apply list_max_ge; now left).
  destruct self; [congruence|]. simpl length in *. lia.
Qed.

Lemma pick_lst : forall i self, self <> [] ->
  pick i (Lst self) = Some (nth (i mod length self) self (Lst [])).
Proof.
  intros i self H. destruct self as [|x l]; [congruence|]. cbn [pick].
  apply nth_error_nth'. apply Nat.mod_upper_bound. simpl; lia.
Qed.

(* ChannelList.madd(mul, add): channel i is MulAdd.new(self[i mod |self|], mul_i, add_i) where a
   list argument contributes element i modulo its length and anything else itself; as many
   channels as the longest of receiver, mul, add; an empty list among them raises *)
Lemma cl_madd_law : forall B self mul add st, self <> [] ->
  cl_madd B self mul add st =
  bind (loop (fun i => match pick i mul, pick i add with
                       | Some m, Some a => muladd_new B (nth (i mod length self) self (Lst [])) m a
                       | _, _ => raise ZeroDivisionError
                       end) 0 (maxlen [Lst self; mul; add]))
       (fun r => ret (Lst r)) st.
Proof.
  intros B self mul add st Hs. unfold cl_madd, muladd_new at 1. rewrite multi_new_eq.
  destruct (maxlen [Lst self; mul; add] =? 0) eqn:E;
    [apply Nat.eqb_eq in E; now apply maxlen_self_pos in E|].
  unfold bind.
  rewrite (loop_ext _ _ (fun i => match pick i mul, pick i add with
                                 | Some m, Some a => muladd_new B (nth (i mod length self) self (Lst [])) m a
                                 | _, _ => raise ZeroDivisionError end)); [reflexivity|].
  intros j s _. cbn [pick_all]. rewrite pick_lst by exact Hs.
  destruct (pick j mul) as [m|]; [|reflexivity].
  destruct (pick j add) as [a|]; reflexivity.
Qed.

(* ChannelList op list / ChannelList op ChannelList (both non-empty), and ChannelList op scalar *)
Lemma cl_binop_law : forall B o la lb st, la <> [] -> lb <> [] ->
  cl_binop B o (Lst la) (Lst lb) st =
  bind (loop (fun i => match nth_error la (i mod length la), nth_error lb (i mod length lb) with
                       | Some x, Some y => list_binop (scalar_binop B o) x y (elem_kind x y)
                       | _, _ => raise IndexError
                       end) 0 (Nat.max (length la) (length lb)))
       (fun r => ret (Lst r)) st.
Proof.
  intros B o la lb st Ha Hb. unfold cl_binop.
  rewrite list_binop_fused by (try reflexivity; assumption). reflexivity.
Qed.
Lemma cl_binop_scalar_law : forall B o la s st,
  cl_binop B o (Lst la) (Scalar s) st =
  bind (mapM (fun x => list_binop (scalar_binop B o) x (Scalar s) (kind_of x)) la)
       (fun r => ret (Lst r)) st.
Proof. intros. unfold cl_binop. rewrite list_binop_eq. reflexivity. Qed.
Lemma cl_rbinop_scalar_law : forall B o la s st,
  cl_rbinop B o (Scalar s) (Lst la) st =
  bind (mapM (fun y => list_binop (scalar_binop B o) (Scalar s) y (kind_of y)) la)
       (fun r => ret (Lst r)) st.
Proof. intros. unfold cl_rbinop. rewrite list_binop_eq. reflexivity. Qed.

(* ---- conversion to audio rate is element-wise ------------------------------------------------ *)
Lemma as_audio_go_mapM : forall dc k2a l st,
  (fix go (l : list arg) : M (list arg) :=
     match l with
     | [] => ret []
     | x :: r => bind (as_audio dc k2a x) (fun x' => bind (go r) (fun r' => ret (x' :: r')))
     end) l st = mapM (as_audio dc k2a) l st.
Proof.
  intros dc k2a. induction l as [|x r IH]; intros st; [reflexivity|].
  cbn [mapM]. unfold bind. destruct (as_audio dc k2a x st) as [x' s1|e]; [|reflexivity].
  rewrite IH. reflexivity.
Qed.
Lemma as_audio_lst : forall dc k2a l st,
  as_audio dc k2a (Lst l) st = bind (mapM (as_audio dc k2a) l) (fun l' => ret (Lst l')) st.
Proof. intros. cbn [as_audio]. unfold bind at 1. rewrite as_audio_go_mapM. reflexivity. Qed.
Lemma as_audio_tuple : forall dc k2a l st,
  as_audio dc k2a (Tuple l) st = bind (mapM (as_audio dc k2a) l) (fun l' => ret (Tuple l')) st.
Proof. intros. cbn [as_audio]. unfold bind at 1. rewrite as_audio_go_mapM. reflexivity. Qed.
Lemma as_audio_unit : forall dc k2a u c st,
  as_audio dc k2a (Scalar (U u c)) st =
  match unit_rate st u with
  | RAudio => Ok (Scalar (U u c)) st
  | _ => Ok (Scalar (U (length st) 0)) (st ++ [mkUnit k2a [Scalar (U u c)]])
  end.
Proof. intros. cbn [as_audio]. destruct (unit_rate st u); reflexivity. Qed.
Lemma as_audio_number : forall dc k2a z st,
  as_audio dc k2a (Scalar (K z)) st = Ok (Scalar (U (length st) 0)) (st ++ [mkUnit dc [Scalar (K z)]]).
Proof. reflexivity. Qed.

Lemma audio_in_ctor_lst : forall dc k2a cls before l after st,
  audio_in_ctor dc k2a cls before (Lst l) after st =
  bind (mapM (as_audio dc k2a) l)
       (fun l' => multi_new (new1_plain cls 1) (before ++ Lst l' :: after)) st.
Proof.
  intros. unfold audio_in_ctor. unfold bind at 1. rewrite as_audio_lst. unfold bind.
  destruct (mapM (as_audio dc k2a) l st); reflexivity.
Qed.
Lemma as_audio_elementwise : forall dc k2a l st,
  as_audio dc k2a (Lst l) st = bind (mapM (as_audio dc k2a) l) (fun l' => ret (Lst l')) st /\
  as_audio dc k2a (Tuple l) st = bind (mapM (as_audio dc k2a) l) (fun l' => ret (Tuple l')) st.
Proof. intros; split; [apply as_audio_lst|apply as_audio_tuple]. Qed.

(* ---- named operators ---------------------------------------------------------------------- *)
Lemma cl_binop_named_law : forall base la lb st, la <> [] -> lb <> [] ->
  cl_binop_named base (Lst la) (Lst lb) st =
  bind (loop (fun i => match nth_error la (i mod length la), nth_error lb (i mod length lb) with
                       | Some x, Some y => list_binop (scalar_binop_named base) x y (elem_kind x y)
                       | _, _ => raise IndexError
                       end) 0 (Nat.max (length la) (length lb)))
       (fun r => ret (Lst r)) st.
Proof.
  intros base la lb st Ha Hb. unfold cl_binop_named.
  rewrite list_binop_fused by (try reflexivity; assumption). reflexivity.
Qed.
(* the reflected case: a number on the left, a signal on the right: ONE unit (name, number, signal) *)
Lemma scalar_binop_named_reflected : forall base z u c st,
  scalar_binop_named base (Scalar (K z)) (Scalar (U u c)) st =
  new1_rated base 1 binop_ratef [Scalar (K z); Scalar (U u c)] st /\
  scalar_binop_named base (Scalar (U u c)) (Scalar (K z)) st =
  new1_rated base 1 binop_ratef [Scalar (U u c); Scalar (K z)] st.
Proof.
  intros. split; cbn [scalar_binop_named]; apply multi_new_no_list; repeat constructor.
Qed.
