(* C07: the lemmas behind props/C07.v *)
From Coq Require Import ZArith QArith Qround List Bool Lia Lqa.
Require Import SC3.model.KProg SC3.model.KNrt SC3.model.KRt.
Require Import SC3.proofs.C05_frame SC3.proofs.C07_stamp SC3.proofs.C07_runs.
Import ListNotations.
Open Scope Q_scope.

Lemma nrt_stamp_inside qk p fuel rid k T lat es sb :
  let st := nrt_loop qk p fuel (nrt_main qk p) in
  In (EvSend (Some (rid, k)) T lat es (Some sb)) (n_log st) ->
  (exists c b, In (EvResume rid k c T b) (n_log st)) /\
  exists t ss, sb = SBundle false t (Qtrunc ((lat_val lat + T) * two32)) ss /\ t == T + lat_val lat.
Proof.
  intros st H. destruct (si_inside _ _ (sinv_reach qk p fuel) _ _ _ _ _ _ H) as (E & R).
  split; auto. symmetry in E. apply stamp_bundle_shape in E. destruct E as (ss & -> & _ & _).
  exists (stamp_time (MNrt true) T lat), ss. split.
  - simpl send_mode. rewrite stamp_tag_nrt. reflexivity.
  - apply stamp_time_nrt_inside.
Qed.

Lemma rt_stamp_inside off p sched rid k T l es sb : 0 <= l ->
  let st := rs (rt_run off p sched) in
  In (EvSend (Some (rid, k)) T (Some l) es (Some sb)) (n_log st) ->
  (exists c b, In (EvResume rid k c T b) (n_log st)) /\
  exists t ss, sb = SBundle false t (elapsed_to_osc off (l + T)) ss /\ t == T + l.
Proof.
  intros Hl st H. destruct (si_inside _ _ (sinv_rt_run off p sched) _ _ _ _ _ _ H) as (E & R).
  split; auto. symmetry in E. apply stamp_bundle_shape in E. destruct E as (ss & -> & _ & _).
  exists (stamp_time (MRt off) T (Some l)), ss. split.
  - simpl send_mode. rewrite (stamp_tag_rt off T l Hl). unfold stamp_imm. rewrite (lat_immediate_false l Hl). reflexivity.
  - rewrite stamp_time_rt, (lat_val_of_nonneg l Hl). reflexivity.
Qed.

Lemma rt_stamp_outside off p s t a rest T0 l es sb : 0 <= l ->
  rs_tempos s = [] -> rs_main s = a :: rest ->
  In (EvSend None T0 (Some l) es (Some sb)) (n_log (rs (rt_step off p s (ChTop t)))) ->
  ~ In (EvSend None T0 (Some l) es (Some sb)) (n_log (rs s)) ->
  T0 = advance (rs_now s) t /\
  exists tt ss, sb = SBundle false tt (elapsed_to_osc off (l + advance (rs_now s) t)) ss /\ tt == advance (rs_now s) t + l.
Proof.
  intros Hl Ht Hm Hin Hnot.
  destruct (rt_top_step_log off p s t a rest Ht Hm) as (new & Hlog & Hnew).
  rewrite Hlog in Hin. apply in_app_or in Hin. destruct Hin as [Hin|Hin]; [|contradiction].
  rewrite Forall_forall in Hnew. specialize (Hnew _ Hin). simpl in Hnew. destruct Hnew as (_ & -> & E).
  split; auto. symmetry in E. apply stamp_bundle_shape in E. destruct E as (ss & -> & _ & _).
  exists (stamp_time (MRt off) (advance (rs_now s) t) (Some l)), ss. split.
  - rewrite (stamp_tag_rt off _ l Hl). unfold stamp_imm. rewrite (lat_immediate_false l Hl). reflexivity.
  - rewrite stamp_time_rt, (lat_val_of_nonneg l Hl). reflexivity.
Qed.

Lemma immediate_stamp T lat es : lat_immediate lat = true ->
  (forall off sb, stamp_bundle (MRt off) T lat es = Some sb -> exists t ss, sb = SBundle true t 1 ss) /\
  (forall inside sb, stamp_bundle (MNrt inside) T lat es = Some sb ->
     exists t g ss, sb = SBundle false t g ss /\ t == (if inside then T else 0)).
Proof.
  intros H. split.
  - intros off sb E. apply stamp_bundle_shape in E. destruct E as (ss & -> & _ & _).
    destruct (stamp_rt_immediate off T lat H) as [-> ->]. eauto.
  - intros inside sb E. apply stamp_bundle_shape in E. destruct E as (ss & -> & _ & _).
    do 3 eexists. split; [reflexivity|]. apply stamp_nrt_immediate. exact H.
Qed.

Lemma nested_stamp md T lat es :
  (forall sb, stamp_bundle md T lat es = Some sb -> stamped md T (EBundle lat es) sb /\ nest_ok sb) /\
  (forall l sub rest, es = EBundle l sub :: rest -> check_subtime lat l = false -> stamp_bundle md T lat es = None).
Proof.
  split.
  - intros sb H. apply stamp_bundle_spec. exact H.
  - intros l sub rest -> H. apply stamp_rejects_early_sub. exact H.
Qed.

Lemma nrt_score_sorted qk p fuel :
  ksorted s_time s_cnt (n_score (nrt_run qk p fuel)) /\
  (forall s, In s (n_score (nrt_run qk p fuel)) -> (s_cnt s < n_scnt (nrt_run qk p fuel))%nat).
Proof.
  unfold nrt_run, nrt_finish. apply score_add_ok. apply (si_score _ _ (sinv_reach qk p fuel) eq_refl).
Qed.

Lemma stamp_time_nrt_any o T lat :
  stamp_time (send_mode None o) T lat == lat_val lat + match o with Some _ => T | None => 0 end.
Proof. destruct o; simpl send_mode; unfold stamp_time; rewrite Qred_correct; simpl; ring. Qed.

Lemma nrt_score_exact qk p fuel :
  let st := nrt_loop qk p fuel (nrt_main qk p) in
  (forall o T lat es sb, In (EvSend o T lat es (Some sb)) (n_log st) ->
     exists s, In s (n_score st) /\ s_b s = sb /\
               s_time s == (lat_val lat + match o with Some _ => T | None => 0 end)) /\
  (forall s, In s (n_score st) ->
     (s_cnt s = 0%nat /\ s_time s == 0 /\ s_b s = SBundle false 0 0 [SMsg gnew_msg]) \/
     exists o T lat es, In (EvSend o T lat es (Some (s_b s))) (n_log st) /\
                        s_time s == (lat_val lat + match o with Some _ => T | None => 0 end)).
Proof.
  intros st. pose proof (sinv_reach qk p fuel) as I. fold st in I. split.
  - intros o T lat es sb H. destruct (si_listed _ _ I eq_refl _ _ _ _ _ H) as (s & A & B & C).
    exists s. repeat split; auto. rewrite C. apply stamp_time_nrt_any.
  - intros s H. destruct (si_only _ _ I s H) as [G|(o & T & lat & es & A & B)]; auto.
    right. exists o, T, lat, es. split; auto. rewrite B. apply stamp_time_nrt_any.
Qed.

Lemma nrt_tail_marker p fuel :
  let st0 := nrt_loop repaired p fuel (nrt_main repaired p) in
  exists t g, n_score (nrt_run repaired p fuel) =
              n_score st0 ++ [mkS t (n_scnt st0) (SBundle false t g [SMsg cset_msg])]
    /\ t == Qmaxq (p_tail p + n_mtime st0) (score_last_time (n_score st0))
    /\ (forall s, In s (n_score st0) -> s_time s <= t)
    /\ g = Qtrunc (t * two32).
Proof.
  intros st0. pose proof (si_score _ _ (sinv_reach repaired p fuel) eq_refl) as Hs. fold st0 in Hs.
  destruct (finish_marker_last (p_tail p) st0 Hs) as (t & g & A & B & C & D & _).
  exists t, g. unfold nrt_run. fold st0. auto.
Qed.

Definition f17_prog : prog :=
  mkProg [] [[Send (Some (1#2)) 1; Yield (1#4); Send (Some 0) 2]] [Play 0 CSystem] 0.
Lemma f17_refuted :
  nrt_completed as_found f17_prog 10 = true /\
  exists init s, n_score (nrt_run as_found f17_prog 10) = init ++ [s] /\ s_b s <> SBundle false (s_time s) (Qtrunc (s_time s * two32)) [SMsg cset_msg]
                 /\ exists m, In m init /\ s_b m = SBundle false (1#4) 1073741824 [SMsg cset_msg] /\ s_time m < s_time s.
Proof.
  split; [vm_compute; reflexivity|].
  exists [mkS 0 0 (SBundle false 0 0 [SMsg (-2)]); mkS (1#4) 2 (SBundle false (1#4) 1073741824 [SMsg 2]);
          mkS (1#4) 3 (SBundle false (1#4) 1073741824 [SMsg (-1)])].
  exists (mkS (1#2) 1 (SBundle false (1#2) 2147483648 [SMsg 1])).
  split; [vm_compute; reflexivity|]. split; [vm_compute; discriminate|].
  exists (mkS (1#4) 3 (SBundle false (1#4) 1073741824 [SMsg (-1)])).
  split; [simpl; right; right; left; reflexivity|]. split; vm_compute; reflexivity.
Qed.

Lemma raw_concat (enc : selem -> list Z) qk p fuel :
  score_raw enc (n_score (nrt_run qk p fuel)) =
    concat (map (fun s => be32 (length (enc (s_b s))) ++ enc (s_b s)) (n_score (nrt_run qk p fuel))) /\
  length (score_raw enc (n_score (nrt_run qk p fuel))) =
    fold_right (fun s n => (4 + length (enc (s_b s)) + n)%nat) 0%nat (n_score (nrt_run qk p fuel)).
Proof.
  generalize (n_score (nrt_run qk p fuel)). intros sc. unfold score_raw. split.
  - apply flat_map_concat_map.
  - induction sc as [|s r IH]; [reflexivity|].
    change (flat_map (fun s => be32 (length (enc (s_b s))) ++ enc (s_b s)) (s :: r))
      with ((be32 (length (enc (s_b s))) ++ enc (s_b s)) ++ flat_map (fun s => be32 (length (enc (s_b s))) ++ enc (s_b s)) r).
    rewrite !app_length, IH. simpl. lia.
Qed.

(* a bundle nested in a MESSAGE (completion message): _build_msg hands the message's send instant T to
   _build_bundle for it, with no enclosing bundle to compare with; what the bytes then carry *)
Lemma msg_nested_stamp md T lat es sb : stamp_bundle md T lat es = Some sb ->
  stamped md T (EBundle lat es) sb /\ nest_ok sb /\
  (exists ss, sb = SBundle (stamp_imm md lat) (stamp_time md T lat) (stamp_tag md T lat) ss) /\
  (forall off, md = MRt off ->
     (lat_immediate lat = true -> stamp_tag md T lat = 1%Z /\ stamp_imm md lat = true) /\
     (forall l, lat = Some l -> 0 <= l ->
        stamp_tag md T lat = elapsed_to_osc off (l + T) /\ stamp_imm md lat = false)) /\
  (forall inside, md = MNrt inside ->
     stamp_tag md T lat = Qtrunc ((lat_val lat + (if inside then T else 0)) * two32) /\ stamp_imm md lat = false).
Proof.
  intros H. destruct (stamp_bundle_spec _ _ _ _ _ H) as [A B].
  destruct (stamp_bundle_shape _ _ _ _ _ H) as (ss & E & _ & _).
  split; [exact A|]. split; [exact B|]. split; [exists ss; exact E|]. split.
  - intros off ->. split.
    + intros Hi. apply stamp_rt_immediate. exact Hi.
    + intros l -> Hl. split; [apply stamp_tag_rt; exact Hl|]. unfold stamp_imm. apply lat_immediate_false. exact Hl.
  - intros inside ->. split; [apply stamp_tag_nrt|reflexivity].
Qed.

(* ---- finish() from inside a routine ---------------------------------------------------------------- *)
Require Import SC3.model.KScore.
Lemma Qmaxq_cases x y : Qmaxq x y == x \/ Qmaxq x y == y.
Proof. unfold Qmaxq. destruct (Qle_bool x y); [right|left]; reflexivity. Qed.
Lemma finish_inside_marker_last tail T st : score_ok st ->
  let st' := nrt_finish_inside repaired tail T st in
  exists t g, n_score st' = n_score st ++ [mkS t (n_scnt st) (SBundle false t g [SMsg cset_msg])]
    /\ t == Qmaxq (Qmaxq (T + tail) (score_last_time (n_score st))) T
    /\ (forall s, In s (n_score st) -> s_time s <= t)
    /\ g = Qtrunc (t * two32).
Proof.
  intros [Hs Hc] st'. subst st'. unfold nrt_finish_inside. simpl qk_tail_early. cbv iota.
  set (last := score_last_time (n_score st)). set (l := Qmaxq tail (last - T)).
  destruct (score_last_time_ge (n_score st) 0) as [Hge H0]. fold (score_last_time (n_score st)) in Hge, H0. fold last in Hge, H0.
  pose proof (Qmaxq_ge_l tail (last - T)) as Hl1. pose proof (Qmaxq_ge_r tail (last - T)) as Hl2. fold l in Hl1, Hl2.
  set (t1 := stamp_time (MNrt true) T (Some l)).
  assert (Ht1 : t1 == T + lat_val (Some l)) by (unfold t1; apply stamp_time_nrt_inside).
  assert (Hcase : t1 == Qmaxq (Qmaxq (T + tail) last) T /\ last <= t1).
  { assert (Hm : l == tail \/ l == last - T).
    { unfold l, Qmaxq. destruct (Qle_bool tail (last - T)); [right|left]; reflexivity. }
    destruct (Qltb l 0) eqn:El.
    - assert (Hv : lat_val (Some l) = 0) by (simpl; rewrite El; reflexivity).
      apply Qltb_lt in El. rewrite Hv in Ht1.
      assert (last < T) by lra. assert (T + tail < T) by lra. split; [|lra].
      rewrite Ht1.
      pose proof (Qmaxq_ge_l (T + tail) last). pose proof (Qmaxq_ge_r (T + tail) last).
      pose proof (Qmaxq_ge_l (Qmaxq (T + tail) last) T). pose proof (Qmaxq_ge_r (Qmaxq (T + tail) last) T).
      pose proof (Qmaxq_cases (T + tail) last) as Hmm.
      pose proof (Qmaxq_cases (Qmaxq (T + tail) last) T) as Hm3.
      destruct Hmm as [Hmm|Hmm]; destruct Hm3 as [Hm3|Hm3]; lra.
    - apply Qltb_ge in El. rewrite (lat_val_of_nonneg l El) in Ht1. split; [|lra].
      rewrite Ht1.
      pose proof (Qmaxq_ge_l (T + tail) last). pose proof (Qmaxq_ge_r (T + tail) last).
      pose proof (Qmaxq_ge_l (Qmaxq (T + tail) last) T). pose proof (Qmaxq_ge_r (Qmaxq (T + tail) last) T).
      pose proof (Qmaxq_cases (T + tail) last) as Hmm.
      pose proof (Qmaxq_cases (Qmaxq (T + tail) last) T) as Hm3.
      destruct Hm as [Hm|Hm]; destruct Hmm as [Hmm|Hmm]; destruct Hm3 as [Hm3|Hm3]; lra. }
  destruct Hcase as [Heq Hlast].
  assert (Hle : forall s, In s (n_score st) -> s_time s <= t1) by (intros s Hs'; pose proof (Hge s Hs'); lra).
  exists (Qred t1), (stamp_tag (MNrt true) T (Some l)).
  assert (Hred : Qred t1 = t1) by (unfold t1, stamp_time; apply Qred_complete, Qred_correct).
  split; [|split; [|split]].
  - unfold score_add. simpl. fold t1. rewrite Hred. apply kinsert_last. intros y Hy. simpl.
    unfold key_leb. specialize (Hle y Hy). specialize (Hc y Hy).
    destruct (Qltb (s_time y) t1) eqn:E; auto. simpl.
    apply Qltb_ge in E. rewrite andb_true_iff. split.
    + apply Qeq_bool_iff. lra.
    + apply Nat.leb_le. lia.
  - rewrite Qred_correct. exact Heq.
  - intros s Hs'. rewrite Qred_correct. auto.
  - rewrite stamp_tag_nrt. apply Qtrunc_comp. rewrite Qred_correct, Ht1. ring.
Qed.

Lemma nrt_tail_marker_inside p fuel tail :
  let st0 := nrt_loop repaired p fuel (nrt_main repaired p) in
  exists t g, n_score (nrt_run_closed_inside repaired p fuel tail) =
              n_score st0 ++ [mkS t (n_scnt st0) (SBundle false t g [SMsg cset_msg])]
    /\ t == Qmaxq (Qmaxq (n_mtime st0 + tail) (score_last_time (n_score st0))) (n_mtime st0)
    /\ (forall s, In s (n_score st0) -> s_time s <= t)
    /\ g = Qtrunc (t * two32).
Proof.
  intros st0. pose proof (si_score _ _ (sinv_reach repaired p fuel) eq_refl) as Hs. fold st0 in Hs.
  exact (finish_inside_marker_last tail (n_mtime st0) st0 Hs).
Qed.
