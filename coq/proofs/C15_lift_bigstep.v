(* C15, lifting half: BIG-STEP homomorphism eval (a op b) = sem (eval a) (eval b) for the LAZY operand kinds
   (numbers, functions, streams, patterns), any mixing and nesting.  Sequences and Operand layers: per kind
   (proofs/C15_lift.v), see notes/C15_lift.md "Partial theorems". *)
From Coq Require Import ZArith List Bool Arith PeanoNat Lia.
Require Import SC3.lib.PyNum SC3.model.ListAlg SC3.model.Lift SC3.proofs.C15_lift.
Import ListNotations.
Local Open Scope nat_scope.

Section BigStep.
  Variable env : nat -> num.
  Variable fx : bool.
  Variable g : op2.
  Hypothesis Hg : fst g = SPy.

  (* lazy denotations: numbers, called functions, exhausted streams / patterns -- nested at will *)
  Fixpoint ldenb (d : den) : bool :=
    match d with
    | DNum _ => true
    | DCall x => ldenb x
    | DStr l => forallb ldenb l
    | _ => false
    end.

  Definition uncall (d : den) : den := match d with DCall x => x | _ => d end.

  (* op applied to the evaluated operands: the left operand's outer layer wins *)
  Fixpoint sem (d1 d2 : den) {struct d1} : den :=
    match d1 with
    | DNum x =>
        (fix right (d2 : den) : den :=
           match d2 with
           | DNum y => DNum (snd g x y)
           | DCall e => DCall (right e)
           | DStr m => DStr (map right m)
           | _ => DErr EType
           end) d2
    | DCall d => DCall (sem d (uncall d2))
    | DStr l =>
        match d2 with
        | DStr m => DStr ((fix go (l m : list den) : list den :=
                             match l, m with
                             | x :: l', y :: m' => sem x y :: go l' m'
                             | _, _ => []
                             end) l m)
        | _ => DStr (map (fun x => sem x d2) l)
        end
    | _ => DErr EType
    end.
  Fixpoint semzip (l m : list den) : list den :=
    match l, m with x :: l', y :: m' => sem x y :: semzip l' m' | _, _ => [] end.
  Lemma sem_str_str : forall l m, sem (DStr l) (DStr m) = DStr (semzip l m).
  Proof. reflexivity. Qed.

  (* fuel-free big-step evaluation (the relation computed by eval_f) on the lazy kinds *)
  Inductive Eval : obj -> den -> Prop :=
  | ENum : forall x, Eval (ONum x) (DNum x)
  | EFn : forall o d, class_of o = CFn -> Eval (call env fx o) d -> Eval o (DCall d)
  | EStr : forall o l ds, class_of o = CStr -> pull o = SFin l -> EvalL l ds -> Eval o (DStr ds)
  | EPat : forall o l ds, class_of o = CPat -> xpull MStream o = SFin l -> EvalL l ds -> Eval o (DStr ds)
  with EvalL : list obj -> list den -> Prop :=
  | ELNil : EvalL [] []
  | ELCons : forall o d l ds, Eval o d -> EvalL l ds -> EvalL (o :: l) (d :: ds).
  Scheme Eval_mind := Induction for Eval Sort Prop
    with EvalL_mind := Induction for EvalL Sort Prop.
  Combined Scheme Eval_mutind from Eval_mind, EvalL_mind.

  Lemma sel_py : forall x y, sel_apply2 g x y = apply_binop g x y.
  Proof. intros. unfold sel_apply2. rewrite Hg. reflexivity. Qed.

  Lemma Eval_not_err : forall o d, Eval o d -> is_err o = false.
  Proof. intros o d H. destruct H; try reflexivity; destruct o; try discriminate; reflexivity. Qed.

  Lemma class_fn_is_fn : forall o, class_of o = CFn -> is_fn o = true.
  Proof. intros o H. unfold is_fn. rewrite H. reflexivity. Qed.
  Lemma pat_rcompose : forall x o, class_of o = CPat -> apply_binop g (ONum x) o = OBinPat g (ONum x) o.
  Proof. intros x o H. destruct o; try discriminate; reflexivity. Qed.
  Lemma pat_compose : forall o b, class_of o = CPat -> is_err b = false -> apply_binop g o b = OBinPat g o b.
  Proof. intros o b H Hb. destruct o; try discriminate; destruct b; try discriminate; reflexivity. Qed.
  Lemma apply_nums : forall x y, apply_binop g (ONum x) (ONum y) = ONum (snd g x y).
  Proof. intros. destruct g as [m f]. reflexivity. Qed.
  Lemma xpull_fn_const : forall o, class_of o = CFn -> xpull MStream o = SConst o.
  Proof. intros o H. destruct o; try discriminate; reflexivity. Qed.
  Lemma xpull_str_same : forall o, class_of o = CStr -> xpull MStream o = pull o.
  Proof.
    intros o H. rewrite <- xpull_to_stream. unfold pull. f_equal. destruct o; try discriminate; reflexivity.
  Qed.

  (* a number on the left *)
  Lemma right_lemma : forall x,
    (forall b db, Eval b db -> ldenb db = true -> Eval (apply_binop g (ONum x) b) (sem (DNum x) db))
    /\ (forall lb m, EvalL lb m -> forallb ldenb m = true ->
          EvalL (map (apply_binop g (ONum x)) lb) (map (sem (DNum x)) m)).
  Proof.
    intros x. apply Eval_mutind.
    - intros y _. rewrite apply_nums. constructor.
    - intros o d Hc He IH Hl. simpl in Hl.
      rewrite fn_rcompose_binop by (apply class_fn_is_fn; exact Hc).
      change (sem (DNum x) (DCall d)) with (DCall (sem (DNum x) d)).
      apply EFn; [reflexivity|]. simpl. rewrite (class_fn_is_fn o Hc). rewrite sel_py. apply IH. exact Hl.
    - intros o l ds Hc Hp HL IH Hl. simpl in Hl.
      rewrite str_rcompose_binop by exact Hc.
      change (sem (DNum x) (DStr ds)) with (DStr (map (sem (DNum x)) ds)).
      apply EStr with (l := map (apply_binop g (ONum x)) l); [reflexivity| |apply IH; exact Hl].
      unfold pull in *. simpl. rewrite Hp. simpl. f_equal. apply map_ext. intros a. apply sel_py.
    - intros o l ds Hc Hp HL IH Hl. simpl in Hl.
      rewrite pat_rcompose by exact Hc.
      change (sem (DNum x) (DStr ds)) with (DStr (map (sem (DNum x)) ds)).
      apply EPat with (l := map (apply_binop g (ONum x)) l); [reflexivity| |apply IH; exact Hl].
      simpl. rewrite Hp. simpl. f_equal. apply map_ext. intros a. apply sel_py.
    - intros _. constructor.
    - intros o d l ds Ho IHo HL IHL Hl. simpl in Hl. apply andb_true_iff in Hl as [H1 H2].
      simpl. constructor; [apply IHo; exact H1|apply IHL; exact H2].
  Qed.

  Definition PI (l : list obj) (ds : list den) : Prop :=
    forall b db, Eval b db -> forallb ldenb ds = true -> ldenb db = true ->
      EvalL (map (fun e => apply_binop g e b) l) (map (fun x => sem x db) ds).
  Definition PII (l : list obj) (ds : list den) : Prop :=
    forall lb m, EvalL lb m -> forallb ldenb ds = true -> forallb ldenb m = true ->
      EvalL (map (fun p => apply_binop g (fst p) (snd p)) (zip l lb)) (semzip ds m).

  Lemma zip_case : forall l ds b db,
    Eval b db -> ldenb db = true -> forallb ldenb ds = true -> PI l ds -> PII l ds ->
    exists r rs, szip (sel_apply2 g) (SFin l) (xpull MStream b) = SFin r /\ EvalL r rs /\ sem (DStr ds) db = DStr rs.
  Proof.
    intros l ds b db Hb Hdb Hds HI HII.
    assert (Hsel : forall (c : obj), map (fun a => sel_apply2 g a c) l = map (fun e => apply_binop g e c) l)
      by (intros c; apply map_ext; intros a; apply sel_py).
    assert (Hsel2 : forall lb, map (fun p : obj * obj => sel_apply2 g (fst p) (snd p)) (zip l lb)
                               = map (fun p => apply_binop g (fst p) (snd p)) (zip l lb))
      by (intros lb; apply map_ext; intros p; apply sel_py).
    inversion Hb; subst.
    - exists (map (fun e => apply_binop g e (ONum x)) l), (map (fun y => sem y (DNum x)) ds).
      split; [simpl; rewrite Hsel; reflexivity|]. split; [apply HI; assumption|reflexivity].
    - exists (map (fun e => apply_binop g e b) l), (map (fun y => sem y (DCall d)) ds).
      split; [rewrite xpull_fn_const by assumption; simpl; rewrite Hsel; reflexivity|].
      split; [apply HI; assumption|reflexivity].
    - exists (map (fun p => apply_binop g (fst p) (snd p)) (zip l l0)), (semzip ds ds0).
      split; [rewrite xpull_str_same by assumption; rewrite H0; simpl; rewrite Hsel2; reflexivity|].
      split; [apply HII; assumption|apply sem_str_str].
    - exists (map (fun p => apply_binop g (fst p) (snd p)) (zip l l0)), (semzip ds ds0).
      split; [rewrite H0; simpl; rewrite Hsel2; reflexivity|].
      split; [apply HII; assumption|apply sem_str_str].
  Qed.

  (* the homomorphism, relational form: every mixing and nesting of numbers, functions, streams, patterns *)
  Lemma hom_rel :
    (forall a da, Eval a da -> forall b db, Eval b db -> ldenb da = true -> ldenb db = true ->
        Eval (apply_binop g a b) (sem da db))
    /\ (forall la l, EvalL la l -> PI la l /\ PII la l).
  Proof.
    apply Eval_mutind.
    - intros x b db Hb _ Hdb. apply (proj1 (right_lemma x)); assumption.
    - intros o d Hc He IH b db Hb Hda Hdb. simpl in Hda.
      rewrite fn_compose_binop by (try apply class_fn_is_fn; try exact Hc; eapply Eval_not_err; exact Hb).
      change (sem (DCall d) db) with (DCall (sem d (uncall db))).
      apply EFn; [reflexivity|]. simpl. rewrite (class_fn_is_fn o Hc). rewrite sel_py.
      destruct (is_fn b) eqn:Eb.
      + inversion Hb; subst; try (unfold is_fn in Eb; rewrite H in Eb; discriminate); try discriminate.
        apply IH; [assumption|exact Hda|exact Hdb].
      + inversion Hb; subst; try (apply IH; assumption).
        rewrite (class_fn_is_fn b H) in Eb. discriminate.
    - intros o l ds Hc Hp HL [HI HII] b db Hb Hda Hdb. simpl in Hda.
      rewrite str_compose_binop by (try exact Hc; eapply Eval_not_err; exact Hb).
      destruct (zip_case l ds b db Hb Hdb Hda HI HII) as [r [rs [Hz [Hr Hs]]]].
      rewrite Hs. apply EStr with (l := r); [reflexivity| |exact Hr].
      unfold pull in *. simpl. rewrite Hp. rewrite xpull_to_stream. exact Hz.
    - intros o l ds Hc Hp HL [HI HII] b db Hb Hda Hdb. simpl in Hda.
      rewrite pat_compose by (try exact Hc; eapply Eval_not_err; exact Hb).
      destruct (zip_case l ds b db Hb Hdb Hda HI HII) as [r [rs [Hz [Hr Hs]]]].
      rewrite Hs. apply EPat with (l := r); [reflexivity| |exact Hr].
      simpl. rewrite Hp. exact Hz.
    - split; intros ? ? ? ? ?; [constructor|]. destruct lb; simpl; constructor.
    - intros o d l ds Ho IHo HL [HI HII]. split.
      + intros b db Hb Hl Hdb. simpl in Hl. apply andb_true_iff in Hl as [H1 H2].
        simpl. constructor; [apply IHo; assumption|apply HI; assumption].
      + intros lb m Hm Hl Hml. simpl in Hl. apply andb_true_iff in Hl as [H1 H2].
        inversion Hm; subst; simpl; [constructor|].
        simpl in Hml. apply andb_true_iff in Hml as [H3 H4].
        constructor; [apply IHo; assumption|apply HII; assumption].
  Qed.

  (* ---- eval_f computes exactly this relation -------------------------------------------------- *)
  Notation ev := (eval_f env fx).
  Lemma eval_S_fn : forall n o, class_of o = CFn -> ev (S n) o = DCall (ev n (call env fx o)).
  Proof. intros n o H. destruct o; try discriminate; reflexivity. Qed.
  Lemma eval_S_str : forall n o, class_of o = CStr ->
    ev (S n) o = match pull o with SFin l => DStr (map (ev n) l) | SConst _ => DErr EFuel end.
  Proof. intros n o H. destruct o; try discriminate; reflexivity. Qed.
  Lemma eval_S_pat : forall n o, class_of o = CPat ->
    ev (S n) o = match xpull MStream o with SFin l => DStr (map (ev n) l) | SConst _ => DErr EFuel end.
  Proof. intros n o H. destruct o; try discriminate; reflexivity. Qed.

  Lemma EvalL_map : forall n l, forallb ldenb (map (ev n) l) = true ->
    (forall o, ldenb (ev n o) = true -> Eval o (ev n o)) -> EvalL l (map (ev n) l).
  Proof.
    intros n l. induction l as [|o l IH]; intros Hl H; simpl; [constructor|].
    simpl in Hl. apply andb_true_iff in Hl as [H1 H2]. constructor; [apply H; exact H1|apply IH; assumption].
  Qed.

  Lemma eval_sound : forall n o, ldenb (ev n o) = true -> Eval o (ev n o).
  Proof.
    induction n as [|n IH]; intros o Hl; [discriminate|].
    destruct (class_of o) eqn:C.
    - destruct o; try discriminate. constructor.
    - rewrite eval_S_fn in * by exact C. simpl in Hl. apply EFn; [exact C|apply IH; exact Hl].
    - rewrite eval_S_str in * by exact C. destruct (pull o) as [l|c] eqn:Hp; [|discriminate].
      simpl in Hl. apply EStr with (l := l); [exact C|exact Hp|apply EvalL_map; assumption].
    - rewrite eval_S_pat in * by exact C. destruct (xpull MStream o) as [l|c] eqn:Hp; [|discriminate].
      simpl in Hl. apply EPat with (l := l); [exact C|exact Hp|apply EvalL_map; assumption].
    - destruct o; discriminate.
    - destruct o; discriminate.
    - destruct o; discriminate.
  Qed.

  Lemma eval_complete :
    (forall o d, Eval o d -> exists N, forall m, N <= m -> ev m o = d)
    /\ (forall l ds, EvalL l ds -> exists N, forall m, N <= m -> map (ev m) l = ds).
  Proof.
    apply Eval_mutind.
    - intros x. exists 1. intros m Hm. destruct m; [lia|reflexivity].
    - intros o d Hc He [N HN]. exists (S N). intros m Hm. destruct m; [lia|].
      rewrite eval_S_fn by exact Hc. rewrite HN by lia. reflexivity.
    - intros o l ds Hc Hp HL [N HN]. exists (S N). intros m Hm. destruct m; [lia|].
      rewrite eval_S_str by exact Hc. rewrite Hp. rewrite HN by lia. reflexivity.
    - intros o l ds Hc Hp HL [N HN]. exists (S N). intros m Hm. destruct m; [lia|].
      rewrite eval_S_pat by exact Hc. rewrite Hp. rewrite HN by lia. reflexivity.
    - exists 0. reflexivity.
    - intros o d l ds Ho [N1 H1] HL [N2 H2]. exists (Nat.max N1 N2). intros m Hm. simpl.
      rewrite H1 by lia. rewrite H2 by lia. reflexivity.
  Qed.

  (* THE BIG-STEP HOMOMORPHISM: for operands of ANY lazy kinds, mixed and nested at will (numbers, functions,
     streams, patterns, functions returning streams, streams of functions, ...), whenever the deep evaluations
     of a and b succeed, the deep evaluation of `a op b` (with any larger fuel) is op lifted over them *)
  Theorem lift_binop_hom_bigstep : forall a b n m,
    ldenb (ev n a) = true -> ldenb (ev m b) = true ->
    exists N, forall k, N <= k -> ev k (apply_binop g a b) = sem (ev n a) (ev m b).
  Proof.
    intros a b n m Ha Hb.
    apply (proj1 eval_complete).
    apply (proj1 hom_rel); try assumption; apply eval_sound; assumption.
  Qed.

  (* ---- unary operators ------------------------------------------------------------------------ *)
  Variable g1 : op1.
  Hypothesis Hg1 : fst g1 = SPy.
  Fixpoint sem1 (d : den) : den :=
    match d with
    | DNum x => DNum (snd g1 x)
    | DCall e => DCall (sem1 e)
    | DStr l => DStr (map sem1 l)
    | _ => DErr EType
    end.
  Lemma sel1_py : forall x, sel_apply1 g1 x = apply_unop g1 x.
  Proof. intros. unfold sel_apply1. rewrite Hg1. reflexivity. Qed.

  Lemma hom1_rel :
    (forall a da, Eval a da -> ldenb da = true -> Eval (apply_unop g1 a) (sem1 da))
    /\ (forall la l, EvalL la l -> forallb ldenb l = true -> EvalL (map (apply_unop g1) la) (map sem1 l)).
  Proof.
    apply Eval_mutind.
    - intros x _. change (apply_unop g1 (ONum x)) with (ONum (snd g1 x)). constructor.
    - intros o d Hc He IH Hl. simpl in Hl. rewrite fn_compose_unop by (apply class_fn_is_fn; exact Hc).
      simpl. apply EFn; [reflexivity|]. simpl. rewrite sel1_py. apply IH. exact Hl.
    - intros o l ds Hc Hp HL IH Hl. simpl in Hl.
      assert (E : apply_unop g1 o = OUnStr g1 o) by (destruct o; try discriminate; reflexivity).
      rewrite E. simpl. apply EStr with (l := map (apply_unop g1) l); [reflexivity| |apply IH; exact Hl].
      unfold pull in *. simpl. rewrite Hp. simpl. f_equal. apply map_ext. intros a. apply sel1_py.
    - intros o l ds Hc Hp HL IH Hl. simpl in Hl.
      assert (E : apply_unop g1 o = OUnPat g1 o) by (destruct o; try discriminate; reflexivity).
      rewrite E. simpl. apply EPat with (l := map (apply_unop g1) l); [reflexivity| |apply IH; exact Hl].
      simpl. rewrite Hp. simpl. f_equal. apply map_ext. intros a. apply sel1_py.
    - intros _. constructor.
    - intros o d l ds Ho IHo HL IHL Hl. simpl in Hl. apply andb_true_iff in Hl as [H1 H2].
      simpl. constructor; [apply IHo; exact H1|apply IHL; exact H2].
  Qed.

  Theorem lift_unop_hom_bigstep : forall a n,
    ldenb (ev n a) = true ->
    exists N, forall k, N <= k -> ev k (apply_unop g1 a) = sem1 (ev n a).
  Proof.
    intros a n Ha. apply (proj1 eval_complete). apply (proj1 hom1_rel); [apply eval_sound|]; assumption.
  Qed.
End BigStep.

(* non-vacuity: routine [1, 2] - (f returning a stream) etc. *)
Example bigstep_example :
  let env := fun _ : nat => I 10 in
  let g : op2 := (SPy, nsub) in
  let a := OStr [I 1; I 2] in
  let b := OBinFn (SPy, nadd) (OFn 0) (OPat [I 5; I 6; I 7]) in     (* f + Pseq: a function returning a stream *)
  ldenb (eval_f env true 6 a) = true /\ ldenb (eval_f env true 6 b) = true
  /\ eval_f env true 9 (apply_binop g a b) = sem g (eval_f env true 6 a) (eval_f env true 6 b).
Proof. vm_compute. repeat split; reflexivity. Qed.
