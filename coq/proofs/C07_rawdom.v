(* C07: the binary form of a score EXISTS whenever the score lies inside the encoder's documented domain
   (C06: accepted_all / size_ok_bound).  Separate file: it is the only C07 file that depends on proofs/C06_domain.v. *)
From Coq Require Import ZArith QArith List Bool Lia.
Require Import SC3.model.Osc SC3.model.OscSize SC3.model.OscDomain SC3.model.KProg SC3.model.KNrt SC3.model.KScore.
Require Import SC3.proofs.C06_base SC3.proofs.C06_size SC3.proofs.C06_domain SC3.proofs.C07_raw.
Import ListNotations.
Open Scope Z_scope.

Lemma raw_exists nc : forall sc, score_in_domain sc = true -> exists raw, score_raw_osc nc sc = Ok raw.
Proof.
  intros sc H. unfold score_raw_osc.
  assert (E : exists ds, score_encs nc sc = Ok ds).
  { induction sc as [|s r IH]; [exists []; reflexivity|].
    cbn [score_in_domain forallb] in H. apply andb_prop in H as [Hs Hr]. destruct (IH Hr) as (ds & Hds).
    unfold entry_in_domain in Hs. apply andb_prop in Hs as [Hd Hz].
    destruct (to_arg_guards nc (s_b s)) as [Hf _].
    destruct (accepted_all nc (to_arg (s_b s)) Hf Hd) as (d & Hb).
    pose proof (size_ok_bound nc _ d Hf Hz Hb) as Hlen.
    exists (d :: ds). cbn [score_encs]. unfold enc_entry. rewrite Hb. cbn [bind].
    destruct (zlen d <? 4294967296) eqn:Ez; [|apply Z.ltb_ge in Ez; lia].
    rewrite Hds. reflexivity. }
  destruct E as (ds & ->). eexists. reflexivity.
Qed.
