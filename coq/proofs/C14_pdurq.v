(* C14 -- Pdur with its non-default constructor arguments (tolerance, quant). *)
From Coq Require Import String List Morphisms.
Require Import SC3.proofs.NumTac SC3.gen.Gen_builtins SC3.proofs.C12_num SC3.proofs.C15_kernels SC3.proofs.C15_general SC3.model.TaskQ SC3.model.Event.
Require Import SC3.proofs.C14_play SC3.proofs.C14_stream.
Import ListNotations.
Open Scope Q_scope.

(* with the default arguments (tolerance 0.001, quant None) it is the Pdur of the other theorems *)
Lemma pdurq_default_l : forall c K lib fuel dep el d s inev mc,
  stream_run c K lib fuel (S dep) (SDurQ el d tolerance None s) inev mc
  = stream_run c K lib fuel (S dep) (SDur el d s) inev mc.
Proof.
  intros c K lib fuel. induction fuel as [|f IH]; intros dep el d s inev mc; [reflexivity|].
  cbn [stream_run]. cbn [snext].
  destruct (snext c K lib dep s inev mc) as [[e0 s'' o|o r|] mc']; try reflexivity.
  destruct (negb (fix_pdur_event c) && negb (is_evt e0)); [reflexivity|].
  destruct (nge _ d); [reflexivity|]. f_equal. apply IH.
Qed.

Lemma ngt_nlt : forall a b, ngt a b = nlt b a.
Proof. intros a b. destruct a, b; reflexivity. Qed.

(* quant given and the child ends at elapsed = x before dur: the stream is padded with ONE rest up to the next multiple of
   quant at or after x (none when x is on the grid) -- bi.roundup, never the nearest multiple below *)
Lemma pdurq_pad_l : forall c K lib, fix_pdur_pad c = true ->
  forall dep elapsed d tol q s inev mc o rt mc' x qq,
  snext c K lib dep s inev mc = (RStop o rt, mc') -> val elapsed x -> val q qq -> 0 < qq ->
  exists r, multiple_of r qq /\ x <= r /\ r < x + qq /\
    (x < r -> exists e, snext c K lib (S dep) (SDurQ elapsed d tol (Some q) s) inev mc = (RYield e (SDurEnd SDone) o, mc') /\
                        delta_q K e == r - x /\ is_rest e = true) /\
    (r == x -> snext c K lib (S dep) (SDurQ elapsed d tol (Some q) s) inev mc = (RStop o inev, mc')).
Proof.
  intros c K lib Hf dep elapsed d tol q s inev mc o rt mc' x qq Hs [Hxo Hx] [Hqo Hq] Hpos.
  destruct (roundup_general elapsed q Hxo Hqo) as [r [Er [Hm [Hlo Hhi]]]]; [rewrite Hq; exact Hpos|].
  exists r. rewrite Hq in Hhi. rewrite Hx in Hlo, Hhi.
  split; [destruct Hm as [k Hk]; exists k; rewrite Hk, Hq; reflexivity|]. split; [exact Hlo|]. split; [exact Hhi|].
  assert (Vd : val (nsub (F r) elapsed) (r - x)) by (apply val_nsub; [apply val_F|split; assumption]).
  split.
  - intros Hlt. cbn [snext]. rewrite Hs, Er, Hf.
    assert (G : ngt (nsub (F r) elapsed) (F 0) = true).
    { rewrite ngt_nlt. apply (nlt_iff (F 0) _ 0 (r - x) (val_F 0) Vd). lra. }
    rewrite G. eexists. split; [reflexivity|]. split.
    + unfold delta_q. rewrite ev_call_put_same. cbn [vnum]. apply Vd.
    + eapply rest_value_is_rest with (k := "dur"%string). rewrite get_put_neq by reflexivity.
      unfold silent. rewrite get_put_same. reflexivity.
  - intros Heq. cbn [snext]. rewrite Hs, Er.
    assert (G : ngt (nsub (F r) elapsed) (F 0) = false).
    { rewrite ngt_nlt. apply (nlt_false (F 0) _ 0 (r - x) (val_F 0) Vd). lra. }
    rewrite G. reflexivity.
Qed.
