(* C16 -- basic lemmas: Python list indexing, the _freed dict, the view [at s a] of the array
   by ABSOLUTE address. *)
From Coq Require Import ZArith List Bool Lia.
Import ListNotations.
Require Import SC3.model.Alloc.
Open Scope Z_scope.

(* ---- arrays ---------------------------------------------------------------- *)
Definition get (a : array) (i : Z) : option block := nth (Z.to_nat i) a None.
Definition setz (a : array) (i : Z) (v : option block) : array := upd a (Z.to_nat i) v.

Lemma upd_length {A} (l : list A) n v : length (upd l n v) = length l.
Proof. revert n; induction l as [|x l IH]; intros [|n]; simpl; auto. Qed.

Lemma nth_upd {A} (l : list A) n m v d : (n < length l)%nat ->
  nth m (upd l n v) d = if Nat.eqb m n then v else nth m l d.
Proof.
  revert n m; induction l as [|x l IH]; intros n m Hn; simpl in Hn; [lia|].
  destruct n as [|n], m as [|m]; simpl; auto.
  apply IH; lia.
Qed.

Lemma alen_setz a i v : alen (setz a i v) = alen a.
Proof. unfold alen, setz. now rewrite upd_length. Qed.

Lemma get_setz a i v j : 0 <= i < alen a -> 0 <= j ->
  get (setz a i v) j = if j =? i then v else get a j.
Proof.
  intros Hi Hj. unfold get, setz, alen in *. rewrite nth_upd by lia.
  destruct (Z.eqb_spec j i) as [->|Hne].
  - now rewrite Nat.eqb_refl.
  - destruct (Nat.eqb_spec (Z.to_nat j) (Z.to_nat i)) as [E|E]; auto.
    exfalso; apply Hne; lia.
Qed.

Lemma py_index_in len i : 0 <= i < len -> py_index len i = Ok i.
Proof.
  intros H. unfold py_index.
  destruct (Z.leb_spec 0 i); destruct (Z.ltb_spec i len); simpl; auto; lia.
Qed.

Lemma aget_in a i : 0 <= i < alen a -> aget a i = Ok (get a i).
Proof. intros H. unfold aget. now rewrite py_index_in. Qed.

Lemma aset_in a i v : 0 <= i < alen a -> aset a i v = Ok (setz a i v).
Proof. intros H. unfold aset. now rewrite py_index_in. Qed.

Lemma alen_repeat n : alen (repeat (@None block) n) = Z.of_nat n.
Proof. unfold alen. now rewrite repeat_length. Qed.

Lemma get_repeat n i : get (repeat (@None block) n) i = None.
Proof.
  unfold get. generalize (Z.to_nat i) as m. induction n; intros [|m]; simpl; auto.
Qed.

(* ---- sets of addresses ----------------------------------------------------- *)
Lemma zmem_In a s : zmem a s = true <-> In a s.
Proof.
  induction s as [|x s IH]; simpl; [split; [discriminate|tauto]|].
  rewrite orb_true_iff, IH, Z.eqb_eq. tauto.
Qed.

Lemma In_zadd a' a s : In a' (zadd a s) <-> a' = a \/ In a' s.
Proof.
  unfold zadd. destruct (zmem a s) eqn:E.
  - apply zmem_In in E. split; [tauto|]. intros [->|]; auto.
  - rewrite in_app_iff. simpl. split; intros; intuition.
Qed.

Lemma In_zremove a' a s : In a' (zremove a s) <-> In a' s /\ a' <> a.
Proof.
  induction s as [|x s IH]; simpl; [tauto|].
  destruct (Z.eqb_spec x a) as [->|Hne]; simpl; rewrite IH.
  - split; [tauto|]. intros [[->|H] Hn]; tauto.
  - split; [intros [->|[H Hn]]; auto|]. intros [[->|H] Hn]; tauto.
Qed.

(* ---- the dict --------------------------------------------------------------- *)
Definition fmem (f : fdict) (k a : Z) : Prop := exists s, fr_get f k = Some s /\ In a s.
Definition keys_nodup (f : fdict) : Prop := NoDup (map fst f).

Lemma fr_get_notin f k : ~ In k (map fst f) -> fr_get f k = None.
Proof.
  induction f as [|[k' s] f IH]; simpl; auto. intros H.
  destruct (Z.eqb_spec k' k); [exfalso; auto|]. apply IH; tauto.
Qed.

Lemma fr_get_In f k s : keys_nodup f -> In (k, s) f -> fr_get f k = Some s.
Proof.
  unfold keys_nodup. induction f as [|[k' s'] f IH]; simpl; [tauto|].
  intros Hnd [E|Hin].
  - inversion E; subst. now rewrite Z.eqb_refl.
  - inversion Hnd as [|? ? Hni Hnd']; subst.
    destruct (Z.eqb_spec k' k) as [->|Hne]; auto.
    exfalso. apply Hni. change k with (fst (k, s)). now apply in_map.
Qed.

Lemma fmem_add f k a k' a' : fmem (fr_add f k a) k' a' <-> (k' = k /\ a' = a) \/ fmem f k' a'.
Proof.
  unfold fmem. induction f as [|[k0 s0] f IH]; simpl.
  - destruct (Z.eqb_spec k k') as [->|Hne].
    + split.
      * intros (s & E & Hin). inversion E; subst. destruct Hin as [->|[]]. auto.
      * intros [[_ ->]|(s & E & _)]; [|discriminate]. exists [a]. simpl; auto.
    + split.
      * intros (s & E & _); discriminate.
      * intros [[-> _]|(s & E & _)]; [congruence|discriminate].
  - destruct (Z.eqb_spec k0 k) as [->|Hne]; simpl.
    + destruct (Z.eqb_spec k k') as [->|Hne'].
      * split.
        -- intros (s & E & Hin). inversion E; subst. apply In_zadd in Hin.
           destruct Hin as [->|Hin]; [auto|right; eauto].
        -- intros [[_ ->]|(s & E & Hin)].
           ++ eexists; split; eauto. apply In_zadd; auto.
           ++ inversion E; subst. eexists; split; eauto. apply In_zadd; auto.
      * split; [intros H; right; exact H|]. intros [[-> _]|H]; [congruence|exact H].
    + destruct (Z.eqb_spec k0 k') as [->|Hne'].
      * split; [intros H; right; exact H|]. intros [[-> _]|H]; [congruence|exact H].
      * exact IH.
Qed.

Lemma keys_add f k a : map fst (fr_add f k a) = if existsb (Z.eqb k) (map fst f) then map fst f else map fst f ++ [k].
Proof.
  induction f as [|[k0 s0] f IH]; simpl; auto.
  destruct (Z.eqb_spec k0 k) as [->|Hne]; simpl.
  - now rewrite Z.eqb_refl.
  - destruct (Z.eqb_spec k k0); [congruence|]. simpl. rewrite IH.
    destruct (existsb (Z.eqb k) (map fst f)); auto.
Qed.

Lemma nodup_add f k a : keys_nodup f -> keys_nodup (fr_add f k a).
Proof.
  unfold keys_nodup. rewrite keys_add. intros H.
  destruct (existsb (Z.eqb k) (map fst f)) eqn:E; auto.
  assert (Hni : ~ In k (map fst f)).
  { intros Hin. assert (existsb (Z.eqb k) (map fst f) = true); [|congruence].
    apply existsb_exists. exists k. split; auto. apply Z.eqb_refl. }
  clear E. induction (map fst f) as [|x l IH]; simpl.
  - constructor; [simpl; tauto|constructor].
  - inversion H; subst. constructor.
    + rewrite in_app_iff. simpl. intros [?|[->|[]]]; auto. apply Hni; simpl; auto.
    + apply IH; auto. intros ?; apply Hni; simpl; auto.
Qed.

Lemma keys_remove_incl f k a x : In x (map fst (fr_remove f k a)) -> In x (map fst f).
Proof.
  induction f as [|[k0 s0] f IH]; simpl; auto.
  destruct (Z.eqb_spec k0 k) as [->|Hne].
  - destruct (zremove a s0); simpl; auto.
  - simpl. intros [->|H]; auto.
Qed.

Lemma nodup_remove f k a : keys_nodup f -> keys_nodup (fr_remove f k a).
Proof.
  unfold keys_nodup. induction f as [|[k0 s0] f IH]; simpl; auto.
  intros H. inversion H as [|? ? Hni Hnd]; subst.
  destruct (Z.eqb_spec k0 k) as [->|Hne].
  - destruct (zremove a s0); simpl; auto.
  - simpl. constructor; auto. intros Hin. apply Hni. eapply keys_remove_incl; eauto.
Qed.

Lemma fmem_remove f k a k' a' : keys_nodup f ->
  (fmem (fr_remove f k a) k' a' <-> fmem f k' a' /\ ~ (k' = k /\ a' = a)).
Proof.
  unfold fmem, keys_nodup. induction f as [|[k0 s0] f IH]; simpl; intros Hnd.
  - split; [intros (s & E & _); discriminate|intros [(s & E & _) _]; discriminate].
  - inversion Hnd as [|? ? Hni Hnd']; subst.
    destruct (Z.eqb_spec k0 k) as [->|Hne].
    + destruct (zremove a s0) as [|z zs] eqn:Ez.
      * destruct (Z.eqb_spec k k') as [->|Hne'].
        -- rewrite (fr_get_notin f k') by auto. split.
           ++ intros (s & E & _); discriminate.
           ++ intros [(s & E & Hin) Hn]. inversion E; subst. exfalso.
              assert (In a' (zremove a s)) by (apply In_zremove; split; auto; intros ->; auto).
              rewrite Ez in H; auto.
        -- split; [intros H; split; [exact H|intros [? _]; congruence]|intros [H _]; exact H].
      * simpl. destruct (Z.eqb_spec k k') as [->|Hne'].
        -- split.
           ++ intros (s & E & Hin). inversion E; subst. rewrite <- Ez in Hin. apply In_zremove in Hin.
              split; [eexists; split; eauto; tauto|]. intros [_ ->]; tauto.
           ++ intros [(s & E & Hin) Hn]. inversion E; subst. eexists; split; eauto.
              rewrite <- Ez. apply In_zremove. split; [auto|intros ->; apply Hn; auto].
        -- split; [intros H; split; [exact H|intros [? _]; congruence]|intros [H _]; exact H].
    + simpl. destruct (Z.eqb_spec k0 k') as [->|Hne'].
      * split; [intros H; split; [exact H|intros [? _]; congruence]|intros [H _]; exact H].
      * apply IH; auto.
Qed.

(* ---- the array by absolute address ----------------------------------------- *)
Definition hi (s : st) : Z := off s + size s.        (* one past the partition *)
Definition at_ (s : st) (a : Z) : option block :=
  if (off s <=? a) && (a <? hi s) then get (arr s) (a - off s) else None.
Definition set_at (s : st) (x : Z) (v : option block) : st := with_arr s (setz (arr s) (x - off s) v).

Lemma at_range s a b : at_ s a = Some b -> off s <= a < hi s.
Proof. unfold at_. destruct (Z.leb_spec (off s) a); destruct (Z.ltb_spec a (hi s)); simpl; try discriminate. lia. Qed.

Lemma at_set s x v a : alen (arr s) = size s -> off s <= x < hi s ->
  at_ (set_at s x v) a = if a =? x then (if (off s <=? a) && (a <? hi s) then v else None) else at_ s a.
Proof.
  intros Hl Hx. unfold at_, set_at, hi in *. simpl.
  destruct (Z.leb_spec (off s) a); destruct (Z.ltb_spec a (off s + size s)); simpl;
    try (destruct (Z.eqb_spec a x); auto; lia).
  rewrite get_setz by lia.
  destruct (Z.eqb_spec (a - off s) (x - off s)); destruct (Z.eqb_spec a x); auto; lia.
Qed.

Lemma at_set_same s x v : alen (arr s) = size s -> off s <= x < hi s -> at_ (set_at s x v) x = v.
Proof.
  intros Hl Hx. rewrite at_set by auto. rewrite Z.eqb_refl.
  destruct (Z.leb_spec (off s) x); destruct (Z.ltb_spec x (hi s)); simpl; auto; lia.
Qed.

Lemma at_set_other s x v a : alen (arr s) = size s -> off s <= x < hi s -> a <> x ->
  at_ (set_at s x v) a = at_ s a.
Proof. intros Hl Hx Hne. rewrite at_set by auto. destruct (Z.eqb_spec a x); auto; lia. Qed.

Lemma aget_at s a : alen (arr s) = size s -> off s <= a < hi s -> aget (arr s) (a - off s) = Ok (at_ s a).
Proof.
  intros Hl Ha. unfold hi in *. rewrite aget_in by lia. unfold at_, hi.
  destruct (Z.leb_spec (off s) a); destruct (Z.ltb_spec a (off s + size s)); simpl; auto; lia.
Qed.

Lemma aset_at s x v : alen (arr s) = size s -> off s <= x < hi s ->
  aset (arr s) (x - off s) v = Ok (arr (set_at s x v)).
Proof. intros Hl Hx. unfold hi in *. rewrite aset_in by lia. reflexivity. Qed.

Lemma at_set' s x v a : alen (arr s) = size s -> off s <= x < hi s ->
  at_ (set_at s x v) a = if a =? x then v else at_ s a.
Proof.
  intros Hl Hx. rewrite at_set by auto. destruct (Z.eqb_spec a x); auto. subst.
  destruct (Z.leb_spec (off s) x); destruct (Z.ltb_spec x (hi s)); simpl; auto; lia.
Qed.

Lemma at_ext s1 s2 a : arr s1 = arr s2 -> off s1 = off s2 -> size s1 = size s2 -> at_ s1 a = at_ s2 a.
Proof. intros H1 H2 H3. unfold at_, hi. now rewrite H1, H2, H3. Qed.
