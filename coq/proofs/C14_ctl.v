(* C14 -- a player stopped from another routine: what it has played is a prefix of what it would have played,
   everything strictly before the stop time, and every played event keeps all its bundles. *)
From Coq Require Import String List Morphisms.
Require Import SC3.proofs.NumTac SC3.gen.Gen_builtins SC3.proofs.C12_num SC3.model.TaskQ SC3.model.Event.
Require Import SC3.proofs.C14_play SC3.proofs.C14_stream.
Import ListNotations.
Open Scope Q_scope.

Lemma evs_only_offs : forall t offs, evs (map (LOff t) offs) = [].
Proof. intros t offs. induction offs as [|m r IH]; cbn; [reflexivity|exact IH]. Qed.

(* without a controller the controlled loop is the player loop *)
Lemma player_c_none_l : forall c K lib fuel depth s proto mc now,
  player_c c K lib fuel depth CNone s proto mc now = player c K lib fuel depth s proto mc now.
Proof.
  intros c K lib fuel. induction fuel as [|f IH]; intros depth s proto mc now; [reflexivity|].
  cbn [player_c player]. destruct (snext c K lib depth s proto mc) as [[e0 s' offs|offs|] mc']; try reflexivity.
  destruct (ev_call K (as_event e0) "delta") as [[z|q|]|[z|q|]| | | | | |]; try reflexivity; rewrite ?IH; try reflexivity.
  all: destruct (fix_rest_delta c); rewrite ?IH; reflexivity.
Qed.

Lemma player_stop_prefix_l : forall c K lib fuel depth t s proto mc now,
  (exists rest, evs (player c K lib fuel depth s proto mc now)
                = evs (player_c c K lib fuel depth (CStop t) s proto mc now) ++ rest) /\
  Forall (fun te => fst te < t) (evs (player_c c K lib fuel depth (CStop t) s proto mc now)).
Proof.
  intros c K lib fuel. induction fuel as [|f IH]; intros depth t s proto mc now.
  - split; [exists []; reflexivity|constructor].
  - cbn [player_c player]. destruct (Qle_bool t now) eqn:E.
    + rewrite evs_only_offs. split; [eexists; reflexivity|constructor].
    + assert (Hlt : now < t).
      { destruct (Qlt_le_dec now t) as [L|L]; [exact L|]. apply Qle_bool_iff in L. congruence. }
      destruct (snext c K lib depth s proto mc) as [[e0 s' offs|offs|] mc'].
      * rewrite !evs_offs. cbn [evs].
        assert (G : forall now', (exists rest, evs (player c K lib f depth s' proto mc' now')
                            = evs (player_c c K lib f depth (CStop t) s' proto mc' now') ++ rest) /\
                         Forall (fun te => fst te < t) (evs (player_c c K lib f depth (CStop t) s' proto mc' now')))
          by (intros now'; apply IH).
        destruct (ev_call K (as_event e0) "delta") as [[z|q|]|[z|q|]| | | | | |];
          try (split; [exists []; reflexivity|constructor; [exact Hlt|constructor]]).
        -- destruct (G (now + inject_Z z)) as [[rest Hr] Hf]. split; [exists rest; cbn; rewrite Hr; reflexivity|constructor; [exact Hlt|exact Hf]].
        -- destruct (G (now + q)) as [[rest Hr] Hf]. split; [exists rest; cbn; rewrite Hr; reflexivity|constructor; [exact Hlt|exact Hf]].
        -- destruct (fix_rest_delta c); [|split; [exists []; reflexivity|constructor; [exact Hlt|constructor]]].
           destruct (G (now + inject_Z z)) as [[rest Hr] Hf]. split; [exists rest; cbn; rewrite Hr; reflexivity|constructor; [exact Hlt|exact Hf]].
        -- destruct (fix_rest_delta c); [|split; [exists []; reflexivity|constructor; [exact Hlt|constructor]]].
           destruct (G (now + q)) as [[rest Hr] Hf]. split; [exists rest; cbn; rewrite Hr; reflexivity|constructor; [exact Hlt|exact Hf]].
        -- destruct (fix_rest_delta c); split; try (exists []; reflexivity); constructor; try exact Hlt; constructor.
      * rewrite !evs_only_offs. split; [exists []; reflexivity|constructor].
      * split; [exists []; reflexivity|constructor].
Qed.

(* every event a (stopped or not) player has pulled and that is not a rest contributes exactly its play_event bundles:
   no gate-off without its /s_new, no /s_new of a gated instrument without its gate-off *)
Lemma sends_complete_l : forall K lib lat k t e log, is_rest e = false ->
  sends_from K lib lat k (LEv t e :: log) = play_event K lib lat t k e ++ sends_from K lib lat (S k) log.
Proof. intros K lib lat k t e log H. cbn [sends_from]. rewrite H. reflexivity. Qed.
