(* C06 -- each reader of _osclib undoes its writer, at any position of a datagram. *)
From Coq Require Import ZArith QArith List Bool Lia.
Import ListNotations.
Require Import SC3.model.Osc SC3.model.OscSize SC3.proofs.C06_base.
Open Scope Z_scope.

(* ---- slicing ---- *)
Lemma skipn_zlen_app : forall {A} (pre r : list A), skipn (Z.to_nat (zlen pre)) (pre ++ r) = r.
Proof.
  intros. unfold zlen. rewrite Nat2Z.id. rewrite skipn_app, skipn_all, Nat.sub_diag. reflexivity.
Qed.
Lemma norm_idx_in : forall n i, 0 <= i <= n -> norm_idx n i = i.
Proof. intros n i H. unfold norm_idx. destruct (i <? 0) eqn:E; [apply Z.ltb_lt in E; lia | lia]. Qed.
Lemma slice_from_app : forall {A} (pre r : list A), slice_from (pre ++ r) (zlen pre) = r.
Proof.
  intros. unfold slice_from. rewrite norm_idx_in.
  - apply skipn_zlen_app.
  - rewrite zlen_app. pose proof (zlen_nonneg pre). pose proof (zlen_nonneg r). lia.
Qed.
Lemma slice_app : forall {A} (pre s post : list A), slice (pre ++ s ++ post) (zlen pre) (zlen pre + zlen s) = s.
Proof.
  intros. unfold slice.
  pose proof (zlen_nonneg pre). pose proof (zlen_nonneg s). pose proof (zlen_nonneg post).
  rewrite !norm_idx_in by (rewrite !zlen_app; lia).
  rewrite skipn_zlen_app.
  replace (zlen pre + zlen s - zlen pre) with (zlen s) by lia.
  unfold zlen. rewrite Nat2Z.id. rewrite firstn_app, firstn_all, Nat.sub_diag. cbn [firstn]. apply app_nil_r.
Qed.

(* ---- fixed-width fields ---- *)
Lemma get_fixed_app : forall n pre s post, zlen s = n ->
  get_fixed n (pre ++ s ++ post) (zlen pre) = Ok (s, zlen pre + n).
Proof.
  intros n pre s post Hn. subst n. unfold get_fixed. rewrite slice_from_app.
  pose proof (zlen_nonneg post).
  destruct (zlen (s ++ post) <? zlen s) eqn:E; [apply Z.ltb_lt in E; rewrite zlen_app in E; lia |].
  rewrite slice_app. rewrite Z.eqb_refl. reflexivity.
Qed.

Lemma be_val_be32_acc : forall u acc, 0 <= u < 4294967296 ->
  be_val (be32 u) acc = acc * 4294967296 + u.
Proof.
  intros u acc Hu. unfold be32. cbn [be_val].
  Z.div_mod_to_equations. lia.
Qed.
Lemma be_val_app : forall a b acc, be_val (a ++ b) acc = be_val b (be_val a acc).
Proof. induction a as [| x a IH]; intros b acc; [reflexivity |]. cbn [app be_val]. apply IH. Qed.

Lemma get_int_write : forall z h pre post, write_int z = Ok h ->
  get_int (pre ++ h ++ post) (zlen pre) = Ok (z, zlen pre + 4).
Proof.
  intros z h pre post H. unfold write_int in H.
  destruct ((-2147483648 <=? z) && (z <? 2147483648)) eqn:E; [| discriminate H]. inv_ok H.
  apply andb_prop in E as [E1 E2]. apply Z.leb_le in E1. apply Z.ltb_lt in E2.
  unfold get_int. rewrite get_fixed_app by reflexivity. cbn [bind].
  pose proof (Z.mod_pos_bound z 4294967296 ltac:(lia)) as Hm.
  rewrite be_val_be32_acc by lia. f_equal. f_equal.
  unfold signed32. replace (0 * 4294967296 + z mod 4294967296) with (z mod 4294967296) by lia.
  destruct (z mod 4294967296 <? 2147483648) eqn:F; [apply Z.ltb_lt in F | apply Z.ltb_ge in F];
    Z.div_mod_to_equations; lia.
Qed.

Lemma get_timetag_write : forall t h pre post, write_timetag t = Ok h ->
  get_timetag (pre ++ h ++ post) (zlen pre) = Ok (t, zlen pre + 8).
Proof.
  intros t h pre post H. unfold write_timetag in H.
  destruct ((0 <=? t) && (t <? 18446744073709551616)) eqn:E; [| discriminate H]. inv_ok H.
  apply andb_prop in E as [E1 E2]. apply Z.leb_le in E1. apply Z.ltb_lt in E2.
  unfold get_timetag. rewrite get_fixed_app by reflexivity. cbn [bind]. f_equal. f_equal.
  unfold be64. rewrite be_val_app.
  rewrite be_val_be32_acc by (Z.div_mod_to_equations; lia).
  rewrite be_val_be32_acc by (Z.div_mod_to_equations; lia).
  Z.div_mod_to_equations. lia.
Qed.

Lemma get_float_app : forall w pre post, zlen w = 4 ->
  get_float (pre ++ w ++ post) (zlen pre) = Ok (w, zlen pre + 4).
Proof.
  intros w pre post Hw. unfold get_float. rewrite slice_from_app.
  pose proof (zlen_nonneg post).
  destruct (zlen (w ++ post) <? 4) eqn:E; [apply Z.ltb_lt in E; rewrite zlen_app in E; lia |].
  rewrite <- Hw. rewrite slice_app. rewrite Z.eqb_refl. reflexivity.
Qed.

(* ---- strings ---- *)
Lemma find_nul_app : forall s r k, has_nul s = false -> find_nul (s ++ 0 :: r) k = Some (k + zlen s).
Proof.
  induction s as [| b s IH]; intros r k H.
  - cbn. f_equal. lia.
  - cbn [has_nul existsb] in H. apply orb_false_elim in H as [Hb Hs].
    cbn [app find_nul]. rewrite Z.eqb_sym, Hb. rewrite (IH r (k + 1) Hs). rewrite zlen_cons. f_equal. lia.
Qed.
Lemma zeros_succ : forall k, 1 <= k -> zeros k = 0 :: zeros (k - 1).
Proof.
  intros k Hk. unfold zeros. replace (Z.to_nat k) with (S (Z.to_nat (k - 1))) by lia. reflexivity.
Qed.
Lemma filter_nonzero_zeros : forall k, filter (fun b => negb (b =? 0)) (zeros k) = [].
Proof. intros k. unfold zeros. induction (Z.to_nat k) as [| n IH]; [reflexivity |]. cbn. exact IH. Qed.
Lemma filter_nonzero_id : forall s, has_nul s = false -> filter (fun b => negb (b =? 0)) s = s.
Proof.
  induction s as [| b s IH]; intros H; [reflexivity |].
  cbn [has_nul existsb] in H. apply orb_false_elim in H as [Hb Hs].
  cbn [filter]. rewrite Z.eqb_sym, Hb. cbn [negb]. rewrite (IH Hs). reflexivity.
Qed.

Lemma write_string_inv : forall nc s d, write_string nc s = Ok d ->
  d = s ++ zeros (4 - zlen s mod 4) /\ (nc = true -> has_nul s = false).
Proof.
  unfold write_string. intros nc s d H. destruct (nc && has_nul s) eqn:E; [discriminate H |]. inv_ok H.
  split; [reflexivity |]. intros ->. exact E.
Qed.

Lemma get_string_write : forall s pre post, has_nul s = false ->
  get_string (pre ++ (s ++ zeros (4 - zlen s mod 4)) ++ post) (zlen pre) = Ok (s, zlen pre + strpad4 (zlen s)).
Proof.
  intros s pre post Hs. unfold get_string.
  pose proof (zlen_nonneg pre) as Hp. pose proof (zlen_nonneg s) as Hn. pose proof (zlen_nonneg post) as Hq.
  pose proof (Z.mod_pos_bound (zlen s) 4 ltac:(lia)) as Hm.
  destruct (zlen pre <? 0) eqn:E; [apply Z.ltb_lt in E; lia |].
  rewrite skipn_zlen_app.
  rewrite (zeros_succ (4 - zlen s mod 4)) by lia.
  rewrite <- !app_assoc. cbn [app]. rewrite find_nul_app by exact Hs.
  set (k := 4 - zlen s mod 4).
  assert (Hoff : (if (0 + zlen s) mod 4 =? 0 then 0 + zlen s + 4 else 0 + zlen s + (- (0 + zlen s)) mod 4) = zlen s + k).
  { replace (0 + zlen s) with (zlen s) by lia. subst k.
    destruct (zlen s mod 4 =? 0) eqn:F; [apply Z.eqb_eq in F; lia |].
    apply Z.eqb_neq in F. Z.div_mod_to_equations. lia. }
  rewrite Hoff.
  change (s ++ 0 :: zeros (k - 1) ++ post) with (s ++ (0 :: zeros (k - 1)) ++ post).
  rewrite <- (zeros_succ k) by (subst k; lia).
  rewrite (app_assoc s (zeros k) post).
  rewrite slice_from_app.
  assert (Hlen : zlen (s ++ zeros k) = zlen s + k) by (rewrite zlen_app, zlen_zeros by (subst k; lia); reflexivity).
  destruct (zlen ((s ++ zeros k) ++ post) <? zlen s + k) eqn:G; [apply Z.ltb_lt in G; rewrite zlen_app, Hlen in G; lia |].
  rewrite <- Hlen. rewrite slice_app. rewrite filter_app, filter_nonzero_zeros, app_nil_r, filter_nonzero_id by exact Hs.
  rewrite Hlen, strpad4_eq. subst k. f_equal. f_equal. lia.
Qed.

(* ---- blobs ---- *)
Lemma get_blob_write : forall b h pre post, write_blob b = Ok h ->
  get_blob (pre ++ h ++ post) (zlen pre) = Ok (b, zlen pre + zlen h).
Proof.
  intros b h pre post H. pose proof (write_blob_len _ _ H) as Hlen.
  unfold write_blob in H. destruct b as [| x r] eqn:Eb; [discriminate H |]. rewrite <- Eb in *. clear Eb x r.
  apply bind_ok in H as (hd & Hhd & H). inv_ok H.
  pose proof (zlen_nonneg pre) as Hp. pose proof (zlen_nonneg b) as Hn. pose proof (zlen_nonneg post) as Hq.
  pose proof (Z.mod_pos_bound (- zlen b) 4 ltac:(lia)) as Hm.
  unfold get_blob. rewrite <- !app_assoc. rewrite (get_int_write _ _ _ _ Hhd). cbn [bind].
  pose proof (write_int_len _ _ Hhd) as Hh4.
  (* remaining length check *)
  rewrite slice_from_app.
  destruct (zlen (hd ++ b ++ zeros ((- zlen b) mod 4) ++ post) <? zlen pre + 4 + zlen b - zlen pre) eqn:G.
  { apply Z.ltb_lt in G. rewrite !zlen_app, Hh4, zlen_zeros in G by lia. lia. }
  (* the data *)
  rewrite (app_assoc pre hd). replace (zlen pre + 4) with (zlen (pre ++ hd)) by (rewrite zlen_app; lia).
  rewrite slice_app. f_equal. f_equal. rewrite zlen_app. lia.
Qed.
