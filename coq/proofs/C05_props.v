(* C05: the lemmas behind props/C05.v that need no scheduling invariant, and the refutations for the
   code as found (F20, F11). *)
From Coq Require Import ZArith QArith Qround List Bool Lia Lqa.
Require Import SC3.model.KProg SC3.model.KNrt SC3.model.KRt.
Require Import SC3.proofs.C05_frame SC3.proofs.C07_stamp SC3.proofs.C07_runs.
Import ListNotations.
Open Scope Q_scope.

Lemma nrt_elapsed_last qk p fuel :
  match last_resume_secs (n_log (nrt_run qk p fuel)) with
  | Some s => n_mtime (nrt_run qk p fuel) = s
  | None => n_mtime (nrt_run qk p fuel) = 0
  end.
Proof. exact (si_mtime _ _ (sinv_reach qk p fuel) eq_refl). Qed.

(* F20: a routine at logical time 1 plays a child on AppClock: the child starts at 0 *)
Definition f20_prog : prog :=
  mkProg [] [[Yield 1; Play 1 CApp; Yield (1#2)]; [Yield (1#4)]] [Play 0 CSystem] 0.
Definition resume_secs (log : list event) : list Q :=
  flat_map (fun ev => match ev with EvResume _ _ _ s _ => [s] | _ => [] end) (rev log).
Lemma f20_child_refuted :
  nrt_completed as_found f20_prog 10 = true /\
  In (EvPlay (Some (0, 1)%nat) 1 CApp 1) (n_log (nrt_run as_found f20_prog 10)) /\
  In (EvResume 1 0 CApp 0 0) (n_log (nrt_run as_found f20_prog 10)).
Proof. vm_compute. repeat split; tauto. Qed.
Lemma f20_monotone_refuted :
  nrt_completed as_found f20_prog 10 = true /\
  map Qred (resume_secs (n_log (nrt_run as_found f20_prog 10))) = [0; 1; 0; 1#4; 3#2].
Proof. vm_compute. split; reflexivity. Qed.

(* F11: TempoClock(1); routine 0 yields 1/2 beat; at 1/8 s another routine sets the tempo to 2:
   routine 0 resumes at beat 7/8 instead of 1/2 *)
Definition f11_prog : prog :=
  mkProg [1] [[Yield (1#2); Yield 0]; [Yield (1#8); SetTempo 0 2]] [Play 0 (CTempo 0); Play 1 CSystem] 0.
Lemma f11_refuted :
  nrt_completed as_found f11_prog 10 = true /\
  n_f11 (nrt_run as_found f11_prog 10) = true /\
  In (EvResume 0 0 (CTempo 0) 0 0) (n_log (nrt_run as_found f11_prog 10)) /\
  In (EvResume 0 1 (CTempo 0) (1#2) (7#8)) (n_log (nrt_run as_found f11_prog 10)) /\
  In (EvResume 0 1 (CTempo 0) (5#16) (1#2)) (n_log (nrt_run repaired f11_prog 10)).
Proof. vm_compute. repeat split; tauto. Qed.
