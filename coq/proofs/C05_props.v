(* C05: the lemmas behind props/C05.v that need no scheduling invariant, and the refutations for the
   code as found (F20, F11). *)
From Coq Require Import ZArith QArith Qround List Bool Lia Lqa.
Require Import SC3.model.KProg SC3.model.KNrt SC3.model.KRt.
Require Import SC3.proofs.C05_frame SC3.proofs.C07_stamp SC3.proofs.C07_runs.
Import ListNotations.
Open Scope Q_scope.

Lemma nrt_elapsed_last qk p fuel :
  match last_resume_secs (n_log (nrt_run qk p fuel)) with
  | Some s => n_mtime (nrt_run qk p fuel) = s
  | None => n_mtime (nrt_run qk p fuel) = 0
  end.
Proof. exact (si_mtime _ _ (sinv_reach qk p fuel) eq_refl). Qed.

(* F20: a routine at logical time 1 plays a child on AppClock: the child starts at 0 *)
Definition f20_prog : prog :=
  mkProg [] [[Yield 1; Play 1 CApp; Yield (1#2)]; [Yield (1#4)]] [Play 0 CSystem] 0.
Definition resume_secs (log : list event) : list Q :=
  flat_map (fun ev => match ev with EvResume _ _ _ s _ => [s] | _ => [] end) (rev log).
Lemma f20_child_refuted :
  nrt_completed as_found f20_prog 10 = true /\
  In (EvPlay (Some (0, 1)%nat) 1 CApp 1) (n_log (nrt_run as_found f20_prog 10)) /\
  In (EvResume 1 0 CApp 0 0) (n_log (nrt_run as_found f20_prog 10)).
Proof. vm_compute. repeat split; tauto. Qed.
Lemma f20_monotone_refuted :
  nrt_completed as_found f20_prog 10 = true /\
  map Qred (resume_secs (n_log (nrt_run as_found f20_prog 10))) = [0; 1; 0; 1#4; 3#2].
Proof. vm_compute. split; reflexivity. Qed.

(* F11: TempoClock(1); routine 0 yields 1/2 beat; at 1/8 s another routine sets the tempo to 2:
   routine 0 resumes at beat 7/8 instead of 1/2 *)
Definition f11_prog : prog :=
  mkProg [1] [[Yield (1#2); Yield 0]; [Yield (1#8); SetTempo 0 2]] [Play 0 (CTempo 0); Play 1 CSystem] 0.
Lemma f11_refuted :
  nrt_completed as_found f11_prog 10 = true /\
  n_f11 (nrt_run as_found f11_prog 10) = true /\
  In (EvResume 0 0 (CTempo 0) 0 0) (n_log (nrt_run as_found f11_prog 10)) /\
  In (EvResume 0 1 (CTempo 0) (1#2) (7#8)) (n_log (nrt_run as_found f11_prog 10)) /\
  In (EvResume 0 1 (CTempo 0) (5#16) (1#2)) (n_log (nrt_run repaired f11_prog 10)).
Proof. vm_compute. repeat split; tauto. Qed.

(* ---- one wake-up, any state: the re-scheduling law ------------------------------------------- *)
Definition wf_tc (t : tclock) : Prop := ~ t_tempo t == 0 /\ t_bdur t * t_tempo t == 1.
Definition wf_tcs (tcs : list tclock) : Prop := Forall wf_tc tcs.

Lemma tc_roundtrip_b t b : wf_tc t -> tc_s2b t (tc_b2s t b) == b.
Proof.
  intros [_ H]. unfold tc_s2b, tc_b2s.
  setoid_replace ((b - t_bbeats t) * t_bdur t + t_bsecs t - t_bsecs t) with ((b - t_bbeats t) * t_bdur t) by ring.
  setoid_replace ((b - t_bbeats t) * t_bdur t * t_tempo t) with ((b - t_bbeats t) * (t_bdur t * t_tempo t)) by ring.
  rewrite H. ring.
Qed.
Lemma tc_roundtrip_s t s : wf_tc t -> tc_b2s t (tc_s2b t s) == s.
Proof.
  intros [_ H]. unfold tc_s2b, tc_b2s.
  setoid_replace ((s - t_bsecs t) * t_tempo t + t_bbeats t - t_bbeats t) with ((s - t_bsecs t) * t_tempo t) by ring.
  setoid_replace ((s - t_bsecs t) * t_tempo t * t_bdur t) with ((s - t_bsecs t) * (t_bdur t * t_tempo t)) by ring.
  rewrite H. ring.
Qed.
Lemma s2b_b2s tcs c b : wf_tcs tcs -> s2b tcs c (b2s tcs c b) == b.
Proof.
  intros W. destruct c as [| |i]; simpl; try reflexivity.
  destruct (nth_error tcs i) as [t|] eqn:E; [|reflexivity].
  apply tc_roundtrip_b. unfold wf_tcs in W. rewrite Forall_forall in W. apply W. eapply nth_error_In; eauto.
Qed.
Lemma b2s_s2b tcs c s : wf_tcs tcs -> b2s tcs c (s2b tcs c s) == s.
Proof.
  intros W. destruct c as [| |i]; simpl; try reflexivity.
  destruct (nth_error tcs i) as [t|] eqn:E; [|reflexivity].
  apply tc_roundtrip_s. unfold wf_tcs in W. rewrite Forall_forall in W. apply W. eapply nth_error_In; eauto.
Qed.
Lemma s2b_comp tcs c x y : x == y -> s2b tcs c x == s2b tcs c y.
Proof.
  intros H. destruct c as [| |i]; simpl; auto. destruct (nth_error tcs i); auto. unfold tc_s2b. rewrite H. reflexivity.
Qed.
Lemma tc_new_wf tempo now : wf_tc (tc_new tempo now).
Proof.
  unfold tc_new, wf_tc. simpl. destruct (Qeq_bool tempo 0) eqn:E; simpl.
  - split; [discriminate|reflexivity].
  - assert (~ tempo == 0) by (intros G; apply Qeq_bool_iff in G; congruence). split; auto. field. auto.
Qed.

(* RT: the wake-up of a task does not even take the physical time as an argument; the routine
   observes T = beats2secs(key), clock.beats = key, and if it yields d it is queued at key + d. *)
Lemma rt_wake_observes off p st e r :
  nth_error (n_routs st) (e_rid e) = Some r -> wf_tcs (n_tcs st) ->
  exists beats, In (EvResume (e_rid e) (r_k r) (e_clock e) (Qred (b2s (n_tcs st) (e_clock e) (e_time e))) beats)
                   (n_log (rt_wake off p st e))
                /\ beats == e_time e.
Proof.
  intros Hr W. unfold rt_wake. rewrite Hr.
  set (T := Qred (b2s (n_tcs st) (e_clock e) (e_time e))).
  set (beats := Qred (s2b (n_tcs (set_mtime st T)) (e_clock e) T)).
  set (st1 := add_log (set_mtime st T) (EvResume (e_rid e) (r_k r) (e_clock e) T beats)).
  destruct (run_acts (Some off) repaired p st1 (Some (e_rid e, r_k r)) T (e_clock e) (r_rest r)) as [st2 oc] eqn:E.
  pose proof (run_acts_log_ext _ _ _ _ _ _ _ _ _ _ E) as (new & Hlog & _).
  exists beats. split.
  - assert (Hin : In (EvResume (e_rid e) (r_k r) (e_clock e) T beats) (n_log st2)).
    { rewrite Hlog. apply in_or_app. right. simpl. auto. }
    destruct oc; simpl; auto.
  - unfold beats. rewrite Qred_correct. simpl n_tcs. unfold T.
    rewrite (s2b_comp _ _ _ _ (Qred_correct _)). apply s2b_b2s. exact W.
Qed.

Lemma rt_wake_resched off p st e r st2 d rest :
  nth_error (n_routs st) (e_rid e) = Some r ->
  let T := Qred (b2s (n_tcs st) (e_clock e) (e_time e)) in
  run_acts (Some off) repaired p
    (add_log (set_mtime st T) (EvResume (e_rid e) (r_k r) (e_clock e) T (Qred (s2b (n_tcs st) (e_clock e) T))))
    (Some (e_rid e, r_k r)) T (e_clock e) (r_rest r) = (st2, OYield d rest) ->
  yields (r_rest r) = d :: yields rest /\
  exists e', In e' (n_q (rt_wake off p st e)) /\ e_rid e' = e_rid e /\ e_clock e' = e_clock e /\
             e_time e' == e_time e + d.
Proof.
  intros Hr T E. split; [apply (run_acts_yield _ _ _ _ _ _ _ _ _ _ _ E)|].
  unfold rt_wake. rewrite Hr. fold T. simpl n_tcs. rewrite E.
  eexists. split; [unfold push; cbn [n_q]; apply kinsert_in; left; reflexivity|].
  split; [reflexivity|]. split; [reflexivity|]. cbn [e_time]. apply Qred_correct.
Qed.

(* NRT counterpart: the routine observes the time of its ClockTask and, if it yields d, is queued
   at beats2secs(beats + d) under the tempo map of that moment *)
Lemma nrt_wake_resched qk p st e r st2 d rest :
  nth_error (n_routs st) (e_rid e) = Some r ->
  let T := e_time e in
  let beats := Qred (s2b (n_tcs st) (e_clock e) T) in
  run_acts None qk p (add_log (set_mtime st T) (EvResume (e_rid e) (r_k r) (e_clock e) T beats))
    (Some (e_rid e, r_k r)) T (e_clock e) (r_rest r) = (st2, OYield d rest) ->
  yields (r_rest r) = d :: yields rest /\
  exists e', In e' (n_q (nrt_wake qk p st e)) /\ e_rid e' = e_rid e /\ e_clock e' = e_clock e /\
             e_beats e' == beats + d /\ e_time e' == b2s (n_tcs st2) (e_clock e) (beats + d).
Proof.
  intros Hr T beats E. split; [apply (run_acts_yield _ _ _ _ _ _ _ _ _ _ _ E)|].
  unfold nrt_wake. simpl n_routs. rewrite Hr. simpl n_tcs. fold T. fold beats. rewrite E.
  eexists. split; [unfold push; cbn [n_q]; apply kinsert_in; left; reflexivity|].
  split; [reflexivity|]. split; [reflexivity|]. cbn [e_time e_beats]. split; apply Qred_correct.
Qed.

Lemma b2s_comp tcs c x y : x == y -> b2s tcs c x == b2s tcs c y.
Proof.
  intros H. destruct c as [| |i]; simpl; auto. destruct (nth_error tcs i); auto. unfold tc_b2s. rewrite H. reflexivity.
Qed.
(* play(): the new task is due at the caller's logical time T, on any clock *)
Lemma play_due_at_parent_time qk st T c rid : qk_app_abs qk = false -> wf_tcs (n_tcs st) ->
  exists e, In e (n_q (nrt_sched_play None qk st T c rid)) /\ e_rid e = rid /\ e_clock e = c /\ e_time e == T.
Proof.
  intros Hq W. unfold nrt_sched_play. rewrite Hq.
  eexists. split; [unfold push; cbn [n_q]; apply kinsert_in; left; reflexivity|].
  split; [reflexivity|]. split; [reflexivity|]. cbn [e_time]. rewrite Qred_correct.
  destruct c as [| |i].
  - simpl. ring.
  - simpl. ring.
  - assert (E : s2b (n_tcs st) (CTempo i) T + 0 == s2b (n_tcs st) (CTempo i) T) by ring.
    rewrite (b2s_comp _ _ _ _ E). apply b2s_s2b. exact W.
Qed.
Lemma play_due_at_parent_time_rt off st T c rid : c <> CApp -> wf_tcs (n_tcs st) ->
  exists e, In e (n_q (nrt_sched_play (Some off) repaired st T c rid)) /\ e_rid e = rid /\ e_clock e = c /\
            b2s (n_tcs st) c (e_time e) == T.
Proof.
  intros Hc W. unfold nrt_sched_play.
  eexists. split; [unfold push; cbn [n_q]; apply kinsert_in; left; reflexivity|].
  split; [reflexivity|]. split; [reflexivity|]. cbn [e_time].
  destruct c as [| |i]; [|congruence|].
  - unfold b2s. rewrite Qred_correct. ring.
  - assert (E : Qred (s2b (n_tcs st) (CTempo i) T + 0) == s2b (n_tcs st) (CTempo i) T) by (rewrite Qred_correct; ring).
    rewrite (b2s_comp _ _ _ _ E). apply b2s_s2b. exact W.
Qed.
