(* C02 -- resolved variants carry exactly one value per control slot and a name of at most 32 bytes *)
From Coq Require Import ZArith List Bool Lia ZifyBool.
Import ListNotations.
Require Import SC3.model.Scgf SC3.proofs.C02_scgf.
Open Scope Z_scope.

Lemma set_from_cons : forall l i v vals,
  set_from l i (v :: vals) =
  if (0 <=? i) && (i <? zlen l)
  then set_from (firstn (Z.to_nat i) l ++ v :: skipn (S (Z.to_nat i)) l) (i + 1) vals
  else None.
Proof. reflexivity. Qed.

Lemma set_from_length : forall vals l i l', set_from l i vals = Some l' -> List.length l' = List.length l.
Proof.
  intros vals; induction vals as [|v vals IH]; intros l i l' H.
  - simpl in H. inversion H; reflexivity.
  - rewrite set_from_cons in H. destruct ((0 <=? i) && (i <? zlen l)) eqn:C; [|discriminate].
    apply IH in H. rewrite H. rewrite app_length, firstn_length. cbn [List.length]. rewrite skipn_length.
    unfold zlen in C. lia.
Qed.

Lemma apply_pairs_length : forall names pairs ctl ctl', apply_pairs names ctl pairs = Some ctl' ->
  List.length ctl' = List.length ctl.
Proof.
  intros names pairs; induction pairs as [|[cn vals] r IH]; intros ctl ctl' H; simpl in H.
  - inversion H; reflexivity.
  - destruct (lookup_last names cn None) as [[i ch]|]; [|discriminate].
    destruct (zlen vals <=? ch); [|discriminate].
    destruct (set_from ctl i vals) as [c1|] eqn:E; [|discriminate].
    apply IH in H. apply set_from_length in E. lia.
Qed.

Lemma resolve_variants_shape : forall name ctl names src,
  (List.length (resolve_variants name ctl names src) <= List.length src)%nat
  /\ forall v, In v (resolve_variants name ctl names src) ->
       List.length (v_vals v) = List.length ctl /\ zlen (v_name v) <= 32
       /\ exists key, v_name v = name ++ 46 :: key.
Proof.
  intros name ctl names src; induction src as [|[key pairs] r IH]; simpl.
  - split; [lia | intros v []].
  - destruct IH as [I1 I2].
    destruct (zlen (name ++ 46 :: key) <=? 32) eqn:L; [|split; [simpl; lia | intros v []]].
    destruct (apply_pairs names ctl pairs) as [vals|] eqn:E; [|split; [simpl; lia | intros v []]].
    split; [simpl; lia|].
    intros v [Hv|Hv].
    + subst v. simpl. split; [apply apply_pairs_length in E; exact E|]. split; [lia | exists key; reflexivity].
    + apply I2; exact Hv.
Qed.

(* when every variant is valid nothing is dropped *)
Lemma resolve_variants_all : forall name ctl names src,
  forallb (fun kp => (zlen (name ++ 46 :: fst kp) <=? 32)
                     && match apply_pairs names ctl (snd kp) with Some _ => true | None => false end) src = true ->
  List.length (resolve_variants name ctl names src) = List.length src.
Proof.
  intros name ctl names src; induction src as [|[key pairs] r IH]; intros H; simpl in *; [reflexivity|].
  apply andb_true_iff in H. destruct H as [H1 H2]. apply andb_true_iff in H1. destruct H1 as [L A].
  rewrite L. destruct (apply_pairs names ctl pairs); [|discriminate]. simpl. rewrite IH by exact H2. reflexivity.
Qed.
