(* C11 -- the statements of props/C11.v, assembled from C11_stack / C11_machine / C11_cond,
   and the refutations of the same statements on the model of the code as released. *)
From Coq Require Import ZArith List Bool Arith Lia.
Require Import SC3.model.Cond SC3.model.Routine.
Require Import SC3.proofs.C11_stack SC3.proofs.C11_machine SC3.proofs.C11_cond.
Import ListNotations.

Lemma routine_transitions_l : forall defs fuel r v w x, good w -> getr w r = Some x ->
  (st x = Paused -> next_ patched defs (S fuel) r v w = (w, Exc EPausedStream)) /\
  (st x = Done -> next_ patched defs (S fuel) r v w
                  = (w, match term x with None => Exc EStopStream | Some t => Ret t end)) /\
  (st x = Running -> next_ patched defs (S fuel) r v w = (w, Exc ERoutine)) /\
  (st x = Init \/ st x = Suspended -> nth_error defs r <> None ->
     exists x', getr (fst (next_ patched defs (S fuel) r v w)) r = Some x' /\
                out_rel (snd (next_ patched defs (S fuel) r v w)) x') /\
  (st x = Running -> do_stop r w = (w, Exc ERoutine)) /\
  (st x <> Running -> do_stop r w = (set_rt r (with_st Done (with_lastv VNone (with_iter None x))) w, Ret VNone)) /\
  (st x = Running -> do_reset patched r w = (w, Exc ERoutine)) /\
  (st x <> Running -> do_reset patched r w
                      = (set_rt r (with_term None (with_st Init (with_iter None x))) w, Ret VNone)) /\
  (st x = Running -> do_pause r w = (w, Exc ERoutine)) /\
  (st x = Init \/ st x = Suspended -> do_pause r w = (set_rt r (with_st Paused x) w, Ret VNone)) /\
  (st x = Paused \/ st x = Done -> do_pause r w = (w, Ret VNone)) /\
  (st x = Paused -> do_resume r w = sched_all [r] (set_rt r (with_st Suspended x) w)) /\
  (st x <> Paused -> do_resume r w = (w, Ret VNone)) /\
  (st x = Init \/ st x = Paused -> do_play r w = sched_all [r] (set_rt r (with_st Suspended x) w)) /\
  (st x <> Init -> st x <> Paused -> do_play r w = (w, Ret VNone)).
Proof.
  intros defs fuel r v w x G E.
  destruct (stop_table r w x E) as [S1 S2]. destruct (reset_table r w x E) as [R1 R2].
  destruct (pause_table r w x E) as (P1 & P2 & P3). destruct (resume_table r w x E) as [U1 U2].
  destruct (play_table r w x E) as [Y1 Y2].
  repeat match goal with |- _ /\ _ => split end; auto.
  - intro. eapply next_paused; eauto.
  - intro. eapply next_done; eauto.
  - intro. eapply next_running; eauto.
  - intros. eapply next_runs; eauto.
Qed.

(* a next() that raised anything but PausedStream leaves a routine whose later next() raise StopStream *)
Lemma raised_then_stopstream_l : forall defs fuel fuel' r v v' w x e,
  good w -> getr w r = Some x -> st x <> Running -> nth_error defs r <> None ->
  snd (next_ patched defs (S fuel) r v w) = Exc e -> e <> EPausedStream ->
  snd (next_ patched defs (S fuel') r v' (fst (next_ patched defs (S fuel) r v w))) = Exc EStopStream.
Proof.
  intros defs fuel fuel' r v v' w x e G E NR D O NP.
  destruct (st x) eqn:SX; try congruence.
  - destruct (next_runs defs fuel r v w x G E (or_introl SX) D) as (x' & E' & OR).
    rewrite O in OR. destruct OR as [SD TN]. rewrite (next_done defs fuel' r v' _ x' E' SD), TN. reflexivity.
  - destruct (next_runs defs fuel r v w x G E (or_intror SX) D) as (x' & E' & OR).
    rewrite O in OR. destruct OR as [SD TN]. rewrite (next_done defs fuel' r v' _ x' E' SD), TN. reflexivity.
  - rewrite (next_paused defs fuel r v w x E SX) in O. cbn [snd] in O. congruence.
  - rewrite (next_done defs fuel r v w x E SX) in *. cbn [fst snd] in *.
    destruct (term x) eqn:TX; [discriminate |].
    rewrite (next_done defs fuel' r v' w x E SX), TX. reflexivity.
Qed.

Lemma done_absorbing_l : forall defs r t fuel ops w,
  (forall i d, nth_error defs i = Some d -> acts_allowed (not_reset r) (d_script d)) ->
  forallb (op_allowed (not_reset r)) ops = true ->
  holds r (P_done t) w ->
  holds r (P_done t) (fst (run patched defs fuel ops w)) /\
  Forall (fun p => holds r (P_done t) (snd p)) (snd (run patched defs fuel ops w)) /\
  forall fuel' v, next_ patched defs (S fuel') r v (fst (run patched defs fuel ops w))
                  = (fst (run patched defs fuel ops w), match t with None => Exc EStopStream | Some u => Ret u end).
Proof.
  intros defs r t fuel ops w SA OA Hw.
  destruct (run_stab defs r (P_done t) (not_reset r)
              (fun x P => or_intror (proj1 P)) (done_direct r t) SA fuel ops w OA Hw) as [H1 H2].
  split; [exact H1 | split; [exact H2 |]].
  intros fuel' v. destruct H1 as (x & E & [SD TT]). rewrite (next_done defs fuel' r v _ x E SD), TT. reflexivity.
Qed.

Lemma paused_until_resume_l : forall defs r fuel ops w,
  (forall i d, nth_error defs i = Some d -> acts_allowed (not_unpause r) (d_script d)) ->
  forallb (op_allowed (not_unpause r)) ops = true ->
  holds r P_paused w ->
  holds r P_paused (fst (run patched defs fuel ops w)) /\
  Forall (fun p => holds r P_paused (snd p)) (snd (run patched defs fuel ops w)) /\
  forall fuel' v, next_ patched defs (S fuel') r v (fst (run patched defs fuel ops w))
                  = (fst (run patched defs fuel ops w), Exc EPausedStream).
Proof.
  intros defs r fuel ops w SA OA Hw.
  destruct (run_stab defs r P_paused (not_unpause r)
              (fun x P => or_introl P) (paused_direct r) SA fuel ops w OA Hw) as [H1 H2].
  split; [exact H1 | split; [exact H2 |]].
  intros fuel' v. destruct H1 as (x & E & SP). exact (next_paused defs fuel' r v _ x E SP).
Qed.

Lemma self_refused_l : forall defs fuel r v w x, getr w r = Some x -> st x = Running ->
  do_stop r w = (w, Exc ERoutine) /\ do_pause r w = (w, Exc ERoutine) /\
  do_reset patched r w = (w, Exc ERoutine) /\ next_ patched defs (S fuel) r v w = (w, Exc ERoutine).
Proof.
  intros defs fuel r v w x E SX.
  split; [apply (stop_table r w x E); exact SX |].
  split; [apply (pause_table r w x E); exact SX |].
  split; [apply (reset_table r w x E); exact SX | eapply next_running; eauto].
Qed.

(* whatever the program and the history: every body always saw itself current and Running, and
   every stop/pause/reset/next it aimed at itself was refused *)
Lemma bodies_see_refusal_l : forall defs cs fuel ops,
  Forall logok (log (fst (run patched defs fuel ops (init_world defs cs)))).
Proof.
  intros defs cs fuel ops.
  destruct (run_ok defs fuel ops (init_world defs cs) (init_quiescent defs cs)) as [(G & _) _].
  exact (proj2 G).
Qed.

Definition restored (w : world) : Prop :=
  cur w = Some Main /\ poison w = false /\
  forall i x, getr w i = Some x -> st x <> Running /\ parent x = None /\ gexec x = false.

Lemma quiescent_restored : forall w, quiescent w -> restored w.
Proof.
  intros w (((V & W & P) & L) & C & N). split; [exact C | split; [exact P |]].
  intros i x E. pose proof (N i x E) as NR. destruct (W i x E) as [A _]. destruct (A NR). auto.
Qed.

Lemma thread_stack_restored_l : forall defs cs fuel ops,
  restored (fst (run patched defs fuel ops (init_world defs cs))) /\
  Forall (fun p => restored (snd p)) (snd (run patched defs fuel ops (init_world defs cs))).
Proof.
  intros defs cs fuel ops.
  destruct (run_ok defs fuel ops (init_world defs cs) (init_quiescent defs cs)) as [Q F].
  split; [apply quiescent_restored; exact Q |].
  eapply Forall_impl; [| exact F]. intros p Qp. apply quiescent_restored. exact Qp.
Qed.

Lemma thread_stack_restored_step_l : forall defs fuel op w, quiescent w ->
  quiescent (fst (top patched defs fuel op w)) /\
  (op <> OTick -> main_secs (fst (top patched defs fuel op w)) = main_secs w).
Proof. intros. apply top_ok. assumption. Qed.

(* ---- conditions: the interpreter's signal / unhang / value= are the cell machine plus the queue *)
Lemma do_signal_spec : forall c w x t, nth_error (cells w) c = Some x -> cell_err x = None -> cur_secs w = Some t ->
  (cell_test x = true ->
     fst (do_signal c w) = set_queue (enqueue_all t (waiting x) (queue w)) (set_cell c (mkCell (ckind_of x) []) w)
     \/ (waiting x = [] /\ fst (do_signal c w) = set_cell c (mkCell (ckind_of x) []) w)) /\
  (cell_test x = false -> fst (do_signal c w) = set_cell c x w /\ queue (fst (do_signal c w)) = queue w).
Proof.
  intros c w x t E NE C. unfold do_signal. rewrite E, NE. unfold cell_signal. split; intro T; rewrite T.
  - unfold sched_all. destruct (waiting x) eqn:Wx.
    + right. split; reflexivity.
    + left. change (cur_secs (set_cell c (mkCell (ckind_of x) []) w)) with (cur_secs w). rewrite C. reflexivity.
  - simpl. split; reflexivity.
Qed.

(* ---- refutations on the model of the code as released ([unpatched]) -------------------- *)
Definition reentrant_def : list rdef :=
  [mkDef Gen false [ACall (CNext 0 VNone) true; ACall (CStop 0) true; AYield (VInt 1)]].

Lemma thread_stack_restored_refuted_unpatched_l :
  exists defs ops, cur (fst (run unpatched defs 10 ops (init_world defs []))) <> Some Main.
Proof. exists reentrant_def, [OCall (CNext 0 VNone)]. vm_compute. discriminate. Qed.

Lemma self_refused_refuted_unpatched_l :
  exists defs ops, In (0%nat, EvCall (CStop 0) (Ret VNone)) (log (fst (run unpatched defs 10 ops (init_world defs [])))).
Proof. exists reentrant_def, [OCall (CNext 0 VNone)]. vm_compute. auto. Qed.

Definition stale_defs : list rdef :=
  [mkDef Gen false [ACall (CNext 1 VNone) false; AAlwaysYield (VInt 5)]; mkDef Gen false [AYield (VInt 0)]].
Definition stale_ops : list top_op :=
  [OCall (CNext 0 VNone); OCall (CReset 0); OCall (CNext 0 VNone); OCall (CNext 0 VNone)].

Lemma raised_then_stopstream_refuted_unpatched_l :
  map fst (snd (run unpatched stale_defs 10 stale_ops (init_world stale_defs [])))
  = [Ret (VInt 5); Ret VNone; Exc ERuntime; Ret (VInt 5)].
Proof. vm_compute. reflexivity. Qed.

Lemma same_histories_patched_l :
  cur (fst (run patched reentrant_def 10 [OCall (CNext 0 VNone)] (init_world reentrant_def []))) = Some Main /\
  map fst (snd (run patched stale_defs 10 stale_ops (init_world stale_defs [])))
  = [Ret (VInt 5); Ret VNone; Exc ERuntime; Exc EStopStream].
Proof. vm_compute. split; reflexivity. Qed.

(* ---- which routine a wait registers: the thread player = the outermost routine on the parent
   chain of the current thread (TimeThread.thread_player with no override) ------------------- *)
Inductive anc (w : world) : nat -> nat -> Prop :=   (* anc w p t: p is t or an ancestor of t *)
| anc_refl : forall t, anc w t t
| anc_step : forall t q x p, nth_error (rts w) t = Some x -> parent x = Some (R q) -> anc w p q -> anc w p t.

Lemma tplayer_spec : forall n w t p, tplayer n w t = Some p ->
  anc w p t /\ (forall x q, nth_error (rts w) p = Some x -> parent x <> Some (R q)).
Proof.
  induction n as [| n IH]; intros w t p H; simpl in H; [discriminate |].
  destruct (nth_error (rts w) t) as [x |] eqn:E.
  - destruct (parent x) as [[| q] |] eqn:PA.
    + inversion H; subst p. split; [apply anc_refl |]. intros y q Y. rewrite E in Y. inversion Y; subst y. congruence.
    + destruct (IH w q p H) as [A B]. split; [eapply anc_step; eauto | exact B].
    + inversion H; subst p. split; [apply anc_refl |]. intros y q Y. rewrite E in Y. inversion Y; subst y. congruence.
  - inversion H; subst p. split; [apply anc_refl |]. intros y q Y. congruence.
Qed.

Lemma wait_registers_thread_player_l : forall c w x t p,
  nth_error (cells w) c = Some x -> cur w = Some (R t) -> cell_err x = None -> cell_test x = false ->
  tplayer (S (length (rts w))) w t = Some p ->
  fst (fst (do_wait c w)) = set_cell c (mkCell (ckind_of x) (waiting x ++ [p])) w /\
  snd (fst (do_wait c w)) = Some VHang /\
  anc w p t /\ (forall y q, nth_error (rts w) p = Some y -> parent y <> Some (R q)).
Proof.
  intros c w x t p E C NE T TP. unfold do_wait. rewrite E, C, NE, T, TP. unfold cell_wait. rewrite T.
  split; [reflexivity | split; [reflexivity | apply tplayer_spec with (n := S (length (rts w))); exact TP]].
Qed.

(* a wait three levels below the routine woken by the clock registers that routine, not a relay *)
Definition chain_defs : list rdef :=
  [mkDef Gen false [ARelay 1 VNone; ALog (VStr 9); AYield (VStr 0)];
   mkDef Gen false [ARelay 2 VNone; AYield (VStr 1)];
   mkDef Gen false [ARelay 3 VNone; AYield (VStr 2)];
   mkDef Gen false [AWait 0; AYield (VStr 3)]].

Lemma chain_example_l :
  let r := run patched chain_defs 10 [OCall (CPlay 0); OTick; OCall (CUnhang 0); OTick; OTick]
               (init_world chain_defs [CCond false]) in
  map (fun p => (fst p, map waiting (cells (snd p)), queue (snd p))) (snd r)
  = [(Ret VNone, [[]], [(0%Z, 0%nat)]); (Ret VHang, [[0%nat]], []); (Ret VNone, [[]], [(0%Z, 0%nat)]);
     (Ret (VStr 0), [[]], []); (Ret VNone, [[]], [])].
Proof. vm_compute. reflexivity. Qed.
