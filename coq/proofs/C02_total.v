(* C02 -- the parser never runs out of fuel: with fuel S (length of the remaining input) at every
   counted list, parse_def returns Ok or a genuine format error on EVERY byte list *)
From Coq Require Import ZArith List Bool Lia ZifyBool.
Import ListNotations.
Require Import SC3.model.Scgf SC3.proofs.C02_scgf.
Open Scope Z_scope.

Definition lt_p {A} (p : parser A) : Prop :=
  forall bs a r, p bs = Ok (a, r) -> (List.length r < List.length bs)%nat.
Definition le_p {A} (p : parser A) : Prop :=
  forall bs a r, p bs = Ok (a, r) -> (List.length r <= List.length bs)%nat.
Definition nf {A} (p : parser A) : Prop := forall bs, p bs <> Err OutOfFuel.

Lemma lt_le : forall {A} (p : parser A), lt_p p -> le_p p.
Proof. intros A p H bs a r Hp. specialize (H bs a r Hp). lia. Qed.

Lemma bind_lt_le : forall {A B} (p : parser A) (f : A -> parser B),
  lt_p p -> (forall a, le_p (f a)) -> lt_p (pbind p f).
Proof.
  intros A B p f Hp Hf bs b r H. unfold pbind in H. destruct (p bs) as [[a r1]|e] eqn:E; [|discriminate].
  specialize (Hp _ _ _ E). specialize (Hf a _ _ _ H). lia.
Qed.
Lemma bind_le_lt : forall {A B} (p : parser A) (f : A -> parser B),
  le_p p -> (forall a, lt_p (f a)) -> lt_p (pbind p f).
Proof.
  intros A B p f Hp Hf bs b r H. unfold pbind in H. destruct (p bs) as [[a r1]|e] eqn:E; [|discriminate].
  specialize (Hp _ _ _ E). specialize (Hf a _ _ _ H). lia.
Qed.
Lemma bind_le_le : forall {A B} (p : parser A) (f : A -> parser B),
  le_p p -> (forall a, le_p (f a)) -> le_p (pbind p f).
Proof.
  intros A B p f Hp Hf bs b r H. unfold pbind in H. destruct (p bs) as [[a r1]|e] eqn:E; [|discriminate].
  specialize (Hp _ _ _ E). specialize (Hf a _ _ _ H). lia.
Qed.
Lemma bind_nf : forall {A B} (p : parser A) (f : A -> parser B),
  nf p -> (forall a, nf (f a)) -> nf (pbind p f).
Proof.
  intros A B p f Hp Hf bs H. unfold pbind in H. destruct (p bs) as [[a r1]|e] eqn:E.
  - exact (Hf a r1 H).
  - inversion H; subst. exact (Hp bs E).
Qed.

Lemma pret_le : forall {A} (a : A), le_p (pret a).
Proof. intros A a bs x r H. inversion H; subst. lia. Qed.
Lemma pret_nf : forall {A} (a : A), nf (pret a).
Proof. intros A a bs H. discriminate. Qed.
Lemma pfail_le : forall {A} e, le_p (@pfail A e).
Proof. intros A e bs x r H. discriminate. Qed.
Lemma pfail_lt : forall {A} e, lt_p (@pfail A e).
Proof. intros A e bs x r H. discriminate. Qed.
Lemma pfail_nf : forall {A} e, e <> OutOfFuel -> nf (@pfail A e).
Proof. intros A e He bs H. inversion H. contradiction. Qed.

Lemma u8_lt : lt_p rd_u8.
Proof. intros [|b bs] a r H; [discriminate|]. inversion H; subst. simpl. lia. Qed.
Lemma u8_nf : nf rd_u8.
Proof. intros [|b bs] H; discriminate. Qed.

Lemma i8_lt : lt_p rd_i8.
Proof. apply bind_lt_le; [apply u8_lt | intros; apply pret_le]. Qed.
Lemma i8_nf : nf rd_i8.
Proof. apply bind_nf; [apply u8_nf | intros; apply pret_nf]. Qed.
Lemma u16_lt : lt_p rd_u16.
Proof. apply bind_lt_le; [apply u8_lt|]. intros a. apply bind_le_le; [apply lt_le, u8_lt | intros; apply pret_le]. Qed.
Lemma u16_nf : nf rd_u16.
Proof. apply bind_nf; [apply u8_nf|]. intros a. apply bind_nf; [apply u8_nf | intros; apply pret_nf]. Qed.
Lemma i16_lt : lt_p rd_i16.
Proof. apply bind_lt_le; [apply u16_lt | intros; apply pret_le]. Qed.
Lemma i16_nf : nf rd_i16.
Proof. apply bind_nf; [apply u16_nf | intros; apply pret_nf]. Qed.
Lemma w32_lt : lt_p rd_w32.
Proof. apply bind_lt_le; [apply u16_lt|]. intros a. apply bind_le_le; [apply lt_le, u16_lt | intros; apply pret_le]. Qed.
Lemma w32_nf : nf rd_w32.
Proof. apply bind_nf; [apply u16_nf|]. intros a. apply bind_nf; [apply u16_nf | intros; apply pret_nf]. Qed.
Lemma i32_lt : lt_p rd_i32.
Proof. apply bind_lt_le; [apply w32_lt | intros; apply pret_le]. Qed.
Lemma i32_nf : nf rd_i32.
Proof. apply bind_nf; [apply w32_nf | intros; apply pret_nf]. Qed.

Lemma take_le : forall n, le_p (rd_take n).
Proof.
  intros n bs a r H. unfold rd_take in H. destruct (Nat.leb n (List.length bs)); [|discriminate].
  inversion H; subst. rewrite skipn_length. lia.
Qed.
Lemma take_nf : forall n, nf (rd_take n).
Proof. intros n bs H. unfold rd_take in H. destruct (Nat.leb n (List.length bs)); discriminate. Qed.

Lemma pstr_lt : lt_p rd_pstr.
Proof. apply bind_lt_le; [apply u8_lt | intros; apply take_le]. Qed.
Lemma pstr_nf : nf rd_pstr.
Proof. apply bind_nf; [apply u8_nf | intros; apply take_nf]. Qed.

Lemma rep_le : forall {A} (rd : parser A), le_p rd -> forall fuel n, le_p (rep fuel rd n).
Proof.
  intros A rd Hrd fuel. induction fuel as [|f IH]; intros n bs l r H.
  - simpl in H. destruct (n <=? 0); [|discriminate]. inversion H; subst. lia.
  - rewrite rep_S in H. destruct (n <=? 0); [inversion H; subst; lia|].
    destruct (rd bs) as [[a r1]|e] eqn:E; [|discriminate].
    destruct (rep f rd (n - 1) r1) as [[l1 r2]|e] eqn:E2; [|discriminate].
    inversion H; subst. specialize (Hrd _ _ _ E). specialize (IH _ _ _ _ E2). lia.
Qed.

(* the fuel bound: more fuel than remaining bytes is always enough *)
Lemma rep_nf : forall {A} (rd : parser A), lt_p rd -> nf rd ->
  forall fuel n bs, (List.length bs < fuel)%nat -> rep fuel rd n bs <> Err OutOfFuel.
Proof.
  intros A rd Hlt Hnf fuel. induction fuel as [|f IH]; intros n bs Hf H; [lia|].
  rewrite rep_S in H. destruct (n <=? 0); [discriminate|].
  destruct (rd bs) as [[a r1]|e] eqn:E.
  - specialize (Hlt _ _ _ E).
    destruct (rep f rd (n - 1) r1) as [[l1 r2]|e] eqn:E2; [discriminate|].
    inversion H; subst. apply (IH (n - 1) r1); [lia | exact E2].
  - inversion H; subst. exact (Hnf bs E).
Qed.

Lemma counted_le : forall {A} (rc : parser Z) (rd : parser A), le_p rc -> le_p rd -> le_p (rd_counted rc rd).
Proof.
  intros A rc rd Hc Hrd bs l r H. unfold rd_counted in H.
  destruct (rc bs) as [[n r1]|e] eqn:E; [|discriminate]. destruct (n <? 0); [discriminate|].
  specialize (Hc _ _ _ E). pose proof (rep_le rd Hrd _ _ _ _ _ H). lia.
Qed.
Lemma counted_lt : forall {A} (rc : parser Z) (rd : parser A), lt_p rc -> le_p rd -> lt_p (rd_counted rc rd).
Proof.
  intros A rc rd Hc Hrd bs l r H. unfold rd_counted in H.
  destruct (rc bs) as [[n r1]|e] eqn:E; [|discriminate]. destruct (n <? 0); [discriminate|].
  specialize (Hc _ _ _ E). pose proof (rep_le rd Hrd _ _ _ _ _ H). lia.
Qed.
Lemma counted_nf : forall {A} (rc : parser Z) (rd : parser A), nf rc -> lt_p rd -> nf rd -> nf (rd_counted rc rd).
Proof.
  intros A rc rd Hc Hlt Hnf bs H. unfold rd_counted in H.
  destruct (rc bs) as [[n r1]|e] eqn:E.
  - destruct (n <? 0); [discriminate|]. apply (rep_nf rd Hlt Hnf _ _ _ (Nat.lt_succ_diag_r _) H).
  - inversion H; subst. exact (Hc bs E).
Qed.

Lemma inp_lt : lt_p rd_inp.
Proof.
  apply bind_lt_le; [apply i32_lt|]. intros a. apply bind_le_le; [apply lt_le, i32_lt|]. intros b.
  destruct (a =? -1); [apply pret_le|]. destruct (a <? 0); [apply pfail_le | apply pret_le].
Qed.
Lemma inp_nf : nf rd_inp.
Proof.
  apply bind_nf; [apply i32_nf|]. intros a. apply bind_nf; [apply i32_nf|]. intros b.
  destruct (a =? -1); [apply pret_nf|]. destruct (a <? 0); [apply pfail_nf; discriminate | apply pret_nf].
Qed.

Lemma ugen_tail_le : forall cls rate ni no sp,
  le_p (fun bs => match rep (S (List.length bs)) rd_inp ni bs with
                  | Err e => Err e
                  | Ok (ins, r) => match rep (S (List.length r)) rd_i8 no r with
                                   | Err e => Err e
                                   | Ok (outs, r') => Ok (mkUgen cls rate ins outs sp, r')
                                   end
                  end).
Proof.
  intros cls rate ni no sp bs u r H.
  destruct (rep (S (List.length bs)) rd_inp ni bs) as [[ins r1]|e] eqn:E1; [|discriminate].
  destruct (rep (S (List.length r1)) rd_i8 no r1) as [[outs r2]|e] eqn:E2; [|discriminate].
  inversion H; subst.
  pose proof (rep_le rd_inp (lt_le _ inp_lt) _ _ _ _ _ E1).
  pose proof (rep_le rd_i8 (lt_le _ i8_lt) _ _ _ _ _ E2). lia.
Qed.
Lemma ugen_tail_nf : forall cls rate ni no sp,
  nf (fun bs => match rep (S (List.length bs)) rd_inp ni bs with
                | Err e => Err e
                | Ok (ins, r) => match rep (S (List.length r)) rd_i8 no r with
                                 | Err e => Err e
                                 | Ok (outs, r') => Ok (mkUgen cls rate ins outs sp, r')
                                 end
                end).
Proof.
  intros cls rate ni no sp bs H.
  destruct (rep (S (List.length bs)) rd_inp ni bs) as [[ins r1]|e] eqn:E1.
  - destruct (rep (S (List.length r1)) rd_i8 no r1) as [[outs r2]|e] eqn:E2; [discriminate|].
    inversion H; subst. exact (rep_nf rd_i8 i8_lt i8_nf _ _ _ (Nat.lt_succ_diag_r _) E2).
  - inversion H; subst. exact (rep_nf rd_inp inp_lt inp_nf _ _ _ (Nat.lt_succ_diag_r _) E1).
Qed.

Lemma ugen_w_lt : forall ps, lt_p ps -> lt_p (rd_ugen_w ps).
Proof.
  intros ps Hps. apply bind_lt_le; [exact Hps|]. intros cls.
  apply bind_le_le; [apply lt_le, i8_lt|]. intros rate.
  apply bind_le_le; [apply lt_le, i32_lt|]. intros ni.
  apply bind_le_le; [apply lt_le, i32_lt|]. intros no.
  apply bind_le_le; [apply lt_le, i16_lt|]. intros sp.
  destruct ((ni <? 0) || (no <? 0)); [apply pfail_le | apply ugen_tail_le].
Qed.
Lemma ugen_w_nf : forall ps, nf ps -> nf (rd_ugen_w ps).
Proof.
  intros ps Hps. apply bind_nf; [exact Hps|]. intros cls.
  apply bind_nf; [apply i8_nf|]. intros rate.
  apply bind_nf; [apply i32_nf|]. intros ni.
  apply bind_nf; [apply i32_nf|]. intros no.
  apply bind_nf; [apply i16_nf|]. intros sp.
  destruct ((ni <? 0) || (no <? 0)); [apply pfail_nf; discriminate | apply ugen_tail_nf].
Qed.

Lemma pname_w_lt : forall ps, lt_p ps -> lt_p (rd_pname_w ps).
Proof.
  intros ps Hps. apply bind_lt_le; [exact Hps|]. intros n. apply bind_le_le; [apply lt_le, i32_lt | intros; apply pret_le].
Qed.
Lemma pname_w_nf : forall ps, nf ps -> nf (rd_pname_w ps).
Proof. intros ps Hps. apply bind_nf; [exact Hps|]. intros n. apply bind_nf; [apply i32_nf | intros; apply pret_nf]. Qed.

Lemma variant_lt : forall n, lt_p (rd_variant n).
Proof.
  intros n. apply bind_lt_le; [apply pstr_lt|]. intros nm bs v r H.
  destruct (rep (S (List.length bs)) rd_w32 n bs) as [[vals r1]|e] eqn:E; [|discriminate].
  inversion H; subst. exact (rep_le rd_w32 (lt_le _ w32_lt) _ _ _ _ _ E).
Qed.
Lemma variant_nf : forall n, nf (rd_variant n).
Proof.
  intros n. apply bind_nf; [apply pstr_nf|]. intros nm bs H.
  destruct (rep (S (List.length bs)) rd_w32 n bs) as [[vals r1]|e] eqn:E; [discriminate|].
  inversion H; subst. exact (rep_nf rd_w32 w32_lt w32_nf _ _ _ (Nat.lt_succ_diag_r _) E).
Qed.

Lemma header_nf : nf rd_header.
Proof.
  apply bind_nf.
  - apply bind_nf; [apply take_nf|]. intros m. destruct (bytes_eqb m magic); [apply pret_nf | apply pfail_nf; discriminate].
  - intros _. apply bind_nf; [apply i32_nf|]. intros v.
    destruct (negb (v =? 2)); [apply pfail_nf; discriminate|].
    apply bind_nf; [apply i16_nf|]. intros n.
    destruct (negb (n =? 1)); [apply pfail_nf; discriminate | apply pret_nf].
Qed.

Lemma core_w_nf : forall ps, lt_p ps -> nf ps -> nf (rd_core_w ps).
Proof.
  intros ps Hlt Hnf.
  apply bind_nf; [exact Hnf|]. intros name.
  apply bind_nf; [apply counted_nf; [apply i32_nf | apply w32_lt | apply w32_nf]|]. intros consts.
  apply bind_nf; [apply counted_nf; [apply i32_nf | apply w32_lt | apply w32_nf]|]. intros ctl.
  apply bind_nf; [apply counted_nf; [apply i32_nf | apply pname_w_lt; exact Hlt | apply pname_w_nf; exact Hnf]|]. intros names.
  apply bind_nf; [apply counted_nf; [apply i32_nf | apply ugen_w_lt; exact Hlt | apply ugen_w_nf; exact Hnf]|]. intros units.
  apply pret_nf.
Qed.
Lemma core_nf : nf rd_core.
Proof. exact (core_w_nf rd_pstr pstr_lt pstr_nf). Qed.

Lemma body_nf : nf rd_body.
Proof.
  apply bind_nf; [apply core_nf|]. intros [[[[name consts] ctl] names] units].
  apply bind_nf; [apply counted_nf; [apply i16_nf | apply variant_lt | apply variant_nf]|]. intros vars.
  apply pret_nf.
Qed.

Lemma parse_def_no_fuel_error : forall bs, parse_def bs <> Err OutOfFuel.
Proof.
  intros bs H. unfold parse_def in H. destruct (negb (forallb byte_ok bs)); [discriminate|].
  destruct ((_ <- rd_header;; rd_body) bs) as [[d r]|e] eqn:E.
  - destruct r; discriminate.
  - inversion H; subst. revert E. apply bind_nf; [apply header_nf | intros; apply body_nf].
Qed.

Lemma parse_total_l : forall bs,
  (exists d, parse_def bs = Ok d) \/ (exists e, parse_def bs = Err e /\ e <> OutOfFuel).
Proof.
  intros bs. destruct (parse_def bs) as [d|e] eqn:E.
  - left. exists d. reflexivity.
  - right. exists e. split; [reflexivity|]. intros He. subst e. exact (parse_def_no_fuel_error bs E).
Qed.
