(* C14 -- the embed protocol: a stream that ends hands back the event it was sent in that pull (repaired code), so
   whatever a Pseq / Pn embeds next starts from the consumer's current input event, not from a stale output. *)
From Coq Require Import String List Morphisms.
Require Import SC3.proofs.NumTac SC3.gen.Gen_builtins SC3.model.TaskQ SC3.model.Event.
Import ListNotations.

(* states whose return path contains no "stale first input" (never built by the repaired Pdelta) *)
Fixpoint ret_wf (s : st) : Prop :=
  match s with
  | SDeltaStale _ _ => False
  | SDelta _ _ s' => ret_wf s'
  | SSeq (Some s') _ => ret_wf s'
  | _ => True
  end.

Lemma ret_wf_init : forall p, ret_wf (init p).
Proof. induction p; cbn; auto. Qed.

Lemma seq_go_ret : forall step,
  (forall s ev mc o ret mc', ret_wf s -> step s ev mc = (RStop o ret, mc') -> ret = ev) ->
  forall rest cur ev mc offs o ret mc', ret_wf cur ->
  seq_go step cur rest ev mc offs = (RStop o ret, mc') -> ret = ev.
Proof.
  intros step Hs rest. induction rest as [|p r IH]; intros cur ev mc offs o ret mc' Hw H; cbn [seq_go] in H;
    destruct (step cur ev mc) as [[e cur' o1|o1 r1|] m1] eqn:E; try discriminate.
  - inversion H; subst. eapply Hs; eassumption.
  - apply IH in H; [|apply ret_wf_init]. subst. eapply Hs; eassumption.
Qed.

Ltac brk H :=
  repeat match type of H with
         | context [match ?x with _ => _ end] => destruct x eqn:?
         | context [if ?x then _ else _] => destruct x eqn:?
         end; try discriminate H.

Lemma embed_returns_input_l : forall c K lib, fix_pchain_return c = true ->
  forall dep s inev mc o ret mc', ret_wf s -> snext c K lib dep s inev mc = (RStop o ret, mc') -> ret = inev.
Proof.
  intros c K lib Hfix dep. induction dep as [|dep IH]; intros s inev mc o ret mc' Hw H; [cbn in H; discriminate|].
  destruct s; cbn [snext] in H.
  - (* Pbind *) brk H. inversion H; reflexivity.
  - (* Pmono *) brk H; inversion H; reflexivity.
  - (* Pmono, articulate *) brk H; inversion H; reflexivity.
  - (* Pchain *) rewrite Hfix in H. brk H. inversion H; reflexivity.
  - (* Ppar *) brk H; inversion H; reflexivity.
  - (* Pdelta *) cbn [ret_wf] in Hw. destruct pending.
    + destruct (ngt (vnum t) (F 0)); [discriminate|].
      destruct (snext c K lib dep s inev mc) as [[e1 s1 o1|o1 r1|] m1] eqn:E; try discriminate.
      inversion H; subst. eapply IH; eassumption.
    + destruct (snext c K lib dep s inev mc) as [[e1 s1 o1|o1 r1|] m1] eqn:E; try discriminate.
      inversion H; subst. eapply IH; eassumption.
  - contradiction.
  - (* Pdur *) brk H; inversion H; reflexivity.
  - inversion H; reflexivity.
  - (* Pdur with tolerance / quant *) brk H; inversion H; reflexivity.
  - (* Pseq / Pn *) destruct cur as [s0|]; [|destruct rest as [|p r]].
    + cbn [ret_wf] in Hw. eapply (seq_go_ret (snext c K lib dep)); [intros; eapply IH; eassumption|exact Hw|exact H].
    + inversion H; reflexivity.
    + eapply (seq_go_ret (snext c K lib dep)); [intros; eapply IH; eassumption|apply ret_wf_init|exact H].
  - inversion H; reflexivity.
Qed.

(* on the code as released Pchain hands on a half-transformed copy: Pseq([Pchain(A, B), C]) with A shorter than B *)
Definition pchain_witness : pat :=
  PSeq [PChain [PBind [("instrument"%string, VRep (VSym "c14a")); ("dur"%string, VSeq [VNum (F 1)])];
                PBind [("pan"%string, VSeq [VNum (I 1); VNum (I 2); VNum (I 3)])]];
        PBind [("instrument"%string, VRep (VSym "c14a")); ("dur"%string, VSeq [VNum (F (1 # 2)); VNum (F (1 # 2))])]] 1 0.
Definition npar (l : list bundle) : list nat :=
  flat_map (fun b => match snd b with MNew _ _ _ _ ps => [List.length ps] | _ => [] end) l.
Definition Ke : kern := mkK (fun x => x) (fun x => x) (fun x => x) (fun x => x).
Lemma pchain_return_refuted_unpatched_l :
  npar (sends unpatched Ke the_lib 0 10 6 pchain_witness [("legato"%string, VNum (F (1 # 2)))] 0) = [2; 2; 1]%nat /\
  npar (sends patched Ke the_lib 0 10 6 pchain_witness [("legato"%string, VNum (F (1 # 2)))] 0) = [2; 1; 1]%nat.
Proof. vm_compute. split; reflexivity. Qed.
