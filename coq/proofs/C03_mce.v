(* C03 -- lemmas about SynthObject._multi_new (model/Mce.v). *)
From Coq Require Import ZArith List Bool Arith Lia.
Import ListNotations.
Require Import SC3.model.Mce.

(* ---- generic facts -------------------------------------------------------- *)
Lemma list_max_ge : forall l x, In x l -> x <= list_max l.
Proof.
  induction l as [|y l IH]; simpl; intros x Hin; [contradiction|].
  destruct Hin as [->|Hin]; [lia|]. specialize (IH x Hin). lia.
Qed.
Lemma list_max_le : forall l b, (forall x, In x l -> x <= b) -> list_max l <= b.
Proof.
  induction l as [|y l IH]; simpl; intros b H; [lia|].
  assert (y <= b) by (apply H; now left).
  assert (list_max l <= b) by (apply IH; intros; apply H; now right). lia.
Qed.
Lemma list_max_0 : forall l, list_max l = 0 -> forall x, In x l -> x = 0.
Proof. intros l H x Hin. apply list_max_ge in Hin. lia. Qed.

Lemma loop_ext : forall A (f g : nat -> M A) n i st,
  (forall j st', i <= j < i + n -> f j st' = g j st') -> loop f i n st = loop g i n st.
Proof.
  induction n as [|n IH]; intros i st H; simpl; [reflexivity|].
  unfold bind. rewrite H by lia. destruct (g i st) as [r st1|e]; [|reflexivity].
  rewrite (IH (S i) st1); [reflexivity|]. intros; apply H; lia.
Qed.
Lemma loop_length : forall A (f : nat -> M A) n i st rs st',
  loop f i n st = Ok rs st' -> length rs = n.
Proof.
  induction n as [|n IH]; intros i st rs st' H; simpl in H.
  - inversion H; reflexivity.
  - unfold bind in H. destruct (f i st) as [r st1|e]; [|discriminate].
    destruct (loop f (S i) n st1) as [rs1 st2|e] eqn:E; [|discriminate].
    inversion H; subst. simpl. f_equal. eapply IH; eauto.
Qed.

(* an invariant of the form "the state grows by a counted, P-satisfying segment" *)
Lemma loop_grows : forall A (P : unit_rec -> Prop) (cnt : nat -> nat) (f : nat -> M A) n i st rs st',
  (forall j s r s', i <= j < i + n -> f j s = Ok r s' ->
     exists new, s' = s ++ new /\ length new = cnt j /\ Forall P new) ->
  loop f i n st = Ok rs st' ->
  exists new, st' = st ++ new /\ length new = list_sum (map cnt (seq i n)) /\ Forall P new.
Proof.
  induction n as [|n IH]; intros i st rs st' Hf H; simpl in H.
  - inversion H; subst. exists []. rewrite app_nil_r. simpl. auto.
  - unfold bind in H. destruct (f i st) as [r st1|e] eqn:E1; [|discriminate].
    destruct (loop f (S i) n st1) as [rs1 st2|e] eqn:E2; [|discriminate].
    inversion H; subst.
    destruct (Hf i st r st1 ltac:(lia) E1) as (n1 & -> & L1 & P1).
    destruct (IH (S i) _ _ _ ltac:(intros; eapply Hf; eauto; lia) E2) as (n2 & -> & L2 & P2).
    exists (n1 ++ n2). rewrite app_assoc. split; [reflexivity|]. split.
    + rewrite app_length. simpl. lia.
    + apply Forall_app; auto.
Qed.

(* ---- depth decreases under pick ------------------------------------------- *)
Lemma pick_depth : forall i a x, pick i a = Some x -> ldepth x <= ldepth a - 1.
Proof.
  intros i a x H. destruct a as [s|l|l]; simpl in H.
  - inversion H; subst; simpl; lia.
  - inversion H; subst; simpl; lia.
  - destruct l as [|y l]; [discriminate|].
    apply nth_error_In in H.
    assert (ldepth x <= list_max (map ldepth (y :: l))) by (apply list_max_ge; now apply in_map).
    simpl in *. lia.
Qed.
Lemma pick_all_depth : forall i args a', pick_all i args = Some a' ->
  depth_args a' <= depth_args args - 1.
Proof.
  intros i args; induction args as [|a r IH]; intros a' H; simpl in H.
  - inversion H; subst. unfold depth_args; simpl; lia.
  - destruct (pick i a) as [x|] eqn:E; [|discriminate].
    destruct (pick_all i r) as [xs|] eqn:E2; [|discriminate].
    inversion H; subst. specialize (IH _ eq_refl). apply pick_depth in E.
    unfold depth_args in *. cbn [map list_max fold_right].
    fold (list_max (map ldepth xs)). fold (list_max (map ldepth r)). 
    pose proof (Nat.le_max_l (ldepth a) (list_max (map ldepth r))).
    pose proof (Nat.le_max_r (ldepth a) (list_max (map ldepth r))).
    apply Nat.max_lub; lia.
Qed.
Lemma list_max_pos : forall l, 0 < list_max l -> exists x, In x l /\ 0 < x.
Proof.
  induction l as [|y l IH]; cbn -[Nat.max]; intros H; [lia|].
  destruct y as [|y].
  - destruct IH as (x & Hin & Hx); [exact H|]. exists x; split; [now right|exact Hx].
  - exists (S y); split; [now left|lia].
Qed.
Lemma maxlen_pos_depth : forall args, 0 < maxlen args -> 0 < depth_args args.
Proof.
  intros args H. unfold maxlen in H. apply list_max_pos in H. destruct H as (x & Hin & Hx).
  apply in_map_iff in Hin. destruct Hin as (a & <- & Hin).
  destruct a as [s|l|l]; simpl in Hx; try lia.
  assert (ldepth (Lst l) <= depth_args args) by (apply list_max_ge; now apply in_map).
  simpl in H. lia.
Qed.
Lemma pick_all_depth_lt : forall i args a', 0 < maxlen args -> pick_all i args = Some a' ->
  depth_args a' < depth_args args.
Proof.
  intros i args a' Hm H. apply pick_all_depth in H. apply maxlen_pos_depth in Hm. lia.
Qed.

(* ---- fuel irrelevance -------------------------------------------------------- *)
Section Law.
  Variable new1 : list arg -> M arg.

  Lemma multi_new_f_stable : forall n m args st,
    depth_args args < n -> depth_args args < m ->
    multi_new_f new1 n args st = multi_new_f new1 m args st.
  Proof.
    induction n as [|n IH]; intros m args st Hn Hm; [lia|].
    destruct m as [|m]; [lia|]. simpl.
    destruct (maxlen args =? 0) eqn:E; [reflexivity|].
    apply Nat.eqb_neq in E. unfold bind.
    rewrite (loop_ext _ _ (fun i => match pick_all i args with
                                   | None => raise ZeroDivisionError
                                   | Some a => multi_new_f new1 m a end)); [reflexivity|].
    intros j st' _. destruct (pick_all j args) as [a'|] eqn:Ep; [|reflexivity].
    assert (depth_args a' < depth_args args) by (eapply pick_all_depth_lt; eauto; lia).
    apply IH; lia.
  Qed.

  (* THE LAW: the result of an expanding call, as an equation on the result tree and state *)
  Lemma multi_new_eq : forall args st,
    multi_new new1 args st =
    (if maxlen args =? 0 then new1 args
     else bind (loop (fun i => match pick_all i args with
                               | None => raise ZeroDivisionError
                               | Some picked => multi_new new1 picked
                               end) 0 (maxlen args))
               (fun results => ret (Lst results))) st.
  Proof.
    intros args st. unfold multi_new at 1. simpl.
    destruct (maxlen args =? 0) eqn:E; [reflexivity|].
    apply Nat.eqb_neq in E. unfold bind.
    rewrite (loop_ext _ _ (fun i => match pick_all i args with
                                   | None => raise ZeroDivisionError
                                   | Some a => multi_new new1 a end)); [reflexivity|].
    intros j st' _. destruct (pick_all j args) as [a'|] eqn:Ep; [|reflexivity].
    assert (depth_args a' < depth_args args) by (eapply pick_all_depth_lt; eauto; lia).
    unfold multi_new. apply multi_new_f_stable; lia.
  Qed.

  Lemma multi_new_length : forall args st r st',
    0 < maxlen args -> multi_new new1 args st = Ok r st' ->
    exists rs, r = Lst rs /\ length rs = maxlen args.
  Proof.
    intros args st r st' Hm H. rewrite multi_new_eq in H.
    destruct (maxlen args =? 0) eqn:E; [apply Nat.eqb_eq in E; lia|].
    unfold bind in H.
    destruct (loop _ 0 (maxlen args) st) as [rs st1|e] eqn:EL; [|discriminate].
    inversion H; subst. exists rs. split; [reflexivity|]. eapply loop_length; eauto.
  Qed.

  Lemma multi_new_no_list : forall args st,
    Forall (fun a => is_lst a = false) args -> multi_new new1 args st = new1 args st.
  Proof.
    intros args st H. rewrite multi_new_eq.
    assert (maxlen args = 0) as ->; [|reflexivity].
    unfold maxlen. induction H as [|a r Ha _ IH]; simpl; [reflexivity|].
    rewrite IH. destruct a; simpl in *; try reflexivity; discriminate.
  Qed.

  (* the quirk of the code for lists that are ALL empty: no expansion, one call, the empty
     lists are handed to the constructor *)
  Lemma multi_new_all_empty : forall args st,
    Forall (fun a => lst_len a = 0) args -> multi_new new1 args st = new1 args st.
  Proof.
    intros args st H. rewrite multi_new_eq.
    assert (maxlen args = 0) as ->; [|reflexivity].
    unfold maxlen. induction H as [|a r Ha _ IH]; simpl; [reflexivity|]. rewrite IH, Ha. reflexivity.
  Qed.
  (* an empty list next to a non-empty one: ZeroDivisionError, nothing created *)
  Lemma multi_new_empty_among : forall args st,
    0 < maxlen args -> In (Lst []) args -> multi_new new1 args st = Err ZeroDivisionError.
  Proof.
    intros args st Hm Hin. rewrite multi_new_eq.
    destruct (maxlen args =? 0) eqn:E; [apply Nat.eqb_eq in E; lia|].
    destruct (maxlen args) as [|n]; [lia|]. simpl. unfold bind.
    assert (pick_all 0 args = None) as ->; [|reflexivity].
    clear -Hin. induction args as [|a r IH]; [contradiction|].
    destruct Hin as [->|Hin]; simpl; [reflexivity|].
    destruct (pick 0 a); [|reflexivity]. rewrite (IH Hin). reflexivity.
  Qed.
End Law.

(* ---- counting units ------------------------------------------------------------ *)
Lemma count_calls_f_stable : forall n m args,
  depth_args args < n -> depth_args args < m -> count_calls_f n args = count_calls_f m args.
Proof.
  induction n as [|n IH]; intros m args Hn Hm; [lia|].
  destruct m as [|m]; [lia|]. simpl.
  destruct (maxlen args =? 0) eqn:E; [reflexivity|]. apply Nat.eqb_neq in E.
  f_equal. apply map_ext_in. intros i _.
  destruct (pick_all i args) as [a'|] eqn:Ep; [|reflexivity].
  assert (depth_args a' < depth_args args) by (eapply pick_all_depth_lt; eauto; lia).
  apply IH; lia.
Qed.
Lemma count_calls_eq : forall args,
  count_calls args =
  if maxlen args =? 0 then 1
  else list_sum (map (fun i => match pick_all i args with
                               | None => 0 | Some picked => count_calls picked end)
                     (seq 0 (maxlen args))).
Proof.
  intros args. unfold count_calls at 1. simpl.
  destruct (maxlen args =? 0) eqn:E; [reflexivity|]. apply Nat.eqb_neq in E.
  f_equal. apply map_ext_in. intros i _.
  destruct (pick_all i args) as [a'|] eqn:Ep; [|reflexivity].
  assert (depth_args a' < depth_args args) by (eapply pick_all_depth_lt; eauto; lia).
  unfold count_calls. apply count_calls_f_stable; lia.
Qed.

Definition flat_vector (cls : Z) (u : unit_rec) : Prop :=
  ucls u = cls /\ Forall (fun a => lst_len a = 0) (uargs u).

Lemma multi_new_f_units : forall cls k n args st r st',
  multi_new_f (new1_plain cls k) n args st = Ok r st' ->
  exists new, st' = st ++ new /\ length new = count_calls_f n args /\ Forall (flat_vector cls) new.
Proof.
  intros cls k. induction n as [|n IH]; intros args st r st' H; [discriminate|].
  simpl in H. simpl count_calls_f.
  destruct (maxlen args =? 0) eqn:E.
  - unfold new1_plain in H. inversion H; subst. exists [mkUnit cls args].
    split; [reflexivity|]. split; [reflexivity|]. constructor; [|constructor].
    split; [reflexivity|]. simpl. apply Nat.eqb_eq in E. unfold maxlen in E.
    apply Forall_forall. intros a Ha. eapply list_max_0; eauto. now apply in_map.
  - unfold bind in H.
    destruct (loop _ 0 (maxlen args) st) as [rs st1|e] eqn:EL; [|discriminate].
    inversion H; subst.
    eapply (loop_grows _ (flat_vector cls)
              (fun i => match pick_all i args with None => 0 | Some a => count_calls_f n a end)) in EL.
    + exact EL.
    + intros j s r0 s' _ Hj. destruct (pick_all j args) as [a'|]; [|discriminate].
      eapply IH; eauto.
Qed.

Lemma multi_new_units : forall cls k args st r st',
  multi_new (new1_plain cls k) args st = Ok r st' ->
  exists new, st' = st ++ new /\ length new = count_calls args /\ Forall (flat_vector cls) new.
Proof. intros. unfold multi_new in H. eapply multi_new_f_units; eauto. Qed.

(* ---- under the guard "no reachable list is empty" -------------------------------- *)
Lemma noempty_pick : forall i a x, noempty a = true -> pick i a = Some x -> noempty x = true.
Proof.
  intros i a x Hn H. destruct a as [s|l|l]; simpl in H; try (inversion H; subst; exact Hn).
  destruct l as [|y l]; [discriminate|]. apply nth_error_In in H.
  simpl in Hn. change (forallb noempty (y :: l) = true) in Hn.
  rewrite forallb_forall in Hn. auto.
Qed.
Lemma noempty_pick_all : forall i args, forallb noempty args = true ->
  exists a', pick_all i args = Some a' /\ forallb noempty a' = true.
Proof.
  intros i args; induction args as [|a r IH]; intros H; simpl in *.
  - exists []. auto.
  - apply andb_true_iff in H. destruct H as [Ha Hr].
    destruct (IH Hr) as (xs & -> & Hxs).
    destruct a as [s|l|l]; simpl.
    + eexists; split; [reflexivity|]. simpl. now rewrite Hxs.
    + eexists; split; [reflexivity|]. simpl. now rewrite Hxs.
    + destruct l as [|y l]; [discriminate|].
      assert (length (y :: l) <> 0) by (simpl; lia).
      destruct (nth_error (y :: l) (i mod length (y :: l))) as [x|] eqn:En.
      * eexists; split; [reflexivity|]. simpl. rewrite Hxs, andb_true_r.
        eapply (noempty_pick i (Lst (y :: l))); eauto.
      * apply nth_error_None in En. pose proof (Nat.mod_upper_bound i (length (y :: l)) H). lia.
Qed.
Lemma noempty_no_list : forall args, forallb noempty args = true -> maxlen args = 0 ->
  Forall (fun a => is_lst a = false) args.
Proof.
  intros args Hn Hm. apply Forall_forall. intros a Hin.
  rewrite forallb_forall in Hn. specialize (Hn a Hin). unfold maxlen in Hm.
  assert (lst_len a = 0) as Hz by (eapply list_max_0; [exact Hm|now apply in_map]).
  destruct a as [s|l|l]; try reflexivity. destruct l; discriminate.
Qed.

Lemma loop_total : forall A (f : nat -> M A) n i st,
  (forall j s, i <= j < i + n -> exists r s', f j s = Ok r s') ->
  exists rs st', loop f i n st = Ok rs st'.
Proof.
  induction n as [|n IH]; intros i st H; simpl.
  - eexists; eexists; reflexivity.
  - unfold bind. destruct (H i st ltac:(lia)) as (r & s1 & ->).
    destruct (IH (S i) s1 ltac:(intros; apply H; lia)) as (rs & s2 & ->).
    eexists; eexists; reflexivity.
Qed.

Lemma multi_new_f_total : forall cls k n args st,
  depth_args args < n -> forallb noempty args = true ->
  exists r st', multi_new_f (new1_plain cls k) n args st = Ok r st'.
Proof.
  intros cls k. induction n as [|n IH]; intros args st Hd Hn; [lia|]. simpl.
  destruct (maxlen args =? 0) eqn:E.
  - unfold new1_plain. eexists; eexists; reflexivity.
  - apply Nat.eqb_neq in E. unfold bind.
    destruct (loop_total _ (fun i => match pick_all i args with
                                   | None => raise ZeroDivisionError
                                   | Some a => multi_new_f (new1_plain cls k) n a end)
                         (maxlen args) 0 st) as (rs & s1 & ->).
    + intros j s _. destruct (noempty_pick_all j args Hn) as (a' & Ep & Ha'). rewrite Ep.
      apply IH; auto.
      assert (depth_args a' < depth_args args) by (eapply pick_all_depth_lt; eauto; lia). lia.
    + eexists; eexists; reflexivity.
Qed.

(* under the guard every unit's argument vector holds scalars and tuples only *)
Definition scalar_vector (cls : Z) (u : unit_rec) : Prop :=
  ucls u = cls /\ Forall (fun a => is_lst a = false) (uargs u).

Lemma multi_new_f_units_guard : forall cls k n args st r st',
  forallb noempty args = true ->
  multi_new_f (new1_plain cls k) n args st = Ok r st' ->
  exists new, st' = st ++ new /\ Forall (scalar_vector cls) new.
Proof.
  intros cls k. induction n as [|n IH]; intros args st r st' Hn H; [discriminate|].
  simpl in H. destruct (maxlen args =? 0) eqn:E.
  - unfold new1_plain in H. inversion H; subst. exists [mkUnit cls args].
    split; [reflexivity|]. constructor; [|constructor]. split; [reflexivity|]. simpl.
    apply noempty_no_list; auto. now apply Nat.eqb_eq.
  - unfold bind in H.
    destruct (loop _ 0 (maxlen args) st) as [rs st1|e] eqn:EL; [|discriminate].
    inversion H; subst.
    eapply (loop_grows _ (scalar_vector cls) (fun i => match pick_all i args with
                             | None => 0 | Some a => count_calls_f n a end)) in EL.
    + destruct EL as (new & -> & _ & P). eauto.
    + intros j s r0 s' _ Hj. destruct (noempty_pick_all j args Hn) as (a' & Ep & Ha').
      rewrite Ep in *. destruct (IH _ _ _ _ Ha' Hj) as (new & -> & P).
      destruct (multi_new_f_units _ _ _ _ _ _ _ Hj) as (new2 & E2 & L2 & _).
      apply app_inv_head in E2. subst. eauto.
Qed.
