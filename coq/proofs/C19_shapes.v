(* C19 -- the shapes of Env._env_at (model: seg_value) meet the hypotheses of the evaluation laws.
   Rational shapes (step, hold, lin, numeric curve below the linear threshold): for every
   choice of the transcendental evaluators.  sine / welch: for every evaluator whose cos / sin
   stay in their ranges and take their exact values at 0. *)
From Coq Require Import ZArith QArith Qabs String List Bool Lia Lqa.
Require Import SC3.lib.PyNum SC3.gen.Gen_envtables SC3.model.Env SC3.proofs.C19_format SC3.proofs.C19_at.
Import ListNotations.
Open Scope Q_scope.

Ltac shape_chain := unfold seg_value, shape_is; cbn [assoc env_shape_names String.eqb Ascii.eqb Bool.eqb bind andb].

Lemma step_jumps X c : seg_jumps (seg_value X) (inject_Z 0) c.
Proof. intros s t pos. unfold seg_value, shape_is. vm_compute assoc. reflexivity. Qed.

Lemma hold_ok X c : seg_inside (seg_value X) (inject_Z 8) c /\ seg_starts (seg_value X) (inject_Z 8) c.
Proof.
  split; intros s t pos; intros; exists s; (split; [unfold seg_value, shape_is; vm_compute assoc; reflexivity|]).
  - unfold between. destruct (Qlt_le_dec s t); [left|right]; lra.
  - reflexivity.
Qed.

Lemma lin_between s t pos : 0 <= pos -> pos < 1 -> between s t (pos * (t - s) + s).
Proof. intros. unfold between. destruct (Qlt_le_dec s t); [left|right]; split; nra. Qed.

Lemma lin_ok X c : seg_inside (seg_value X) (inject_Z 1) c /\ seg_starts (seg_value X) (inject_Z 1) c.
Proof.
  split; intros s t pos; intros; exists (pos * (t - s) + s);
    (split; [unfold seg_value, shape_is; vm_compute assoc; reflexivity|]).
  - apply lin_between; assumption.
  - match goal with H : pos == 0 |- _ => rewrite H end. ring.
Qed.

(* a numeric curvature below the threshold is evaluated as a straight line *)
Lemma flat_curve_ok X c : Qabs c < env_curve_eps ->
  seg_inside (seg_value X) (inject_Z 5) c /\ seg_starts (seg_value X) (inject_Z 5) c.
Proof.
  intros Hc. apply Qlt_bool_true in Hc.
  split; intros s t pos; intros; exists (pos * (t - s) + s);
    (split; [unfold seg_value, shape_is; vm_compute assoc; cbn [bind]; 
             change (Qeq_bool (inject_Z 5) 5) with true; cbv iota; rewrite Hc; reflexivity|]).
  - apply lin_between; assumption.
  - match goal with H : pos == 0 |- _ => rewrite H end. ring.
Qed.

(* sine: for every cosine evaluator with values in [-1, 1] and cos 0 = 1 *)
Definition cos_ok (X : xfun) : Prop :=
  (forall x, 0 <= x -> x < 1 -> exists c, x_cos_pi X x = Some c /\ -1 <= c /\ c <= 1)
  /\ (forall x, x == 0 -> exists c, x_cos_pi X x = Some c /\ c == 1).
Lemma sine_ok X c : cos_ok X ->
  seg_inside (seg_value X) (inject_Z 3) c /\ seg_starts (seg_value X) (inject_Z 3) c.
Proof.
  intros [Hr H0]. split; intros s t pos.
  - intros Hp0 Hp1. destruct (Hr pos Hp0 Hp1) as (w & Hw & Hw1 & Hw2).
    exists (s + (t - s) * (- w * (1 # 2) + (1 # 2))). split.
    + unfold seg_value, shape_is. vm_compute assoc. cbn [bind]. rewrite Hw. reflexivity.
    + unfold between. destruct (Qlt_le_dec s t); [left|right]; split; nra.
  - intros Hp. destruct (H0 pos Hp) as (w & Hw & Hw1).
    exists (s + (t - s) * (- w * (1 # 2) + (1 # 2))). split.
    + unfold seg_value, shape_is. vm_compute assoc. cbn [bind]. rewrite Hw. reflexivity.
    + rewrite Hw1. ring.
Qed.

(* welch: for every quarter-sine evaluator with values in [0, 1], sin 0 = 0, sin(pi/2) = 1 *)
Definition sin_ok (X : xfun) : Prop :=
  (forall x, 0 <= x -> x <= 1 -> exists w, x_sin_pi2 X x = Some w /\ 0 <= w /\ w <= 1)
  /\ (forall x, x == 0 -> exists w, x_sin_pi2 X x = Some w /\ w == 0)
  /\ (forall x, x == 1 -> exists w, x_sin_pi2 X x = Some w /\ w == 1).
Lemma welch_ok X c : sin_ok X ->
  seg_inside (seg_value X) (inject_Z 4) c /\ seg_starts (seg_value X) (inject_Z 4) c.
Proof.
  intros (Hr & H0 & H1). split; intros s t pos.
  - intros Hp0 Hp1. unfold seg_value, shape_is. vm_compute assoc. cbn [bind].
    change (Qeq_bool (inject_Z 4) 5) with false. cbv iota.
    destruct (Qlt_bool s t) eqn:E.
    + apply Qlt_bool_true in E. destruct (Hr pos) as (w & Hw & Hw1 & Hw2); [lra|lra|].
      rewrite Hw. cbn [inex bind]. eexists. split; [reflexivity|]. unfold between. left. split; nra.
    + apply Qlt_bool_false in E. destruct (Hr (1 - pos)) as (w & Hw & Hw1 & Hw2); [lra|lra|].
      rewrite Hw. cbn [inex bind]. eexists. split; [reflexivity|]. unfold between. right. split; nra.
  - intros Hp. unfold seg_value, shape_is. vm_compute assoc. cbn [bind].
    destruct (Qlt_bool s t) eqn:E.
    + destruct (H0 pos Hp) as (w & Hw & Hw1). rewrite Hw. cbn [inex bind]. eexists. split; [reflexivity|].
      rewrite Hw1. ring.
    + destruct (H1 (1 - pos)) as (w & Hw & Hw1); [rewrite Hp; ring|]. rewrite Hw. cbn [inex bind].
      eexists. split; [reflexivity|]. rewrite Hw1. ring.
Qed.

(* the exact evaluator of the executable model takes the exact values at the segment start *)
Lemma xexact_cos0 x : x == 0 -> exists c, x_cos_pi xexact x = Some c /\ c == 1.
Proof. intros H. exists 1. split; [|reflexivity]. simpl. unfold xcos_pi. apply Qeq_bool_iff in H. rewrite H. reflexivity. Qed.
