(* C01_sem.v -- graph-level soundness of the optimiser: every atomic step of the pass (dead code elimination
   and each rewrite, given what the invariant says about the absorbed unit) preserves, for every
   interpretation, the value of every surviving unit and what every effectful unit reads. *)
From Coq Require Import ZArith QArith Qcanon List String Bool Arith Lia Setoid Permutation.
Import ListNotations.
Require Import SC3.model.Graph SC3.model.GraphSem SC3.proofs.C01_ctor SC3.proofs.C01_inv SC3.proofs.C01_inv2 SC3.proofs.C01_inv3.
Open Scope string_scope.
Open Scope nat_scope.
Open Scope list_scope.

Definition ival (f : nat -> row) (i : inp) : Qc := match i with K q => Q2Qc q | O u ch => nthq (f u) ch end.
Definition usem (I : interp) (f : nat -> row) (U : unit) : row :=
  unit_sem I (ukind U) (cls U) (opname U) (tag U) (nouts U) (special U) (map (ival f) (ins U)).
(* f gives every live unit that is not being eliminated the value its class computes from its inputs *)
Definition Valid (I : interp) (s : st) (D : list nat) (f : nat -> row) : Prop :=
  forall u U, liv s u -> ~ In u D -> get_unit s u = Some U -> f u = usem I f U.

Definition obs_of (I : interp) (s : st) (f : nat -> row) (o : option nat) : list obs :=
  match o with
  | Some u => match get_unit s u with
              | Some U => if observable (ukind U) (pure U) (tag U) then [(tag U, cls U, map (ival f) (ins U))] else []
              | None => [] end
  | None => [] end.
Definition obs_state (I : interp) (s : st) (f : nat -> row) : list obs := flat_map (obs_of I s f) (children s).

Lemma flat_map_pointwise : forall {A B} (h h' : A -> list B) (l l' : list A), List.length l = List.length l' ->
  (forall i o o', nth_error l i = Some o -> nth_error l' i = Some o' -> h' o' = h o) -> flat_map h' l' = flat_map h l.
Proof.
  intros A B h h' l. induction l as [|x t IH]; intros [|y t'] HL H; simpl in *; try discriminate; auto.
  f_equal; [apply (H 0 x y); auto|]. apply IH; [lia|]. intros i o o' A1 A2. apply (H (S i)); auto.
Qed.

Definition same_sem (U U' : unit) : Prop :=
  ukind U' = ukind U /\ cls U' = cls U /\ opname U' = opname U /\ tag U' = tag U /\ nouts U' = nouts U /\
  special U' = special U /\ pure U' = pure U.
Lemma same_meta_sem : forall U U', same_meta U U' -> same_sem U U'.
Proof.
  intros U U' (_ & _ & _ & _ & _ & _ & _ & K0 & K1 & K2 & _ & _ & K3 & K4 & _ & K5 & K6 & _).
  unfold same_sem. repeat split; auto.
Qed.
Lemma usem_ext : forall I f f' U U', same_sem U U' ->
  map (ival f') (ins U') = map (ival f) (ins U) -> usem I f' U' = usem I f U.
Proof.
  intros I f f' U U' (K1 & K2 & K3 & K4 & K5 & K6 & _) E. unfold usem. rewrite E. congruence.
Qed.

(* ---- the algebra of the rewrites, on the valuation *)
Lemma usem_bin : forall I f U x y, ukind U = KBin -> ins U = [x; y] ->
  usem I f U = [bin_sem I (opname U) (ival f x) (ival f y)].
Proof. intros I f U x y K E. unfold usem. rewrite K, E. reflexivity. Qed.
Lemma usem_un : forall I f U x, ukind U = KUn -> ins U = [x] -> usem I f U = [un_sem I (opname U) (ival f x)].
Proof. intros I f U x K E. unfold usem. rewrite K, E. reflexivity. Qed.
Lemma usem_sum3 : forall I f U, ukind U = KSum3 -> usem I f U = [qsum (map (ival f) (ins U))].
Proof. intros I f U K. unfold usem. rewrite K. reflexivity. Qed.
Lemma usem_sum4 : forall I f U, ukind U = KSum4 -> usem I f U = [qsum (map (ival f) (ins U))].
Proof. intros I f U K. unfold usem. rewrite K. reflexivity. Qed.
Lemma usem_muladd : forall I f U x y z, ukind U = KMulAdd -> ins U = [x; y; z] ->
  usem I f U = [(ival f x * ival f y + ival f z)%Qc].
Proof. intros I f U x y z K E. unfold usem. rewrite K, E. reflexivity. Qed.
Lemma qsum3 : forall x y z, qsum [x; y; z] = (x + y + z)%Qc.
Proof. intros. rewrite qsum_fr. simpl. ring. Qed.
Lemma qsum4 : forall x y z w, qsum [x; y; z; w] = (x + y + z + w)%Qc.
Proof. intros. rewrite qsum_fr. simpl. ring. Qed.
Lemma bin_add : forall I x y, bin_sem I "+" x y = (x + y)%Qc. Proof. reflexivity. Qed.
Lemma bin_sub : forall I x y, bin_sem I "-" x y = (x - y)%Qc. Proof. reflexivity. Qed.
Lemma bin_mul : forall I x y, bin_sem I "*" x y = (x * y)%Qc. Proof. reflexivity. Qed.
Lemma un_neg : forall I x, un_sem I "neg" x = (- x)%Qc. Proof. reflexivity. Qed.

Lemma rcase_sem : forall I f Self UA R, RCase Self UA R -> ukind Self = KBin ->
  f (uid UA) = usem I f UA -> (forall ch, In (O (uid UA) ch) (ins Self) -> ch = 0) ->
  usem I f R = usem I f Self.
Proof.
  intros I f Self UA R RC KS Ha Hch.
  assert (Hva : forall va ch, va = O (uid UA) ch -> In va (ins Self) -> ival f va = nthq (usem I f UA) 0).
  { intros va ch -> Hin. rewrite (Hch ch Hin). simpl. rewrite Ha. reflexivity. }
  destruct RC as [a0 a1 va o ch Eva OP KA OA IA IS KR PR | a0 a1 va ch Eva OP KA OA IA IS KR PR
                 | a0 a1 a2 va o ch Eva OP KA IA IS KR PR | x0 x1 va o ch Eva OP KA OA IA IS KR IR
                 | b0 va o ch Eva OP KA OA IA IS KR OR IR | a0 va o ch Eva OP KA OA IA IS KR OR IR
                 | b0 va o ch Eva OP KA OA IA IS KR OR IR].
  - (* Sum3 *)
    rewrite (usem_sum3 I f R KR). rewrite (qsum_perm _ _ (Permutation_map (ival f) PR)). simpl map. rewrite qsum3.
    assert (Ea : ival f va = (ival f a0 + ival f a1)%Qc).
    { rewrite (Hva va ch Eva); [|destruct IS as [E|E]; rewrite E; simpl; auto].
      rewrite (usem_bin I f UA a0 a1 KA IA), OA, bin_add. reflexivity. }
    destruct IS as [E|E]; rewrite (usem_bin I f Self _ _ KS E), OP, bin_add, Ea; f_equal; try ring.
  - (* Sum3, a is b *)
    rewrite (usem_sum4 I f R KR). rewrite (qsum_perm _ _ (Permutation_map (ival f) PR)). simpl map. rewrite qsum4.
    assert (Ea : ival f va = (ival f a0 + ival f a1)%Qc).
    { rewrite (Hva va ch Eva); [|rewrite IS; simpl; auto].
      rewrite (usem_bin I f UA a0 a1 KA IA), OA, bin_add. reflexivity. }
    rewrite (usem_bin I f Self _ _ KS IS), OP, bin_add, Ea. f_equal; try ring.
  - (* Sum4 *)
    rewrite (usem_sum4 I f R KR). rewrite (qsum_perm _ _ (Permutation_map (ival f) PR)). simpl map. rewrite qsum4.
    assert (Ea : ival f va = (ival f a0 + ival f a1 + ival f a2)%Qc).
    { rewrite (Hva va ch Eva); [|destruct IS as [E|E]; rewrite E; simpl; auto].
      rewrite (usem_sum3 I f UA KA), IA. simpl map. rewrite qsum3. reflexivity. }
    destruct IS as [E|E]; rewrite (usem_bin I f Self _ _ KS E), OP, bin_add, Ea; f_equal; try ring.
  - (* MulAdd *)
    assert (Ea : ival f va = (ival f x0 * ival f x1)%Qc).
    { rewrite (Hva va ch Eva); [|destruct IS as [E|E]; rewrite E; simpl; auto].
      rewrite (usem_bin I f UA x0 x1 KA IA), OA, bin_mul. reflexivity. }
    destruct IR as [ER|ER]; rewrite (usem_muladd I f R _ _ _ KR ER);
      destruct IS as [E|E]; rewrite (usem_bin I f Self _ _ KS E), OP, bin_add, Ea; f_equal; try ring.
  - (* a + (-b) *)
    assert (Ea : ival f va = (- ival f b0)%Qc).
    { rewrite (Hva va ch Eva); [|rewrite IS; simpl; auto]. rewrite (usem_un I f UA b0 KA IA), OA, un_neg. reflexivity. }
    rewrite (usem_bin I f R _ _ KR IR), OR, bin_sub. rewrite (usem_bin I f Self _ _ KS IS), OP, bin_add, Ea. f_equal; try ring.
  - (* (-a) + b *)
    assert (Ea : ival f va = (- ival f a0)%Qc).
    { rewrite (Hva va ch Eva); [|rewrite IS; simpl; auto]. rewrite (usem_un I f UA a0 KA IA), OA, un_neg. reflexivity. }
    rewrite (usem_bin I f R _ _ KR IR), OR, bin_sub. rewrite (usem_bin I f Self _ _ KS IS), OP, bin_add, Ea. f_equal; try ring.
  - (* a - (-b) *)
    assert (Ea : ival f va = (- ival f b0)%Qc).
    { rewrite (Hva va ch Eva); [|rewrite IS; simpl; auto]. rewrite (usem_un I f UA b0 KA IA), OA, un_neg. reflexivity. }
    rewrite (usem_bin I f R _ _ KR IR), OR, bin_add. rewrite (usem_bin I f Self _ _ KS IS), OP, bin_sub, Ea. f_equal; try ring.
Qed.

Lemma rcase_kinds : forall Self UA R, RCase Self UA R ->
  (forall p t, observable (ukind R) p t = false) /\ (forall p t, observable (ukind UA) p t = false).
Proof. intros Self UA R RC. destruct RC; split; intros p t; repeat match goal with H : ukind _ = _ |- _ => rewrite H end; reflexivity. Qed.

Lemma ival_subst : forall f f' self n i, f' n = f self -> (forall u, u <> n -> f' u = f u) ->
  (forall u ch, i = O u ch -> u <> n) -> ival f' (subst_in self n i) = ival f i.
Proof.
  intros f f' self n [q|u ch] Hn Ho Hlt; simpl; auto. unfold subst_in.
  destruct (Nat.eqb u self) eqn:E.
  - apply Nat.eqb_eq in E. subst u. simpl. rewrite Hn. auto.
  - simpl. rewrite Ho; auto. eapply Hlt; eauto.
Qed.

Theorem astep_sem : forall I x y, astep x y -> forall f, Valid I (fst x) (snd x) f ->
  exists f', Valid I (fst y) (snd y) f' /\ (forall u, u < List.length (units (fst x)) -> f' u = f u) /\
             obs_state I (fst y) f' = obs_state I (fst x) f.
Proof.
  intros I x y H f V. destruct H; simpl in *.
  - (* mark *) exists f. split; [|split; auto]. intros v V0 L N G. apply V; auto. intro; apply N; right; auto.
  - (* discard *) exists f. split; [|split; auto]. intros v V0 L N G. apply V; auto.
  - (* remove *)
    destruct (I_dying s D H u H0) as (Lu & (U & GU & _ & PU) & _).
    destruct (remove_ugen_eq s D u U H Lu GU) as [Heq Hslot].
    pose proof (liv_after_remove s D u U) as Hl.
    exists f. split; [|split; auto].
    + intros v V0 L N G. apply Hl in L; auto. destruct L as [L Nv]. rewrite Heq in G. apply V; auto.
      intro Hin. apply N. apply in_remove_iff. auto.
    + unfold obs_state. rewrite Heq. cbn [children with_children].
      apply flat_map_pointwise; [symmetry; apply upd_length|].
      intros i o o' A B. destruct (Nat.eq_dec i (Z.to_nat (sidx U))) as [->|Hne].
      * rewrite nth_error_upd_same in B by (eapply slot_lt; eauto). injection B as <-.
        unfold slot in Hslot. rewrite Hslot in A. injection A as <-. simpl. rewrite GU.
        unfold observable. rewrite PU. destruct (ukind U); reflexivity.
      * rewrite nth_error_upd_other in B by auto. rewrite A in B. injection B as <-. reflexivity.
  - (* rewrite *)
    destruct H4 as [a UA R HA La Na TA Hra Hone HuR TR OkR In1 In2 In3 RV RC].
    set (n := List.length (units s)) in *.
    assert (TS : tracked Self = true) by (apply tracked_of_kind; [eapply I_ok; eauto|auto]).
    assert (Hua : uid UA = a) by (apply (I_uid s D H); auto).
    pose proof (rw_liv' s D self a Self UA R s' H H0 H1 HA La Hra HuR RV) as Hliv. fold n in Hliv.
    assert (Hlt : forall c C v ch, get_unit s c = Some C -> In (O v ch) (ins C) -> v <> n).
    { intros c C v ch G Hin. pose proof (I_ins s D H c C v ch G Hin). unfold n. lia. }
    set (f' := fun x => if Nat.eqb x n then f self else f x).
    assert (Fn : f' n = f self) by (unfold f'; rewrite Nat.eqb_refl; auto).
    assert (Fo : forall u, u <> n -> f' u = f u) by (intros u Hu; unfold f'; apply Nat.eqb_neq in Hu; rewrite Hu; auto).
    assert (Hself : f self = usem I f Self) by (apply V; auto).
    assert (Ha : f a = usem I f UA) by (apply V; auto).
    assert (HR : usem I f R = usem I f Self).
    { apply (rcase_sem I f Self UA R RC H3); [rewrite Hua; exact Ha|].
      intros ch Hin. rewrite Hua in Hin. apply (I_ch s D H self Self a ch UA); auto. apply tracked_flags in TA; tauto. }
    assert (HRf : map (ival f') (ins R) = map (ival f) (ins R)).
    { apply map_ext_in. intros [q|v ch] Hin; simpl; auto. rewrite Fo; auto.
      destruct (rw_inold s D self a Self UA R H H0 H1 H2 HA La Na Hra HuR In1 v ch Hin) as (_ & _ & _ & Hv). fold n in Hv. lia. }
    assert (Hmapped : forall c C, get_unit s c = Some C -> map (ival f') (ins (map_ins self n C)) = map (ival f) (ins C)).
    { intros c C G. unfold map_ins, set_ins. cbn [ins]. rewrite map_map. apply map_ext_in. intros i Hin.
      apply ival_subst; auto. intros u ch ->. eapply Hlt; eauto. }
    exists f'. split; [|split].
    + intros c C' L N G. apply Hliv in L. destruct L as [->|(L & N1 & N2)].
      * rewrite (V_new _ _ _ _ _ _ _ _ RV) in G. injection G as <-. rewrite Fn, Hself, <- HR.
        symmetry. apply usem_ext; [|exact HRf].
        unfold same_sem, set_place; simpl. repeat split; auto.
      * destruct (liv_get s D c H L) as (C & r & GC & _).
        rewrite (V_old1 _ _ _ _ _ _ _ _ RV c C GC L N1 N2) in G. injection G as <-.
        rewrite Fo by (pose proof (get_lt _ _ _ GC); unfold n; lia).
        rewrite (V c C L N GC). symmetry. apply usem_ext; [apply same_meta_sem, same_meta_map_ins | apply (Hmapped c C GC)].
    + intros u Hu. apply Fo. lia.
    + destruct (rcase_kinds Self UA R RC) as [KR KUA].
      destruct (liv_slot s D self Self H H1 H0) as [Hss _]. destruct (liv_slot s D a UA H La HA) as [Hsa _].
      pose proof (slot_lt _ _ _ Hss) as Hks. pose proof (slot_lt _ _ _ Hsa) as Hka.
      assert (Hkne : Z.to_nat (sidx UA) <> Z.to_nat (sidx Self)).
      { intro E. rewrite E in Hsa. assert (Eas : a = self) by (eapply slot_fun; eauto).
        exact (rw_ne s D self a Self UA R H H0 H1 HA Hra HuR Eas). }
      unfold obs_state. rewrite (V_children _ _ _ _ _ _ _ _ RV).
      apply flat_map_pointwise; [rewrite !upd_length; auto|].
      intros i o o' A B. destruct (Nat.eq_dec i (Z.to_nat (sidx Self))) as [->|N1].
      * rewrite nth_error_upd_same in B by (rewrite upd_length; auto). injection B as <-.
        unfold slot in Hss. rewrite Hss in A. injection A as <-. simpl.
        rewrite (V_new _ _ _ _ _ _ _ _ RV), H0. cbn [ukind pure tag set_place]. rewrite KR, H3. reflexivity.
      * rewrite nth_error_upd_other in B by auto. destruct (Nat.eq_dec i (Z.to_nat (sidx UA))) as [->|N2].
        -- rewrite nth_error_upd_same in B by auto. injection B as <-.
           unfold slot in Hsa. rewrite Hsa in A. injection A as <-. simpl. rewrite HA, KUA. reflexivity.
        -- rewrite nth_error_upd_other in B by auto. rewrite A in B. injection B as <-.
           destruct o as [c|]; [|reflexivity]. simpl.
           assert (Lc : liv s c) by (exists i; exact A).
           assert (Nca : c <> a) by (intro; subst c; apply N2; eapply slot_unique; eauto).
           assert (Ncs : c <> self) by (intro; subst c; apply N1; eapply slot_unique; eauto).
           destruct (liv_get s D c H Lc) as (C & r & GC & _).
           rewrite (V_old1 _ _ _ _ _ _ _ _ RV c C GC Lc Nca Ncs), GC.
           unfold map_ins at 1 2 3 4, set_ins. cbn [ukind pure tag cls].
           destruct (observable (ukind C) (pure C) (tag C)); auto.
           rewrite (Hmapped c C GC). reflexivity.
Qed.
