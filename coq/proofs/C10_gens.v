(* C10: every generator object serves the stream of ITS seed over the requests IT served, in both
   modes, under every oracle -- whatever the routines interleave and whatever the other objects serve. *)
From Coq Require Import ZArith QArith Qround List Bool Lia.
Require Import SC3.model.KProg SC3.model.KNrt SC3.model.KRt SC3.model.KRand SC3.model.KAgree.
Require Import SC3.proofs.C10_frame.
Import ListNotations.

Lemma stream_from_app gen s : forall a h r,
  stream_from gen s h (a ++ [r]) = stream_from gen s h a ++ [(r, gen s (h ++ a) r)].
Proof.
  induction a as [|x a IH]; intros h r; simpl.
  - rewrite app_nil_r. reflexivity.
  - rewrite IH. rewrite <- app_assoc. reflexivity.
Qed.
Lemma stream_app gen s a r : stream gen s (a ++ [r]) = stream gen s a ++ [(r, gen s a r)].
Proof. unfold stream. rewrite stream_from_app. reflexivity. Qed.

Definition draw_entry (g : nat) (v : vevent) : list (Z * Z) :=
  match v with VDraw _ _ g' req x => if Nat.eqb g' g then [(req, x)] else [] | _ => [] end.
Lemma draws_of_cons g v vals : draws_of g (v :: vals) = draws_of g vals ++ draw_entry g v.
Proof.
  unfold draws_of. simpl. rewrite flat_map_app. simpl. rewrite app_nil_r. reflexivity.
Qed.
Lemma draws_of_none g vals : (forall r k req v, ~ In (VDraw r k g req v) vals) -> draws_of g vals = [].
Proof.
  induction vals as [|x vals IH]; intros H; [reflexivity|].
  rewrite draws_of_cons, IH.
  - destruct x as [r k g' req v|]; simpl; auto. destruct (Nat.eqb g' g) eqn:E; auto.
    apply Nat.eqb_eq in E. subst g'. exfalso. eapply H. left. reflexivity.
  - intros r k req v Hin. eapply H. right. exact Hin.
Qed.

Lemma set_nth_length {A} (l : list A) : forall i x, length (set_nth l i x) = length l.
Proof. induction l as [|y l IH]; intros [|i] x; simpl; auto. Qed.
Lemma set_nth_same {A} (l : list A) : forall i x y, nth_error l i = Some y -> nth_error (set_nth l i x) i = Some x.
Proof. induction l as [|z l IH]; intros [|i] x y H; simpl in *; try discriminate; eauto. Qed.
Lemma set_nth_other {A} (l : list A) : forall i j x, i <> j -> nth_error (set_nth l i x) j = nth_error l j.
Proof.
  induction l as [|z l IH]; intros [|i] [|j] x H; simpl; auto; try congruence.
Qed.

Section Inv.
  Context (gen : Z -> list Z -> Z -> Z).

  Definition ginv (x : list (Z * list Z) * list vevent) : Prop :=
    (forall g seed hist, nth_error (fst x) g = Some (seed, hist) -> draws_of g (snd x) = stream gen seed hist) /\
    (forall r k g req v, In (VDraw r k g req v) (snd x) -> (g < length (fst x))%nat).

  Lemma ginv_seed st rid s : ginv (gv st) -> ginv (gv (fst (x_seed st rid s))).
  Proof.
    intros [H1 H2]. unfold x_seed. cbn [fst]. rewrite gv_upd_rout. unfold gv. simpl. split; simpl.
    - intros g seed hist Hg. destruct (Nat.lt_ge_cases g (length (x_gens st))) as [L|L].
      + rewrite nth_error_app1 in Hg by exact L. apply H1. exact Hg.
      + rewrite nth_error_app2 in Hg by exact L.
        destruct (g - length (x_gens st))%nat eqn:E; simpl in Hg; [|destruct n; discriminate].
        inversion Hg; subst. unfold stream. simpl. apply draws_of_none.
        intros r k req v Hin. specialize (H2 _ _ _ _ _ Hin). simpl in H2. lia.
    - intros r k g req v Hin. specialize (H2 _ _ _ _ _ Hin). simpl in H2. rewrite app_length. simpl. lia.
  Qed.

  Lemma ginv_draw st rid k req : ginv (gv st) -> ginv (gv (fst (x_draw gen st rid k req))).
  Proof.
    intros [H1 H2]. unfold x_draw.
    destruct (nth_error (x_routs st) rid) as [r|]; [|split; assumption].
    destruct (nth_error (x_gens st) (xr_gen r)) as [[seed hist]|] eqn:Eg; [|split; assumption].
    unfold gv. simpl. split; simpl.
    - intros g s h Hg. rewrite draws_of_cons. simpl.
      destruct (Nat.eqb (xr_gen r) g) eqn:E.
      + apply Nat.eqb_eq in E. subst g. rewrite (set_nth_same _ _ _ _ Eg) in Hg. inversion Hg; subst.
        rewrite stream_app. f_equal. apply (H1 _ _ _ Eg).
      + apply Nat.eqb_neq in E. rewrite set_nth_other in Hg by exact E. rewrite app_nil_r. apply H1. exact Hg.
    - intros r0 k0 g req0 v [Hin|Hin].
      + inversion Hin; subst. rewrite set_nth_length. apply nth_error_Some. rewrite Eg. discriminate.
      + rewrite set_nth_length. apply (H2 _ _ _ _ _ Hin).
  Qed.

  Lemma ginv_read st rid k f : ginv (gv st) -> ginv (gv (fst (x_flowread st rid k f))).
  Proof.
    intros [H1 H2]. unfold x_flowread. destruct (nth_error (x_flows st) f) as [[v ws]|]; [|split; assumption].
    unfold gv. simpl. split; simpl.
    - intros g s h Hg. rewrite draws_of_cons. simpl. rewrite app_nil_r. apply H1. exact Hg.
    - intros r0 k0 g req0 v0 [Hin|Hin]; [discriminate|]. apply (H2 _ _ _ _ _ Hin).
  Qed.

  Lemma ginv_init rt p t0 n : ginv (gv (x_init rt p t0 n)).
  Proof.
    rewrite gv_init. split; simpl.
    - intros [|g] seed hist H; simpl in H; [|destruct g; discriminate]. inversion H; subst. reflexivity.
    - intros; tauto.
  Qed.

  Lemma ginv_nrt dd p fuel : ginv (gv (xnrt_loop gen dd p fuel (xnrt_init p))).
  Proof. apply (nrt_loop_gv gen dd p ginv ginv_seed ginv_draw ginv_read). apply ginv_init. Qed.
  Lemma ginv_rt off p t0 sched : ginv (gv (xs (xrt_run gen off p t0 sched))).
  Proof. apply (rt_run_gv gen p ginv ginv_seed ginv_draw ginv_read). apply ginv_init. Qed.

  (* ---- the statements ------------------------------------------------------------------------- *)
  Lemma gen_stream_nrt dd p fuel g seed hist :
    nth_error (x_gens (xnrt_loop gen dd p fuel (xnrt_init p))) g = Some (seed, hist) ->
    draws_of g (x_vals (xnrt_loop gen dd p fuel (xnrt_init p))) = stream gen seed hist.
  Proof. intros H. exact (proj1 (ginv_nrt dd p fuel) g seed hist H). Qed.
  Lemma gen_stream_rt off p t0 sched g seed hist :
    nth_error (x_gens (xs (xrt_run gen off p t0 sched))) g = Some (seed, hist) ->
    draws_of g (x_vals (xs (xrt_run gen off p t0 sched))) = stream gen seed hist.
  Proof. intros H. exact (proj1 (ginv_rt off p t0 sched) g seed hist H). Qed.
End Inv.

(* rid is the only routine that draws from object g, and g the only object rid draws from *)
Definition keeps_to_itself (rid g : nat) (vals : list vevent) : Prop :=
  forall r k g' req v, In (VDraw r k g' req v) vals -> (r = rid <-> g' = g).

Lemma draws_by_of rid g vals : keeps_to_itself rid g vals -> draws_by rid vals = draws_of g vals.
Proof.
  intros H. unfold draws_by, draws_of.
  assert (H' : forall x, In x (rev vals) ->
            match x with VDraw r _ g' req v => if Nat.eqb r rid then [(req, v)] else [] | _ => [] end =
            match x with VDraw _ _ g' req v => if Nat.eqb g' g then [(req, v)] else [] | _ => [] end).
  { intros x Hx. apply in_rev in Hx. destruct x as [r k g' req v|]; auto.
    destruct (H _ _ _ _ _ Hx) as [A B].
    destruct (Nat.eqb r rid) eqn:E1; destruct (Nat.eqb g' g) eqn:E2; auto.
    - apply Nat.eqb_eq in E1. apply Nat.eqb_neq in E2. tauto.
    - apply Nat.eqb_neq in E1. apply Nat.eqb_eq in E2. tauto. }
  induction (rev vals) as [|x l IH]; simpl; auto.
  rewrite (H' x) by (simpl; auto). f_equal. apply IH. intros y Hy. apply H'. simpl; auto.
Qed.

(* rout.rand_seed = s gives the routine a NEW object seeded s that has served nothing and that no
   routine points to *)
Lemma x_seed_fresh st rid s r :
  nth_error (x_routs st) rid = Some r ->
  (forall r', In r' (x_routs st) -> (xr_gen r' < length (x_gens st))%nat) ->
  let st' := fst (x_seed st rid s) in
  let g := length (x_gens st) in
  nth_error (x_gens st') g = Some (s, []) /\
  (exists r', nth_error (x_routs st') rid = Some r' /\ xr_gen r' = g) /\
  (forall j r', j <> rid -> nth_error (x_routs st') j = Some r' -> xr_gen r' <> g) /\
  (forall g' x, nth_error (x_gens st) g' = Some x -> nth_error (x_gens st') g' = Some x).
Proof.
  intros Hr Hlt st' g. subst st' g. unfold x_seed. cbn [fst]. unfold upd_rout. simpl. rewrite Hr. simpl.
  split; [|split; [|split]].
  - rewrite nth_error_app2 by lia. rewrite Nat.sub_diag. reflexivity.
  - eexists. split; [eapply set_nth_same; exact Hr|]. reflexivity.
  - intros j r' Hj Hn. rewrite set_nth_other in Hn by congruence.
    apply nth_error_In in Hn. specialize (Hlt _ Hn). lia.
  - intros g' x Hg. rewrite nth_error_app1; auto. apply nth_error_Some. rewrite Hg. discriminate.
Qed.
