(* C12 -- histories with the logical time of each change as data, and a task pending in the
   scheduler while the clock changes (deepening round).  Builds on proofs/C12_tempo.v. *)
Require Import SC3.proofs.NumTac SC3.proofs.C12_num SC3.proofs.C12_tempo.
Require Import SC3.lib.TempoState SC3.gen.Gen_builtins SC3.gen.Gen_tempo SC3.model.Tempo.
From Coq Require Import List.
Import ListNotations.
Open Scope Q_scope.

(* ---- the ideal piecewise-affine clock ---------------------------------------------------
   (T, B, V): at logical second T the clock read beat B and has run at V beats per second since.
   Each change carries its own time (the `now` / elapsed argument of the op). *)
Record tline := mkTL { tl_T : Q; tl_B : Q; tl_V : Q }.
Definition tl_beats (l : tline) (x : Q) : Q := tl_B l + (x - tl_T l) * tl_V l.
Definition tl_step (l : tline) (o : op) : tline :=
  match o with
  | OTempo now v => mkTL (toQ now) (tl_beats l (toQ now)) (toQ v)     (* beat kept, tempo changes *)
  | OEtempo e v => mkTL (toQ e) (tl_beats l (toQ e)) (toQ v)
  | OBeats now v => mkTL (toQ now) (toQ v) (tl_V l)                   (* beat jumps, tempo kept   *)
  | OMeter _ _ => l
  end.
Definition integrate (l : tline) (h : list op) : tline := fold_left tl_step h l.
Definition tl_of (s : clockstate) : tline := mkTL (toQ (base_seconds s)) (toQ (base_beats s)) (toQ (tempo s)).

(* s realises l: same tempo, same beat at every second *)
Definition Agrees (s : clockstate) (l : tline) : Prop :=
  toQ (tempo s) == tl_V l /\ forall x, ok x -> toQ (py_secs2beats s x) == tl_beats l (toQ x).

Lemma agrees_init s : Typed s -> Agrees s (tl_of s).
Proof.
  intros H. split; [reflexivity|]. intros x Hx.
  rewrite (val_toQ _ _ (s2b_val s x (toQ x) H (val_refl _ Hx))). unfold tl_beats, tl_of; cbn. ring.
Qed.

(* an affine map is determined by its slope and one point *)
Lemma affine_from s x y : Typed s -> ok x -> ok y ->
  toQ (py_secs2beats s x) == toQ (py_secs2beats s y) + (toQ x - toQ y) * toQ (tempo s).
Proof.
  intros H Hx Hy.
  rewrite (val_toQ _ _ (s2b_val s x (toQ x) H (val_refl _ Hx))).
  rewrite (val_toQ _ _ (s2b_val s y (toQ y) H (val_refl _ Hy))). ring.
Qed.

Lemma step_agrees s o l : WF s -> 0 < toQ (tempo s) -> op_ok o -> Agrees s l ->
  exists s', step s o = Some s' /\ WF s' /\ 0 < toQ (tempo s') /\ Agrees s' (tl_step l o).
Proof.
  intros W Ht Ho [AV AB]. destruct o as [now v|e v|now v|now v]; cbn [step op_ok tl_step] in *.
  - destruct Ho as (A & B & C).
    destruct (tempo_set_wf s now v W Ht A B C) as (s' & E & W' & T' & Vb & _).
    exists s'. split; [apply strict_some; [exact E|exact (proj1 W')]|]. split; [exact W'|]. split; [rewrite T'; exact C|].
    split; [exact T'|]. intros x Hx. destruct W' as (Ty' & _).
    rewrite (affine_from s' x now Ty' Hx A). unfold py_beats in Vb. rewrite (val_toQ _ _ Vb).
    fold (py_secs2beats s now). rewrite (AB now A), T'. unfold tl_beats; cbn. ring.
  - destruct Ho as (A & B & C). assert (N : ~ toQ v == 0) by lra.
    destruct (etempo_wf s e v W A B N) as (s' & E & W' & T' & Vb & _).
    exists s'. split; [apply strict_some; [exact E|exact (proj1 W')]|]. split; [exact W'|]. split; [rewrite T'; exact C|].
    split; [exact T'|]. intros x Hx. destruct W' as (Ty' & _).
    rewrite (affine_from s' x e Ty' Hx A). rewrite (val_toQ _ _ Vb).
    rewrite (AB e A), T'. unfold tl_beats; cbn. ring.
  - destruct Ho as (A & B).
    destruct (beats_set_wf s now v W A B) as (s' & E & W' & T' & Vb & _).
    exists s'. split; [apply strict_some; [exact E|exact (proj1 W')]|]. split; [exact W'|]. split; [rewrite T'; exact Ht|].
    split; [cbn; rewrite T'; exact AV|]. intros x Hx. destruct W' as (Ty' & _).
    rewrite (affine_from s' x now Ty' Hx A). unfold py_beats in Vb. rewrite (val_toQ _ _ Vb).
    rewrite T', AV. unfold tl_beats; cbn. ring.
  - destruct Ho as (A & B & C).
    destruct (meter_set_wf s now v W A B C) as (s' & E & W' & S1 & _).
    exists s'. split; [apply strict_some; [exact E|exact (proj1 W')]|]. split; [exact W'|].
    assert (TT : tempo s' = tempo s) by (rewrite meter_set_eq in E; injection E as <-; reflexivity).
    split; [rewrite TT; exact Ht|]. split; [rewrite TT; exact AV|].
    intros x Hx. rewrite S1. apply AB; exact Hx.
Qed.

Lemma run_agrees h : forall s l, WF s -> 0 < toQ (tempo s) -> Forall op_ok h -> Agrees s l ->
  exists s', run s h = Some s' /\ WF s' /\ 0 < toQ (tempo s') /\ Agrees s' (integrate l h).
Proof.
  induction h as [|o r IH]; intros s l W Ht F A.
  - exists s. split; [reflexivity|]. split; [exact W|]. split; [exact Ht|exact A].
  - inversion F as [|? ? Ho Fr]; subst.
    destruct (step_agrees s o l W Ht Ho A) as (s1 & E & W1 & T1 & A1).
    cbn [run integrate fold_left]. rewrite E. apply (IH s1 (tl_step l o)); assumption.
Qed.

(* the history theorem *)
Lemma history_spec h s : WF s -> 0 < toQ (tempo s) -> Forall op_ok h ->
  exists s', run s h = Some s' /\ WF s' /\ 0 < toQ (tempo s') /\
    toQ (tempo s') == tl_V (integrate (tl_of s) h) /\
    (forall x, ok x -> val (py_secs2beats s' x) (tl_beats (integrate (tl_of s) h) (toQ x))) /\
    (forall b x, ok b -> ok x ->
       val (py_secs2beats s' (py_beats2secs s' b)) (toQ b) /\ val (py_beats2secs s' (py_secs2beats s' x)) (toQ x)) /\
    (forall x d, ok x -> ok d ->
       val (py_secs2beats s' (nadd x d)) (toQ (py_secs2beats s' x) + toQ d * toQ (tempo s'))).
Proof.
  intros W Ht F. destruct W as (Ty & TI & MI).
  destruct (run_agrees h s (tl_of s) (conj Ty (conj TI MI)) Ht F (agrees_init s Ty)) as (s' & E & W' & T' & AV & AB).
  exists s'. split; [exact E|]. split; [exact W'|]. split; [exact T'|]. split; [exact AV|].
  destruct W' as (Ty' & TI' & MI').
  split; [|split].
  - intros x Hx. eapply val_eq. apply s2b_val; [exact Ty'|apply val_refl; exact Hx].
    rewrite <- (AB x Hx). symmetry. exact (val_toQ _ _ (s2b_val s' x (toQ x) Ty' (val_refl _ Hx))).
  - intros b x Hb Hx. apply inverse_both; assumption.
  - intros x d Hx Hd. apply advance; assumption.
Qed.

(* ---- a task pending while the clock changes ---------------------------------------------- *)
Lemma retime_flags : py_tempo_set_retimes = true /\ py_etempo_retimes = true /\ py_beats_set_retimes = true.
Proof. repeat split. Qed.

Lemma beat_dur_pos s : TInv s -> 0 < toQ (tempo s) -> 0 < toQ (beat_dur s).
Proof.
  unfold TInv. intros H Ht. set (d := toQ (beat_dur s)) in *. set (t := toQ (tempo s)) in *.
  clearbody d t. destruct (Qlt_le_dec 0 d) as [L|L]; [exact L|exfalso]. nra.
Qed.
Lemma b2s_monotone s b1 b2 : Typed s -> TInv s -> 0 < toQ (tempo s) -> ok b1 -> ok b2 -> toQ b1 <= toQ b2 ->
  toQ (py_beats2secs s b1) <= toQ (py_beats2secs s b2).
Proof.
  intros H TI Ht H1 H2 L. pose proof (beat_dur_pos s TI Ht) as D.
  rewrite (val_toQ _ _ (b2s_val s b1 (toQ b1) H (val_refl _ H1))).
  rewrite (val_toQ _ _ (b2s_val s b2 (toQ b2) H (val_refl _ H2))).
  apply Qplus_le_l. apply Qmult_le_compat_r; lra.
Qed.

Lemma step_pend_inv s o p : WF s -> 0 < toQ (tempo s) -> op_ok o ->
  p_secs p = py_beats2secs s (p_beats p) ->
  exists s' p', step_pend s o p = Some (s', p') /\ step s o = Some s' /\ WF s' /\ 0 < toQ (tempo s') /\
    p_beats p' = p_beats p /\ p_secs p' = py_beats2secs s' (p_beats p).
Proof.
  intros W Ht Ho Hp. destruct (step_wf s o W Ht Ho) as (s' & E & W' & T').
  unfold step_pend. rewrite E.
  destruct o as [now v|e v|now v|now v]; cbn [op_retimes].
  1-3: (eexists; eexists; split; [reflexivity|]; split; [reflexivity|]; split; [exact W'|]; split; [exact T'|];
        split; reflexivity).
  exists s', p. split; [reflexivity|]. split; [reflexivity|]. split; [exact W'|]. split; [exact T'|].
  split; [reflexivity|].
  cbn [step] in E. apply strict_inv in E. rewrite meter_set_eq in E. injection E as <-. rewrite Hp. reflexivity.
Qed.

Lemma run_pend_inv h : forall s p, WF s -> 0 < toQ (tempo s) -> Forall op_ok h ->
  p_secs p = py_beats2secs s (p_beats p) ->
  exists s' p', run_pend s h p = Some (s', p') /\ run s h = Some s' /\ WF s' /\ 0 < toQ (tempo s') /\
    p_beats p' = p_beats p /\ p_secs p' = py_beats2secs s' (p_beats p).
Proof.
  induction h as [|o r IH]; intros s p W Ht F Hp.
  - exists s, p. repeat (split; [first [reflexivity|assumption]|]). exact Hp.
  - inversion F as [|? ? Ho Fr]; subst.
    destruct (step_pend_inv s o p W Ht Ho Hp) as (s1 & p1 & E & E' & W1 & T1 & B1 & S1).
    cbn [run_pend run]. rewrite E, E'.
    rewrite <- B1 in S1.
    destruct (IH s1 p1 W1 T1 Fr S1) as (s2 & p2 & R & R' & W2 & T2 & B2 & S2).
    exists s2, p2. split; [exact R|]. split; [exact R'|]. split; [exact W2|]. split; [exact T2|].
    split; [rewrite B2; exact B1|]. rewrite S2, B1. reflexivity.
Qed.

(* play(quant) then ANY history of changes before the wake-up *)
Lemma play_then_history s now a h : WF s -> 0 < toQ (tempo s) -> Forall op_ok h ->
  ok (py_next_time_on_grid s now (fst (as_quant a)) (snd (as_quant a))) ->
  exists s' p', run_pend s h (sched_abs_nrt s (play_beat s now a)) = Some (s', p') /\ run s h = Some s' /\ WF s' /\
    p_beats p' = py_next_time_on_grid s now (fst (as_quant a)) (snd (as_quant a)) /\
    p_secs p' = py_beats2secs s' (p_beats p') /\
    val (wake_beat_of s' p') (toQ (py_next_time_on_grid s now (fst (as_quant a)) (snd (as_quant a)))) /\
    (forall now', ok now' -> toQ (py_beats s' now') <= toQ (p_beats p') -> toQ now' <= toQ (p_secs p')).
Proof.
  intros W Ht F Hg.
  set (g := py_next_time_on_grid s now (fst (as_quant a)) (snd (as_quant a))) in *.
  assert (PB : play_beat s now a = g) by reflexivity. rewrite PB.
  destruct (run_pend_inv h s (sched_abs_nrt s g) W Ht F eq_refl) as (s' & p' & R & R' & W' & T' & B' & S').
  cbn [sched_abs_nrt p_beats] in B', S'.
  exists s', p'. split; [exact R|]. split; [exact R'|]. split; [exact W'|]. split; [exact B'|].
  split; [rewrite B'; exact S'|]. destruct W' as (Ty' & TI' & MI').
  split.
  - unfold wake_beat_of. rewrite S'. apply secs_of_beats_inv; assumption.
  - intros now' Hn L. rewrite S', B' in *.
    pose proof (val_toQ _ _ (beats_of_secs_inv s' now' Ty' TI' Hn)) as Q. fold (py_beats s' now') in Q.
    rewrite <- Q. apply b2s_monotone; try assumption.
    exact (val_ok _ _ (s2b_val s' now' (toQ now') Ty' (val_refl _ Hn))).
Qed.

(* ---- several pending tasks: the seconds under which they are filed keep the order of their due beats ---- *)
Lemma pending_order h s p1 p2 : WF s -> 0 < toQ (tempo s) -> Forall op_ok h ->
  p_secs p1 = py_beats2secs s (p_beats p1) -> p_secs p2 = py_beats2secs s (p_beats p2) ->
  ok (p_beats p1) -> ok (p_beats p2) -> toQ (p_beats p1) <= toQ (p_beats p2) ->
  exists s' p1' p2', run_pend s h p1 = Some (s', p1') /\ run_pend s h p2 = Some (s', p2') /\
    p_beats p1' = p_beats p1 /\ p_beats p2' = p_beats p2 /\ toQ (p_secs p1') <= toQ (p_secs p2').
Proof.
  intros W Ht F H1 H2 K1 K2 L.
  destruct (run_pend_inv h s p1 W Ht F H1) as (s1 & q1 & R1 & E1 & W1 & T1 & B1 & S1).
  destruct (run_pend_inv h s p2 W Ht F H2) as (s2 & q2 & R2 & E2 & W2 & T2 & B2 & S2).
  assert (s2 = s1) by congruence. subst s2.
  exists s1, q1, q2. split; [exact R1|]. split; [exact R2|]. split; [exact B1|]. split; [exact B2|].
  rewrite S1, S2. destruct W1 as (Ty & TI & _). apply b2s_monotone; assumption.
Qed.

(* no change between play and wake-up: needs neither the meter invariant nor a positive tempo
   (etempo may have made it negative) *)
Lemma play_wakes_any_tempo s now a : Typed s -> TInv s ->
  ok (py_next_time_on_grid s now (fst (as_quant a)) (snd (as_quant a))) ->
  run_pend s [] (sched_abs_nrt s (play_beat s now a)) = Some (s, sched_abs_nrt s (play_beat s now a)) /\
  p_beats (sched_abs_nrt s (play_beat s now a)) = py_next_time_on_grid s now (fst (as_quant a)) (snd (as_quant a)) /\
  p_secs (sched_abs_nrt s (play_beat s now a)) = py_beats2secs s (py_next_time_on_grid s now (fst (as_quant a)) (snd (as_quant a))) /\
  val (wake_beat_of s (sched_abs_nrt s (play_beat s now a)))
      (toQ (py_next_time_on_grid s now (fst (as_quant a)) (snd (as_quant a)))).
Proof.
  intros H HT Hk. split; [reflexivity|]. split; [reflexivity|]. split; [reflexivity|].
  unfold wake_beat_of, sched_abs_nrt, play_beat, py_play. cbn [p_secs]. cbv zeta.
  apply secs_of_beats_inv; assumption.
Qed.

(* ---- a routine that yields a number: woken (due at p), it runs while the clock goes through h1 (its own changes),
   yields d, sleeps while the clock goes through h2 (changes made by other routines), and wakes d beats after the
   beat it woke at ---- *)
Lemma yield_advances s p d h1 h2 : WF s -> 0 < toQ (tempo s) -> Forall op_ok h1 -> Forall op_ok h2 ->
  ok (p_beats p) -> ok d -> p_secs p = py_beats2secs s (p_beats p) ->
  val (wake_beat_of s p) (toQ (p_beats p)) /\
  exists s1 s2 q, run s h1 = Some s1 /\ run_pend s1 h2 (resched s1 (wake_beat_of s p) d) = Some (s2, q) /\
    run s1 h2 = Some s2 /\ WF s2 /\
    p_secs q = py_beats2secs s2 (p_beats q) /\
    val (p_beats q) (toQ (p_beats p) + toQ d) /\
    val (wake_beat_of s2 q) (toQ (p_beats p) + toQ d) /\
    (forall now', ok now' -> toQ (py_beats s2 now') <= toQ (p_beats q) -> toQ now' <= toQ (p_secs q)).
Proof.
  intros W Ht F1 F2 Kb Kd Hp.
  assert (Vw : val (wake_beat_of s p) (toQ (p_beats p))).
  { unfold wake_beat_of. rewrite Hp. destruct W as (Ty & TI & _). apply secs_of_beats_inv; assumption. }
  split; [exact Vw|].
  destruct (run_wf h1 s W Ht F1) as (s1 & E1 & W1 & T1).
  set (wb := wake_beat_of s p) in *.
  pose proof (val_nadd _ _ _ _ Vw (val_refl _ Kd)) as Vb.
  destruct (run_pend_inv h2 s1 (resched s1 wb d) W1 T1 F2 eq_refl) as (s2 & q & R & R' & W2 & T2 & B2 & S2).
  cbn [resched sched_abs_nrt p_beats] in B2, S2.
  exists s1, s2, q. split; [exact E1|]. split; [exact R|]. split; [exact R'|]. split; [exact W2|].
  split; [rewrite B2; exact S2|]. split; [rewrite B2; exact Vb|].
  destruct W2 as (Ty2 & TI2 & MI2). split.
  - unfold wake_beat_of. rewrite S2. eapply val_eq.
    + apply secs_of_beats_inv; [exact Ty2|exact TI2|exact (val_ok _ _ Vb)].
    + exact (val_toQ _ _ Vb).
  - intros now' Hn L. rewrite S2, B2 in *.
    pose proof (val_toQ _ _ (beats_of_secs_inv s2 now' Ty2 TI2 Hn)) as Q. fold (py_beats s2 now') in Q.
    rewrite <- Q. apply b2s_monotone; try assumption.
    + exact (val_ok _ _ (s2b_val s2 now' (toQ now') Ty2 (val_refl _ Hn))).
    + exact (val_ok _ _ Vb).
Qed.

(* ---- several clocks: a change on clock c re-times the pending tasks of clock c and of no other clock ---- *)
Lemma retime_on_find c s l id :
  find_pend id (retime_on c s l) =
  match find_pend id l with
  | Some (k, p) => Some (if Nat.eqb k c then (c, retime s p) else (k, p))
  | None => None
  end.
Proof.
  induction l as [|[j [k p]] r IH]; [reflexivity|].
  change (retime_on c s ((j, (k, p)) :: r))
    with ((if Nat.eqb k c then (j, (c, retime s p)) else (j, (k, p))) :: retime_on c s r).
  destruct (Nat.eqb k c) eqn:E; cbn [find_pend]; destruct (N.eqb id j).
  - rewrite E. reflexivity.
  - exact IH.
  - rewrite E. reflexivity.
  - exact IH.
Qed.
Lemma retime_on_other c s l id k p : find_pend id l = Some (k, p) -> k <> c ->
  find_pend id (retime_on c s l) = Some (k, p).
Proof.
  intros H N. rewrite retime_on_find, H. apply Nat.eqb_neq in N. rewrite N. reflexivity.
Qed.
