(* C11 -- nested next() terminates: the result of next_ does not depend on the fuel once the fuel
   exceeds the number of routines that are not running (every nested call enters a routine that was
   not running, and a running routine refuses re-entry), so fuel exhaustion (the model's
   RecursionError for over-deep nesting) is unreachable under that bound. *)
From Coq Require Import ZArith List Bool Arith Lia.
Require Import SC3.model.Cond SC3.model.Routine SC3.proofs.C11_stack.
Import ListNotations.

Definition idle (x : rt) : bool := negb (state_eqb (st x) Running).
Definition free (w : world) : nat := length (filter idle (rts w)).

Lemma idle_true : forall x, idle x = true <-> st x <> Running.
Proof. intro x. unfold idle. destruct (st x); simpl; split; intro H; try congruence; try reflexivity; exfalso; apply H; reflexivity. Qed.

Lemma filter_len_pointwise : forall A (f : A -> bool) l l',
  length l = length l' ->
  (forall i x x', nth_error l i = Some x -> nth_error l' i = Some x' -> f x = f x') ->
  length (filter f l) = length (filter f l').
Proof.
  induction l as [| a l IH]; intros [| b l'] L P; simpl in *; try discriminate; [reflexivity |].
  rewrite (P 0%nat a b eq_refl eq_refl).
  assert (E : length (filter f l) = length (filter f l')).
  { apply IH; [lia |]. intros i x x' H H'. apply (P (S i) x x'); assumption. }
  destruct (f b); simpl; lia.
Qed.

Lemma pres_free : forall w w', pres w w' -> free w' = free w.
Proof.
  intros w w' (Q1 & Q2 & Q3 & Q4 & Q5). unfold free. apply filter_len_pointwise; [exact Q3 |].
  intros i x' x E' E. destruct (idle x) eqn:I.
  - apply idle_true in I. destruct (Q5 i x E I) as (y & Ey & Ny). unfold getr in Ey. rewrite E' in Ey.
    inversion Ey; subst y. apply idle_true. exact Ny.
  - assert (SR : st x = Running) by (unfold idle in I; destruct (st x); simpl in I; congruence).
    pose proof (Q4 i x E SR) as Ey. unfold getr in Ey. rewrite E' in Ey. inversion Ey; subst x'. exact I.
Qed.

Lemma upd_nth_twice : forall A n (x y : A) l, upd_nth n y (upd_nth n x l) = upd_nth n y l.
Proof. induction n; destruct l; simpl; auto. intros. f_equal. auto. Qed.

Lemma filter_upd_idle : forall r (x x2 : rt) l, nth_error l r = Some x -> idle x = true -> idle x2 = false ->
  S (length (filter idle (upd_nth r x2 l))) = length (filter idle l).
Proof.
  induction r as [| r IH]; intros x x2 [| a l] E I I2; simpl in *; try discriminate.
  - inversion E; subst a. rewrite I, I2. reflexivity.
  - specialize (IH x x2 l E I I2). destruct (idle a); simpl; lia.
Qed.

(* the world in which the body of r runs *)
Lemma entered_good : forall w r x x2 w2,
  good w -> getr w r = Some x -> st x <> Running ->
  st x2 = Running -> term x2 = None ->
  rts w2 = upd_nth r x2 (rts w) -> cur w2 = Some (R r) -> poison w2 = poison w ->
  (log w2 = log w \/ exists e, logok (r, e) /\ log w2 = (r, e) :: log w) ->
  good w2 /\ getr w2 r = Some x2 /\ S (free w2) = free w.
Proof.
  intros w r x x2 w2 ((V & W & P) & L) E NR S2 T2 RT C2 P2 LG.
  assert (SAME : nth_error (rts w2) r = Some x2) by (rewrite RT; eapply nth_upd_same; exact E).
  split; [| split; [exact SAME |]].
  - split.
    + split; [| split].
      * unfold cur_valid. rewrite C2, RT, upd_nth_length. apply nth_error_Some. unfold getr in E. congruence.
      * intros i y Hy. unfold getr in Hy. destruct (Nat.eq_dec i r) as [Q | Q].
        -- subst i. rewrite SAME in Hy. inversion Hy; subst y. split; [intro; congruence | intros _; exact T2].
        -- rewrite RT, nth_upd_other in Hy; auto. eapply W; eauto.
      * rewrite P2. exact P.
    + unfold loginv. destruct LG as [LG | (e & K & LG)]; rewrite LG; [exact L | constructor; [exact K | exact L]].
  - unfold free. rewrite RT. eapply filter_upd_idle; [exact E | apply idle_true; exact NR |].
    unfold idle. rewrite S2. reflexivity.
Qed.

Section Fuel.
Variable defs : list rdef.
Local Notation cfg := patched.

Definition agree (n : nat) (cn1 cn2 : nat -> val -> world -> world * outcome) : Prop :=
  forall r v w, good w -> (free w < n)%nat -> cn1 r v w = cn2 r v w.

Lemma exec_agree : forall n cn1 cn2, CN cn1 -> agree n cn1 cn2 ->
  forall acts self k pc w x,
    good w -> cur w = Some (R self) -> getr w self = Some x -> st x = Running -> (free w < n)%nat ->
    exec cfg cn1 self k acts pc w = exec cfg cn2 self k acts pc w.
Proof.
  intros n cn1 cn2 H A. induction acts as [| a rest IH]; intros self k pc w x G C E SR F; [reflexivity |].
  assert (KEEP : forall w1 pc', pres w w1 -> good w1 ->
            exec cfg cn1 self k rest pc' w1 = exec cfg cn2 self k rest pc' w1).
  { intros w1 pc' P1 G1. pose proof P1 as (Q1 & Q2 & Q3 & Q4 & Q5).
    apply (IH self k pc' w1 x); auto; try congruence. rewrite (pres_free _ _ P1). exact F. }
  destruct a as [v | | | v | v | c catch | c | c | v | | rr vv]; simpl; try reflexivity.
  - destruct k; [reflexivity | apply KEEP; [apply pres_refl | exact G]].
  - assert (DC : do_call cfg cn1 c w = do_call cfg cn2 c w).
    { destruct c; try reflexivity. simpl. apply A; assumption. }
    destruct (do_call_ok cn1 H c w G) as (P1 & G1 & R1). rewrite <- DC.
    destruct (do_call cfg cn1 c w) as [w1 o]. simpl in P1, G1, R1.
    assert (LK : logok (self, EvCall c o)) by (unfold logok; simpl; intro T; eapply R1; eauto).
    destruct (add_log_ok w1 self (EvCall c o) G1 LK) as [P2 G2].
    destruct o as [u | e].
    + apply KEEP; [eapply pres_trans; eauto | exact G2].
    + destruct (catch && catchable e); [apply KEEP; [eapply pres_trans; eauto | exact G2] | reflexivity].
  - destruct k; [| apply KEEP; [apply pres_refl | exact G]]. reflexivity.
  - destruct (nth_error (cells w) c) as [cx |].
    + destruct (add_log_ok w self (EvFlow (cell_value cx)) G I) as [P2 G2]. apply KEEP; assumption.
    + apply KEEP; [apply pres_refl | exact G].
  - unfold log_self. fold (getr w self). rewrite E, C, Nat.eqb_refl.
    assert (LK : logok (self, EvLog v true (st x) (secs x))) by (split; [reflexivity | exact SR]).
    destruct (add_log_ok w self _ G LK) as [P2 G2]. apply KEEP; assumption.
  - destruct k; [| apply KEEP; [apply pres_refl | exact G]].
    rewrite (A rr vv w G F). reflexivity.
Qed.

Ltac body_tac cn1 BODY x2 TN RT :=
  match goal with
  | [ |- context [ exec _ cn1 ?r ?k ?acts ?pc ?W ] ] =>
    rewrite (BODY x2 W k acts pc eq_refl TN RT eq_refl eq_refl
                  ltac:(first [left; reflexivity | right; eexists; split; [| reflexivity]; exact I]));
    reflexivity
  end.

Lemma next_run_agree : forall n cn1 cn2, CN cn1 -> agree n cn1 cn2 ->
  forall r v w x, good w -> getr w r = Some x -> st x <> Running -> st x <> Done -> (free w < S n)%nat ->
  next_run cfg defs cn1 r v w x = next_run cfg defs cn2 r v w x.
Proof.
  intros n cn1 cn2 H A r v w x G E NR ND F. pose proof G as ((V & W & P) & L).
  destruct (W _ _ E) as [WA WB]. destruct (WA NR) as [PN GX]. pose proof (WB ND) as TN.
  unfold next_run. destruct (nth_error defs r) as [d |]; [| reflexivity].
  destruct (cur w) as [p |] eqn:C; [| reflexivity].
  destruct (secs_of p w) as [ps |]; [| reflexivity].
  set (x1 := with_st Running (with_secs ps (with_parent (Some p) x))).
  (* every world handed to exec below: routines = rts w with r replaced by a Running record, cur = r *)
  assert (BODY : forall x2 w2 k acts pc,
            st x2 = Running -> term x2 = None -> rts w2 = upd_nth r x2 (rts w) -> cur w2 = Some (R r) ->
            poison w2 = poison w -> (log w2 = log w \/ exists e, logok (r, e) /\ log w2 = (r, e) :: log w) ->
            exec cfg cn1 r k acts pc w2 = exec cfg cn2 r k acts pc w2).
  { intros x2 w2 k acts pc S2 T2 RT C2 P2 LG.
    destruct (entered_good w r x x2 w2 G E NR S2 T2 RT C2 P2 LG) as (G2 & E2 & F2).
    eapply exec_agree; eauto. lia. }
  destruct (d_kind d).
  - rewrite GX.
    set (pc := match iter x with Some pc => pc | None => O end).
    set (x2 := with_gexec true (with_iter (Some pc) x1)).
    destruct (iter x).
    + destruct (nth_error (d_script d) (Nat.pred pc)) as [[] |]; body_tac cn1 BODY x2 TN (upd_nth_twice _ r x1 x2 (rts w)).
    + destruct (d_hasin d); body_tac cn1 BODY x2 TN (upd_nth_twice _ r x1 x2 (rts w)).
  - destruct (d_hasin d); body_tac cn1 BODY x1 TN (eq_refl (upd_nth r x1 (rts w))).
Qed.

Lemma next_step_agree : forall n cn1 cn2, CN cn1 -> agree n cn1 cn2 ->
  agree (S n) (next_step cfg defs cn1) (next_step cfg defs cn2).
Proof.
  intros n cn1 cn2 H A r v w G F. unfold next_step. fold (getr w r).
  destruct (getr w r) as [x |] eqn:E; [| reflexivity].
  destruct (st x) eqn:SX; simpl; try reflexivity;
    apply next_run_agree with (n := n); auto; congruence.
Qed.

(* fuel independence: any two fuels above the number of routines that are not running give the same result *)
Lemma next_fuel_agree : forall n f1 f2, (n <= f1)%nat -> (n <= f2)%nat -> agree n (next_ cfg defs f1) (next_ cfg defs f2).
Proof.
  induction n as [| n IH]; intros f1 f2 L1 L2; [intros r v w _ F; lia |].
  destruct f1 as [| a]; [lia |]. destruct f2 as [| b]; [lia |].
  simpl. apply next_step_agree; [apply next_ok | apply IH; lia].
Qed.

Lemma free_le_length : forall w, (free w <= length (rts w))%nat.
Proof.
  intro w. unfold free. induction (rts w) as [| a l IH]; simpl; [lia |]. destruct (idle a); simpl; lia.
Qed.

Lemma next_fuel_independent_l : forall f1 f2 r v w, good w ->
  (length (rts w) < f1)%nat -> (length (rts w) < f2)%nat ->
  next_ cfg defs f1 r v w = next_ cfg defs f2 r v w.
Proof.
  intros f1 f2 r v w G L1 L2. pose proof (free_le_length w) as FL.
  apply (next_fuel_agree (S (length (rts w))) f1 f2); auto; lia.
Qed.

(* whole histories: with more fuel than routines the run does not depend on the fuel *)
Lemma top_fuel_independent : forall f1 f2 o w, quiescent w ->
  (length (rts w) < f1)%nat -> (length (rts w) < f2)%nat ->
  top cfg defs f1 o w = top cfg defs f2 o w.
Proof.
  intros f1 f2 o w (G & C & N) L1 L2. destruct o as [c |]; simpl.
  - destruct c; try reflexivity. simpl. apply next_fuel_independent_l; assumption.
  - destruct (queue w) as [| [t r] q]; [reflexivity |].
    rewrite (next_fuel_independent_l f1 f2 r VAwake (set_main_secs t (set_queue q w))); auto.
Qed.

Lemma top_length : forall f o w, quiescent w -> length (rts (fst (top cfg defs f o w))) = length (rts w).
Proof.
  intros f o w Q. pose proof Q as (G & C & N). destruct o as [c |]; simpl.
  - destruct (do_call_ok (next_ cfg defs f) (next_ok defs f) c w G) as (A & _). apply A.
  - destruct (queue w) as [| [t r] q]; [reflexivity |].
    assert (G1 : good (set_main_secs t (set_queue q w))).
    { destruct (same_core_ok w (set_queue q w)) as [_ Ga]; [repeat split | exact G |].
      destruct Ga as ((V & W & P) & L). split; [split; [exact V | split; [exact W | exact P]] | exact L]. }
    destruct (next_ok defs f r VAwake _ G1) as (A & _).
    destruct (next_ cfg defs f r VAwake (set_main_secs t (set_queue q w))) as [w2 o]. simpl in A.
    destruct A as (_ & _ & A3 & _). destruct o as [[| d | | | | | d | | |] | e]; exact A3.
Qed.

Lemma run_fuel_independent_l : forall f1 f2 ops w, quiescent w ->
  (length (rts w) < f1)%nat -> (length (rts w) < f2)%nat ->
  run cfg defs f1 ops w = run cfg defs f2 ops w.
Proof.
  intros f1 f2. induction ops as [| o ops IH]; intros w Q L1 L2; simpl; [reflexivity |].
  rewrite (top_fuel_independent f1 f2 o w Q L1 L2).
  destruct (top_ok defs f2 o w Q) as [Q1 _]. pose proof (top_length f2 o w Q) as LEN.
  destruct (top cfg defs f2 o w) as [w1 out]. simpl in Q1, LEN.
  rewrite (IH w1 Q1); [reflexivity | lia | lia].
Qed.

End Fuel.
