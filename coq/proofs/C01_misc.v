(* C01: opcode tables against the server's numbering, rate inference, the guards of the
   optimiser steps, and the dead-code-elimination defect F10. *)
From Coq Require Import ZArith QArith List String Bool Arith Lia.
Import ListNotations.
Require Import SC3.model.Graph SC3.gen.Gen_opcodes SC3.proofs.C01_ctor.
Open Scope string_scope.
Open Scope list_scope.

(* ---------------------------------------------------------------- reference tables
   Hand transcription of SuperCollider's Opcodes.h (trusted), keyed by the spelling the library
   uses for the operator (first column of its tables) and by every Python selector name
   (operator-module / builtins function __name__, dunder) through which sc3 reaches it. *)
Definition server_unary : list (string * Z) := [
  ("neg", 0); ("not", 1); ("isNil", 2); ("notNil", 3); ("bitNot", 4); ("abs", 5); ("asFloat", 6); ("asInteger", 7);
  ("ceil", 8); ("floor", 9); ("frac", 10); ("sign", 11); ("squared", 12); ("cubed", 13); ("sqrt", 14); ("exp", 15);
  ("reciprocal", 16); ("midicps", 17); ("cpsmidi", 18); ("midiratio", 19); ("ratiomidi", 20); ("dbamp", 21); ("ampdb", 22);
  ("octcps", 23); ("cpsoct", 24); ("log", 25); ("log2", 26); ("log10", 27); ("sin", 28); ("cos", 29); ("tan", 30);
  ("asin", 31); ("acos", 32); ("atan", 33); ("sinh", 34); ("cosh", 35); ("tanh", 36); ("rand", 37); ("rand2", 38);
  ("linrand", 39); ("bilinrand", 40); ("sum3rand", 41); ("distort", 42); ("softclip", 43); ("coin", 44); ("digitValue", 45);
  ("silence", 46); ("thru", 47); ("rectWindow", 48); ("hanWindow", 49); ("welWindow", 50); ("triWindow", 51); ("ramp", 52);
  ("scurve", 53);
  (* python selectors *)
  ("__neg__", 0); ("not_", 1); ("__invert__", 4); ("invert", 4); ("__abs__", 5); ("as_float", 6); ("as_int", 7);
  ("__ceil__", 8); ("__floor__", 9); ("rectwindow", 48); ("hanwindow", 49); ("welwindow", 50); ("triwindow", 51)
]%Z.
Definition server_binary : list (string * Z) := [
  ("+", 0); ("-", 1); ("*", 2); ("div", 3); ("/", 4); ("mod", 5); ("==", 6); ("!=", 7); ("<", 8); (">", 9); ("<=", 10);
  (">=", 11); ("min", 12); ("max", 13); ("bitAnd", 14); ("bitOr", 15); ("bitXor", 16); ("lcm", 17); ("gcd", 18);
  ("round", 19); ("roundUp", 20); ("trunc", 21); ("atan2", 22); ("hypot", 23); ("hypotApx", 24); ("pow", 25);
  ("leftShift", 26); ("rightShift", 27); ("unsignedRightShift", 28); ("fill", 29); ("ring1", 30); ("ring2", 31);
  ("ring3", 32); ("ring4", 33); ("difsqr", 34); ("sumsqr", 35); ("sqrsum", 36); ("sqrdif", 37); ("absdif", 38);
  ("thresh", 39); ("amclip", 40); ("scaleneg", 41); ("clip2", 42); ("excess", 43); ("fold2", 44); ("wrap2", 45);
  ("firstArg", 46); ("rrand", 47); ("exprand", 48);
  (* python selectors *)
  ("add", 0); ("__add__", 0); ("__radd__", 0); ("sub", 1); ("__sub__", 1); ("__rsub__", 1); ("mul", 2); ("__mul__", 2);
  ("__rmul__", 2); ("floordiv", 3); ("__floordiv__", 3); ("__rfloordiv__", 3); ("truediv", 4); ("__truediv__", 4);
  ("__rtruediv__", 4); ("__mod__", 5); ("__rmod__", 5); ("eq", 6); ("__eq__", 6); ("ne", 7); ("__ne__", 7); ("lt", 8);
  ("__lt__", 8); ("gt", 9); ("__gt__", 9); ("le", 10); ("__le__", 10); ("ge", 11); ("__ge__", 11); ("bitand", 14);
  ("and_", 14); ("__and__", 14); ("__rand__", 14); ("bitor", 15); ("or_", 15); ("__or__", 15); ("__ror__", 15);
  ("bitxor", 16); ("xor", 16); ("__xor__", 16); ("__rxor__", 16); ("__round__", 19); ("roundup", 20); ("__trunc__", 21);
  ("hypotx", 24); ("__pow__", 25); ("__rpow__", 25); ("lshift", 26); ("__lshift__", 26); ("__rlshift__", 26);
  ("rshift", 27); ("__rshift__", 27); ("__rrshift__", 27); ("urshift", 28); ("first_arg", 46)
]%Z.

Definition un_ok (e : string * Z) : bool :=
  match find_row (fst e) (un_tab T) 0%Z with Some (i, _) => Z.eqb i (snd e) | None => false end.
(* a binary operator is reached through sc_spindex_opname, which looks in the unary table first *)
Definition bin_ok (e : string * Z) : bool :=
  match find_row (fst e) (un_tab T) 0%Z with
  | Some _ => false
  | None => match sc_spindex_opname T (fst e) with Some (i, _) => Z.eqb i (snd e) | None => false end
  end.
(* every name the library's tables know is in the reference (no stray synonym pointing elsewhere) *)
Definition all_known (tab : list (list string)) (ref : list (string * Z)) : bool :=
  forallb (fun r => forallb (fun n => existsb (fun e => String.eqb n (fst e)) ref) r) tab.

Lemma opcode_tables_ok :
  forallb un_ok server_unary = true /\ forallb bin_ok server_binary = true /\
  List.length unops_list = 54 /\ List.length binops_list = 49 /\
  all_known unops_list server_unary = true /\ all_known binops_list server_binary = true.
Proof. vm_compute. repeat split; reflexivity. Qed.

(* ---------------------------------------------------------------- rates *)
Lemma bin_rate_max : forall ra rb, rate_num (bin_rate ra rb) = Z.max (rate_num ra) (rate_num rb).
Proof. intros [] []; reflexivity. Qed.
Lemma strmin_max : forall ra rb, ra <> Demand -> rb <> Demand ->
  rate_num (rate_strmin ra rb) = Z.max (rate_num ra) (rate_num rb) /\ rate_strmin ra rb <> Demand.
Proof. intros [] [] Ha Hb; try congruence; split; try reflexivity; discriminate. Qed.
Lemma seq_rate3_max : forall s a b c, vrate s a <> Demand -> vrate s b <> Demand -> vrate s c <> Demand ->
  rate_num (seq_rate s [a; b; c]) = Z.max (Z.max (rate_num (vrate s a)) (rate_num (vrate s b))) (rate_num (vrate s c)).
Proof.
  intros s a b c Ha Hb Hc. unfold seq_rate; simpl.
  destruct (strmin_max _ _ Ha Hb) as [H1 H2]. destruct (strmin_max _ _ H2 Hc) as [H3 _]. rewrite H3, H1. reflexivity.
Qed.
Lemma seq_rate4_max : forall s a b c d, vrate s a <> Demand -> vrate s b <> Demand -> vrate s c <> Demand -> vrate s d <> Demand ->
  rate_num (seq_rate s [a; b; c; d]) =
  Z.max (Z.max (Z.max (rate_num (vrate s a)) (rate_num (vrate s b))) (rate_num (vrate s c))) (rate_num (vrate s d)).
Proof.
  intros s a b c d Ha Hb Hc Hd. unfold seq_rate; simpl.
  destruct (strmin_max _ _ Ha Hb) as [H1 H2]. destruct (strmin_max _ _ H2 Hc) as [H3 H4].
  destruct (strmin_max _ _ H4 Hd) as [H5 _]. rewrite H5, H3, H1. reflexivity.
Qed.
(* the rate stored in a new BinaryOpUGen *)
Lemma new_bin_unit_rate : forall s name a b s' u ch, new_bin_unit T s name a b = Ok (s', O u ch) ->
  exists U, get_unit s' u = Some U /\ urate U = bin_rate (vrate s a) (vrate s b) /\ ins U = [a; b].
Proof.
  intros s name a b s' u ch H. unfold new_bin_unit in H.
  destruct (sc_spindex_opname T name) as [[idx nm]|]; [|discriminate].
  destruct (create s _ false) as [s1 u1] eqn:Ec. injection H as ? ? ?; subst.
  destruct (create_spec _ _ _ _ _ Ec) as [Hu [w [i Hs]]].
  eexists. unfold get_unit. rewrite Hs, Hu, nth_error_app2, Nat.sub_diag; [simpl|lia]. split; [reflexivity|]. split; reflexivity.
Qed.

(* ---------------------------------------------------------------- guards of the optimiser *)
(* an effectful unit's own _optimize_graph does nothing; a side-effect-free unit that still has a
   descendant and is not a BinaryOpUGen is left alone: only a pure unit whose maintained descendant set
   is empty is dropped by dead code elimination *)
Lemma opt_unit_impure : forall strict guard sg f s u U, get_unit s u = Some U -> pure U = false ->
  opt_unit T strict guard sg (S f) s u = Ok s.
Proof. intros strict guard sg f s u U Hg Hp. cbn [opt_unit]. unfold opt_body. rewrite Hg, Hp. reflexivity. Qed.
Lemma opt_unit_referenced : forall strict guard sg f s u U d, get_unit s u = Some U -> pure U = true ->
  desc_of s U = Some d -> d <> [] -> ukind U <> KBin ->
  opt_unit T strict guard sg (S f) s u = Ok s.
Proof.
  intros strict guard sg f s u U d Hg Hp Hd Hne Hk. cbn [opt_unit]. unfold opt_body. rewrite Hg, Hp, Hd. simpl.
  destruct d; [congruence|]. simpl. destruct (ukind U); congruence.
Qed.

(* ---------------------------------------------------------------- F10 *)
Definition F10 : prog := mkP [] [] [
  IU "SinOsc" Audio [AC 440; AC 0]; IBin "mul" (AV 0 0) (AV 0 0); IOut Audio (AC 0) [AV 0 0]].
Definition F10_add : prog := mkP [] [] [
  IU "Saw" Audio [AC 440]; IBin "add" (AV 0 0) (AV 0 0); IOut Audio (AC 0) [AV 0 0]].
Definition F10_lpf : prog := mkP [] [] [
  IU "Saw" Audio [AC 440]; IU "LPF" Audio [AV 0 0; AV 0 0]; IOut Audio (AC 0) [AV 0 0]].
Definition compiles (strict guard sg : bool) (p : prog) : bool :=
  match compile T strict guard sg p with Ok _ => true | Err _ => false end.

(* with set.remove the faithful model raises KeyError on all three; with set.discard all compile *)
Lemma f10_strict_raises :
  compile T true false false F10 = Err EKey /\ compile T true false false F10_add = Err EKey /\ compile T true false false F10_lpf = Err EKey.
Proof. vm_compute. repeat split; reflexivity. Qed.
Lemma f10_discard_compiles : forallb (compiles false false false) [F10; F10_add; F10_lpf] = true.
Proof. vm_compute. reflexivity. Qed.
(* the code as regenerated from the working tree *)
Lemma f10_current_tree_compiles : forallb (compiles dce_strict dce_guard sub_guard) [F10; F10_add; F10_lpf] = true.
Proof. vm_compute. reflexivity. Qed.
