(* C16 -- free(addr) preserves the invariant (with the relative test in _find_next). *)
From Coq Require Import ZArith List Bool Lia.
Import ListNotations.
Require Import SC3.model.Alloc SC3.proofs.C16_base SC3.proofs.C16_inv.
Open Scope Z_scope.

Ltac inv H := inversion H; subst; clear H.

Lemma Coal_weaken s (R R' : Z -> Z -> Prop) : Coal s R -> (forall a e, R a e -> R' a e) -> Coal s R'.
Proof. intros C H a b b' H1 H2 H3 H4. apply H. eapply C; eauto. Qed.

(* ---- merging two adjacent free blocks L = [xl, xl+ml) and R = [xl+ml, xl+ml+mr) ------------- *)
Section Merge.
Variables (s s' : st) (xl ml mr : Z).
Let xr := xl + ml.
Let M := mkB xl (ml + mr) false.
Hypothesis P : Pre s.
Hypothesis HL : at_ s xl = Some (mkB xl ml false).
Hypothesis HR : at_ s xr = Some (mkB xr mr false).
Hypothesis Kp : pos s' = pos s.
Hypothesis Ko : off s' = off s.
Hypothesis Ks : size s' = size s.
Hypothesis Kl : alen (arr s') = size s.
Hypothesis Hat : forall a, at_ s' a = if a =? xr then None else if a =? xl then Some M else at_ s a.
Hypothesis Htop : top s' = if xr =? top s then xl else top s.
Hypothesis Hkeys : keys_nodup (freed s').
Hypothesis Hfr : forall k a, fmem (freed s') k a <->
  (fmem (freed s) k a /\ ~ (k = ml /\ a = xl) /\ ~ (k = mr /\ a = xr)) \/ (k = ml + mr /\ a = xl /\ xl < top s').

Ltac dat a := destruct (Z.eqb_spec a xr) as [?|?]; [|destruct (Z.eqb_spec a xl) as [?|?]].

Lemma merge_Pre : Pre s'.
Proof.
  pose proof (P_cell s P _ _ HL) as HcL. pose proof (P_cell s P _ _ HR) as HcR. simpl in HcL, HcR.
  assert (Kh : hi s' = hi s) by (unfold hi; rewrite Ko, Ks; auto).
  assert (Hrel : forall a y, at_ s a = Some y -> a <> xl -> a <> xr ->
            bstart y = a /\ 0 < bsize y /\ bstart y + bsize y <= hi s /\ pos s <= a /\ (a + bsize y <= xl \/ xr + mr <= a)).
  { intros a y Hy Hne1 Hne2. pose proof (P_cell s P _ _ Hy) as Hcy.
    destruct (two_blocks s _ _ _ _ P Hy HL) as [[? ?]|[[? ?]|[? ?]]];
    destruct (two_blocks s _ _ _ _ P Hy HR) as [[? ?]|[[? ?]|[? ?]]]; simpl in *; unfold xr in *; lia. }
  assert (Htopcase : (xr = top s /\ xr + mr = hi s) \/ (xr + mr <= top s)).
  { destruct (P_top s P) as (bt & Ht & Hend). pose proof (P_cell s P _ _ Ht) as Hct.
    destruct (two_blocks s _ _ _ _ P HR Ht) as [[? ?]|[[? ?]|[? ?]]]; simpl in *; subst; simpl in *; try lia. }
  constructor.
  - rewrite Kl, Ks. auto.
  - rewrite Kp, Ko, Kh. apply P_pos; auto.
  - intros a y Hy. rewrite Kh, Kp. rewrite Hat in Hy. dat a.
    + discriminate.
    + inv Hy. simpl. unfold xr in *. lia.
    + destruct (Hrel a y Hy) as (? & ? & ? & ? & ?); auto.
  - intros a y j Hy Hj. rewrite Hat in Hy. rewrite Hat. dat a.
    + discriminate.
    + inv Hy. simpl in Hj. dat j; auto; try lia.
      destruct (Z.lt_ge_cases j xr).
      * apply (P_gap s P xl _ j HL). simpl. unfold xr in *. lia.
      * apply (P_gap s P xr _ j HR). simpl. unfold xr in *. lia.
    + destruct (Hrel a y Hy) as (? & ? & ? & ? & ?); auto. dat j; auto; try (unfold xr in *; lia).
      apply (P_gap s P a y j Hy). lia.
  - intros a y Hy Hlt. rewrite Kh in Hlt. rewrite Hat in Hy. rewrite Hat. dat a.
    + discriminate.
    + inv Hy. simpl in *. dat (xl + (ml + mr)); try (unfold xr in *; lia).
      replace (xl + (ml + mr)) with (xr + mr) by (unfold xr; lia). apply (P_next s P xr _ HR); simpl; unfold xr in *; lia.
    + destruct (Hrel a y Hy) as (? & ? & ? & ? & ?); auto.
      dat (bstart y + bsize y); try (unfold xr in *; lia); try discriminate. apply (P_next s P a y Hy). lia.
  - rewrite Kp. rewrite Hat. dat (pos s); try (unfold xr in *; lia); try discriminate. apply P_first; auto.
  - rewrite Kh, Htop. destruct (P_top s P) as (bt & Ht & Hend).
    destruct Htopcase as [[Hx Hm]|Hbelow].
    + destruct (Z.eqb_spec xr (top s)); [|lia]. exists M. rewrite Hat. dat xl; try (unfold xr in *; lia).
      split; auto. simpl. unfold xr in *. lia.
    + destruct (Z.eqb_spec xr (top s)); [unfold xr in *; lia|]. exists bt. rewrite Hat.
      dat (top s); try (unfold xr in *; lia). split; auto.
  - exact Hkeys.
  - intros k a Hm. apply Hfr in Hm. rewrite Hat. destruct Hm as [(Hf & HnL & HnR)|(-> & -> & _)].
    + pose proof (P_sound s P _ _ Hf) as Ha. dat a; auto.
      * subst. rewrite HR in Ha. inv Ha. tauto.
      * subst. rewrite HL in Ha. inv Ha. tauto.
    + dat xl; try (unfold xr in *; lia). reflexivity.
  - intros a y Hy Hu Hlt. rewrite Htop in Hlt. apply Hfr. rewrite Hat in Hy. dat a.
    + discriminate.
    + inv Hy. right. simpl. rewrite Htop. auto.
    + left. destruct (Hrel a y Hy) as (? & ? & ? & ? & ?); auto.
      split; [|split; intros [_ ?]; lia]. apply (P_compl s P); auto.
      destruct (Z.eqb_spec xr (top s)); unfold xr in *; lia.
Qed.

Lemma merge_Coal R : Coal s R ->
  Coal s' (fun a e => (a = xl /\ R xr e) \/ (e = xl /\ a < xl /\ R a xl) \/
                      (a <> xl /\ a <> xr /\ e <> xl /\ e <> xr /\ R a e)).
Proof.
  pose proof (P_cell s P _ _ HL) as HcL. pose proof (P_cell s P _ _ HR) as HcR. simpl in HcL, HcR.
  intros C a y y' Hy Hu Hy' Hu'. rewrite Hat in Hy, Hy'. dat a.
  - discriminate.
  - inv Hy. simpl in *. left. split; auto.
    replace (xl + (ml + mr)) with (xr + mr) in * by (unfold xr; lia).
    dat (xr + mr); try (unfold xr in *; lia). apply (C xr _ y' HR); auto.
  - pose proof (P_cell s P _ _ Hy) as Hcy. dat (bstart y + bsize y).
    + discriminate.
    + right; left. split; auto. split; [lia|].
      assert (G : R a (bstart y + bsize y)); [|rewrite e in G; exact G].
      apply (C a y (mkB xl ml false) Hy); auto. rewrite e. exact HL.
    + right; right. repeat split; auto. apply (C a y y' Hy); auto.
Qed.
End Merge.

(* the state after one merge, as the code builds it; f2 = _freed after the two removals *)
Definition merged (s : st) (xl ml mr : Z) (f2 : fdict) : st :=
  let t := if xl + ml =? top s then xl else top s in
  mkS (setz (setz (arr s) (xl - off s) (Some (mkB xl (ml + mr) false))) (xl + ml - off s) None)
      (if xl <? t then fr_add f2 (ml + mr) xl else f2) t (pos s) (off s) (size s).

Section Merged.
Variables (s : st) (xl ml mr : Z) (f2 : fdict).
Hypothesis P : Pre s.
Hypothesis HL : at_ s xl = Some (mkB xl ml false).
Hypothesis HR : at_ s (xl + ml) = Some (mkB (xl + ml) mr false).
Hypothesis Hk2 : keys_nodup f2.
Hypothesis Hf2 : forall k a, fmem f2 k a <->
  fmem (freed s) k a /\ ~ (k = ml /\ a = xl) /\ ~ (k = mr /\ a = xl + ml).
Let s' := merged s xl ml mr f2.

Lemma merged_at a : at_ s' a =
  if a =? xl + ml then None else if a =? xl then Some (mkB xl (ml + mr) false) else at_ s a.
Proof.
  pose proof (at_range _ _ _ HL). pose proof (at_range _ _ _ HR).
  unfold s', merged.
  rewrite (at_ext _ (set_at (set_at s xl (Some (mkB xl (ml + mr) false))) (xl + ml) None)) by reflexivity.
  rewrite at_set'; [|simpl; rewrite alen_setz; apply P_len; auto|unfold hi in *; simpl; lia].
  rewrite at_set'; [|apply P_len; auto|lia]. reflexivity.
Qed.

Lemma merged_Pre : Pre s'.
Proof.
  apply (merge_Pre s s' xl ml mr); auto.
  - unfold s', merged. simpl. rewrite !alen_setz. apply P_len; auto.
  - exact merged_at.
  - unfold s', merged. simpl. destruct (_ <? _); [apply nodup_add|]; auto.
  - intros k a. unfold s', merged. simpl.
    set (t := if xl + ml =? top s then xl else top s).
    destruct (Z.ltb_spec xl t).
    + rewrite fmem_add, Hf2. tauto.
    + rewrite Hf2. split; [tauto|]. intros [?|(? & ? & ?)]; [tauto|lia].
Qed.

Lemma merged_Coal R : Coal s R ->
  Coal s' (fun a e => (a = xl /\ R (xl + ml) e) \/ (e = xl /\ a < xl /\ R a xl) \/
                      (a <> xl /\ a <> xl + ml /\ e <> xl /\ e <> xl + ml /\ R a e)).
Proof. apply (merge_Coal s s' xl ml mr); auto. exact merged_at. Qed.

Lemma merged_used a y : bused y = true -> (at_ s' a = Some y <-> at_ s a = Some y).
Proof.
  intros Hu. rewrite merged_at.
  destruct (Z.eqb_spec a (xl + ml)); [|destruct (Z.eqb_spec a xl)]; subst.
  - rewrite HR. split; [discriminate|]. intros E; inv E; discriminate.
  - rewrite HL. split; intros E; inv E; discriminate.
  - tauto.
Qed.
End Merged.

Lemma join_adjacent xl ml xr mr u1 u2 : xl + ml = xr -> 0 < ml -> 0 < mr ->
  join (mkB xl ml u1) (mkB xr mr u2) = Some (mkB xl (ml + mr) false) /\
  join (mkB xr mr u2) (mkB xl ml u1) = Some (mkB xl (ml + mr) false).
Proof.
  intros E H1 H2. unfold join, adjoins. simpl.
  destruct (Z.ltb_spec xl xr); destruct (Z.leb_spec xr (xl + ml)); try lia. simpl.
  destruct (Z.ltb_spec xr xl); try lia. simpl.
  destruct (Z.leb_spec xr (xl + ml)); try lia. simpl.
  rewrite Z.min_l, Z.min_r, Z.max_r, Z.max_l by lia.
  split; f_equal; f_equal; lia.
Qed.

Lemma merge_prev_exec s xp mp m : alen (arr s) = size s -> off s <= xp -> xp + mp < hi s -> 0 < mp -> 0 < m ->
  find_previous s (xp + mp) = Ok (Some (mkB xp mp false)) ->
  merge_prev s (xp + mp) (mkB (xp + mp) m false) =
    Ok (merged s xp mp m (fr_remove (fr_remove (freed s) mp xp) m (xp + mp)), mkB xp (mp + m) false).
Proof.
  intros Hl H1 H2 H3 H4 Hfp. unfold merge_prev. rewrite Hfp. simpl.
  destruct (join_adjacent xp mp (xp + mp) m false false) as (Hj & _); try lia. rewrite Hj. simpl.
  unfold merged, hi in *.
  destruct (xp + mp =? top s); simpl; rewrite aset_in by lia; simpl;
    rewrite aset_in by (rewrite alen_setz; lia); simpl;
    match goal with |- context [xp <? ?t] => destruct (xp <? t) end; reflexivity.
Qed.

Lemma merge_next_exec s x m mn : alen (arr s) = size s -> off s <= x -> x + m < hi s -> 0 < m -> 0 < mn ->
  find_next true s x = Ok (Some (mkB (x + m) mn false)) ->
  merge_next true s (mkB x m false) =
    Ok (merged s x m mn (fr_remove (fr_remove (freed s) mn (x + m)) m x)).
Proof.
  intros Hl H1 H2 H3 H4 Hfn. unfold merge_next. simpl bstart. rewrite Hfn. simpl.
  destruct (join_adjacent x m (x + m) mn false false) as (_ & Hj); try lia. rewrite Hj. simpl.
  unfold merged, hi in *.
  destruct (x + m =? top s); simpl; rewrite aset_in by lia; simpl;
    rewrite aset_in by (rewrite alen_setz; lia); simpl;
    match goal with |- context [x <? ?t] => destruct (x <? t) end; reflexivity.
Qed.

(* ---- phase 1: merge with the previous block ---------------------------------- *)
Lemma merge_prev_spec s x m : Pre s -> at_ s x = Some (mkB x m false) ->
  Coal s (fun a e => a = x \/ e = x) ->
  exists s2 x2 m2, merge_prev s x (mkB x m false) = Ok (s2, mkB x2 m2 false) /\
    Pre s2 /\ at_ s2 x2 = Some (mkB x2 m2 false) /\ x2 <= x /\ x2 + m2 = x + m /\
    Coal s2 (fun a e => a = x2) /\
    (forall a y, bused y = true -> (at_ s2 a = Some y <-> at_ s a = Some y)) /\
    pos s2 = pos s /\ off s2 = off s /\ size s2 = size s.
Proof.
  intros P Hb C. pose proof (P_cell s P _ _ Hb) as Hc. simpl in Hc.
  destruct (find_previous_block s x _ P Hb) as [[Hx Hfp]|(Hx & p & Hfp & Hp & Hend)].
  - unfold merge_prev. rewrite Hfp. simpl.
    exists s, x, m. split; [reflexivity|]. split; [auto|]. split; [auto|]. split; [lia|]. split; [lia|].
    split; [|split; [intros; tauto|auto]].
    intros a y y' Hy Hu Hy' Hu'. destruct (C a y y' Hy Hu Hy' Hu') as [?|E]; auto.
    pose proof (P_cell s P _ _ Hy). lia.
  - destruct p as [xp mp up]. simpl in *. pose proof (P_cell s P _ _ Hp) as Hcp. simpl in Hcp.
    destruct up.
    + unfold merge_prev. rewrite Hfp. simpl.
      exists s, x, m. split; [reflexivity|]. split; [auto|]. split; [auto|]. split; [lia|]. split; [lia|].
      split; [|split; [intros; tauto|auto]].
      intros a y y' Hy Hu Hy' Hu'. destruct (C a y y' Hy Hu Hy' Hu') as [?|E]; auto.
      exfalso. pose proof (P_cell s P _ _ Hy) as Hcy.
      destruct (two_blocks s _ _ _ _ P Hy Hp) as [[? ?]|[[? ?]|[? ?]]]; simpl in *; subst; simpl in *; try discriminate; lia.
    + pose proof (at_range _ _ _ Hp). pose proof (at_range _ _ _ Hb). pose proof (P_len s P) as Hl.
      assert (x = xp + mp) by lia. subst x.
      set (f2 := fr_remove (fr_remove (freed s) mp xp) m (xp + mp)).
      assert (Hk2 : keys_nodup f2) by (apply nodup_remove, nodup_remove, P_keys; auto).
      assert (Hf2 : forall k a, fmem f2 k a <-> fmem (freed s) k a /\ ~ (k = mp /\ a = xp) /\ ~ (k = m /\ a = xp + mp)).
      { intros k a. unfold f2. rewrite fmem_remove by (apply nodup_remove, P_keys; auto).
        rewrite fmem_remove by (apply P_keys; auto). tauto. }
      exists (merged s xp mp m f2), xp, (mp + m).
      split; [apply merge_prev_exec; auto; lia|].
      split; [apply merged_Pre; auto|].
      split; [rewrite merged_at by auto; destruct (Z.eqb_spec xp (xp + mp)); [lia|]; rewrite Z.eqb_refl; reflexivity|].
      split; [lia|]. split; [lia|].
      split.
      * eapply Coal_weaken; [apply (merged_Coal s xp mp m f2 P Hp Hb _ C)|]. simpl.
        intros a e [[? ?]|[(? & ? & ?)|(? & ? & ? & ? & ?)]]; lia.
      * split; [intros a y Hu; apply merged_used; auto|]. auto.
Qed.

(* ---- phase 2: merge with the next block --------------------------------------- *)
Lemma merge_next_spec s x m : Pre s -> at_ s x = Some (mkB x m false) ->
  Coal s (fun a e => a = x) ->
  exists s3 m3, merge_next true s (mkB x m false) = Ok s3 /\
    AInv s3 /\ at_ s3 x = Some (mkB x m3 false) /\ m <= m3 /\
    (forall a y, bused y = true -> (at_ s3 a = Some y <-> at_ s a = Some y)) /\
    pos s3 = pos s /\ off s3 = off s /\ size s3 = size s.
Proof.
  intros P Hb C. pose proof (P_cell s P _ _ Hb) as Hc. simpl in Hc.
  pose proof (find_next_block s x _ P Hb) as Hfn. simpl bstart in Hfn. simpl bsize in Hfn.
  assert (Hsame : forall (Hnone : merge_next true s (mkB x m false) = Ok s)
                         (Hc2 : Coal s (fun _ _ => False)),
    exists s3 m3, merge_next true s (mkB x m false) = Ok s3 /\
    AInv s3 /\ at_ s3 x = Some (mkB x m3 false) /\ m <= m3 /\
    (forall a y, bused y = true -> (at_ s3 a = Some y <-> at_ s a = Some y)) /\
    pos s3 = pos s /\ off s3 = off s /\ size s3 = size s).
  { intros. exists s, m. split; [auto|]. split; [split; auto|]. split; [auto|]. split; [lia|].
    split; [intros; tauto|auto]. }
  destruct (Z.ltb_spec (x + m) (hi s)) as [Hlt|Hge].
  - destruct (at_ s (x + m)) as [nx|] eqn:Hnx; [|exfalso; apply (P_next s P x _ Hb); simpl; auto].
    destruct nx as [xn mn un]. pose proof (P_cell s P _ _ Hnx) as Hcn. simpl in Hcn.
    destruct Hcn as (Hxn & Hmn & Hen & Hpn). subst xn.
    destruct un.
    + apply Hsame.
      * unfold merge_next. simpl bstart. rewrite Hfn. reflexivity.
      * intros a y y' Hy Hu Hy' Hu'. pose proof (C a y y' Hy Hu Hy' Hu'). simpl in *. subst a.
        rewrite Hb in Hy. inv Hy. simpl in *. rewrite Hnx in Hy'. inv Hy'. discriminate.
    + pose proof (at_range _ _ _ Hnx). pose proof (at_range _ _ _ Hb). pose proof (P_len s P) as Hl.
      set (f2 := fr_remove (fr_remove (freed s) mn (x + m)) m x).
      assert (Hk2 : keys_nodup f2) by (apply nodup_remove, nodup_remove, P_keys; auto).
      assert (Hf2 : forall k a, fmem f2 k a <-> fmem (freed s) k a /\ ~ (k = m /\ a = x) /\ ~ (k = mn /\ a = x + m)).
      { intros k a. unfold f2. rewrite fmem_remove by (apply nodup_remove, P_keys; auto).
        rewrite fmem_remove by (apply P_keys; auto). tauto. }
      exists (merged s x m mn f2), (m + mn).
      split; [apply merge_next_exec; auto; lia|].
      split; [split; [apply merged_Pre; auto|]|].
      * eapply Coal_weaken; [apply (merged_Coal s x m mn f2 P Hb Hnx _ C)|]. simpl.
        intros a e [[? ?]|[(? & ? & ?)|(? & ? & ? & ? & ?)]]; lia.
      * split; [rewrite merged_at by auto; destruct (Z.eqb_spec x (x + m)); [lia|]; rewrite Z.eqb_refl; reflexivity|].
        split; [lia|]. split; [intros a y Hu; apply merged_used; auto|]. auto.
  - apply Hsame.
    + unfold merge_next. simpl bstart. rewrite Hfn. reflexivity.
    + intros a y y' Hy Hu Hy' Hu'. pose proof (C a y y' Hy Hu Hy' Hu'). simpl in *. subst a.
      rewrite Hb in Hy. inv Hy. simpl in *. apply at_range in Hy'. lia.
Qed.

(* ---- phase 0: mark the block free and enter it in _freed ----------------------- *)
Definition freed0 (s : st) (x m : Z) : st :=
  mkS (setz (arr s) (x - off s) (Some (mkB x m false))) (fr_add (freed s) m x) (top s) (pos s) (off s) (size s).

Section Phase0.
Variables (s : st) (x m : Z).
Hypothesis P : Pre s.
Hypothesis C : Coal s (fun _ _ => False).
Hypothesis Hb : at_ s x = Some (mkB x m true).
Let s1 := freed0 s x m.

Lemma at_freed0 a : at_ s1 a = if a =? x then Some (mkB x m false) else at_ s a.
Proof.
  pose proof (at_range _ _ _ Hb). unfold s1, freed0.
  rewrite (at_ext _ (set_at s x (Some (mkB x m false)))) by reflexivity.
  apply at_set'; [apply P_len; auto|lia].
Qed.

Lemma Pre_freed0 : Pre s1.
Proof.
  pose proof (P_cell s P _ _ Hb) as Hc. simpl in Hc.
  assert (Kh : hi s1 = hi s) by reflexivity.
  constructor.
  - unfold s1, freed0. simpl. rewrite alen_setz. apply P_len; auto.
  - apply (P_pos s P).
  - intros a y Hy. rewrite Kh. change (pos s1) with (pos s). rewrite at_freed0 in Hy. destruct (Z.eqb_spec a x).
    + inv Hy. simpl. lia.
    + apply (P_cell s P); auto.
  - intros a y j Hy Hj. rewrite at_freed0 in Hy. rewrite at_freed0. destruct (Z.eqb_spec a x).
    + inv Hy. simpl in Hj. destruct (Z.eqb_spec j x); try lia. apply (P_gap s P x _ j Hb). simpl. lia.
    + destruct (Z.eqb_spec j x).
      * subst. rewrite (P_gap s P a y x Hy) in Hb by lia. discriminate.
      * apply (P_gap s P a y j Hy). lia.
  - intros a y Hy Hlt. rewrite Kh in Hlt. rewrite at_freed0 in Hy. rewrite at_freed0. destruct (Z.eqb_spec a x).
    + inv Hy. simpl in *. destruct (Z.eqb_spec (x + m) x); try lia. apply (P_next s P x _ Hb); simpl; lia.
    + destruct (Z.eqb_spec (bstart y + bsize y) x); [discriminate|]. apply (P_next s P a y Hy). lia.
  - change (pos s1) with (pos s). rewrite at_freed0. destruct (Z.eqb_spec (pos s) x); [discriminate|]. apply P_first; auto.
  - rewrite Kh. change (top s1) with (top s). destruct (P_top s P) as (bt & Ht & Hend). rewrite at_freed0.
    destruct (Z.eqb_spec (top s) x).
    + exists (mkB x m false). split; auto. subst. rewrite Hb in Ht. inv Ht. simpl in *. auto.
    + exists bt. auto.
  - unfold s1, freed0. simpl. apply nodup_add, P_keys; auto.
  - intros k a Hm. unfold s1, freed0 in Hm. simpl in Hm. apply fmem_add in Hm. rewrite at_freed0.
    destruct Hm as [[-> ->]|Hf].
    + rewrite Z.eqb_refl. reflexivity.
    + pose proof (P_sound s P _ _ Hf) as Ha. destruct (Z.eqb_spec a x); auto.
      subst. rewrite Hb in Ha. inv Ha.
  - intros a y Hy Hu Hlt. change (top s1) with (top s) in Hlt. unfold s1, freed0. simpl. apply fmem_add.
    rewrite at_freed0 in Hy. destruct (Z.eqb_spec a x).
    + inv Hy. simpl. auto.
    + right. apply (P_compl s P); auto.
Qed.

Lemma Coal_freed0 : Coal s1 (fun a e => a = x \/ e = x).
Proof.
  intros a y y' Hy Hu Hy' Hu'. rewrite at_freed0 in Hy, Hy'.
  destruct (Z.eqb_spec a x); auto.
  destruct (Z.eqb_spec (bstart y + bsize y) x); auto.
  exfalso. apply (C a y y' Hy); auto.
Qed.

Lemma used_freed0 a y : bused y = true -> (at_ s1 a = Some y <-> at_ s a = Some y /\ a <> x).
Proof.
  intros Hu. rewrite at_freed0. destruct (Z.eqb_spec a x).
  - subst. split; [intros E; inv E; discriminate|tauto].
  - tauto.
Qed.
End Phase0.

(* ---- free(addr) ----------------------------------------------------------------- *)
Definition is_live (s : st) (a n : Z) : Prop := at_ s a = Some (mkB a n true).

Lemma free_guard_in s addr : off s <= addr < hi s ->
  negb ((0 <=? addr - off s) && (addr - off s <? size s)) = false.
Proof.
  unfold hi. intros H. destruct (Z.leb_spec 0 (addr - off s)); destruct (Z.ltb_spec (addr - off s) (size s)); simpl; auto; lia.
Qed.

Lemma free_guard_out s addr : ~ (off s <= addr < hi s) ->
  negb ((0 <=? addr - off s) && (addr - off s <? size s)) = true.
Proof.
  unfold hi. intros H. destruct (Z.leb_spec 0 (addr - off s)); destruct (Z.ltb_spec (addr - off s) (size s)); simpl; auto; lia.
Qed.

(* an address outside the partition is ignored, whatever the variant *)
Lemma free_outside rel s addr : ~ (off s <= addr < hi s) -> free rel s addr = Ok s.
Proof. intros H. unfold free. rewrite free_guard_out by auto. reflexivity. Qed.

Lemma free_noop s addr : Pre s ->
  (forall n, ~ is_live s addr n) -> free true s addr = Ok s.
Proof.
  intros P Hn.
  destruct (Z.le_gt_cases (off s) addr) as [H1|H1]; [destruct (Z.lt_ge_cases addr (hi s)) as [H2|H2]|];
    try (apply free_outside; lia).
  assert (Hr : off s <= addr < hi s) by lia.
  unfold free. rewrite free_guard_in by auto. rewrite aget_at by (auto using P_len). simpl.
  destruct (at_ s addr) as [[x m u]|] eqn:E; auto. simpl.
  destruct u; auto. exfalso. pose proof (P_cell s P _ _ E) as Hc. simpl in Hc.
  destruct Hc as (-> & _). apply (Hn m). exact E.
Qed.

Lemma free_live s addr m : AInv s -> is_live s addr m ->
  exists s' xb mb, free true s addr = Ok s' /\ AInv s' /\
    at_ s' xb = Some (mkB xb mb false) /\ xb <= addr /\ addr + m <= xb + mb /\
    (forall a y, bused y = true -> (at_ s' a = Some y <-> at_ s a = Some y /\ a <> addr)) /\
    pos s' = pos s /\ off s' = off s /\ size s' = size s.
Proof.
  intros [P C] Hb. unfold is_live in Hb. pose proof (at_range _ _ _ Hb) as Hr. pose proof (P_len s P) as Hl.
  pose proof (Pre_freed0 s addr m P Hb) as P1.
  pose proof (Coal_freed0 s addr m P C Hb) as C1.
  assert (Hb1 : at_ (freed0 s addr m) addr = Some (mkB addr m false))
    by (rewrite at_freed0 by auto; rewrite Z.eqb_refl; reflexivity).
  destruct (merge_prev_spec _ addr m P1 Hb1 C1) as (s2 & x2 & m2 & E2 & P2 & Hb2 & Hle & Hend & C2 & U2 & K2).
  destruct (merge_next_spec _ x2 m2 P2 Hb2 C2) as (s3 & m3 & E3 & A3 & Hb3 & Hm3 & U3 & K3).
  exists s3, x2, m3.
  split.
  - unfold free. rewrite free_guard_in by auto. rewrite aget_at by auto. rewrite Hb. simpl.
    unfold hi in *. rewrite aset_in by lia. simpl.
    change (set_used (mkB addr m true) false) with (mkB addr m false).
    change (add_to_freed (with_arr s (setz (arr s) (addr - off s) (Some (mkB addr m false)))) (mkB addr m false))
      with (freed0 s addr m).
    rewrite E2. simpl. exact E3.
  - split; [auto|]. split; [auto|]. split; [lia|]. split; [lia|].
    split.
    + intros a y Hu. rewrite (U3 a y Hu), (U2 a y Hu). apply used_freed0; auto.
    + destruct K2 as (? & ? & ?), K3 as (? & ? & ?). simpl in *. repeat split; congruence.
Qed.
