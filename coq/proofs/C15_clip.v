(* clip is idempotent for every mix of int and float arguments (separate file: slow case split). *)
Require Import SC3.proofs.NumTac SC3.gen.Gen_builtins.
Open Scope Q_scope.

(* clip is idempotent for every mix of argument types (and any order of the bounds) *)
Lemma clip_idem_general x lo hi : is_ok x = true -> is_ok lo = true -> is_ok hi = true ->
  py_clip (py_clip x lo hi) lo hi = py_clip x lo hi.
Proof.
  intros Hx Hlo Hhi.
  destruct x as [x|x|], lo as [lo|lo|], hi as [hi|hi|]; try discriminate;
    unfold py_clip, py_max, py_min; nunf; qb; try reflexivity; try lra.
Qed.
