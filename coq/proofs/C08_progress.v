(* C08 -- progress of the SystemClock / TempoClock thread: it is never stuck, it goes to sleep only
   when nothing is due, and under a fair oracle (the wait returns, the time read has reached the
   pending times, tasks return) it awakens the whole queue, each task once, in order. *)
From Coq Require Import QArith ZArith List Bool Arith Lia Lqa Permutation Sorting.
Import ListNotations.
Require Import SC3.model.TaskQ SC3.model.RtClock SC3.proofs.C09_order SC3.proofs.C08_sys
  SC3.proofs.C08_facts SC3.proofs.C08_mon.
Local Open Scope Q_scope.

(* ---- invariant of the "head not ready" states --------------------------------------------- *)
Definition nr_inv (s : cst) : Prop :=
  forall t f, c_pc s = PNotReady t f ->
    c_pend s = NoPend /\ c_last s = t /\
    exists h r t0, c_q s = h :: r /\ t0 <= t /\ Qle_bool (itime h) (secs2beats (c_map s) t0) = false.

Lemma nr_inv_step : forall s e s', nr_inv s -> step s e = Some s' -> nr_inv s'.
Proof.
  intros s e s' HI HS.
  destruct s as [kd q n p rn nt la m pe]. unfold nr_inv in *. simpl in *.
  destruct pe, e, p, q; simpl in HS; try discriminate HS;
    step_cases HS; simpl in *; try (intros; discriminate).
  all: try match goal with E : (if ?c then _ else _) = _ |- _ => destruct c eqn:?; try discriminate E end.
  all: try (intros t' f' Hpc; discriminate Hpc).
  all: intros t' f' Hpc; inversion Hpc; subst; clear Hpc.
  all: try (split; [reflexivity |]; split; [reflexivity |];
            eexists; eexists; eexists; split; [reflexivity |]; split; [apply Qle_refl | assumption]).
  all: match goal with H : forall t f, PNotReady ?a ?b = PNotReady t f -> _ |- _ =>
         destruct (H a b eq_refl) as [Hp [Hl [h0 [r0 [t1 [Hq [Ht Hd]]]]]]] end.
  all: try discriminate Hp.
  all: try discriminate Hq.
  all: subst.
  all: try (inversion Hq; subst).
  all: split; [reflexivity |]; split; [reflexivity |].
  all: eexists; eexists; exists t1; split; [reflexivity |]; split; [| assumption].
  all: try assumption.
  all: match goal with E : Qle_bool _ _ = true |- _ => apply Qle_bool_iff in E end;
       eapply Qle_trans; eassumption.
Qed.

Lemma nr_inv_run : forall k m evs s, run (init k m) evs = Some s -> nr_inv s.
Proof.
  intros k m evs s HR.
  apply (run_invariant0 nr_inv nr_inv_step evs (init k m) s); [| exact HR].
  intros t f H. simpl in H. discriminate.
Qed.

(* ---- the thread goes to sleep only when nothing is due ------------------------------------- *)
Lemma sleep_only_when_nothing_due : forall k m evs s to s',
  run (init k m) evs = Some s -> step s (EWaitBegin to) = Some s' ->
  match to with
  | None => c_q s = []
  | Some _ => exists h r t0, c_q s = h :: r /\ t0 <= c_last s /\
                secs2beats (c_map s) t0 < itime h /\
                forall x, In x r -> ~ klt (ikey x) (ikey h)
  end.
Proof.
  intros k m evs s to s' HR HS.
  pose proof (nr_inv_run k m evs s HR) as NR.
  assert (QI : qinv s) by (apply (qinv_run evs (init k m) s); [apply qinv_init | exact HR]).
  destruct s as [kd q n p rn nt la mm pe]. unfold nr_inv in NR. simpl in *.
  destruct to as [to |].
  - destruct pe, p, q; simpl in HS; try discriminate HS; step_cases HS.
    all: try match goal with E : (if ?c then _ else _) = _ |- _ => destruct c eqn:?; try discriminate E end.
    all: match goal with H : forall t f, PNotReady ?a ?b = PNotReady t f -> _ |- _ =>
           destruct (H a b eq_refl) as [_ [Hl [h0 [r0 [t0 [Hq [Ht Hd]]]]]]] end.
    all: inversion Hq; subst. all: exists h0, r0, t0. all: split; [reflexivity |]. all: split; [assumption |]. all: split.
    all: try (apply Qnot_le_lt; intro Hc; apply Qle_bool_iff in Hc; congruence).
    all: intros x Hx; destruct QI as [S _]; simpl in S; apply (sorted_head_le _ ikey h0 r0 x S Hx).
  - destruct pe, p, q; simpl in HS; try discriminate HS; step_cases HS; try reflexivity.
    all: try match goal with E : (if ?c then _ else _) = _ |- _ => destruct c eqn:?; try discriminate E end.
Qed.

(* ---- the thread is never stuck ---------------------------------------------------------------- *)
Lemma Qeq_bool_refl : forall a, Qeq_bool a a = true.
Proof. intro a. apply Qeq_bool_iff. reflexivity. Qed.

Local Opaque Qle_bool Qeq_bool secs2beats beats2secs.

Ltac fin HT :=
  eexists; eexists; (split; [reflexivity |]); simpl;
  rewrite ?HT, ?Qeq_bool_refl, ?Z.eqb_refl; simpl; rewrite ?HT; reflexivity.

Lemma clock_never_stuck : forall k m evs s t c r,
  run (init k m) evs = Some s -> c_pend s = NoPend -> c_pc s <> PExited -> c_last s <= t ->
  exists e s', next_clock_event s t c r = Some e /\ step s e = Some s'.
Proof.
  intros k m evs s t c r HR HP HX HT.
  pose proof (nr_inv_run k m evs s HR) as NR.
  destruct s as [kd q n p rn nt la mm pe]. unfold nr_inv in NR. simpl in *. subst pe.
  apply Qle_bool_iff in HT.
  unfold next_clock_event, step. simpl.
  destruct p.
  - destruct q as [| h r0]; simpl; fin HT.
  - simpl; fin HT.
  - destruct q as [| h r0]; simpl; fin HT.
  - destruct (NR t0 fresh eq_refl) as [_ [_ [h1 [r1 [t1 [Hq _]]]]]]. subst q.
    destruct fresh; simpl; fin HT.
  - simpl; fin HT.
  - destruct q as [| h r0]; simpl; [fin HT |].
    destruct (Qle_bool (itime h) nb) eqn:E; simpl; [| fin HT].
    eexists; eexists; split; [reflexivity |]. simpl. rewrite ?E, ?Qeq_bool_refl, ?Z.eqb_refl. reflexivity.
  - simpl; fin HT.
  - simpl; fin HT.
  - contradiction HX. reflexivity.
Qed.

(* ---- the fair run awakens everything ------------------------------------------------------------ *)
Definition pops_of (l : list item) : list event :=
  flat_map (fun x => [EPop (itime x) (itask x); EAwakeEnd (itask x) ROther]) l.

Lemma loop3_drain : forall l kd n nb rn nt la mm,
  Forall (fun x => itime x <= nb) l ->
  run (mkC kd l n (PLoop3 nb) rn nt la mm NoPend) (pops_of l ++ [EWaitBegin None])
  = Some (mkC kd [] n PWaitEmpty rn false la mm NoPend).
Proof.
  induction l as [| h r IH]; intros kd n nb rn nt la mm HF.
  - reflexivity.
  - inversion HF as [| h' r' Hh Hr]; subst.
    apply Qle_bool_iff in Hh.
    change (pops_of (h :: r) ++ [EWaitBegin None])
      with (EPop (itime h) (itask h) :: EAwakeEnd (itask h) ROther :: (pops_of r ++ [EWaitBegin None])).
    cbn [run]. unfold step at 1. cbn [c_pend c_q c_pc norm_pc]. rewrite Hh.
    rewrite Qeq_bool_refl. rewrite (Z.eqb_refl (itask h)).
    cbn [andb run]. unfold set_pc, set_q. cbn [c_kind c_q c_n c_pc c_run c_notified c_last c_map c_pend].
    unfold step at 1. cbn [c_pend c_q c_pc norm_pc]. rewrite (Z.eqb_refl (itask h)).
    unfold set_pc. cbn [c_kind c_q c_n c_pc c_run c_notified c_last c_map c_pend].
    apply IH. exact Hr.
Qed.

Lemma fair_run_drains : forall s c t,
  waiting (c_pc s) = true -> c_pend s = NoPend -> c_run s = true -> c_q s <> [] ->
  c_last s <= t -> Forall (fun x => itime x <= secs2beats (c_map s) t) (c_q s) ->
  exists s', run s (drain_events c t (c_q s)) = Some s' /\
    c_q s' = [] /\ c_pc s' = PWaitEmpty /\ c_pend s' = NoPend /\ c_run s' = true /\ c_map s' = c_map s.
Proof.
  intros s c t HW HP HR HQ HT HF.
  destruct s as [kd q n p rn nt la mm pe]. simpl in *. subst pe rn.
  destruct q as [| h r]; [contradiction HQ; reflexivity |].
  apply Qle_bool_iff in HT.
  assert (Hh : Qle_bool (itime h) (secs2beats mm t) = true).
  { apply Qle_bool_iff. inversion HF; assumption. }
  unfold drain_events.
  destruct p; simpl in HW; try discriminate HW.
  - cbn [run]. unfold step at 1. cbn [c_pend c_q c_pc norm_pc c_run c_kind c_n c_notified c_last c_map].
    unfold step at 1. cbn [c_pend c_q c_pc norm_pc c_last]. rewrite HT. cbn [c_map]. rewrite Hh.
    cbn [c_kind c_q c_n c_run c_notified c_map].
    eexists. split; [apply (loop3_drain (h :: r)); exact HF |]. repeat split.
  - cbn [run]. unfold step at 1. cbn [c_pend c_q c_pc norm_pc c_run c_kind c_n c_notified c_last c_map].
    unfold step at 1. cbn [c_pend c_q c_pc norm_pc c_last]. rewrite HT. cbn [c_map]. rewrite Hh.
    cbn [c_kind c_q c_n c_run c_notified c_map].
    eexists. split; [apply (loop3_drain (h :: r)); exact HF |]. repeat split.
Qed.

(* in that run every pending task is popped exactly once, in queue order *)
Lemma drain_pops_each_once : forall c t l,
  filter (fun e => match e with EPop _ _ => true | _ => false end) (drain_events c t l)
  = map (fun x => EPop (itime x) (itask x)) l.
Proof.
  intros c t l. unfold drain_events. simpl.
  induction l as [| x r IH]; simpl; [reflexivity | f_equal; exact IH].
Qed.
