(* C17 -- GENERATED FROM PROOF SCRIPTS (see notes/C17.md): for every op of the model, the messages it hands to
   server.addr are Good (conform + ids in the ledger) and the object invariant is kept. Part 3. *)
From Coq Require Import ZArith QArith List String Bool Lia.
Import ListNotations.
Require Import SC3.model.ProtoGrammar SC3.model.Proto SC3.gen.Gen_proto.
Require Import SC3.proofs.C17_gram SC3.proofs.C17_args SC3.proofs.C17_bind SC3.proofs.C17_life SC3.proofs.C17_conform SC3.proofs.C17_optac.
Open Scope string_scope. Open Scope Z_scope. Open Scope list_scope.

Lemma og_OBufCopyData : forall n L s a0 a1 a2 a3 a4 s1 sends e,
  InvO L s -> wf_op n s (OBufCopyData a0 a1 a2 a3 a4) = true -> obj_step repaired s (OBufCopyData a0 a1 a2 a3 a4) = (s1, sends, e) ->
  InvO (op_ids s (OBufCopyData a0 a1 a2 a3 a4) ++ L) s1 /\ Forall (Good (op_ids s (OBufCopyData a0 a1 a2 a3 a4) ++ L)) (flat_map send_msgs sends).
Proof.
  intros n L s a0 a1 a2 a3 a4 s1 sends e I Hw H.
  cbn [wf_op] in Hw; try discriminate Hw; split_ands.
  unfold obj_step, obj_step_core, ok, fail in H.
  brk_hyp H; inversion H; subst; clear H.
  all: cbn [flat_map send_msgs app].
  all: cbn [op_ids].
  all: pose proof (io_dg _ _ I) as [DG DGS].
  all: change (v_dict_brackets repaired) with false in *.
  all: (split; [ try solve [inv_tac I] | try solve [constructor] ]).
  all: try solve [ use_target L I; use_nodes L I; unfold pargroup_creation_cmd, group_creation_cmd, py_int in *;
                   brk_eqs; bools; goods ].
  all: try solve [ bools; brk_eqs; toks; match goal with G : get_buf _ _ = Some _ |- _ => use_buf L I G end;
                   repeat match goal with G : get_buf _ _ = Some _ |- _ => use_buf L I G end;
                   ions; brk_eqs; goods ].
  all: try solve [ bools; brk_eqs; toks; match goal with G : get_bus _ _ = Some _ |- _ => use_bus L I G end; ions; brk_eqs; goods ].

Qed.

Lemma og_OBufSendList : forall n L s a0 a1 a2 s1 sends e,
  InvO L s -> wf_op n s (OBufSendList a0 a1 a2) = true -> obj_step repaired s (OBufSendList a0 a1 a2) = (s1, sends, e) ->
  InvO (op_ids s (OBufSendList a0 a1 a2) ++ L) s1 /\ Forall (Good (op_ids s (OBufSendList a0 a1 a2) ++ L)) (flat_map send_msgs sends).
Proof.
  intros n L s a0 a1 a2 s1 sends e I Hw H.
  cbn [wf_op] in Hw; try discriminate Hw; split_ands.
  unfold obj_step, obj_step_core, ok, fail in H.
  brk_hyp H; inversion H; subst; clear H.
  all: cbn [flat_map send_msgs app].
  all: cbn [op_ids].
  all: pose proof (io_dg _ _ I) as [DG DGS].
  all: change (v_dict_brackets repaired) with false in *.
  all: (split; [ try solve [inv_tac I] | try solve [constructor] ]).
  all: try solve [ use_target L I; use_nodes L I; unfold pargroup_creation_cmd, group_creation_cmd, py_int in *;
                   brk_eqs; bools; goods ].
  all: try solve [ bools; brk_eqs; toks; match goal with G : get_buf _ _ = Some _ |- _ => use_buf L I G end;
                   repeat match goal with G : get_buf _ _ = Some _ |- _ => use_buf L I G end;
                   ions; brk_eqs; goods ].
  all: try solve [ bools; brk_eqs; toks; match goal with G : get_bus _ _ = Some _ |- _ => use_bus L I G end; ions; brk_eqs; goods ].
  all: match goal with G : get_buf _ _ = Some _ |- _ => use_buf L I G end; ions; brk_eqs.
  all: rewrite flat_map_smsg_id; apply stream_good; [known_tac | assumption].

Qed.

Lemma og_OBufNewSendList : forall n L s a0 a1 a2 s1 sends e,
  InvO L s -> wf_op n s (OBufNewSendList a0 a1 a2) = true -> obj_step repaired s (OBufNewSendList a0 a1 a2) = (s1, sends, e) ->
  InvO (op_ids s (OBufNewSendList a0 a1 a2) ++ L) s1 /\ Forall (Good (op_ids s (OBufNewSendList a0 a1 a2) ++ L)) (flat_map send_msgs sends).
Proof.
  intros n L s a0 a1 a2 s1 sends e I Hw H.
  cbn [wf_op] in Hw; try discriminate Hw; split_ands.
  unfold obj_step, obj_step_core, ok, fail in H.
  brk_hyp H; inversion H; subst; clear H.
  all: cbn [flat_map send_msgs app].
  all: cbn [op_ids].
  all: pose proof (io_dg _ _ I) as [DG DGS].
  all: change (v_dict_brackets repaired) with false in *.
  all: (split; [ try solve [inv_tac I] | try solve [constructor] ]).
  all: try solve [ use_target L I; use_nodes L I; unfold pargroup_creation_cmd, group_creation_cmd, py_int in *;
                   brk_eqs; bools; goods ].
  all: try solve [ bools; brk_eqs; toks; match goal with G : get_buf _ _ = Some _ |- _ => use_buf L I G end;
                   repeat match goal with G : get_buf _ _ = Some _ |- _ => use_buf L I G end;
                   ions; brk_eqs; goods ].
  all: try solve [ bools; brk_eqs; toks; match goal with G : get_bus _ _ = Some _ |- _ => use_bus L I G end; ions; brk_eqs; goods ].
  all: match goal with A : alloc_bufnum _ _ _ _ = Some _ |- _ => new_buf I A 1%nat end.
  all: try solve [apply invO_add_buf_none; assumption].
  all: try solve [apply invO_add_buf; [assumption | apply KN; left; reflexivity | reflexivity | reflexivity]].
  all: cbn [flat_map send_msgs app]; rewrite flat_map_smsg_id; constructor;
       [good_fixed | apply stream_good; [apply KN; left; reflexivity | assumption]].

Qed.

Lemma og_OBufGetToList : forall n L s a0 a1 a2 s1 sends e,
  InvO L s -> wf_op n s (OBufGetToList a0 a1 a2) = true -> obj_step repaired s (OBufGetToList a0 a1 a2) = (s1, sends, e) ->
  InvO (op_ids s (OBufGetToList a0 a1 a2) ++ L) s1 /\ Forall (Good (op_ids s (OBufGetToList a0 a1 a2) ++ L)) (flat_map send_msgs sends).
Proof.
  intros n L s a0 a1 a2 s1 sends e I Hw H.
  cbn [wf_op] in Hw; try discriminate Hw; split_ands.
  unfold obj_step, obj_step_core, ok, fail in H.
  brk_hyp H; inversion H; subst; clear H.
  all: cbn [flat_map send_msgs app].
  all: cbn [op_ids].
  all: pose proof (io_dg _ _ I) as [DG DGS].
  all: change (v_dict_brackets repaired) with false in *.
  all: (split; [ try solve [inv_tac I] | try solve [constructor] ]).
  all: try solve [ use_target L I; use_nodes L I; unfold pargroup_creation_cmd, group_creation_cmd, py_int in *;
                   brk_eqs; bools; goods ].
  all: try solve [ bools; brk_eqs; toks; match goal with G : get_buf _ _ = Some _ |- _ => use_buf L I G end;
                   repeat match goal with G : get_buf _ _ = Some _ |- _ => use_buf L I G end;
                   ions; brk_eqs; goods ].
  all: try solve [ bools; brk_eqs; toks; match goal with G : get_bus _ _ = Some _ |- _ => use_bus L I G end; ions; brk_eqs; goods ].
  all: match goal with G : get_buf _ _ = Some _ |- _ => use_buf L I G end; ions; brk_eqs.
  all: rewrite flat_map_smsg_id; apply getn_good; known_tac.

Qed.

Lemma og_OBusNew : forall n L s a0 a1 a2 a3 s1 sends e,
  InvO L s -> wf_op n s (OBusNew a0 a1 a2 a3) = true -> obj_step repaired s (OBusNew a0 a1 a2 a3) = (s1, sends, e) ->
  InvO (op_ids s (OBusNew a0 a1 a2 a3) ++ L) s1 /\ Forall (Good (op_ids s (OBusNew a0 a1 a2 a3) ++ L)) (flat_map send_msgs sends).
Proof.
  intros n L s a0 a1 a2 a3 s1 sends e I Hw H.
  cbn [wf_op] in Hw; try discriminate Hw; split_ands.
  unfold obj_step, obj_step_core, ok, fail in H.
  brk_hyp H; inversion H; subst; clear H.
  all: cbn [flat_map send_msgs app].
  all: cbn [op_ids].
  all: pose proof (io_dg _ _ I) as [DG DGS].
  all: change (v_dict_brackets repaired) with false in *.
  all: (split; [ try solve [inv_tac I] | try solve [constructor] ]).
  all: try solve [ use_target L I; use_nodes L I; unfold pargroup_creation_cmd, group_creation_cmd, py_int in *;
                   brk_eqs; bools; goods ].
  all: try solve [ bools; brk_eqs; toks; match goal with G : get_buf _ _ = Some _ |- _ => use_buf L I G end;
                   repeat match goal with G : get_buf _ _ = Some _ |- _ => use_buf L I G end;
                   ions; brk_eqs; goods ].
  all: try solve [ bools; brk_eqs; toks; match goal with G : get_bus _ _ = Some _ |- _ => use_bus L I G end; ions; brk_eqs; goods ].
  all: apply Z.leb_le in Hw.
  all: apply invO_add_bus; [inv_tac I | exact Hw |].
  all: intros i Hi; apply known_l; cbn [op_ids optrange]; apply in_or_app.
  1: right. 2-3: left.
  all: apply in_range_ids; apply in_zrange; rewrite Z2Nat.id by lia; lia.

Qed.

Lemma og_OBusFree : forall n L s a0 s1 sends e,
  InvO L s -> wf_op n s (OBusFree a0) = true -> obj_step repaired s (OBusFree a0) = (s1, sends, e) ->
  InvO (op_ids s (OBusFree a0) ++ L) s1 /\ Forall (Good (op_ids s (OBusFree a0) ++ L)) (flat_map send_msgs sends).
Proof.
  intros n L s a0 s1 sends e I Hw H.
  cbn [wf_op] in Hw; try discriminate Hw; split_ands.
  unfold obj_step, obj_step_core, ok, fail in H.
  brk_hyp H; inversion H; subst; clear H.
  all: cbn [flat_map send_msgs app].
  all: cbn [op_ids].
  all: pose proof (io_dg _ _ I) as [DG DGS].
  all: change (v_dict_brackets repaired) with false in *.
  all: (split; [ try solve [inv_tac I] | try solve [constructor] ]).
  all: try solve [ use_target L I; use_nodes L I; unfold pargroup_creation_cmd, group_creation_cmd, py_int in *;
                   brk_eqs; bools; goods ].
  all: try solve [ bools; brk_eqs; toks; match goal with G : get_buf _ _ = Some _ |- _ => use_buf L I G end;
                   repeat match goal with G : get_buf _ _ = Some _ |- _ => use_buf L I G end;
                   ions; brk_eqs; goods ].
  all: try solve [ bools; brk_eqs; toks; match goal with G : get_bus _ _ = Some _ |- _ => use_bus L I G end; ions; brk_eqs; goods ].

Qed.

Lemma og_OBusSub : forall n L s a0 a1 a2 s1 sends e,
  InvO L s -> wf_op n s (OBusSub a0 a1 a2) = true -> obj_step repaired s (OBusSub a0 a1 a2) = (s1, sends, e) ->
  InvO (op_ids s (OBusSub a0 a1 a2) ++ L) s1 /\ Forall (Good (op_ids s (OBusSub a0 a1 a2) ++ L)) (flat_map send_msgs sends).
Proof.
  intros n L s a0 a1 a2 s1 sends e I Hw H.
  cbn [wf_op] in Hw; try discriminate Hw; split_ands.
  unfold obj_step, obj_step_core, ok, fail in H.
  brk_hyp H; inversion H; subst; clear H.
  all: cbn [flat_map send_msgs app].
  all: cbn [op_ids].
  all: pose proof (io_dg _ _ I) as [DG DGS].
  all: change (v_dict_brackets repaired) with false in *.
  all: (split; [ try solve [inv_tac I] | try solve [constructor] ]).
  all: try solve [ use_target L I; use_nodes L I; unfold pargroup_creation_cmd, group_creation_cmd, py_int in *;
                   brk_eqs; bools; goods ].
  all: try solve [ bools; brk_eqs; toks; match goal with G : get_buf _ _ = Some _ |- _ => use_buf L I G end;
                   repeat match goal with G : get_buf _ _ = Some _ |- _ => use_buf L I G end;
                   ions; brk_eqs; goods ].
  all: try solve [ bools; brk_eqs; toks; match goal with G : get_bus _ _ = Some _ |- _ => use_bus L I G end; ions; brk_eqs; goods ].
  all: apply Z.leb_le in P; apply Z.leb_le in Hw.
  all: apply orb_false_iff in Heqb0; destruct Heqb0 as [Q1 Q2].
  all: assert (R1 : a1 <= z) by (destruct (Z.gtb_spec a1 z); [discriminate | lia]).
  all: assert (R2 : a2 + a1 <= z) by (destruct (Z.gtb_spec (a2 + a1) z); [discriminate | lia]).
  all: destruct (io_bus _ _ I a0 b z0 Heqo Heqp0) as [c [Ec [Hc Kc]]].
  all: rewrite Heqp in Ec; inversion Ec; subst c.
  all: apply invO_add_bus; [inv_tac I | exact Hw | intros i Hi; apply known_r; apply Kc; lia].

Qed.

Lemma og_OBusSet : forall n L s a0 a1 a2 s1 sends e,
  InvO L s -> wf_op n s (OBusSet a0 a1 a2) = true -> obj_step repaired s (OBusSet a0 a1 a2) = (s1, sends, e) ->
  InvO (op_ids s (OBusSet a0 a1 a2) ++ L) s1 /\ Forall (Good (op_ids s (OBusSet a0 a1 a2) ++ L)) (flat_map send_msgs sends).
Proof.
  intros n L s a0 a1 a2 s1 sends e I Hw H.
  cbn [wf_op] in Hw; try discriminate Hw; split_ands.
  unfold obj_step, obj_step_core, ok, fail in H.
  brk_hyp H; inversion H; subst; clear H.
  all: cbn [flat_map send_msgs app].
  all: cbn [op_ids].
  all: pose proof (io_dg _ _ I) as [DG DGS].
  all: change (v_dict_brackets repaired) with false in *.
  all: (split; [ try solve [inv_tac I] | try solve [constructor] ]).
  all: try solve [ use_target L I; use_nodes L I; unfold pargroup_creation_cmd, group_creation_cmd, py_int in *;
                   brk_eqs; bools; goods ].
  all: try solve [ bools; brk_eqs; toks; match goal with G : get_buf _ _ = Some _ |- _ => use_buf L I G end;
                   repeat match goal with G : get_buf _ _ = Some _ |- _ => use_buf L I G end;
                   ions; brk_eqs; goods ].
  all: try solve [ bools; brk_eqs; toks; match goal with G : get_bus _ _ = Some _ |- _ => use_bus L I G end; ions; brk_eqs; goods ].
  all: match goal with G : get_bus _ _ = Some _ |- _ => use_bus L I G end; brk_eqs.
  all: constructor; [|constructor].
  all: apply Z.leb_le in P; apply Z.leb_le in Hw.
  all: destruct (bus_pairs_groups z a2 a1 P1) as [ids [T [G Kids]]].
  all: eapply (good_groups _ "/c_set" [] (bus_pairs z a1 a2) _ [TBus; TNum] true _ _ ids);
       try reflexivity; try (apply wire_toks; exact T); try exact G; try apply toks_not_msg;
       try (let Y := fresh "Y" in intros Y; reflexivity); try solve [intros k i []].
  all: try (intros k i Hk; destruct (Kids k i Hk) as [Ek Hr]; subst k; known_tac).
  all: right; apply toks_wire_nonempty; destruct a2; [discriminate P0 | discriminate].

Qed.

Lemma og_OBusSetn : forall n L s a0 a1 a2 s1 sends e,
  InvO L s -> wf_op n s (OBusSetn a0 a1 a2) = true -> obj_step repaired s (OBusSetn a0 a1 a2) = (s1, sends, e) ->
  InvO (op_ids s (OBusSetn a0 a1 a2) ++ L) s1 /\ Forall (Good (op_ids s (OBusSetn a0 a1 a2) ++ L)) (flat_map send_msgs sends).
Proof.
  intros n L s a0 a1 a2 s1 sends e I Hw H.
  cbn [wf_op] in Hw; try discriminate Hw; split_ands.
  unfold obj_step, obj_step_core, ok, fail in H.
  brk_hyp H; inversion H; subst; clear H.
  all: cbn [flat_map send_msgs app].
  all: cbn [op_ids].
  all: pose proof (io_dg _ _ I) as [DG DGS].
  all: change (v_dict_brackets repaired) with false in *.
  all: (split; [ try solve [inv_tac I] | try solve [constructor] ]).
  all: try solve [ use_target L I; use_nodes L I; unfold pargroup_creation_cmd, group_creation_cmd, py_int in *;
                   brk_eqs; bools; goods ].
  all: try solve [ bools; brk_eqs; toks; match goal with G : get_buf _ _ = Some _ |- _ => use_buf L I G end;
                   repeat match goal with G : get_buf _ _ = Some _ |- _ => use_buf L I G end;
                   ions; brk_eqs; goods ].
  all: try solve [ bools; brk_eqs; toks; match goal with G : get_bus _ _ = Some _ |- _ => use_bus L I G end; ions; brk_eqs; goods ].
  all: match goal with G : get_bus _ _ = Some _ |- _ => use_bus L I G end; brk_eqs.
  all: constructor; [|constructor].
  all: apply Z.leb_le in P; apply Z.ltb_lt in Hw.
  all: eapply (good_cgroups _ "/c_setn" [] (PInt (z + a1) :: plen a2 :: a2) _ TBus TNum _
                            ((AInt (z + a1) :: wtok (plen a2) :: map wtok a2) ++ []) ([(KBus, z + a1)] ++ []));
       try reflexivity; try (let Y := fresh "Y" in intros Y; reflexivity); try solve [intros k i []].
  all: try (rewrite app_nil_r; change (AInt (z + a1) :: wtok (plen a2) :: map wtok a2) with (map wtok (PInt (z + a1) :: plen a2 :: a2));
            apply wire_toks; cbn [forallb w_tok w_num plen orb]; apply nums_toks; exact P0).
  all: try (constructor; [discriminate | | constructor]; intros r; rewrite plen_tok; cbn [app];
            apply counted_one; [intros r'; reflexivity | apply nums_eat; exact P0]).
  all: try discriminate.
  all: try (rewrite app_nil_r; change (AInt (z + a1) :: wtok (plen a2) :: map wtok a2) with (map wtok (PInt (z + a1) :: plen a2 :: a2)); apply toks_not_msg).
  all: try (intros k i [Hk|[]]; inversion Hk; subst; known_tac).

Qed.

Lemma og_OBusSetPairs : forall n L s a0 a1 s1 sends e,
  InvO L s -> wf_op n s (OBusSetPairs a0 a1) = true -> obj_step repaired s (OBusSetPairs a0 a1) = (s1, sends, e) ->
  InvO (op_ids s (OBusSetPairs a0 a1) ++ L) s1 /\ Forall (Good (op_ids s (OBusSetPairs a0 a1) ++ L)) (flat_map send_msgs sends).
Proof.
  intros n L s a0 a1 s1 sends e I Hw H.
  cbn [wf_op] in Hw; try discriminate Hw; split_ands.
  unfold obj_step, obj_step_core, ok, fail in H.
  brk_hyp H; inversion H; subst; clear H.
  all: cbn [flat_map send_msgs app].
  all: cbn [op_ids].
  all: pose proof (io_dg _ _ I) as [DG DGS].
  all: change (v_dict_brackets repaired) with false in *.
  all: (split; [ try solve [inv_tac I] | try solve [constructor] ]).
  all: try solve [ use_target L I; use_nodes L I; unfold pargroup_creation_cmd, group_creation_cmd, py_int in *;
                   brk_eqs; bools; goods ].
  all: try solve [ bools; brk_eqs; toks; match goal with G : get_buf _ _ = Some _ |- _ => use_buf L I G end;
                   repeat match goal with G : get_buf _ _ = Some _ |- _ => use_buf L I G end;
                   ions; brk_eqs; goods ].
  all: try solve [ bools; brk_eqs; toks; match goal with G : get_bus _ _ = Some _ |- _ => use_bus L I G end; ions; brk_eqs; goods ].
  all: match goal with G : get_bus _ _ = Some _ |- _ => use_bus L I G end; brk_eqs.
  all: constructor; [|constructor].
  all: destruct (pairs_groups z c _ a1 (le_n _) P) as [data [ids [Ed [T [G [Kids Ne]]]]]].
  all: rewrite Ed in Heqo0; inversion Heqo0; subst l; clear Heqo0.
  all: eapply (good_groups _ "/c_set" [] data _ [TBus; TNum] true _ _ ids);
       try reflexivity; try (apply wire_toks; exact T); try exact G; try apply toks_not_msg;
       try (let Y := fresh "Y" in intros Y; reflexivity); try solve [intros k i []].
  all: try (intros k i Hk; destruct (Kids k i Hk) as [Ek Hr]; subst k; known_tac).
  all: right; apply toks_wire_nonempty; apply Ne; destruct a1; [discriminate Hw | discriminate].

Qed.

Lemma og_OBusFill : forall n L s a0 a1 a2 s1 sends e,
  InvO L s -> wf_op n s (OBusFill a0 a1 a2) = true -> obj_step repaired s (OBusFill a0 a1 a2) = (s1, sends, e) ->
  InvO (op_ids s (OBusFill a0 a1 a2) ++ L) s1 /\ Forall (Good (op_ids s (OBusFill a0 a1 a2) ++ L)) (flat_map send_msgs sends).
Proof.
  intros n L s a0 a1 a2 s1 sends e I Hw H.
  cbn [wf_op] in Hw; try discriminate Hw; split_ands.
  unfold obj_step, obj_step_core, ok, fail in H.
  brk_hyp H; inversion H; subst; clear H.
  all: cbn [flat_map send_msgs app].
  all: cbn [op_ids].
  all: pose proof (io_dg _ _ I) as [DG DGS].
  all: change (v_dict_brackets repaired) with false in *.
  all: (split; [ try solve [inv_tac I] | try solve [constructor] ]).
  all: try solve [ use_target L I; use_nodes L I; unfold pargroup_creation_cmd, group_creation_cmd, py_int in *;
                   brk_eqs; bools; goods ].
  all: try solve [ bools; brk_eqs; toks; match goal with G : get_buf _ _ = Some _ |- _ => use_buf L I G end;
                   repeat match goal with G : get_buf _ _ = Some _ |- _ => use_buf L I G end;
                   ions; brk_eqs; goods ].
  all: try solve [ bools; brk_eqs; toks; match goal with G : get_bus _ _ = Some _ |- _ => use_bus L I G end; ions; brk_eqs; goods ].

Qed.

Lemma og_OBusClear : forall n L s a0 s1 sends e,
  InvO L s -> wf_op n s (OBusClear a0) = true -> obj_step repaired s (OBusClear a0) = (s1, sends, e) ->
  InvO (op_ids s (OBusClear a0) ++ L) s1 /\ Forall (Good (op_ids s (OBusClear a0) ++ L)) (flat_map send_msgs sends).
Proof.
  intros n L s a0 s1 sends e I Hw H.
  cbn [wf_op] in Hw; try discriminate Hw; split_ands.
  unfold obj_step, obj_step_core, ok, fail in H.
  brk_hyp H; inversion H; subst; clear H.
  all: cbn [flat_map send_msgs app].
  all: cbn [op_ids].
  all: pose proof (io_dg _ _ I) as [DG DGS].
  all: change (v_dict_brackets repaired) with false in *.
  all: (split; [ try solve [inv_tac I] | try solve [constructor] ]).
  all: try solve [ use_target L I; use_nodes L I; unfold pargroup_creation_cmd, group_creation_cmd, py_int in *;
                   brk_eqs; bools; goods ].
  all: try solve [ bools; brk_eqs; toks; match goal with G : get_buf _ _ = Some _ |- _ => use_buf L I G end;
                   repeat match goal with G : get_buf _ _ = Some _ |- _ => use_buf L I G end;
                   ions; brk_eqs; goods ].
  all: try solve [ bools; brk_eqs; toks; match goal with G : get_bus _ _ = Some _ |- _ => use_bus L I G end; ions; brk_eqs; goods ].

Qed.

Lemma og_OBusGet : forall n L s a0 s1 sends e,
  InvO L s -> wf_op n s (OBusGet a0) = true -> obj_step repaired s (OBusGet a0) = (s1, sends, e) ->
  InvO (op_ids s (OBusGet a0) ++ L) s1 /\ Forall (Good (op_ids s (OBusGet a0) ++ L)) (flat_map send_msgs sends).
Proof.
  intros n L s a0 s1 sends e I Hw H.
  cbn [wf_op] in Hw; try discriminate Hw; split_ands.
  unfold obj_step, obj_step_core, ok, fail in H.
  brk_hyp H; inversion H; subst; clear H.
  all: cbn [flat_map send_msgs app].
  all: cbn [op_ids].
  all: pose proof (io_dg _ _ I) as [DG DGS].
  all: change (v_dict_brackets repaired) with false in *.
  all: (split; [ try solve [inv_tac I] | try solve [constructor] ]).
  all: try solve [ use_target L I; use_nodes L I; unfold pargroup_creation_cmd, group_creation_cmd, py_int in *;
                   brk_eqs; bools; goods ].
  all: try solve [ bools; brk_eqs; toks; match goal with G : get_buf _ _ = Some _ |- _ => use_buf L I G end;
                   repeat match goal with G : get_buf _ _ = Some _ |- _ => use_buf L I G end;
                   ions; brk_eqs; goods ].
  all: try solve [ bools; brk_eqs; toks; match goal with G : get_bus _ _ = Some _ |- _ => use_bus L I G end; ions; brk_eqs; goods ].

Qed.

Lemma og_OBusGetn : forall n L s a0 a1 s1 sends e,
  InvO L s -> wf_op n s (OBusGetn a0 a1) = true -> obj_step repaired s (OBusGetn a0 a1) = (s1, sends, e) ->
  InvO (op_ids s (OBusGetn a0 a1) ++ L) s1 /\ Forall (Good (op_ids s (OBusGetn a0 a1) ++ L)) (flat_map send_msgs sends).
Proof.
  intros n L s a0 a1 s1 sends e I Hw H.
  cbn [wf_op] in Hw; try discriminate Hw; split_ands.
  unfold obj_step, obj_step_core, ok, fail in H.
  brk_hyp H; inversion H; subst; clear H.
  all: cbn [flat_map send_msgs app].
  all: cbn [op_ids].
  all: pose proof (io_dg _ _ I) as [DG DGS].
  all: change (v_dict_brackets repaired) with false in *.
  all: (split; [ try solve [inv_tac I] | try solve [constructor] ]).
  all: try solve [ use_target L I; use_nodes L I; unfold pargroup_creation_cmd, group_creation_cmd, py_int in *;
                   brk_eqs; bools; goods ].
  all: try solve [ bools; brk_eqs; toks; match goal with G : get_buf _ _ = Some _ |- _ => use_buf L I G end;
                   repeat match goal with G : get_buf _ _ = Some _ |- _ => use_buf L I G end;
                   ions; brk_eqs; goods ].
  all: try solve [ bools; brk_eqs; toks; match goal with G : get_bus _ _ = Some _ |- _ => use_bus L I G end; ions; brk_eqs; goods ].

Qed.

Lemma og_ORaw : forall n L s a0 s1 sends e,
  InvO L s -> wf_op n s (ORaw a0) = true -> obj_step repaired s (ORaw a0) = (s1, sends, e) ->
  InvO (op_ids s (ORaw a0) ++ L) s1 /\ Forall (Good (op_ids s (ORaw a0) ++ L)) (flat_map send_msgs sends).
Proof.
  intros n L s a0 s1 sends e I Hw H.
  cbn [wf_op] in Hw; try discriminate Hw; split_ands.
  unfold obj_step, obj_step_core, ok, fail in H.
  brk_hyp H; inversion H; subst; clear H.
  all: cbn [flat_map send_msgs app].
  all: cbn [op_ids].
  all: pose proof (io_dg _ _ I) as [DG DGS].
  all: change (v_dict_brackets repaired) with false in *.
  all: (split; [ try solve [inv_tac I] | try solve [constructor] ]).
  all: try solve [ use_target L I; use_nodes L I; unfold pargroup_creation_cmd, group_creation_cmd, py_int in *;
                   brk_eqs; bools; goods ].
  all: try solve [ bools; brk_eqs; toks; match goal with G : get_buf _ _ = Some _ |- _ => use_buf L I G end;
                   repeat match goal with G : get_buf _ _ = Some _ |- _ => use_buf L I G end;
                   ions; brk_eqs; goods ].
  all: try solve [ bools; brk_eqs; toks; match goal with G : get_bus _ _ = Some _ |- _ => use_bus L I G end; ions; brk_eqs; goods ].
  all: unfold raw_good in Hw; destruct (wire_msg a0) as [w|] eqn:E; [|discriminate].
  all: constructor; [|constructor]. all: exists w; split; [exact E|]; split; [exact Hw|].
  all: intros k i Hk; apply known_l; unfold raw_ids; rewrite E; exact Hk.

Qed.

Lemma og_OBindEnter : forall n L s  s1 sends e,
  InvO L s -> wf_op n s (OBindEnter ) = true -> obj_step repaired s (OBindEnter ) = (s1, sends, e) ->
  InvO (op_ids s (OBindEnter ) ++ L) s1 /\ Forall (Good (op_ids s (OBindEnter ) ++ L)) (flat_map send_msgs sends).
Proof.
  intros n L s  s1 sends e I Hw H.
  cbn [wf_op] in Hw; try discriminate Hw; split_ands.
  unfold obj_step, obj_step_core, ok, fail in H.
  brk_hyp H; inversion H; subst; clear H.
  all: cbn [flat_map send_msgs app].
  all: cbn [op_ids].
  all: pose proof (io_dg _ _ I) as [DG DGS].
  all: change (v_dict_brackets repaired) with false in *.
  all: (split; [ try solve [inv_tac I] | try solve [constructor] ]).
  all: try solve [ use_target L I; use_nodes L I; unfold pargroup_creation_cmd, group_creation_cmd, py_int in *;
                   brk_eqs; bools; goods ].
  all: try solve [ bools; brk_eqs; toks; match goal with G : get_buf _ _ = Some _ |- _ => use_buf L I G end;
                   repeat match goal with G : get_buf _ _ = Some _ |- _ => use_buf L I G end;
                   ions; brk_eqs; goods ].
  all: try solve [ bools; brk_eqs; toks; match goal with G : get_bus _ _ = Some _ |- _ => use_bus L I G end; ions; brk_eqs; goods ].

Qed.

Lemma og_OBindExit : forall n L s  s1 sends e,
  InvO L s -> wf_op n s (OBindExit ) = true -> obj_step repaired s (OBindExit ) = (s1, sends, e) ->
  InvO (op_ids s (OBindExit ) ++ L) s1 /\ Forall (Good (op_ids s (OBindExit ) ++ L)) (flat_map send_msgs sends).
Proof.
  intros n L s  s1 sends e I Hw H.
  cbn [wf_op] in Hw; try discriminate Hw; split_ands.
  unfold obj_step, obj_step_core, ok, fail in H.
  brk_hyp H; inversion H; subst; clear H.
  all: cbn [flat_map send_msgs app].
  all: cbn [op_ids].
  all: pose proof (io_dg _ _ I) as [DG DGS].
  all: change (v_dict_brackets repaired) with false in *.
  all: (split; [ try solve [inv_tac I] | try solve [constructor] ]).
  all: try solve [ use_target L I; use_nodes L I; unfold pargroup_creation_cmd, group_creation_cmd, py_int in *;
                   brk_eqs; bools; goods ].
  all: try solve [ bools; brk_eqs; toks; match goal with G : get_buf _ _ = Some _ |- _ => use_buf L I G end;
                   repeat match goal with G : get_buf _ _ = Some _ |- _ => use_buf L I G end;
                   ions; brk_eqs; goods ].
  all: try solve [ bools; brk_eqs; toks; match goal with G : get_bus _ _ = Some _ |- _ => use_bus L I G end; ions; brk_eqs; goods ].

Qed.

Lemma og_OBindRaise : forall n L s a0 s1 sends e,
  InvO L s -> wf_op n s (OBindRaise a0) = true -> obj_step repaired s (OBindRaise a0) = (s1, sends, e) ->
  InvO (op_ids s (OBindRaise a0) ++ L) s1 /\ Forall (Good (op_ids s (OBindRaise a0) ++ L)) (flat_map send_msgs sends).
Proof.
  intros n L s a0 s1 sends e I Hw H.
  cbn [wf_op] in Hw; try discriminate Hw; split_ands.
  unfold obj_step, obj_step_core, ok, fail in H.
  brk_hyp H; inversion H; subst; clear H.
  all: cbn [flat_map send_msgs app].
  all: cbn [op_ids].
  all: pose proof (io_dg _ _ I) as [DG DGS].
  all: change (v_dict_brackets repaired) with false in *.
  all: (split; [ try solve [inv_tac I] | try solve [constructor] ]).
  all: try solve [ use_target L I; use_nodes L I; unfold pargroup_creation_cmd, group_creation_cmd, py_int in *;
                   brk_eqs; bools; goods ].
  all: try solve [ bools; brk_eqs; toks; match goal with G : get_buf _ _ = Some _ |- _ => use_buf L I G end;
                   repeat match goal with G : get_buf _ _ = Some _ |- _ => use_buf L I G end;
                   ions; brk_eqs; goods ].
  all: try solve [ bools; brk_eqs; toks; match goal with G : get_bus _ _ = Some _ |- _ => use_bus L I G end; ions; brk_eqs; goods ].

Qed.

Lemma og_OSync : forall n L s a0 s1 sends e,
  InvO L s -> wf_op n s (OSync a0) = true -> obj_step repaired s (OSync a0) = (s1, sends, e) ->
  InvO (op_ids s (OSync a0) ++ L) s1 /\ Forall (Good (op_ids s (OSync a0) ++ L)) (flat_map send_msgs sends).
Proof.
  intros n L s a0 s1 sends e I Hw H.
  cbn [wf_op] in Hw; try discriminate Hw; split_ands.
  unfold obj_step, obj_step_core, ok, fail in H.
  brk_hyp H; inversion H; subst; clear H.
  all: cbn [flat_map send_msgs app].
  all: cbn [op_ids].
  all: pose proof (io_dg _ _ I) as [DG DGS].
  all: change (v_dict_brackets repaired) with false in *.
  all: (split; [ try solve [inv_tac I] | try solve [constructor] ]).
  all: try solve [ use_target L I; use_nodes L I; unfold pargroup_creation_cmd, group_creation_cmd, py_int in *;
                   brk_eqs; bools; goods ].
  all: try solve [ bools; brk_eqs; toks; match goal with G : get_buf _ _ = Some _ |- _ => use_buf L I G end;
                   repeat match goal with G : get_buf _ _ = Some _ |- _ => use_buf L I G end;
                   ions; brk_eqs; goods ].
  all: try solve [ bools; brk_eqs; toks; match goal with G : get_bus _ _ = Some _ |- _ => use_bus L I G end; ions; brk_eqs; goods ].

Qed.
