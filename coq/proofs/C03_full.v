(* C03 -- the full statements: fused list_binop law, _multichannel_perform law, exact
   characterisation of _replace_zeroes_with_silence. *)
From Coq Require Import ZArith List Bool Arith Lia.
Import ListNotations.
Require Import SC3.model.Mce SC3.proofs.C03_mce SC3.proofs.C03_lists.

(* ---- loops ---------------------------------------------------------------------- *)
Lemma loop_shift : forall A (g : nat -> M A) n i st,
  loop (fun j => g (S j)) i n st = loop g (S i) n st.
Proof.
  induction n as [|n IH]; intros i st; simpl; [reflexivity|]. unfold bind.
  destruct (g (S i) st) as [r s1|e]; [|reflexivity]. rewrite IH. reflexivity.
Qed.
Lemma mapM_map_seq : forall A B (f : A -> M B) (g : nat -> A) n i st,
  mapM f (map g (seq i n)) st = loop (fun j => f (g j)) i n st.
Proof.
  induction n as [|n IH]; intros i st; simpl; [reflexivity|]. unfold bind.
  destruct (f (g i) st) as [r s1|e]; [|reflexivity]. rewrite IH. reflexivity.
Qed.
Lemma mapM_combine_loop : forall A (f : arg * arg -> M A) la lb st, length la = length lb ->
  mapM f (combine la lb) st =
  loop (fun i => match nth_error la i, nth_error lb i with
                 | Some x, Some y => f (x, y)
                 | _, _ => raise IndexError end) 0 (length la) st.
Proof.
  induction la as [|x la IH]; intros lb st H; destruct lb as [|y lb]; try discriminate; simpl; [reflexivity|].
  unfold bind. destruct (f (x, y) st) as [r s1|e]; [|reflexivity].
  rewrite IH by (simpl in H; lia). rewrite <- loop_shift. reflexivity.
Qed.

(* ---- list_binop: the fused wrap-and-zip law --------------------------------------- *)
Lemma list_binop_untuple : forall op2 x y t st,
  list_binop op2 (untuple x) (untuple y) t st = list_binop op2 x y t st.
Proof.
  intros op2 x y t st. unfold list_binop. rewrite !sdepth_untuple.
  destruct x as [s|[|x0 l]|l], y as [s'|[|y0 l']|l']; reflexivity.
Qed.

Lemma existsb_false_in : forall (f : arg -> bool) l x, existsb f l = false -> In x l -> f x = false.
Proof.
  intros f l x H Hin. destruct (f x) eqn:E; [|reflexivity].
  assert (existsb f l = true) by (apply existsb_exists; eauto). congruence.
Qed.

Lemma list_binop_fused : forall op2 a b t st,
  is_seq a = true -> is_seq b = true -> items a <> [] -> items b <> [] ->
  list_binop op2 a b t st =
  bind (loop (fun i => match nth_error (items a) (i mod length (items a)),
                             nth_error (items b) (i mod length (items b)) with
                       | Some x, Some y => list_binop op2 x y (elem_kind x y)
                       | _, _ => raise IndexError
                       end) 0 (Nat.max (length (items a)) (length (items b))))
       (fun r => ret (mk t r)) st.
Proof.
  intros op2 a b t st Sa Sb Ha Hb. rewrite list_binop_eq, Sa, Sb.
  destruct (wrapped_spec a b Ha Hb) as (La & Lb & Hn).
  destruct (existsb is_seq (wrapped_a a b) || existsb is_seq (wrapped_b a b)) eqn:E.
  - unfold bind. rewrite La.
    rewrite (loop_ext _ _ (fun i => match nth_error (items a) (i mod length (items a)),
                                          nth_error (items b) (i mod length (items b)) with
                                    | Some x, Some y => list_binop op2 x y (elem_kind x y)
                                    | _, _ => raise IndexError end)); [reflexivity|].
    intros j s Hj. destruct (Hn j ltac:(lia)) as [-> ->].
    destruct (nth_error (items a) _) as [x|]; [|reflexivity].
    destruct (nth_error (items b) _) as [y|]; [|reflexivity].
    apply list_binop_untuple.
  - apply orb_false_iff in E. destruct E as [Ea Eb].
    unfold bind. rewrite mapM_combine_loop by congruence. rewrite La.
    rewrite (loop_ext _ _ (fun i => match nth_error (items a) (i mod length (items a)),
                                          nth_error (items b) (i mod length (items b)) with
                                    | Some x, Some y => list_binop op2 x y (elem_kind x y)
                                    | _, _ => raise IndexError end)); [reflexivity|].
    intros j s Hj. destruct (Hn j ltac:(lia)) as [Hxa Hxb].
    destruct (nth_error (wrapped_a a b) j) as [x|] eqn:Ex; rewrite <- Hxa; [|reflexivity].
    destruct (nth_error (wrapped_b a b) j) as [y|] eqn:Ey; rewrite <- Hxb; [|reflexivity].
    apply nth_error_In in Ex, Ey.
    rewrite list_binop_eq, (existsb_false_in _ _ _ Ea Ex), (existsb_false_in _ _ _ Eb Ey). reflexivity.
Qed.

Lemma list_binop_fused_length : forall op2 a b t st r st',
  is_seq a = true -> is_seq b = true -> items a <> [] -> items b <> [] ->
  list_binop op2 a b t st = Ok r st' ->
  exists rs, r = mk t rs /\ length rs = Nat.max (length (items a)) (length (items b)).
Proof.
  intros op2 a b t st r st' Sa Sb Ha Hb H. rewrite list_binop_fused in H by assumption.
  unfold bind in H. destruct (loop _ 0 _ st) as [rs s1|e] eqn:E; [|discriminate].
  inversion H; subst. exists rs. split; [reflexivity|]. eapply loop_length; eauto.
Qed.

(* ---- _multichannel_perform ----------------------------------------------------------- *)
Lemma flop_eq : forall lst, lst <> [] ->
  flop lst = map (fun i => map (fun x => wrap_at (as_list x) i) lst)
                 (seq 0 (list_max (map (fun x => length (as_list x)) lst))).
Proof.
  intros lst H. apply nth_ext with (d := []) (d' := []).
  - rewrite flop_length by exact H. now rewrite map_length, seq_length.
  - intros i Hi. pose proof (flop_row lst i H Hi) as Hr.
    rewrite (nth_error_nth _ _ _ Hr).
    rewrite flop_length in Hi by exact H.
    rewrite (nth_indep _ [] (map (fun x => wrap_at (as_list x) 0) lst))
      by (now rewrite map_length, seq_length).
    change (map (fun x => wrap_at (as_list x) 0) lst)
      with ((fun i => map (fun x => wrap_at (as_list x) i) lst) 0).
    rewrite map_nth, seq_nth by exact Hi. reflexivity.
Qed.

Lemma wrap_at_in : forall self i, self <> [] ->
  wrap_at self i = nth (i mod length self) self (Lst []) /\ In (wrap_at self i) self.
Proof.
  intros self i H. destruct self as [|x l]; [congruence|]. unfold wrap_at. split; [reflexivity|].
  apply nth_In. apply Nat.mod_upper_bound. simpl; lia.
Qed.

Section McLaw.
  Variable leaf : arg -> list arg -> M arg.

  Lemma mc_gen_f_stable : forall n m self args st,
    ldepth (Lst self) < n -> ldepth (Lst self) < m ->
    mc_perform_gen_f leaf n self args st = mc_perform_gen_f leaf m self args st.
  Proof.
    induction n as [|n IH]; intros m self args st Hn Hm; [lia|].
    destruct m as [|m]; [lia|]. simpl. unfold bind.
    rewrite (mapM_ext_in _ _ _ (mc_row leaf (mc_perform_gen_f leaf m))); [reflexivity|].
    intros row s Hin. rewrite flop_eq in Hin by discriminate.
    apply in_map_iff in Hin. destruct Hin as (i & <- & _). cbn [map as_list].
    destruct self as [|x0 l0]; [reflexivity|].
    destruct (wrap_at_in (x0 :: l0) i ltac:(discriminate)) as [_ Hin].
    destruct (wrap_at (x0 :: l0) i) as [a|l|[|y l]] eqn:E; try reflexivity.
    unfold mc_row.
    assert (ldepth (Lst (y :: l)) <= list_max (map ldepth (x0 :: l0)))
      by (apply list_max_ge; now apply in_map).
    change (ldepth (Lst (x0 :: l0))) with (S (list_max (map ldepth (x0 :: l0)))) in Hn, Hm.
    apply IH; lia.
  Qed.

  (* one channel of a _multichannel_perform call *)
  Definition mc_elem (x : arg) (rest : list arg) : M arg :=
    match x with
    | Lst (y :: l) => mc_perform_gen leaf (y :: l) rest
    | Lst [] => raise AttributeError
    | _ => leaf x rest
    end.

  Lemma mc_perform_law : forall self args st, self <> [] ->
    mc_perform_gen leaf self args st =
    bind (loop (fun i => mc_elem (nth (i mod length self) self (Lst []))
                                 (map (fun a => wrap_at (as_list a) i) args))
               0 (list_max (length self :: map (fun a => length (as_list a)) args)))
         (fun r => ret (Lst r)) st.
  Proof.
    intros self args st Hs. unfold mc_perform_gen. cbn [mc_perform_gen_f].
    rewrite flop_eq by discriminate. unfold bind.
    rewrite mapM_map_seq. cbn [map as_list].
    rewrite (loop_ext _ _ (fun i => mc_elem (nth (i mod length self) self (Lst []))
                                           (map (fun a => wrap_at (as_list a) i) args))); [reflexivity|].
    intros j s _. destruct (wrap_at_in self j Hs) as [Hw Hin]. rewrite Hw in *.
    destruct (nth (j mod length self) self (Lst [])) as [a|l|[|y l]] eqn:E; try reflexivity.
    unfold mc_row, mc_elem, mc_perform_gen.
    assert (ldepth (Lst (y :: l)) <= list_max (map ldepth self))
      by (apply list_max_ge; now apply in_map).
    apply mc_gen_f_stable; simpl in *; lia.
  Qed.

  Lemma mc_perform_length : forall self args st r st', self <> [] ->
    mc_perform_gen leaf self args st = Ok r st' ->
    exists rs, r = Lst rs /\
      length rs = list_max (length self :: map (fun a => length (as_list a)) args).
  Proof.
    intros self args st r st' Hs H. rewrite mc_perform_law in H by exact Hs. unfold bind in H.
    destruct (loop _ 0 _ st) as [rs s1|e] eqn:E; [|discriminate].
    inversion H; subst. exists rs. split; [reflexivity|]. eapply loop_length; eauto.
  Qed.
End McLaw.

(* ---- _replace_zeroes_with_silence: exact characterisation ------------------------------ *)
Definition dc_unit (dc : Z) : unit_rec := mkUnit dc [Scalar (K 0%Z)].

Definition rzp_step (silence : arg) (x : arg) (n : nat) : arg * nat :=
  match x with
  | Scalar (K 0%Z) => (silence, n)
  | Lst _ => rzp n x
  | _ => (x, n)
  end.
Definition go_rzp (silence : arg) : list arg -> nat -> list arg * nat :=
  fix go (l : list arg) (n : nat) : list arg * nat :=
    match l with
    | [] => ([], n)
    | x :: r => let '(x', n1) := rzp_step silence x n in
                let '(r', n2) := go r n1 in (x' :: r', n2)
    end.
Lemma rzp_lst : forall n l,
  rzp n (Lst l) = let '(l', n') := go_rzp (Scalar (U n 0)) l (S n) in (Lst l', n').
Proof. reflexivity. Qed.
Lemma go_rzp_cons : forall sil x r n,
  go_rzp sil (x :: r) n = let '(x', n1) := rzp_step sil x n in
                          let '(r', n2) := go_rzp sil r n1 in (x' :: r', n2).
Proof. reflexivity. Qed.

Definition rz_step (dc : Z) (silence : arg) (x : arg) : M arg :=
  match x with
  | Scalar (K 0%Z) => ret silence
  | Lst _ => rz dc x
  | _ => ret x
  end.
Lemma go_rz_cons : forall dc sil x r,
  go_rz dc sil (x :: r) = bind (rz_step dc sil x) (fun x' => bind (go_rz dc sil r) (fun r' => ret (x' :: r'))).
Proof. reflexivity. Qed.

Definition rz_exact_at (dc : Z) (a : arg) : Prop :=
  forall st, rz dc a st = Ok (fst (rzp (length st) a)) (st ++ repeat (dc_unit dc) (nlists a))
             /\ snd (rzp (length st) a) = length st + nlists a.

Lemma rz_step_exact : forall dc sil x, rz_exact_at dc x ->
  forall st, rz_step dc sil x st = Ok (fst (rzp_step sil x (length st))) (st ++ repeat (dc_unit dc) (nlists x))
             /\ snd (rzp_step sil x (length st)) = length st + nlists x.
Proof.
  intros dc sil x Hx st.
  destruct x as [[z|u c|s]|l|l]; try (simpl; rewrite app_nil_r; split; [reflexivity|lia]).
  - destruct z; simpl; rewrite app_nil_r; split; try reflexivity; lia.
  - apply Hx.
Qed.

Lemma go_rz_exact : forall dc sil l, Forall (rz_exact_at dc) l ->
  forall st, go_rz dc sil l st = Ok (fst (go_rzp sil l (length st)))
                                   (st ++ repeat (dc_unit dc) (list_sum (map nlists l)))
             /\ snd (go_rzp sil l (length st)) = length st + list_sum (map nlists l).
Proof.
  intros dc sil l HF. induction HF as [|x r Hx _ IH]; intros st.
  - simpl. rewrite app_nil_r. split; [reflexivity|lia].
  - rewrite go_rz_cons, go_rzp_cons. unfold bind.
    destruct (rz_step_exact dc sil x Hx st) as [E1 N1]. rewrite E1.
    destruct (rzp_step sil x (length st)) as [x' n1] eqn:Es. simpl in N1, E1 |- *.
    specialize (IH (st ++ repeat (dc_unit dc) (nlists x))).
    rewrite app_length, repeat_length, <- N1 in IH. destruct IH as [E2 N2]. rewrite E2.
    destruct (go_rzp sil r n1) as [r' n2] eqn:Eg. simpl in *.
    rewrite repeat_app, app_assoc. split; [reflexivity|lia].
Qed.

Lemma rz_exact : forall dc a, rz_exact_at dc a.
Proof.
  intros dc a. induction a as [s|l|l IH] using arg_list_ind; intros st.
  - simpl. rewrite app_nil_r. split; [reflexivity|lia].
  - simpl. rewrite app_nil_r. split; [reflexivity|lia].
  - rewrite rz_lst_unfold, rzp_lst. unfold bind at 1.
    change (multi_new (new1_plain dc 1) [Scalar (K 0%Z)] st)
      with (Ok (A := arg) (Scalar (U (length st) 0)) (st ++ [dc_unit dc])).
    destruct (go_rz_exact dc (Scalar (U (length st) 0)) l IH (st ++ [dc_unit dc])) as [E N].
    rewrite app_length in E, N. simpl length in E, N. rewrite Nat.add_1_r in E, N.
    unfold bind. rewrite E.
    destruct (go_rzp (Scalar (U (length st) 0)) l (S (length st))) as [l' n'] eqn:Eg.
    simpl in *. rewrite <- app_assoc. split; [reflexivity|lia].
Qed.

(* ---- what the pure function does: places and order are kept ----------------------------- *)
Section Rel.
  Variable P : nat -> Prop.     (* "uid is one of the silence units" *)
  Fixpoint item_rel (x x' : arg) {struct x} : Prop :=
    match x with
    | Scalar (K z) => if Z.eqb z 0 then exists uid, x' = Scalar (U uid 0) /\ P uid else x' = x
    | Lst l => exists l', x' = Lst l' /\
               (fix go (l l' : list arg) : Prop :=
                  match l, l' with
                  | [], [] => True
                  | y :: r, y' :: r' => item_rel y y' /\ go r r'
                  | _, _ => False
                  end) l l'
    | _ => x' = x
    end.
  Definition list_rel : list arg -> list arg -> Prop :=
    fix go (l l' : list arg) : Prop :=
      match l, l' with
      | [], [] => True
      | y :: r, y' :: r' => item_rel y y' /\ go r r'
      | _, _ => False
      end.
  Lemma item_rel_lst : forall l x', item_rel (Lst l) x' <-> exists l', x' = Lst l' /\ list_rel l l'.
  Proof. intros; reflexivity. Qed.
  Lemma list_rel_length : forall l l', list_rel l l' -> length l = length l'.
  Proof.
    induction l as [|x l IH]; destruct l' as [|x' l']; simpl; intros H; try contradiction; [reflexivity|].
    destruct H as [_ H]. f_equal. now apply IH.
  Qed.
End Rel.

Lemma rzp_rel : forall lo hi a n, lo <= n -> n + nlists a <= hi ->
  is_lst a = true ->
  item_rel (fun uid => lo <= uid < hi) a (fst (rzp n a)).
Proof.
  intros lo hi a. induction a as [s|l|l IH] using arg_list_ind; intros n Hlo Hhi Hl; try discriminate.
  rewrite rzp_lst. apply item_rel_lst.
  destruct (go_rzp (Scalar (U n 0)) l (S n)) as [l' n'] eqn:Eg. exists l'. split; [reflexivity|]. simpl fst.
  simpl in Hhi.
  assert (forall m, S n <= m -> m + list_sum (map nlists l) <= hi ->
          forall l' n', go_rzp (Scalar (U n 0)) l m = (l', n') ->
          list_rel (fun uid => lo <= uid < hi) l l') as Hgo.
  { clear Eg l' n' Hhi Hl. induction IH as [|x r Hx _ IHr]; intros m Hm Hs l' n' Eg.
    - simpl in Eg. inversion Eg; subst. exact I.
    - rewrite go_rzp_cons in Eg.
      destruct (rzp_step (Scalar (U n 0)) x m) as [x' n1] eqn:Es.
      destruct (go_rzp (Scalar (U n 0)) r n1) as [r' n2] eqn:Er.
      inversion Eg; subst. simpl in Hs.
      assert (n1 = m + nlists x) as Hn1.
      { destruct x as [[z|u c|s]|lx|lx].
        - destruct z; simpl in Es; inversion Es; simpl; lia.
        - simpl in Es; inversion Es; simpl; lia.
        - simpl in Es; inversion Es; simpl; lia.
        - simpl in Es; inversion Es; simpl; lia.
        - change (rzp_step (Scalar (U n 0)) (Lst lx) m) with (rzp m (Lst lx)) in Es.
          pose proof (rz_exact 0%Z (Lst lx) (repeat (dc_unit 0%Z) m)) as [_ Hsnd].
          rewrite repeat_length, Es in Hsnd. exact Hsnd. }
      split.
      + destruct x as [[z|u c|s]|lx|lx].
        * destruct z; simpl in Es; inversion Es; subst; simpl; try reflexivity.
          exists n. split; [reflexivity|]. lia.
        * simpl in Es; inversion Es; subst; reflexivity.
        * simpl in Es; inversion Es; subst; reflexivity.
        * simpl in Es; inversion Es; subst; reflexivity.
        * change (rzp_step (Scalar (U n 0)) (Lst lx) m) with (rzp m (Lst lx)) in Es.
          replace x' with (fst (rzp m (Lst lx))) by (now rewrite Es).
          apply Hx; [lia| |reflexivity]. simpl in *. lia.
      + eapply IHr; [| |exact Er]; simpl in *; lia. }
  eapply Hgo; [| |exact Eg]; simpl; lia.
Qed.

Lemma rzp_no_zero : forall a n, is_lst a = true -> has_zero (fst (rzp n a)) = false.
Proof.
  intros a n Hl.
  destruct (rz_exact 0%Z a (repeat (dc_unit 0%Z) n)) as [E _]. rewrite repeat_length in E.
  destruct (rz_spec _ _ _ _ _ E) as (Hz & _). now apply Hz.
Qed.

(* Out.ar, complete *)
Lemma out_ar_full : forall dc out bus output st r st',
  out_ar dc out bus output st = Ok r st' ->
  let n := nlists (Lst (as_list output)) in
  exists chans outs,
    list_rel (fun uid => length st <= uid < length st + n) (as_list output) chans /\
    existsb has_zero chans = false /\
    multi_new (new1_plain out 1) (bus :: chans) (st ++ repeat (dc_unit dc) n) = Ok r st' /\
    st' = st ++ repeat (dc_unit dc) n ++ outs /\
    length outs = count_calls (bus :: chans) /\ Forall (flat_vector out) outs.
Proof.
  intros dc out bus output st r st' H n. unfold out_ar, replace_zeroes in H. unfold bind at 1 2 in H.
  destruct (rz_exact dc (Lst (as_list output)) st) as [E _]. rewrite E in H. unfold ret in H.
  pose proof (rzp_rel (length st) (length st + n) (Lst (as_list output)) (length st)
                ltac:(lia) ltac:(subst n; lia) eq_refl) as Hrel.
  pose proof (rzp_no_zero (Lst (as_list output)) (length st) eq_refl) as Hz.
  apply item_rel_lst in Hrel. destruct Hrel as (chans & Ec & Hrel).
  rewrite Ec in H, Hz. simpl items in H. simpl in Hz. fold n in H.
  destruct (multi_new_units _ _ _ _ _ _ H) as (outs & -> & Lo & Po).
  exists chans, outs. rewrite <- app_assoc in *.
  split; [exact Hrel|]. split; [exact Hz|]. split; [exact H|]. split; [reflexivity|]. split; assumption.
Qed.

(* ---- small definitional facts used as theorems ------------------------------------------- *)
Lemma mc_per_channel : forall b u c rest st,
  mc_elem (leaf_method (MClip b)) (Scalar (U u c)) rest st =
    match unit_rate st u with
    | RDemand => Err AttributeError
    | r => multi_new (new1_plain (with_rate b r) 1) (Scalar (U u c) :: rest) st
    end /\
  mc_elem (leaf_method (MDirect b)) (Scalar (U u c)) rest st =
    match unit_rate st u with
    | RScalar | RDemand => Err AttributeError
    | r => multi_new (new1_plain (with_rate b r) 1) (Scalar (U u c) :: rest) st
    end.
Proof. intros. split; simpl; destruct (unit_rate st u); reflexivity. Qed.
Lemma cl_dup_eq : forall self n st, cl_dup self n st = Ok (Lst (repeat (Lst self) n)) st.
Proof. reflexivity. Qed.
Lemma cl_poll_eq : forall poll imp self trig label tid defl st rs,
  rates_of st self = Some rs ->
  cl_poll poll imp self trig label tid defl st =
  bind (multi_new (poll_new1 poll imp)
          [unbubble (Lst rs); trig; Lst self; if is_none label then Lst defl else label; tid])
       (fun _ => ret (Lst self)) st.
Proof. intros. unfold cl_poll. rewrite H. reflexivity. Qed.

(* ---- all output-unit constructors (fixed arguments before the channel array) --------------- *)
Lemma out_ar_is_gen : forall dc out bus output, out_ar dc out bus output = out_ar_gen dc out [bus] output.
Proof. reflexivity. Qed.
Lemma out_kr_is_gen : forall out bus output, out_kr out bus output = out_kr_gen out [bus] output.
Proof. reflexivity. Qed.

Lemma out_ar_gen_full : forall dc out fixed output st r st',
  out_ar_gen dc out fixed output st = Ok r st' ->
  let n := nlists (Lst (as_list output)) in
  exists chans outs,
    list_rel (fun uid => length st <= uid < length st + n) (as_list output) chans /\
    existsb has_zero chans = false /\
    multi_new (new1_plain out 1) (fixed ++ chans) (st ++ repeat (dc_unit dc) n) = Ok r st' /\
    st' = st ++ repeat (dc_unit dc) n ++ outs /\
    length outs = count_calls (fixed ++ chans) /\ Forall (flat_vector out) outs.
Proof.
  intros dc out fixed output st r st' H n. unfold out_ar_gen, replace_zeroes in H. unfold bind at 1 2 in H.
  destruct (rz_exact dc (Lst (as_list output)) st) as [E _]. rewrite E in H. unfold ret in H.
  pose proof (rzp_rel (length st) (length st + n) (Lst (as_list output)) (length st)
                ltac:(lia) ltac:(subst n; lia) eq_refl) as Hrel.
  pose proof (rzp_no_zero (Lst (as_list output)) (length st) eq_refl) as Hz.
  apply item_rel_lst in Hrel. destruct Hrel as (chans & Ec & Hrel).
  rewrite Ec in H, Hz. simpl items in H. simpl in Hz. fold n in H.
  destruct (multi_new_units _ _ _ _ _ _ H) as (outs & -> & Lo & Po).
  exists chans, outs. rewrite <- app_assoc in *.
  split; [exact Hrel|]. split; [exact Hz|]. split; [exact H|]. split; [reflexivity|]. split; assumption.
Qed.

(* control rate: the channels are spliced one by one; with scalar fixed arguments and a flat
   channel array that is ONE unit whose inputs are the fixed arguments followed by all channels *)
Lemma out_kr_gen_flat : forall out fixed output st,
  Forall (fun a => is_lst a = false) fixed -> Forall (fun a => is_lst a = false) (as_list output) ->
  out_kr_gen out fixed output st =
  Ok (Scalar (U (length st) 0)) (st ++ [mkUnit out (fixed ++ as_list output)]).
Proof.
  intros out fixed output st Hf Ho. unfold out_kr_gen.
  rewrite multi_new_no_list by (apply Forall_app; auto). reflexivity.
Qed.
Lemma out_kr_gen_units : forall out fixed output st r st',
  out_kr_gen out fixed output st = Ok r st' ->
  exists outs, st' = st ++ outs /\ length outs = count_calls (fixed ++ as_list output) /\
               Forall (flat_vector out) outs.
Proof. intros. unfold out_kr_gen in H. eapply multi_new_units; eauto. Qed.
