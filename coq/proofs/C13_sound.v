(* C13 -- the operational pull iterator produces the compositional denotation. *)
From Coq Require Import ZArith QArith List Bool Lia.
Require Import SC3.lib.PyNum SC3.gen.Gen_builtins SC3.model.Pattern.
Import ListNotations.

Section Sound.
Variable rnd : Z -> hist -> Z -> Z -> Z.
Local Notation snext := (snext rnd).
Local Notation den := (den rnd).

(* [prod s t]: stream state [s] produces trace [t] (finitely many small steps). *)
Inductive prod : sstate -> trace -> Prop :=
| prod_more s : prod s ([], EMore)
| prod_stop s : snext s = Stop -> prod s ([], EStop)
| prod_err s : snext s = Err -> prod s ([], EErr)
| prod_tau s s' t : snext s = Tau s' -> prod s' t -> prod s t
| prod_yield s s' v l e : snext s = Yield v s' -> prod s' (l, e) -> prod s (v :: l, e).

Inductive prod_out : out sstate -> trace -> Prop :=
| po_stop : prod_out Stop ([], EStop)
| po_err : prod_out Err ([], EErr)
| po_tau s t : prod s t -> prod_out (Tau s) t
| po_yield v s l e : prod s (l, e) -> prod_out (Yield v s) (v :: l, e)
| po_more r : prod_out r ([], EMore).

Lemma prod_of_out s t : prod_out (snext s) t -> prod s t.
Proof.
  intros H. remember (snext s) as r eqn:E. symmetry in E.
  destruct H.
  - now apply prod_stop.
  - now apply prod_err.
  - eapply prod_tau; eauto.
  - eapply prod_yield; eauto.
  - apply prod_more.
Qed.

Lemma po_yield' v s t : prod s t -> prod_out (Yield v s) (tcons v t).
Proof. destruct t as [l e]. apply po_yield. Qed.
Lemma po_end (r : out sstate) e :
  match e with EStop => r = Stop | EErr => r = Err | EMore => True end -> prod_out r ([], e).
Proof. destruct e; intros H; subst; constructor. Qed.

(* One generic fact about "x = sub.next()" / "yield from sub": what the enclosing frame
   does is determined by the trace of the sub-stream. *)
Lemma pull : forall c tr, prod c tr ->
  forall (K : sstate -> sstate) onstop onyield t,
  (forall c', snext (K c') = bindp (snext c') K onstop onyield) ->
  match fst tr with
  | [] => match snd tr with
          | EStop => prod_out onstop t | EErr => t = ([], EErr) | EMore => t = ([], EMore) end
  | v :: l' => forall c', prod c' (l', snd tr) -> prod_out (onyield v c') t
  end ->
  prod (K c) t.
Proof.
  intros c tr H. induction H; intros K onstop onyield t0 HK Hc; cbn [fst snd] in Hc.
  - subst. apply prod_more.
  - apply prod_of_out. rewrite HK, H. exact Hc.
  - subst. apply prod_err. rewrite HK, H. reflexivity.
  - eapply prod_tau. rewrite HK, H. reflexivity. eapply IHprod; eauto.
  - apply prod_of_out. rewrite HK, H. cbn. apply Hc. exact H0.
Qed.

Lemma tapp_nil_stop t : tapp ([], EStop) t = t.
Proof. destruct t; reflexivity. Qed.
Lemma tapp_cons v l e t : tapp (v :: l, e) t = tcons v (tapp (l, e) t).
Proof. destruct e; reflexivity. Qed.
Lemma tapp_tcons v t T : tapp (tcons v t) T = tcons v (tapp t T).
Proof. destruct t as [l e]; destruct e; reflexivity. Qed.
Lemma tpre_cons v l t : tpre (v :: l) t = tcons v (tpre l t).
Proof. reflexivity. Qed.
Lemma tpre_nil t : tpre [] t = t.
Proof. destruct t; reflexivity. Qed.

Ltac endcase e := destruct e; cbn; try reflexivity; try (constructor; fail).

(* ------------------------------------------------------------ leaf streams *)
Lemma prod_done : prod SDone ([], EStop).
Proof. apply prod_stop. reflexivity. Qed.
Lemma prod_once v : prod (SOnce v) ([v], EStop).
Proof. eapply prod_yield. reflexivity. apply prod_done. Qed.
Lemma prod_const v n : prod (SConst v) (repeat v n, EMore).
Proof. induction n; cbn. apply prod_more. eapply prod_yield. reflexivity. exact IHn. Qed.

(* ------------------------------------------------- embedding list patterns *)
Lemma emb_inner p k T :
  prod_out (match item_at p k with
            | IDone => Stop | IErr => Err
            | ISpin => Tau (SEmb SDone k p)
            | IItem q => Tau (SEmb (init Emb q) (S k) p) end) T ->
  forall l e cur, prod cur (l, e) -> prod (SEmb cur k p) (tapp (l, e) T).
Proof.
  intros HT l e. induction l as [|v l IH]; intros cur Hc.
  - eapply (pull _ _ Hc (fun c => SEmb c k p)). intros; reflexivity.
    cbn. destruct e; try reflexivity. rewrite tapp_nil_stop. exact HT.
  - eapply (pull _ _ Hc (fun c => SEmb c k p)). intros; reflexivity.
    cbn. intros c' Hc'. rewrite tapp_cons. apply po_yield'. apply IH. exact Hc'.
Qed.
Lemma prod_emb (d : pat -> trace) p :
  (forall q, prod (init Emb q) (d q)) ->
  forall count k cur tc, prod cur tc -> prod (SEmb cur k p) (tapp tc (temb (item_at p) d count k)).
Proof.
  intros Hd. induction count as [|c IH]; intros k cur [l e] Hc; apply emb_inner; try exact Hc.
  - cbn. apply po_more.
  - cbn [temb]. destruct (item_at p k).
    + constructor.
    + constructor.
    + apply po_more.
    + apply po_tau. apply IH. apply Hd.
Qed.

(* ----------------------------------------------------------- Plen / Pdrop *)
Lemma prod_len : forall n c l e, prod c (l, e) -> prod (SLen c n) (tlen n l e).
Proof.
  induction n as [|n IH]; intros c l e Hc.
  - apply prod_stop. reflexivity.
  - eapply (pull _ _ Hc (fun c' => SLen c' (S n))). intros; reflexivity.
    destruct l as [|v l]; cbn.
    + endcase e.
    + intros c' Hc'. apply po_yield'. apply IH. exact Hc'.
Qed.
Lemma prod_drop0 : forall l e c, prod c (l, e) -> prod (SDrop c 0) (l, e).
Proof.
  induction l as [|v l IH]; intros e c Hc.
  - eapply (pull _ _ Hc (fun c' => SDrop c' 0)). intros; reflexivity. cbn. endcase e.
  - eapply (pull _ _ Hc (fun c' => SDrop c' 0)). intros; reflexivity. cbn.
    intros c' Hc'. apply po_yield. apply IH. exact Hc'.
Qed.
Lemma prod_drop : forall n c l e, prod c (l, e) -> prod (SDrop c n) (tdrop n l e).
Proof.
  induction n as [|n IH]; intros c l e Hc.
  - apply prod_drop0. exact Hc.
  - eapply (pull _ _ Hc (fun c' => SDrop c' (S n))). intros; reflexivity.
    destruct l as [|v l]; cbn.
    + endcase e.
    + intros c' Hc'. apply po_tau. apply IH. exact Hc'.
Qed.

(* --------------------------------------------------------------- Pstutter *)
Lemma prod_stutC v c cn t : prod (SStutA c cn) t -> forall k, prod (SStutC v k c cn) (tpre (repeat v k) t).
Proof.
  intros H. induction k as [|k IH]; cbn [repeat].
  - rewrite tpre_nil. eapply prod_tau. reflexivity. exact H.
  - rewrite tpre_cons. apply prod_of_out. cbn. apply po_yield'. exact IH.
Qed.
Lemma prod_stut : forall l e c, prod c (l, e) -> forall ln en cn, prod cn (ln, en) ->
  prod (SStutA c cn) (tstut l e ln en).
Proof.
  induction l as [|v l IH]; intros e c Hc ln en cn Hn.
  - eapply (pull _ _ Hc (fun c' => SStutA c' cn)). intros; reflexivity. cbn. endcase e.
  - eapply (pull _ _ Hc (fun c' => SStutA c' cn)). intros; reflexivity. cbn [fst snd].
    intros c' Hc'. apply po_tau.
    eapply (pull _ _ Hn (fun x => SStutB v c' x)). intros; reflexivity.
    destruct ln as [|nv ln]; cbn [fst snd tstut].
    + endcase en.
    + intros cn' Hn'. destruct (as_count nv) as [k|]; [|constructor].
      apply po_tau. apply prod_stutC. apply IH; assumption.
Qed.

(* ----------------------------------------------------------------- Pclump *)
Lemma prod_clumpB : forall k acc l e c cn (T : list val -> list val -> trace),
  prod c (l, e) ->
  (forall acc' rest c', grab k acc l = (acc', Some rest) -> prod c' (rest, e) ->
     prod (SClumpB acc' 0 c' cn) (T acc' rest)) ->
  prod (SClumpB acc k c cn)
    (match grab k acc l with
     | (acc', Some rest) => T acc' rest
     | (acc', None) => match e with
                       | EStop => match acc' with [] => ([], EStop) | _ => ([VL acc'], EStop) end
                       | _ => ([], e) end
     end).
Proof.
  induction k as [|k IH]; intros acc l e c cn T Hc HT.
  - cbn. apply HT. reflexivity. exact Hc.
  - eapply (pull _ _ Hc (fun c' => SClumpB acc (S k) c' cn)). intros; reflexivity.
    destruct l as [|v l]; cbn [fst snd grab].
    + destruct e; try reflexivity. destruct acc; [constructor|].
      apply po_yield. apply prod_stop. reflexivity.
    + intros c' Hc'. apply po_tau. apply IH. exact Hc'. exact HT.
Qed.
Lemma prod_clump : forall ln en cn, prod cn (ln, en) -> forall l e c, prod c (l, e) ->
  prod (SClumpA c cn) (tclump ln en l e).
Proof.
  induction ln as [|nv ln IH]; intros en cn Hn l e c Hc.
  - eapply (pull _ _ Hn (fun x => SClumpA c x)). intros; reflexivity. cbn. endcase en.
  - eapply (pull _ _ Hn (fun x => SClumpA c x)). intros; reflexivity. cbn [fst snd tclump].
    intros cn' Hn'. destruct (as_int nv) as [z|]; [|constructor].
    apply po_tau.
    apply (prod_clumpB (Z.to_nat z) [] l e c cn' (fun acc rest => tcons (VL acc) (tclump ln en rest e)) Hc).
    intros acc' rest c' _ Hc'. apply prod_of_out. cbn. apply po_yield'. apply IH; assumption.
Qed.

(* --------------------------------------------------------------- Pflatten *)
Lemma prod_flatC c cn t : prod (SFlatA c cn) t -> forall items, prod (SFlatC items c cn) (tpre items t).
Proof.
  intros H. induction items as [|x r IH].
  - rewrite tpre_nil. eapply prod_tau. reflexivity. exact H.
  - rewrite tpre_cons. apply prod_of_out. cbn. apply po_yield'. exact IH.
Qed.
Lemma prod_flat : forall ln en cn, prod cn (ln, en) -> forall l e c, prod c (l, e) ->
  prod (SFlatA c cn) (tflat ln en l e).
Proof.
  induction ln as [|nv ln IH]; intros en cn Hn l e c Hc.
  - eapply (pull _ _ Hn (fun x => SFlatA c x)). intros; reflexivity. cbn. endcase en.
  - eapply (pull _ _ Hn (fun x => SFlatA c x)). intros; reflexivity. cbn [fst snd tflat].
    intros cn' Hn'. apply po_tau.
    eapply (pull _ _ Hc (fun x => SFlatB nv x cn')). intros; reflexivity.
    destruct l as [|v l]; cbn [fst snd].
    + endcase e.
    + intros c' Hc'.
      destruct v; try (apply po_yield'; apply IH; assumption).
      destruct (flat_levels nv (VL l0)); [|constructor].
      apply po_tau. apply prod_flatC. apply IH; assumption.
Qed.

(* ------------------------------------------------------------------ Pdiff *)
Lemma prod_diffB : forall l e prev c, prod c (l, e) -> prod (SDiffB prev c) (tdiff' prev l e).
Proof.
  induction l as [|nx l IH]; intros e prev c Hc.
  - eapply (pull _ _ Hc (fun x => SDiffB prev x)). intros; reflexivity. cbn. endcase e.
  - eapply (pull _ _ Hc (fun x => SDiffB prev x)). intros; reflexivity. cbn [fst snd tdiff'].
    intros c' Hc'. destruct (binop BSub nx prev); [|constructor].
    apply po_yield'. apply IH. exact Hc'.
Qed.
Lemma prod_diff : forall l e c, prod c (l, e) -> prod (SDiffA c) (tdiff l e).
Proof.
  intros l e c Hc. eapply (pull _ _ Hc (fun x => SDiffA x)). intros; reflexivity.
  destruct l as [|v l]; cbn [fst snd tdiff].
  - endcase e.
  - intros c' Hc'. apply po_tau. apply prod_diffB. exact Hc'.
Qed.

(* ----------------------------------------------------------------- Pconst *)
Lemma po_const_last sum acc :
  prod_out (match ret_num (nsub sum acc) with Some r => Yield r SDone | None => Err end) (const_last sum acc).
Proof.
  unfold const_last. destruct (ret_num (nsub sum acc)); [|constructor].
  apply po_yield. apply prod_done.
Qed.
Lemma prod_constr sum tol : forall l e acc c, prod c (l, e) ->
  prod (SConstr sum tol acc c) (tconst sum tol acc l e).
Proof.
  induction l as [|v l IH]; intros e acc c Hc.
  - eapply (pull _ _ Hc (fun x => SConstr sum tol acc x)). intros; reflexivity.
    cbn [fst snd tconst]. destruct e; try reflexivity. apply po_const_last.
  - eapply (pull _ _ Hc (fun x => SConstr sum tol acc x)). intros; reflexivity.
    cbn [fst snd tconst]. intros c' Hc'.
    destruct (as_num v) as [x|]; [|constructor].
    cbv zeta.
    destruct (py_roundup (nadd acc x) tol) eqn:E; try constructor.
    + destruct (nge (I z) sum). apply po_const_last. apply po_yield'. apply IH. exact Hc'.
    + destruct (nge (F q) sum). apply po_const_last. apply po_yield'. apply IH. exact Hc'.
Qed.

(* ------------------------------------------- Pcollect / Pselect / Preject *)
Lemma prod_fun kd f : forall l e c, prod c (l, e) -> prod (SFun kd f c) (tfun kd f l e).
Proof.
  induction l as [|v l IH]; intros e c Hc.
  - eapply (pull _ _ Hc (fun x => SFun kd f x)). intros; reflexivity. cbn. endcase e.
  - eapply (pull _ _ Hc (fun x => SFun kd f x)). intros; reflexivity. cbn [fst snd tfun].
    intros c' Hc'. destruct (fn_apply f v) as [r|]; [|constructor].
    destruct kd.
    + apply po_yield'. apply IH. exact Hc'.
    + destruct r as [n|[|]|?|?|]; try (apply po_tau; apply IH; exact Hc').
      apply po_yield'. apply IH. exact Hc'.
    + destruct r as [n|[|]|?|?|]; try (apply po_tau; apply IH; exact Hc').
      apply po_yield'. apply IH. exact Hc'.
Qed.

(* -------------------------------------------------------------- operators *)
Lemma prod_un o : forall l e c, prod c (l, e) -> prod (SUn o c) (tun o l e).
Proof.
  induction l as [|v l IH]; intros e c Hc.
  - eapply (pull _ _ Hc (fun x => SUn o x)). intros; reflexivity. cbn. endcase e.
  - eapply (pull _ _ Hc (fun x => SUn o x)). intros; reflexivity. cbn [fst snd tun].
    intros c' Hc'. destruct (unop o v); [|constructor]. apply po_yield'. apply IH. exact Hc'.
Qed.
Lemma prod_bin o : forall la ea a, prod a (la, ea) -> forall lb eb b, prod b (lb, eb) ->
  prod (SBinA o a b) (tbin o la ea lb eb).
Proof.
  induction la as [|va la IH]; intros ea a Ha lb eb b Hb.
  - eapply (pull _ _ Ha (fun x => SBinA o x b)). intros; reflexivity. cbn. endcase ea.
  - eapply (pull _ _ Ha (fun x => SBinA o x b)). intros; reflexivity. cbn [fst snd].
    intros a' Ha'. apply po_tau.
    eapply (pull _ _ Hb (fun x => SBinB o va a' x)). intros; reflexivity.
    destruct lb as [|vb lb]; cbn [fst snd tbin].
    + endcase eb.
    + intros b' Hb'. destruct (binop o va vb); [|constructor].
      apply po_yield'. apply IH; assumption.
Qed.
Lemma prod_nar o : forall la ea a, prod a (la, ea) -> forall lb eb b, prod b (lb, eb) ->
  forall lc ec c, prod c (lc, ec) ->
  prod (SNarA o a b c) (tnar o la ea lb eb lc ec).
Proof.
  induction la as [|va la IH]; intros ea a Ha lb eb b Hb lc ec c Hc.
  - eapply (pull _ _ Ha (fun x => SNarA o x b c)). intros; reflexivity. cbn. endcase ea.
  - eapply (pull _ _ Ha (fun x => SNarA o x b c)). intros; reflexivity. cbn [fst snd].
    intros a' Ha'. apply po_tau.
    eapply (pull _ _ Hb (fun x => SNarB o va a' x c)). intros; reflexivity.
    destruct lb as [|vb lb]; cbn [fst snd tnar].
    + endcase eb.
    + intros b' Hb'. apply po_tau.
      eapply (pull _ _ Hc (fun x => SNarC o va vb a' b' x)). intros; reflexivity.
      destruct lc as [|vc lc]; cbn [fst snd].
      * endcase ec.
      * intros c' Hc'. destruct (narop o va vb vc); [|constructor].
        apply po_yield'. apply IH; assumption.
Qed.

(* ------------------------------------------------------------------ Pwrap *)
Lemma prod_wrap e elo ehi : forall llo cl, prod cl (llo, elo) -> forall lhi ch, prod ch (lhi, ehi) ->
  forall l c, prod c (l, e) ->
  prod (SWrapA c cl ch) (twrap l e llo elo lhi ehi).
Proof.
  induction llo as [|lo llo IH]; intros cl Hl lhi ch Hh l c Hc.
  - eapply (pull _ _ Hl (fun x => SWrapA c x ch)). intros; reflexivity. cbn. endcase elo.
  - eapply (pull _ _ Hl (fun x => SWrapA c x ch)). intros; reflexivity. cbn [fst snd].
    intros cl' Hl'. apply po_tau.
    eapply (pull _ _ Hh (fun x => SWrapB lo c cl' x)). intros; reflexivity.
    destruct lhi as [|hi lhi]; cbn [fst snd twrap].
    + endcase ehi.
    + intros ch' Hh'. apply po_tau.
      eapply (pull _ _ Hc (fun x => SWrapC lo hi x cl' ch')). intros; reflexivity.
      destruct l as [|v l]; cbn [fst snd].
      * endcase e.
      * intros c' Hc'. destruct (narop NWrap v lo hi); [|constructor].
        apply po_yield'. apply (IH cl' Hl' lhi ch' Hh' l c' Hc').
Qed.

(* -------------------------------------------------------------------- Pif *)
Lemma prod_if : forall lc ec c, prod c (lc, ec) -> forall lt et t, prod t (lt, et) ->
  forall le ee e, prod e (le, ee) ->
  prod (SIfA c t e) (tif lc ec lt et le ee).
Proof.
  induction lc as [|cv lc IH]; intros ec c Hc lt et t Ht le ee e He.
  - eapply (pull _ _ Hc (fun x => SIfA x t e)). intros; reflexivity. cbn. endcase ec.
  - eapply (pull _ _ Hc (fun x => SIfA x t e)). intros; reflexivity. cbn [fst snd tif].
    intros c' Hc'. apply po_tau. destruct (truthy cv).
    + eapply (pull _ _ Ht (fun x => SIfB true c' x e)). intros; reflexivity.
      destruct lt as [|x lt]; cbn [fst snd].
      * endcase et.
      * intros t' Ht'. apply po_yield'. apply IH; assumption.
    + eapply (pull _ _ He (fun x => SIfB false c' t x)). intros; reflexivity.
      destruct le as [|x le]; cbn [fst snd].
      * endcase ee.
      * intros e' He'. apply po_yield'. apply IH; assumption.
Qed.

(* -------------------------------------------------------- Pseries / Pgeom *)
Lemma prod_series mul : forall ls es cur i cs, prod cs (ls, es) ->
  prod (SSeries mul cur i cs) (tseries mul cur i ls es).
Proof.
  induction ls as [|sv ls IH]; intros es cur i cs Hs.
  - cbn [tseries]. destruct (cnt_zero i) eqn:Z.
    + apply prod_stop. cbn. rewrite Z. reflexivity.
    + eapply (pull _ _ Hs (fun x => SSeries mul cur i x)).
      intros; cbn; rewrite Z; reflexivity. cbn. endcase es.
  - cbn [tseries]. destruct (cnt_zero i) eqn:Z.
    + apply prod_stop. cbn. rewrite Z. reflexivity.
    + eapply (pull _ _ Hs (fun x => SSeries mul cur i x)).
      intros; cbn; rewrite Z; reflexivity. cbn [fst snd].
      intros cs' Hs'. destruct (as_num sv) as [st|]; [|constructor].
      destruct (if mul then nmul cur st else nadd cur st) eqn:E.
      * apply po_yield'. apply IH. exact Hs'.
      * apply po_yield'. apply IH. exact Hs'.
      * constructor.
Qed.

(* ---------------------------------------------------------------- Pswitch *)
Lemma sw_inner cw lst T : prod (SSwI cw lst) T ->
  forall l e cur, prod cur (l, e) -> prod (SSwE cur cw lst) (tapp (l, e) T).
Proof.
  intros HT l e. induction l as [|v l IH]; intros cur Hc.
  - eapply (pull _ _ Hc (fun x => SSwE x cw lst)). intros; reflexivity.
    cbn. destruct e; try reflexivity. rewrite tapp_nil_stop. apply po_tau. exact HT.
  - eapply (pull _ _ Hc (fun x => SSwE x cw lst)). intros; reflexivity.
    cbn. intros c' Hc'. rewrite tapp_cons. apply po_yield'. apply IH. exact Hc'.
Qed.
Lemma prod_switch (d : pat -> trace) lst :
  (forall q, prod (init Emb q) (d q)) ->
  forall lw ew cw, prod cw (lw, ew) -> prod (SSwI cw lst) (tswitch d lst lw ew).
Proof.
  intros Hd. induction lw as [|iv lw IH]; intros ew cw Hw.
  - eapply (pull _ _ Hw (fun x => SSwI x lst)). intros; reflexivity. cbn. endcase ew.
  - eapply (pull _ _ Hw (fun x => SSwI x lst)). intros; reflexivity. cbn [fst snd tswitch].
    intros cw' Hw'. destruct (as_index iv) as [z|]; [|constructor].
    destruct (wrap_at lst z) as [q|]; [|constructor].
    apply po_tau. specialize (Hd q). destruct (d q) as [l e].
    apply sw_inner. apply IH. exact Hw'. exact Hd.
Qed.


(* --------------------------------------------------------------- Pswitch1 *)
Lemma split_at_F2 {A B} (R : A -> B -> Prop) : forall l1 l2, Forall2 R l1 l2 -> forall i,
  match split_at i l1, split_at i l2 with
  | Some (p1, c1, q1), Some (p2, c2, q2) => Forall2 R p1 p2 /\ R c1 c2 /\ Forall2 R q1 q2
  | None, None => True
  | _, _ => False
  end.
Proof.
  induction 1 as [|x y l1 l2 Hxy H IH]; intros i; cbn.
  - exact Logic.I.
  - destruct i as [|i]. repeat split; try constructor; assumption.
    specialize (IH i). destruct (split_at i l1) as [[[p1 c1] q1]|], (split_at i l2) as [[[p2 c2] q2]|];
      try contradiction; try exact Logic.I.
    destruct IH as (H1 & H2 & H3). repeat split; try assumption. constructor; assumption.
Qed.
Lemma F2_length {A B} (R : A -> B -> Prop) l1 l2 : Forall2 R l1 l2 -> length l1 = length l2.
Proof. induction 1; cbn; congruence. Qed.
Lemma prod_sw1 : forall lw ew cw, prod cw (lw, ew) -> forall cs ts, Forall2 prod cs ts ->
  prod (SSw1A cw cs) (tsw1 ts lw ew).
Proof.
  induction lw as [|iv lw IH]; intros ew cw Hw cs ts Hcs.
  - eapply (pull _ _ Hw (fun x => SSw1A x cs)). intros; reflexivity. cbn. endcase ew.
  - eapply (pull _ _ Hw (fun x => SSw1A x cs)). intros; reflexivity. cbn [fst snd tsw1].
    intros cw' Hw'. destruct (as_index iv) as [z|]; [|constructor].
    pose proof (F2_length _ _ _ Hcs) as Hlen.
    destruct cs as [|c0 cs0], ts as [|t0 ts0]; try discriminate Hlen; [constructor|].
    rewrite <- Hlen.
    pose proof (split_at_F2 prod _ _ Hcs (Z.to_nat (z mod Z.of_nat (length (c0 :: cs0))))) as HS.
    destruct (split_at _ (c0 :: cs0)) as [[[p1 c1] q1]|], (split_at _ (t0 :: ts0)) as [[[p2 [l e]] q2]|];
      try contradiction; [|constructor].
    destruct HS as (H1 & H2 & H3). apply po_tau.
    eapply (pull _ _ H2 (fun x => SSw1Z p1 x q1 cw')). intros; reflexivity.
    destruct l as [|v l]; cbn [fst snd].
    + endcase e.
    + intros c' Hc'. apply po_yield'. apply IH. exact Hw'.
      apply Forall2_app. exact H1. constructor; assumption.
Qed.

(* ----------------------------------------------------------------- Ptuple *)
Lemma trows_from_step rows acc dts v l e tts :
  trows_from rows acc dts ((v :: l, e) :: tts) = trows_from rows (acc ++ [v]) (dts ++ [(l, e)]) tts.
Proof.
  unfold trows_from. cbn [heads]. destruct (heads tts) as [[vs r']|e']; [|reflexivity].
  rewrite <- !app_assoc. reflexivity.
Qed.
Lemma prod_tupP j r lp T : prod (STupR (S j) r lp) T ->
  forall f,
  (forall cs ts, Forall2 prod cs ts -> prod (STupP [] [] cs j r lp) (tapp (trows f ts) T)) ->
  forall todo tts, Forall2 prod todo tts -> forall acc done dts, Forall2 prod done dts ->
  prod (STupP acc done todo j r lp) (tapp (trows_from (trows f) acc dts tts) T).
Proof.
  intros HT f Hrow. induction 1 as [|c t todo tts Hc Htodo IH]; intros acc done dts Hd.
  - unfold trows_from. cbn [heads]. rewrite !app_nil_r.
    apply prod_of_out. cbn. rewrite tapp_tcons. apply po_yield'. apply Hrow. exact Hd.
  - destruct t as [l e].
    eapply (pull _ _ Hc (fun x => STupP acc done (x :: todo) j r lp)). intros; reflexivity.
    destruct l as [|v l]; cbn [fst snd].
    + unfold trows_from. cbn [heads]. destruct e; [|reflexivity|reflexivity].
      rewrite tapp_nil_stop. apply po_tau. exact HT.
    + intros c' Hc'. rewrite trows_from_step. apply po_tau. apply IH.
      apply Forall2_app. exact Hd. constructor; [exact Hc'|constructor].
Qed.
Lemma prod_tup_rows j r lp T : prod (STupR (S j) r lp) T ->
  forall f cs ts, Forall2 prod cs ts -> prod (STupP [] [] cs j r lp) (tapp (trows f ts) T).
Proof.
  intros HT. induction f as [|f IH]; intros cs ts H.
  - cbn. apply prod_more.
  - cbn [trows]. apply (prod_tupP j r lp T HT f IH cs ts H [] [] []). constructor.
Qed.
Lemma F2_map (d : pat -> trace) : (forall q, prod (init Str q) (d q)) ->
  forall l, Forall2 prod (map (init Str) l) (map d l).
Proof. intros Hd. induction l; cbn; constructor; [apply Hd|assumption]. Qed.
Lemma prod_tupR (d : pat -> trace) lp r f :
  lp <> [] -> (forall q, prod (init Str q) (d q)) ->
  forall count j, prod (STupR j r lp) (trep count r j (trows f (map d lp))).
Proof.
  intros Hne Hd. induction count as [|c IH]; intros j.
  - apply prod_more.
  - cbn [trep]. apply prod_of_out. cbn. destruct lp as [|q0 lp']; [congruence|].
    destruct (in_reps r j); [|constructor].
    apply po_tau. apply prod_tup_rows. apply IH. apply F2_map. exact Hd.
Qed.

(* ----------------------------------------------------------------- Pslide *)
Lemma slE_inner j rem i pos cl cs l w T : prod (SSlJ j rem i pos cl cs l w) T ->
  forall l0 e cur, prod cur (l0, e) -> prod (SSlE cur j rem i pos cl cs l w) (tapp (l0, e) T).
Proof.
  intros HT l0 e. induction l0 as [|v l0 IH]; intros cur Hc.
  - eapply (pull _ _ Hc (fun x => SSlE x j rem i pos cl cs l w)). intros; reflexivity.
    cbn. destruct e; try reflexivity. rewrite tapp_nil_stop. apply po_tau. exact HT.
  - eapply (pull _ _ Hc (fun x => SSlE x j rem i pos cl cs l w)). intros; reflexivity.
    cbn. intros c' Hc'. rewrite tapp_cons. apply po_yield'. apply IH. exact Hc'.
Qed.
Lemma prod_slJ (d : pat -> trace) i pos cl cs l w K :
  (forall q, prod (init Emb q) (d q)) ->
  prod (SSlS i pos cl cs l w) K ->
  forall rem j, prod (SSlJ j rem i pos cl cs l w) (twin d l w pos j rem K).
Proof.
  intros Hd HK. induction rem as [|rem IH]; intros j.
  - cbn. eapply prod_tau. reflexivity. exact HK.
  - apply prod_of_out. cbn [Pattern.snext twin]. destruct pos as [z|q|]; try constructor.
    destruct w.
    + destruct (wrap_at l (z + Z.of_nat j)) as [q|]; [|constructor].
      apply po_tau. specialize (Hd q). destruct (d q) as [l0 e]. apply slE_inner. apply IH. exact Hd.
    + destruct ((0 <=? z + Z.of_nat j)%Z && (z + Z.of_nat j <? Z.of_nat (length l))%Z); [|constructor].
      destruct (nth_error l (Z.to_nat (z + Z.of_nat j))) as [q|]; [|constructor].
      apply po_tau. specialize (Hd q). destruct (d q) as [l0 e]. apply slE_inner. apply IH. exact Hd.
Qed.
Lemma prod_slide (d : pat -> trace) l w : l <> [] -> (forall q, prod (init Emb q) (d q)) ->
  forall llen elen cl, prod cl (llen, elen) -> forall lstep estep cs, prod cs (lstep, estep) ->
  forall i pos, prod (SSlA i pos cl cs l w) (tslide d l w i pos llen elen lstep estep).
Proof.
  intros Hne Hd. induction llen as [|lv llen IH]; intros elen cl Hl lstep estep cs Hs i pos.
  - cbn [tslide]. destruct l as [|q0 l']; [congruence|]. destruct (cnt_zero i) eqn:Z.
    + apply prod_stop. cbn. rewrite Z. reflexivity.
    + eapply (pull _ _ Hl (fun x => SSlA i pos x cs (q0 :: l') w)). intros; cbn; rewrite Z; reflexivity.
      cbn. endcase elen.
  - cbn [tslide]. destruct l as [|q0 l']; [congruence|]. destruct (cnt_zero i) eqn:Z.
    + apply prod_stop. cbn. rewrite Z. reflexivity.
    + eapply (pull _ _ Hl (fun x => SSlA i pos x cs (q0 :: l') w)). intros; cbn; rewrite Z; reflexivity.
      cbn [fst snd]. intros cl' Hl'. destruct (as_index lv) as [z|]; [|constructor].
      apply po_tau. apply prod_slJ. exact Hd.
      eapply (pull _ _ Hs (fun x => SSlS i pos cl' x (q0 :: l') w)). intros; reflexivity.
      destruct lstep as [|sv lstep]; cbn [fst snd].
      * endcase estep.
      * intros cs' Hs'. destruct (as_num sv) as [st|]; [|constructor].
        destruct (nadd pos st) eqn:E.
        -- apply po_tau. apply IH; assumption.
        -- apply po_tau. apply IH; assumption.
        -- constructor.
Qed.

(* ------------------------------------------- seeded random patterns (Pseed) *)
Lemma sdR_inner p z idx k cs T :
  prod_out (if cnt_zero k then Tau (SSeedA cs p) else
            match rand_body p with
            | Some (l, a, b) => match rand_item rnd a b l z idx with
                                | Some q => Tau (SSdR z ((a, b) :: idx) (cnt_dec k) (init Emb q) cs p)
                                | None => Err end
            | None => Err end) T ->
  forall l0 e cur, prod cur (l0, e) -> prod (SSdR z idx k cur cs p) (tapp (l0, e) T).
Proof.
  intros HT l0 e. induction l0 as [|v l0 IH]; intros cur Hc.
  - eapply (pull _ _ Hc (fun x => SSdR z idx k x cs p)). intros; reflexivity.
    cbn. destruct e; try reflexivity. rewrite tapp_nil_stop. exact HT.
  - eapply (pull _ _ Hc (fun x => SSdR z idx k x cs p)). intros; reflexivity.
    cbn. intros c' Hc'. rewrite tapp_cons. apply po_yield'. apply IH. exact Hc'.
Qed.
Lemma prod_sdR (d : pat -> trace) p l a b z cs K : rand_body p = Some (l, a, b) ->
  (forall q, prod (init Emb q) (d q)) ->
  prod (SSeedA cs p) K ->
  forall count k idx cur tc, prod cur tc ->
  prod (SSdR z idx k cur cs p) (tapp tc (trand rnd d a b l z k idx count K)).
Proof.
  intros Hb Hd HK. induction count as [|c IH]; intros k idx cur [l0 e] Hc; apply sdR_inner; try exact Hc.
  - cbn. apply po_more.
  - cbn [trand]. destruct (cnt_zero k). apply po_tau. exact HK. rewrite Hb.
    destruct (rand_item rnd a b l z idx) as [q|]; [|constructor].
    apply po_tau. apply IH. apply Hd.
Qed.
Lemma sdX_inner p z idx index k cs T :
  prod_out (if cnt_zero k then Tau (SSeedA cs p) else
            match p with
            | PseedXrand _ l _ => match xrand_step rnd l z idx index with
                                  | Some (q, index', idx') => Tau (SSdX z idx' index' (cnt_dec k) (init Emb q) cs p)
                                  | None => Err end
            | _ => Err end) T ->
  forall l0 e cur, prod cur (l0, e) -> prod (SSdX z idx index k cur cs p) (tapp (l0, e) T).
Proof.
  intros HT l0 e. induction l0 as [|v l0 IH]; intros cur Hc.
  - eapply (pull _ _ Hc (fun x => SSdX z idx index k x cs p)). intros; reflexivity.
    cbn. destruct e; try reflexivity. rewrite tapp_nil_stop. exact HT.
  - eapply (pull _ _ Hc (fun x => SSdX z idx index k x cs p)). intros; reflexivity.
    cbn. intros c' Hc'. rewrite tapp_cons. apply po_yield'. apply IH. exact Hc'.
Qed.
Lemma prod_sdX (d : pat -> trace) sd l r z cs K :
  (forall q, prod (init Emb q) (d q)) ->
  prod (SSeedA cs (PseedXrand sd l r)) K ->
  forall count k idx index cur tc, prod cur tc ->
  prod (SSdX z idx index k cur cs (PseedXrand sd l r)) (tapp tc (txrand rnd d l z index k idx count K)).
Proof.
  intros Hd HK. induction count as [|c IH]; intros k idx index cur [l0 e] Hc; apply sdX_inner; try exact Hc.
  - cbn. apply po_more.
  - cbn [txrand]. destruct (cnt_zero k). apply po_tau. exact HK.
    destruct (xrand_step rnd l z idx index) as [[[q index'] idx']|]; [|constructor].
    apply po_tau. apply IH. apply Hd.
Qed.
Lemma prod_sdW p z cs K : prod (SSeedA cs p) K ->
  forall llo elo clo, prod clo (llo, elo) -> forall lhi ehi chi, prod chi (lhi, ehi) ->
  forall k idx, prod (SSdWA z idx k clo chi cs p) (twhite rnd z k idx llo elo lhi ehi K).
Proof.
  intros HK. induction llo as [|lo llo IH]; intros elo clo Hl lhi ehi chi Hh k idx.
  - cbn [twhite]. destruct (cnt_zero k) eqn:Z.
    + eapply prod_tau. cbn. rewrite Z. reflexivity. exact HK.
    + eapply (pull _ _ Hl (fun x => SSdWA z idx k x chi cs p)). intros; cbn; rewrite Z; reflexivity.
      cbn. destruct elo; try reflexivity. apply po_tau. exact HK.
  - cbn [twhite]. destruct (cnt_zero k) eqn:Z.
    + eapply prod_tau. cbn. rewrite Z. reflexivity. exact HK.
    + eapply (pull _ _ Hl (fun x => SSdWA z idx k x chi cs p)). intros; cbn; rewrite Z; reflexivity.
      cbn [fst snd]. intros clo' Hl'. apply po_tau.
      eapply (pull _ _ Hh (fun x => SSdWB lo z idx k clo' x cs p)). intros; reflexivity.
      destruct lhi as [|hi lhi]; cbn [fst snd].
      * destruct ehi; try reflexivity. apply po_tau. exact HK.
      * intros chi' Hh'. destruct (white_draw rnd lo hi z idx) as [[v idx']|]; [|constructor].
        apply po_yield'. apply IH; assumption.
Qed.
Lemma prod_seedA p (body : Z -> trace -> trace) :
  (forall z x K, prod (SSeedA x p) K ->
     prod_out (match p with
               | PseedRand _ l r => match l with [] => Err | _ => Tau (SSdR z [] (cnt_of r) SDone x p) end
               | PseedXrand _ l r =>
                   match l with
                   | [] => Err
                   | _ => Tau (SSdX z [(0, Z.of_nat (length l))%Z] (rnd z [] 0%Z (Z.of_nat (length l))) (cnt_of r) SDone x p) end
               | PseedWhite _ lo hi len => Tau (SSdWA z [] (cnt_of len) (init Str lo) (init Str hi) x p)
               | PseedWrand _ l _ r => match l with [] => Err | _ => Tau (SSdR z [] (cnt_of r) SDone x p) end
               | _ => Err end) (body z K)) ->
  forall ls es cs, prod cs (ls, es) -> prod (SSeedA cs p) (tseed body ls es).
Proof.
  intros Hb. induction ls as [|sv ls IH]; intros es cs Hs.
  - eapply (pull _ _ Hs (fun x => SSeedA x p)). intros; reflexivity. cbn. endcase es.
  - eapply (pull _ _ Hs (fun x => SSeedA x p)). intros; reflexivity. cbn [fst snd tseed].
    intros cs' Hs'. destruct (as_index sv) as [z|]; [|constructor].
    apply Hb. apply IH. exact Hs'.
Qed.

(* ====================================================== the main theorem *)
Ltac sub IH q := let l := fresh "l" in let e := fresh "e" in let H := fresh "H" in
  pose proof (IH Str q) as H; destruct (Pattern.den rnd _ Str q) as [l e]; cbn [fst snd].

Theorem den_sound : forall k m p, prod (init m p) (den k m p).
Proof.
  induction k as [|k IH]; intros m p.
  - apply prod_more.
  - destruct p; cbn [Pattern.den init].
    + destruct m. apply prod_once. apply prod_const.
    + rewrite <- (tapp_nil_stop (temb _ _ _ _)). apply prod_emb. apply IH. apply prod_done.
    + rewrite <- (tapp_nil_stop (temb _ _ _ _)). apply prod_emb. apply IH. apply prod_done.
    + rewrite <- (tapp_nil_stop (temb _ _ _ _)). apply prod_emb. apply IH. apply prod_done.
    + rewrite <- (tapp_nil_stop (temb _ _ _ _)). apply prod_emb. apply IH. apply prod_done.
    + sub IH p. apply prod_len. assumption.
    + sub IH p. apply prod_drop. assumption.
    + sub IH p1. sub IH p2. apply prod_stut; assumption.
    + sub IH p1. sub IH p2. apply prod_clump; assumption.
    + sub IH p1. sub IH p2. apply prod_flat; assumption.
    + sub IH p. apply prod_diff. assumption.
    + sub IH p. apply prod_constr. assumption.
    + sub IH p. apply prod_fun. assumption.
    + sub IH p1. sub IH p2. sub IH p3. apply prod_wrap; assumption.
    + sub IH p. apply prod_un. assumption.
    + sub IH p1. sub IH p2. apply prod_bin; assumption.
    + sub IH p1. sub IH p2. sub IH p3. apply prod_nar; assumption.
    + sub IH p1. sub IH p2. sub IH p3. apply prod_if; assumption.
    + sub IH p. apply prod_series. assumption.
    + sub IH p. apply prod_series. assumption.
    + sub IH p. apply prod_switch. apply IH. assumption.
    + (* Pswitch1 *) sub IH p. apply prod_sw1. assumption. apply F2_map. intros q; apply IH.
    + (* Ptuple *) destruct l as [|q0 l']. apply prod_err. reflexivity.
      apply (prod_tupR (den k Str)). congruence. intros q; apply IH.
    + (* Pslide *) destruct l as [|q0 l']. apply prod_err. reflexivity.
      sub IH p1. sub IH p2. apply prod_slide; try assumption. congruence. intros q; apply IH.
    + (* PseedRand *) sub IH p. apply prod_seedA; [|assumption].
      intros z x K HK. destruct l as [|q0 l']. constructor. apply po_tau.
      rewrite <- (tapp_nil_stop (trand _ _ _ _ _ _ _ _ _ _)). eapply prod_sdR. reflexivity. intros q; apply IH. exact HK. apply prod_done.
    + (* PseedXrand *) sub IH p. apply prod_seedA; [|assumption].
      intros z x K HK. destruct l as [|q0 l']. constructor. apply po_tau.
      rewrite <- (tapp_nil_stop (txrand _ _ _ _ _ _ _ _ _)). apply prod_sdX. intros q; apply IH. exact HK. apply prod_done.
    + (* PseedWhite *) sub IH p1. apply prod_seedA; [|assumption].
      intros z x K HK. apply po_tau. sub IH p2. sub IH p3. apply prod_sdW; assumption.
    + (* PseedWrand *) sub IH p. apply prod_seedA; [|assumption].
      intros z x K HK. destruct l as [|q0 l']. constructor. apply po_tau.
      rewrite <- (tapp_nil_stop (trand _ _ _ _ _ _ _ _ _ _)). eapply prod_sdR. reflexivity. intros q; apply IH. exact HK. apply prod_done.
Qed.
End Sound.
