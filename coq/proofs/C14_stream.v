(* C14 -- streams as event lists: the run of a stream state under a constant input event, the timeline a
   player makes of an event list, and the bridge between the player loop and that timeline. *)
From Coq Require Import String List Morphisms.
Require Import SC3.proofs.NumTac SC3.gen.Gen_builtins SC3.proofs.C12_num SC3.model.TaskQ SC3.model.Event.
Require Import SC3.proofs.C14_play.
Import ListNotations.
Open Scope Q_scope.

(* ---- the events a stream yields when it is pulled with the same input event until it ends ------------ *)
Section Run.
Variables (c : cfg) (K : kern) (lib : synthlib).

Fixpoint stream_run (fuel dep : nat) (s : st) (inev : event) (mc : nat) : list event :=
  match fuel with
  | O => []
  | S f =>
    match snext c K lib dep s inev mc with
    | (RYield e s' _, mc') => e :: stream_run f dep s' inev mc'
    | _ => []
    end
  end.
End Run.

(* ---- the timeline of an event list: event k at start + the deltas of the events before it -------------- *)
Fixpoint timeline K (now : Q) (l : list event) : list (Q * event) :=
  match l with
  | [] => []
  | e :: r => (now, e) :: timeline K (now + delta_q K e) r
  end.

Lemma timeline_length : forall K l now, List.length (timeline K now l) = List.length l.
Proof. intros K l. induction l as [|e r IH]; intros now; cbn; [reflexivity|rewrite IH; reflexivity]. Qed.

Lemma timeline_nth : forall K l now k t e, nth_error (timeline K now l) k = Some (t, e) ->
  nth_error l k = Some e /\ t == now + qsum (firstn k (map (delta_q K) l)).
Proof.
  intros K l. induction l as [|e0 r IH]; intros now k t e H.
  - destruct k; discriminate.
  - destruct k as [|k]; cbn in *.
    + inversion H; subst. split; [reflexivity|ring].
    + destruct (IH _ _ _ _ H) as [H1 H2]. split; [exact H1|]. rewrite H2. ring.
Qed.

(* ---- small facts about the dict ------------------------------------------------------------------------- *)
Lemma put_put_same : forall k v (e : event), put k v (put k v e) = put k v e.
Proof.
  intros k v e. induction e as [|[k' v'] r IH]; cbn.
  - rewrite String.eqb_refl. reflexivity.
  - destruct (String.eqb k k') eqn:E; cbn; rewrite ?String.eqb_refl, ?E; [reflexivity|rewrite IH; reflexivity].
Qed.
Lemma as_event_idem : forall e, as_event (as_event e) = as_event e.
Proof. intros e. unfold as_event. apply put_put_same. Qed.

(* marking an event as an EventType instance does not change its delta *)
Lemma delta_as_event : forall K e, ev_call K (as_event e) "delta" = ev_call K e "delta".
Proof.
  intros K e. unfold ev_call, as_event. rewrite get_put_neq by reflexivity.
  destruct (get "delta" e); [reflexivity|]. cbn. unfold r_delta, plain. rewrite !get_put_neq by reflexivity. reflexivity.
Qed.
Lemma delta_q_as_event : forall K e, delta_q K (as_event e) = delta_q K e.
Proof. intros K e. unfold delta_q. rewrite delta_as_event. reflexivity. Qed.

(* ---- the player plays the timeline of the stream's run ----------------------------------------------------- *)
(* a delta after which the clock re-schedules the player *)
Definition numeric_delta (c : cfg) K (e : event) : Prop :=
  match ev_call K e "delta" with
  | VNum n => ok n
  | VRest n => fix_rest_delta c = true /\ ok n
  | _ => False
  end.

Lemma player_is_timeline : forall c K lib fuel depth s proto mc now,
  Forall (numeric_delta c K) (map as_event (stream_run c K lib fuel depth s proto mc)) ->
  evs (player c K lib fuel depth s proto mc now)
  = timeline K now (map as_event (stream_run c K lib fuel depth s proto mc)).
Proof.
  intros c K lib fuel. induction fuel as [|f IH]; intros depth s proto mc now H.
  - reflexivity.
  - cbn [player stream_run] in *. destruct (snext c K lib depth s proto mc) as [[e0 s' offs|offs|] mc'].
    + rewrite evs_offs. cbn [evs map timeline] in *. inversion H as [|? ? Hn Hr]; subst. f_equal.
      unfold numeric_delta in Hn. unfold delta_q.
      destruct (ev_call K (as_event e0) "delta") as [[z|q|]|[z|q|]| | | | | |]; cbn [vnum toQ] in *;
        try contradiction; try discriminate; try (destruct Hn; discriminate).
      * apply IH. exact Hr.
      * apply IH. exact Hr.
      * destruct Hn as [Hc _]. rewrite Hc. apply IH. exact Hr.
      * destruct Hn as [Hc _]. rewrite Hc. apply IH. exact Hr.
    + cbn. clear. induction offs as [|m r IHr]; cbn; [reflexivity|exact IHr].
    + reflexivity.
Qed.
