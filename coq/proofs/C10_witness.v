(* C10: the cross-clock witness (two routines on different clocks draw from one inherited generator),
   the timetag shift lemma, and concrete instances used as Examples by props/C10.v. *)
From Coq Require Import ZArith QArith Qround List Bool Lia Lqa.
Require Import SC3.model.KProg SC3.model.KNrt SC3.model.KRt SC3.model.KRand SC3.model.KAgree.
Require Import SC3.proofs.C05_frame SC3.proofs.C07_stamp SC3.proofs.C10_frame SC3.proofs.C10_gens SC3.proofs.C10_sim.
Import ListNotations.
Open Scope Q_scope.

(* a generator whose k-th value is k: enough to tell who drew first *)
Definition kgen (s : Z) (h : list Z) (r : Z) : Z := (s * 1000 + Z.of_nat (length h))%Z.

(* root seeds 5, plays A on SystemClock and B on TempoClock(1); A draws at logical time 1/32, B at 9/256 *)
Definition cross_prog : xprog :=
  mkXP [1] [[XSeed 5; XPlay 1 CSystem; XPlay 2 (CTempo 0); XYield (1#8)];
            [XYield (1#32); XDraw 0]; [XYield (9#256); XDraw 0]] 0 0 1 0.
(* the order of wake-ups recorded on the real library when the SystemClock thread is late:
   root, A, B, B (draws), A (draws), root *)
Definition wk (rid : nat) (now : Q) : nat * Q := (rid, now).
Definition cross_sched : list (nat * Q) := [wk 0 0; wk 1 0; wk 2 0; wk 2 (1#8); wk 1 (1#8); wk 0 (1#4)].

Lemma cross_clock_refuted :
  let s := xrt_run kgen 0 cross_prog 0 cross_sched in
  xs_bad s = false /\ xs_early s = false /\ n_q (x_n (xs s)) = [] /\
  xnrt_completed kgen true cross_prog 10 = true /\
  ob_vals (obs_rt kgen 0 cross_prog 0 cross_sched) = [VDraw 2 1 1 0 5000; VDraw 1 1 1 0 5001] /\
  ob_vals (obs_nrt kgen cross_prog 10) = [VDraw 1 1 1 0 5000; VDraw 2 1 1 0 5001] /\
  (* every routine still observes exactly its own logical times *)
  (forall rid, ob_resumes (obs_rout 0 (xs s) rid) = ob_resumes (obs_rout 0 (xnrt_loop kgen true cross_prog 10 (xnrt_init cross_prog)) rid)) /\
  (* and the real-time execution that follows logical time agrees with the non-real-time run *)
  obs_of 0 (xs (xrt_ordered kgen 0 cross_prog 10 (xrt_init cross_prog 0))) = obs_nrt kgen cross_prog 10.
Proof.
  vm_compute. repeat split; try reflexivity.
  intros [|[|[|rid]]]; reflexivity.
Qed.

(* ---- timetags: relative to the start they differ by at most one unit ------------------------------ *)
Lemma Qfloor_add_bounds x y : (Qfloor x + Qfloor y <= Qfloor (x + y) <= Qfloor x + Qfloor y + 1)%Z.
Proof.
  pose proof (Qfloor_le x) as A1. pose proof (Qlt_floor x) as A2.
  pose proof (Qfloor_le y) as B1. pose proof (Qlt_floor y) as B2.
  pose proof (Qfloor_le (x + y)) as C1. pose proof (Qlt_floor (x + y)) as C2.
  rewrite inject_Z_plus in A2, B2, C2. change (inject_Z 1) with 1 in *.
  split.
  - assert (H : inject_Z (Qfloor x + Qfloor y) < inject_Z (Qfloor (x + y) + 1)).
    { rewrite !inject_Z_plus. change (inject_Z 1) with 1. lra. }
    rewrite <- Zlt_Qlt in H. lia.
  - assert (H : inject_Z (Qfloor (x + y)) < inject_Z (Qfloor x + Qfloor y + 2)).
    { rewrite !inject_Z_plus. change (inject_Z 2) with 2. lra. }
    rewrite <- Zlt_Qlt in H. lia.
Qed.

(* the real-time timetag of a bundle sent at logical time T + t0 with latency l, minus the timetag
   of the start instant t0, is the non-real-time timetag (sent at T) or that plus one *)
Lemma timetag_shift off T t0 l : 0 <= T -> 0 <= t0 -> 0 <= l ->
  let rt_tag := stamp_tag (MRt off) (T + t0) (Some l) in
  let nrt_tag := stamp_tag (MNrt true) T (Some l) in
  (nrt_tag <= rt_tag - elapsed_to_osc off t0 <= nrt_tag + 1)%Z.
Proof.
  intros HT Ht Hl rt_tag nrt_tag. subst rt_tag nrt_tag.
  rewrite stamp_tag_rt by exact Hl. rewrite stamp_tag_nrt. rewrite (lat_val_of_nonneg l Hl).
  unfold elapsed_to_osc. pose proof two32_pos as P.
  assert (E : (l + (T + t0)) * two32 == (l + T) * two32 + t0 * two32) by ring.
  rewrite (Qtrunc_comp _ _ E).
  assert (A : 0 <= (l + T) * two32) by nra. assert (B : 0 <= t0 * two32) by nra.
  assert (C : 0 <= (l + T) * two32 + t0 * two32) by lra.
  rewrite !Qtrunc_nonneg by assumption.
  pose proof (Qfloor_add_bounds ((l + T) * two32) (t0 * two32)). lia.
Qed.

(* ---- instances ------------------------------------------------------------------------------------ *)
(* a single-clock program with a condition, a flow variable, an inherited and an own generator, pause/resume *)
Definition sys_prog : xprog :=
  mkXP [] [[XSeed 7; XDraw 0; XPlay 1 CSystem; XFork 2; XDraw 1; XYield (1#4); XPause 1; XSetTest 0 true; XSignal 0;
            XYield (1#4); XResume 1; XFlowSet 0 42; XSend (Some (1#8)) [EMsg 3; EBundle (Some (1#4)) [EMsg 4]]];
           [XDraw 2; XWait 0; XDraw 3; XYield (1#2); XFlowGet 0; XSend None [EMsg 5]];
           [XSeed 9; XDraw 4; XYield (1#8); XDraw 5; XSend (Some 0) [EMsg 6]]] 1 1 99 0.
Definition sys_sched : list (nat * Q) :=
  [wk 0 3; wk 1 3; wk 2 3; wk 2 4; wk 0 4; wk 1 5; wk 0 5; wk 1 6; wk 1 6; wk 1 6].

Lemma sys_prog_ok : sys_only sys_prog.
Proof.
  split; [reflexivity|]. repeat constructor; simpl; try lra; try discriminate.
Qed.
Lemma sys_example :
  let s := xrt_run kgen 7 sys_prog 3 sys_sched in
  xs_bad s = false /\ n_q (x_n (xs s)) = [] /\ xnrt_completed kgen true sys_prog 10 = true /\
  length (ob_bundles (obs_nrt kgen sys_prog 10)) = 3%nat /\
  ob_vals (obs_nrt kgen sys_prog 10) =
    [VDraw 0 0 1 0 7000; VDraw 0 0 1 1 7001; VDraw 1 0 1 2 7002; VDraw 2 0 2 4 9000; VDraw 2 1 2 5 9001;
     VDraw 1 1 1 3 7003; VFlow 1 3 0 (Some 42%Z)].
Proof. vm_compute. repeat split; reflexivity. Qed.

(* routine 2 of sys_prog seeds itself (object 2): it is the only user of its generator *)
Definition keepsb (rid g : nat) (vals : list vevent) : bool :=
  forallb (fun v => match v with VDraw r _ g' _ _ => Bool.eqb (Nat.eqb r rid) (Nat.eqb g' g) | _ => true end) vals.
Lemma keepsb_ok rid g vals : keepsb rid g vals = true -> keeps_to_itself rid g vals.
Proof.
  unfold keepsb, keeps_to_itself. rewrite forallb_forall. intros H r k g' req v Hin.
  specialize (H _ Hin). simpl in H. apply eqb_prop in H.
  split; intros E.
  - apply Nat.eqb_eq. rewrite <- H. apply Nat.eqb_eq. exact E.
  - apply Nat.eqb_eq. rewrite H. apply Nat.eqb_eq. exact E.
Qed.
Lemma sys_keeps : keeps_to_itself 2 2 (x_vals (xnrt_loop kgen true sys_prog 10 (xnrt_init sys_prog))).
Proof. apply keepsb_ok. vm_compute. reflexivity. Qed.

(* ---- the non-real-time code as found: two pending wake-ups after pause(); resume() -------------------- *)
(* the root plays a child, pauses it and resumes it before the child's first wake-up *)
Definition dup_prog : xprog :=
  mkXP [] [[XPlay 1 CSystem; XPause 1; XResume 1];
           [XYield (1#4); XSend (Some 0) [EMsg 1]; XYield (1#4); XSend (Some 0) [EMsg 2]]] 0 0 1 0.
Definition rs (rid k : nat) (t : Q) : nat * nat * Q := (rid, k, t).
Definition dup_sched : list (nat * Q) := [wk 0 0; wk 1 0; wk 1 (1#4); wk 1 (1#2)].
Lemma dup_prog_ok : sys_only dup_prog.
Proof. split; [reflexivity|]. repeat constructor; simpl; try lra; try discriminate. Qed.
Lemma nrt_as_found_refuted :
  xnrt_completed kgen false dup_prog 10 = true /\ xnrt_completed kgen true dup_prog 10 = true /\
  xs_bad (xrt_run kgen 0 dup_prog 0 dup_sched) = false /\ n_q (x_n (xs (xrt_run kgen 0 dup_prog 0 dup_sched))) = [] /\
  (* as found: the child is woken twice at time 0 and sends its bundles at 0 and 1/4 *)
  ob_resumes (obs_nrt_as_found kgen dup_prog 10) = [rs 0 0 0; rs 1 0 0; rs 1 1 0; rs 1 2 (1#4)] /\
  map fst (ob_bundles (obs_nrt_as_found kgen dup_prog 10)) = [0; 1#4] /\
  (* real time (one entry per task in the clock's queue), and the repaired non-real-time code *)
  ob_resumes (obs_rt kgen 0 dup_prog 0 dup_sched) = [rs 0 0 0; rs 1 0 0; rs 1 1 (1#4); rs 1 2 (1#2)] /\
  map fst (ob_bundles (obs_rt kgen 0 dup_prog 0 dup_sched)) = [1#4; 1#2] /\
  obs_rt kgen 0 dup_prog 0 dup_sched = obs_nrt kgen dup_prog 10.
Proof. vm_compute. repeat split; reflexivity. Qed.

(* ---- the beats setter inside the routine's own wake-up ------------------------------------------------------- *)
(* routine 1 on TempoClock(4) rewinds the clock to beat 0 at beat 1/2 and goes on yielding 1/4: its next wake-up is at the
   beat it was awaken at + 1/4 = 3/4 of the rewound clock (5/16 s) in both modes; routine 2 of the same clock is pending meanwhile *)
Definition setb_prog : xprog :=
  mkXP [4] [[XPlay 1 (CTempo 0); XPlay 2 (CTempo 0)];
            [XYield (1#4); XYield (1#4); XSetBeats 0 0; XYield (1#4); XSend (Some 0) [EMsg 1]; XYield (1#2); XSend (Some 0) [EMsg 2]];
            [XYield (3#4); XSend (Some 0) [EMsg 3]; XYield (1#4); XSend (Some 0) [EMsg 4]]] 0 0 1 0.
Definition setb_sched : list (nat * Q) := [wk 0 2; wk 1 2; wk 2 2; wk 1 3; wk 1 3; wk 2 3; wk 1 4; wk 2 4; wk 1 5].

(* ---- a task before the start of the score ------------------------------------------------------------------------ *)
(* the root jumps TempoClock(1) forward to beat 10 at 1/8 s while routine 1 is pending at beat 1/4: its task is now due at
   1/8 + (1/4 - 10) = -77/8 s, BEFORE the start.  The real-time clock performs it at once and the bundle goes out (the
   offset of the timetags makes the tag positive); the non-real-time score cannot hold a negative timetag: the send raises
   (OscBundleBuildError) and the routine ends there.  The wake-ups are performed in the scheduler's order in both modes. *)
Definition neg_prog : xprog :=
  mkXP [1] [[XPlay 1 (CTempo 0); XYield (1#8); XSetBeats 0 10; XYield (1#8)];
            [XYield (1#4); XSend None [EMsg 1]; XYield (1#4)]] 0 0 1 0.
Definition neg_sched : list (nat * Q) := [wk 0 0; wk 1 0; wk 0 (1#8); wk 1 (1#8); wk 0 (1#4)].
Lemma before_start_refuted :
  let s := xrt_run kgen 100 neg_prog 0 neg_sched in
  xs_bad s = false /\ xs_early s = false /\
  map fst neg_sched = xnrt_order kgen neg_prog (length neg_sched) (xnrt_init neg_prog) /\
  snd (xnrt_follow kgen neg_prog (map fst neg_sched)) = false /\
  ob_resumes (obs_rt kgen 100 neg_prog 0 neg_sched) = ob_resumes (obs_nrt kgen neg_prog 5) /\
  In (rs 1 1 (-77#8)) (ob_resumes (obs_nrt kgen neg_prog 5)) /\
  ob_bundles (obs_rt kgen 100 neg_prog 0 neg_sched) = [(-77#8, (None, [EMsg 1]))] /\
  ob_bundles (obs_nrt kgen neg_prog 5) = [] /\
  ob_ends (obs_rt kgen 100 neg_prog 0 neg_sched) = [(0%nat, 2%nat, false)] /\
  ob_ends (obs_nrt kgen neg_prog 5) = [(1%nat, 1%nat, true); (0%nat, 2%nat, false)].
Proof. vm_compute. repeat split; try reflexivity. right; right; right; left; reflexivity. Qed.

(* ---- two accepted, complete real-time executions of one seeded program with different values ----------------------- *)
Definition cross_sched_ordered : list (nat * Q) := [wk 0 0; wk 1 0; wk 2 0; wk 1 (1#8); wk 2 (1#8); wk 0 (1#4)].
Lemma rt_order_dependent :
  let s1 := xrt_run kgen 0 cross_prog 0 cross_sched in
  let s2 := xrt_run kgen 0 cross_prog 0 cross_sched_ordered in
  xs_bad s1 = false /\ xs_bad s2 = false /\ xs_early s1 = false /\ xs_early s2 = false /\
  n_q (x_n (xs s1)) = [] /\ n_q (x_n (xs s2)) = [] /\
  ob_vals (obs_rt kgen 0 cross_prog 0 cross_sched) = [VDraw 2 1 1 0 5000; VDraw 1 1 1 0 5001] /\
  ob_vals (obs_rt kgen 0 cross_prog 0 cross_sched_ordered) = [VDraw 1 1 1 0 5000; VDraw 2 1 1 0 5001].
Proof. vm_compute. repeat split; reflexivity. Qed.

(* ---- a routine that yields inf (or a value that is not a number) is never re-scheduled, in both modes ------------------ *)
(* the child sends at 1/8, yields inf: never resumed again, never ended, its second bundle is never sent; the root goes on *)
Definition hang_prog : xprog :=
  mkXP [] [[XPlay 1 CSystem; XYield (1#4); XSend (Some 0) [EMsg 9]; XYield (1#4)];
           [XYield (1#8); XSend (Some 0) [EMsg 1]; XHang; XSend (Some 0) [EMsg 2]; XYield (1#8)]] 0 0 1 0.
Definition hang_sched : list (nat * Q) := [wk 0 4; wk 1 4; wk 1 5; wk 0 5; wk 0 6].
Lemma hang_example :
  let s := xrt_run kgen 11 hang_prog 4 hang_sched in
  xs_bad s = false /\ n_q (x_n (xs s)) = [] /\ xnrt_completed kgen true hang_prog 5 = true /\
  ob_resumes (obs_nrt kgen hang_prog 5) = [rs 0 0 0; rs 1 0 0; rs 1 1 (1#8); rs 0 1 (1#4); rs 0 2 (1#2)] /\
  map (fun x => snd (snd x)) (ob_bundles (obs_nrt kgen hang_prog 5)) = [[EMsg 1]; [EMsg 9]] /\
  ob_ends (obs_nrt kgen hang_prog 5) = [(0%nat, 2%nat, false)].
Proof. vm_compute. repeat split; reflexivity. Qed.
Lemma hang_prog_ok : sys_only hang_prog.
Proof. split; [reflexivity|]. repeat constructor; simpl; try lra; try discriminate. Qed.
