(* C06 -- the hand-written strpad4 of model/OscSize.v is the regenerated
   NetAddr._strpad4 (gen/Gen_size.v) on Python ints. *)
From Coq Require Import ZArith QArith List Bool.
Require Import SC3.lib.PyNum SC3.gen.Gen_size SC3.model.Osc SC3.model.OscSize.
Open Scope Z_scope.

Lemma strpad4_is_generated : forall n : Z, py__strpad4 (I n) = I (strpad4 n).
Proof. intros n. reflexivity. Qed.
