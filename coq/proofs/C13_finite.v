(* C13 -- finite patterns always get a complete denotation (termination), part 2:
   induction over the finite patterns; the full-strength run = den theorem. *)
From Coq Require Import ZArith QArith List Bool Lia PeanoNat.
Require Import SC3.lib.PyNum SC3.gen.Gen_builtins SC3.model.Pattern.
Require Import SC3.proofs.C13_sound SC3.proofs.C13_meaning SC3.proofs.C13_complete.
Import ListNotations.

Fixpoint height (p : pat) : nat :=
  match p with
  | PVal _ => 0
  | Pseq l _ _ | Pser l _ _ | Ptuple l _ => S (list_max (map height l))
  | Pn q _ | Plen q _ | Pdrop q _ | Pdiff q | Pconst q _ _ | Pfun _ _ q | Punop _ q
  | Pseries _ q _ | Pgeom _ q _ => S (height q)
  | Place l _ _ => S (list_max (map (fun s => list_max (map height s)) l))
  | Pstutter a b | Pclump a b | Pflatten a b | Pbinop _ a b => S (Nat.max (height a) (height b))
  | Pwrap a b c | Pnarop _ a b c | Pif a b c => S (Nat.max (height a) (Nat.max (height b) (height c)))
  | Pswitch l w | Pswitch1 l w | PseedRand w l _ | PseedXrand w l _ | PseedWrand w l _ _ => S (Nat.max (height w) (list_max (map height l)))
  | Pslide l a b _ _ _ => S (Nat.max (list_max (map height l)) (Nat.max (height a) (height b)))
  | PseedWhite a b c _ => S (Nat.max (height a) (Nat.max (height b) (height c)))
  end.
Lemma list_max_in {A} (f : A -> nat) l x : In x l -> (f x <= list_max (map f l))%nat.
Proof.
  induction l as [|y l IH]; intros H. destruct H.
  change (list_max (map f (y :: l))) with (Nat.max (f y) (list_max (map f l))).
  destruct H as [E|H]. subst. lia. specialize (IH H). lia.
Qed.

Section Finite.
Variable rnd : Z -> hist -> Z -> Z -> Z.
Local Notation den := (den rnd).
Local Notation prod := (prod rnd).

Lemma den_mode_nv k p : nvb p = true -> den k Emb p = den k Str p.
Proof. destruct k; [reflexivity|]. destruct p; try reflexivity. discriminate. Qed.

Definition CP (p : pat) : Prop :=
  exists K, forall k, (K <= k)%nat -> complete (den k Emb p) /\ (nvb p = true -> complete (den k Str p)).
Definition good (x : pat) (K L : nat) : Prop := forall k, (K <= k)%nat ->
  av (fst (den k Str x)) (snd (den k Str x)) (k - 1) /\
  (nvb x = true -> snd (den k Str x) <> EMore /\ (length (fst (den k Str x)) <= L)%nat /\ den k Str x = den K Str x).

Lemma CP_nv p K : nvb p = true -> (forall k, (K <= k)%nat -> complete (den k Str p)) -> CP p.
Proof. intros Hn H. exists K. intros k Hk. rewrite den_mode_nv by exact Hn. split; [|intros _]; apply H; exact Hk. Qed.
Lemma CP_val v : CP (PVal v).
Proof. exists 1%nat. intros k Hk. destruct k; [lia|]. split. discriminate. intros; discriminate. Qed.

Lemma good_of_CP x : CP x -> exists K L, good x K L.
Proof.
  intros [K H]. destruct (nvb x) eqn:E.
  - exists K, (length (fst (den K Str x))). intros k Hk.
    destruct (H k Hk) as [_ Hc]. specialize (Hc eq_refl).
    destruct (H K (le_n K)) as [_ HcK]. specialize (HcK eq_refl).
    assert (EQ : den k Str x = den K Str x).
    { apply (prod_complete_unique rnd (init Str x)); try assumption; apply den_sound. }
    split. left. exact Hc. intros _. rewrite EQ. repeat split. exact HcK. lia.
  - destruct x; try discriminate. exists 1%nat, 0%nat. intros k Hk. destruct k; [lia|]. cbn. split.
    right. rewrite repeat_length. lia. intros; discriminate.
Qed.
Lemma good_mono x K L K' L' : good x K L -> (K <= K')%nat -> (L <= L')%nat -> good x K' L'.
Proof.
  intros H HK HL k Hk. destruct (H k ltac:(lia)) as [A B]. split. exact A.
  intros Hn. destruct (B Hn) as (B1 & B2 & B3). destruct (H K' HK) as [_ B']. destruct (B' Hn) as (_ & _ & B4).
  repeat split. exact B1. lia. congruence.
Qed.
Lemma good_use x K L : good x K L -> forall k N, (K <= k)%nat -> (N <= k - 1)%nat ->
  av (fst (den k Str x)) (snd (den k Str x)) N /\
  (nvb x = true -> (L < N)%nat -> sh (fst (den k Str x)) (snd (den k Str x)) N) /\
  (nvb x = true -> snd (den k Str x) <> EMore).
Proof.
  intros H k N Hk HN. destruct (H k Hk) as [A B]. split. eapply av_le; eauto. split.
  - intros Hn HL. destruct (B Hn) as (B1 & B2 & _). split. exact B1. lia.
  - intros Hn. apply (B Hn).
Qed.

Lemma items_K l : (forall q, In q l -> CP q) ->
  exists K, forall k, (K <= k)%nat -> forall q, In q l -> complete (den k Emb q).
Proof.
  induction l as [|x l IH]; intros H.
  - exists 0%nat. intros k _ q [].
  - destruct IH as [K1 H1]. intros q Hq. apply H. right. exact Hq.
    destruct (H x (or_introl eq_refl)) as [K2 H2]. exists (K1 + K2)%nat. intros k Hk q [E|Hq].
    + subst. apply H2. lia.
    + apply H1. lia. exact Hq.
Qed.
Lemma goods_KL l : (forall q, In q l -> CP q) -> exists K L, forall q, In q l -> good q K L.
Proof.
  induction l as [|x l IH]; intros H.
  - exists 0%nat, 0%nat. intros q [].
  - destruct IH as (K1 & L1 & H1). intros q Hq. apply H. right. exact Hq.
    destruct (good_of_CP x (H x (or_introl eq_refl))) as (K2 & L2 & H2).
    exists (K1 + K2)%nat, (L1 + L2)%nat. intros q [E|Hq].
    + subst. eapply good_mono; eauto; lia.
    + eapply good_mono. apply H1. exact Hq. lia. lia.
Qed.

(* the four embedding list patterns *)
Lemma emb_case p items (n : nat) :
  (forall k m, den (S k) m p = temb (item_at p) (den k Emb) k 0) ->
  (forall i q, item_at p i = IItem q -> In q items) -> (forall i, item_at p i <> ISpin) ->
  item_at p n = IDone \/ item_at p n = IErr -> nvb p = true ->
  (forall q, In q items -> CP q) -> CP p.
Proof.
  intros Hden Hit Hsp Hn Hnv Hcp. destruct (items_K items Hcp) as [K HK].
  apply (CP_nv p (S (S (K + n)))). exact Hnv. intros k Hk. destruct k as [|k]; [lia|]. rewrite Hden.
  apply (temb_complete _ _) with (n := n); try assumption.
  - intros i q Hi. apply HK. lia. eapply Hit; eauto.
  - lia.
Qed.

Ltac bsplit := repeat match goal with
  | H : _ && _ = true |- _ => apply andb_true_iff in H; destruct H end.
Ltac orbs := repeat match goal with H : _ || _ = true |- _ => apply orb_true_iff in H; destruct H end.
Ltac kcase K := match goal with |- CP ?p => apply (CP_nv p K); [reflexivity|];
  let k := fresh "k" in let Hk := fresh "Hk" in intros k Hk; destruct k as [|k]; [lia|]; cbn [Pattern.den] end.
Ltac getgood IH x K L Hg := destruct (good_of_CP x) as (K & L & Hg); [apply IH; [cbn [height] in *; lia|assumption]|].
Ltac useg Hg k N A S C := destruct (good_use _ _ _ Hg k N) as (A & S & C); [lia|lia|].

Theorem fin_CP : forall h p, (height p <= h)%nat -> finp p = true -> CP p.
Proof.
  induction h as [|h IH]; intros p Hh Hf.
  - destruct p; cbn in Hh; try lia. apply CP_val.
  - destruct p; cbn [finp] in Hf; bsplit.
    + apply CP_val.
    + (* Pseq *) destruct r as [n|]; [|discriminate].
      apply (emb_case _ l (Z.to_nat n * length l)); try reflexivity.
      * intros i q. cbn [item_at]. destruct (length l); [discriminate|].
        destruct (in_reps _ _); [|discriminate]. destruct (wrap_at l _) eqn:E; [|discriminate].
        intros Hq; inversion Hq; subst. eapply wrap_at_in; eauto.
      * intros i. cbn [item_at]. destruct (length l); [discriminate|].
        destruct (in_reps _ _); [|discriminate]. destruct (wrap_at l _); discriminate.
      * left. cbn [item_at]. destruct (length l) as [|n'] eqn:En; [reflexivity|].
        rewrite Nat.div_mul by lia. cbn [in_reps].
        replace (Z.of_nat (Z.to_nat n) <? n)%Z with false by (symmetry; apply Z.ltb_ge; lia). reflexivity.
      * intros q Hq. apply IH. cbn [height] in Hh. pose proof (list_max_in height l q Hq). lia.
        eapply forallb_forall; eauto.
    + (* Pser *) destruct r as [n|]; [|discriminate].
      apply (emb_case _ l (Z.to_nat n)); try reflexivity.
      * intros i q. cbn [item_at]. destruct (in_reps _ _); [|discriminate].
        destruct (wrap_at l _) eqn:E; [|discriminate]. intros Hq; inversion Hq; subst. eapply wrap_at_in; eauto.
      * intros i. cbn [item_at]. destruct (in_reps _ _); [|discriminate]. destruct (wrap_at l _); discriminate.
      * left. cbn [item_at in_reps].
        replace (Z.of_nat (Z.to_nat n) <? n)%Z with false by (symmetry; apply Z.ltb_ge; lia). reflexivity.
      * intros q Hq. apply IH. cbn [height] in Hh. pose proof (list_max_in height l q Hq). lia.
        eapply forallb_forall; eauto.
    + (* Pn *) destruct r as [n|]; [|discriminate].
      apply (emb_case _ [p] (Z.to_nat n)); try reflexivity.
      * intros i q. cbn [item_at]. destruct (in_reps _ _); [|discriminate]. intros Hq; inversion Hq; subst. left; reflexivity.
      * intros i. cbn [item_at]. destruct (in_reps _ _); discriminate.
      * left. cbn [item_at in_reps].
        replace (Z.of_nat (Z.to_nat n) <? n)%Z with false by (symmetry; apply Z.ltb_ge; lia). reflexivity.
      * intros q [E|[]]. subst. apply IH. cbn [height] in Hh. lia. assumption.
    + (* Place *) destruct r as [n|]; [|discriminate].
      apply (emb_case _ (concat l) (Z.to_nat n * length l)); try reflexivity.
      * intros i q. cbn [item_at]. destruct (length l); [discriminate|].
        destruct (in_reps _ _); [|discriminate]. destruct (wrap_at l _) as [sub|] eqn:E; [|discriminate].
        destruct (wrap_at sub _) eqn:E2; [|discriminate]. intros Hq; inversion Hq; subst.
        apply in_concat. exists sub. split; eapply wrap_at_in; eauto.
      * intros i. cbn [item_at]. destruct (length l); [discriminate|].
        destruct (in_reps _ _); [|discriminate]. destruct (wrap_at l _) as [sub|]; [|discriminate].
        destruct (wrap_at sub _); discriminate.
      * left. cbn [item_at]. destruct (length l) as [|n'] eqn:En; [reflexivity|].
        rewrite Nat.div_mul by lia. cbn [in_reps].
        replace (Z.of_nat (Z.to_nat n) <? n)%Z with false by (symmetry; apply Z.ltb_ge; lia). reflexivity.
      * intros q Hq. apply in_concat in Hq. destruct Hq as (sub & Hs & Hq). apply IH.
        -- cbn [height] in Hh. pose proof (list_max_in (fun s => list_max (map height s)) l sub Hs).
           pose proof (list_max_in height sub q Hq). cbn beta in *. lia.
        -- rewrite forallb_forall in H0. specialize (H0 sub Hs). rewrite forallb_forall in H0. apply H0. exact Hq.
    + (* Plen *) getgood IH p K L Hg. kcase (S (S (K + Z.to_nat n))).
      useg Hg k (Z.to_nat n) A Sh C. apply tlen_complete. exact A.
    + (* Pdrop *) getgood IH p K L Hg. kcase (S (S K)). useg Hg k 0%nat A Sh C.
      apply tdrop_complete. apply C. assumption.
    + (* Pstutter *) getgood IH p1 K1 L1 Hg1. getgood IH p2 K2 L2 Hg2.
      kcase (S (S (K1 + K2 + L1 + L2 + 2))). useg Hg1 k (k - 1)%nat A1 S1 C1. useg Hg2 k (k - 1)%nat A2 S2 C2.
      apply (tstut_complete (k - 1)); try assumption.
      orbs; [left; apply S1|right; apply S2]; try assumption; lia.
    + (* Pclump *) getgood IH p1 K1 L1 Hg1. getgood IH p2 K2 L2 Hg2.
      destruct (nvb p2) eqn:En.
      * pose (Cn := clump_need (fst (den K2 Str p2))).
        kcase (S (S (K1 + K2 + Cn + 2))). useg Hg1 k (S Cn) A1 S1 C1.
        destruct (Hg2 k ltac:(lia)) as [_ B]. destruct (B En) as (B1 & _ & B3).
        apply tclump_complete_counts. exact B1. rewrite B3. exact A1.
      * destruct p2; try discriminate.
        assert (Hn1 : nvb p1 = true)
          by (match goal with H : nvb p1 || _ = true |- _ => rewrite orb_false_r in H; exact H end).
        assert (Hpc : forall z, as_int v = Some z -> (0 < z)%Z).
        { intros z Hz. match goal with H : pos_count _ = true |- _ =>
            cbn [pos_count] in H; rewrite Hz in H; apply Z.ltb_lt; exact H end. }
        kcase (S (S (S (K1 + L1 + 2)))). destruct k as [|k]; [lia|].
        destruct (Hg1 (S k) ltac:(lia)) as [_ B]. destruct (B Hn1) as (B1 & B2 & _).
        change (Pattern.den rnd (S k) Str (PVal v)) with (repeat v k, EMore). cbn [fst snd].
        apply tclump_complete_const. exact Hpc. exact B1. lia.
    + (* Pflatten *) getgood IH p1 K1 L1 Hg1. getgood IH p2 K2 L2 Hg2.
      kcase (S (S (K1 + K2 + L1 + L2 + 2))). useg Hg1 k (k - 1)%nat A1 S1 C1. useg Hg2 k (k - 1)%nat A2 S2 C2.
      apply (tflat_complete (k - 1)); try assumption.
      orbs; [left; apply S1|right; apply S2]; try assumption; lia.
    + (* Pdiff *) getgood IH p K L Hg. kcase (S (S K)). useg Hg k 0%nat A Sh C. apply tdiff_complete. apply C. assumption.
    + (* Pconst *) getgood IH p K L Hg. kcase (S (S K)). useg Hg k 0%nat A Sh C. apply tconst_complete. apply C. assumption.
    + (* Pfun *) getgood IH p K L Hg. kcase (S (S K)). useg Hg k0 0%nat A Sh C. apply tfun_complete. apply C. assumption.
    + (* Pwrap *) getgood IH p1 K1 L1 Hg1. getgood IH p2 K2 L2 Hg2. getgood IH p3 K3 L3 Hg3.
      kcase (S (S (K1 + K2 + K3 + L1 + L2 + L3 + 2))).
      useg Hg1 k (k - 1)%nat A1 S1 C1. useg Hg2 k (k - 1)%nat A2 S2 C2. useg Hg3 k (k - 1)%nat A3 S3 C3.
      apply (twrap_complete (k - 1)); try assumption.
      orbs; [left; apply S1|right; left; apply S2|right; right; apply S3]; try assumption; lia.
    + (* Punop *) getgood IH p K L Hg. kcase (S (S K)). useg Hg k 0%nat A Sh C. apply tun_complete. apply C. assumption.
    + (* Pbinop *) getgood IH p1 K1 L1 Hg1. getgood IH p2 K2 L2 Hg2.
      kcase (S (S (K1 + K2 + L1 + L2 + 2))). useg Hg1 k (k - 1)%nat A1 S1 C1. useg Hg2 k (k - 1)%nat A2 S2 C2.
      apply (tbin_complete o (k - 1)); try assumption.
      orbs; [left; apply S1|right; apply S2]; try assumption; lia.
    + (* Pnarop *) getgood IH p1 K1 L1 Hg1. getgood IH p2 K2 L2 Hg2. getgood IH p3 K3 L3 Hg3.
      kcase (S (S (K1 + K2 + K3 + L1 + L2 + L3 + 2))).
      useg Hg1 k (k - 1)%nat A1 S1 C1. useg Hg2 k (k - 1)%nat A2 S2 C2. useg Hg3 k (k - 1)%nat A3 S3 C3.
      apply (tnar_complete o (k - 1)); try assumption.
      orbs; [left; apply S1|right; left; apply S2|right; right; apply S3]; try assumption; lia.
    + (* Pif *) getgood IH p1 K1 L1 Hg1. getgood IH p2 K2 L2 Hg2. getgood IH p3 K3 L3 Hg3.
      kcase (S (S (K1 + K2 + K3 + L1 + 2))).
      useg Hg1 k (k - 1)%nat A1 S1 C1. useg Hg2 k (k - 1)%nat A2 S2 C2. useg Hg3 k (k - 1)%nat A3 S3 C3.
      apply (tif_complete (k - 1)); try assumption. apply S1. assumption. lia.
    + (* Pseries *) getgood IH p K L Hg.
      kcase (S (S (K + L + (match len with Fin n => Z.to_nat n | Inf => 0 end) + 2))).
      useg Hg k (k - 1)%nat A Sh C. apply (tseries_complete false (k - 1)). exact A.
      orbs.
      * destruct len as [n|]; [|discriminate]. right. exists (Z.to_nat n). split. reflexivity. lia.
      * left. apply Sh. assumption. lia.
    + (* Pgeom *) getgood IH p K L Hg.
      kcase (S (S (K + L + (match len with Fin n => Z.to_nat n | Inf => 0 end) + 2))).
      useg Hg k (k - 1)%nat A Sh C. apply (tseries_complete true (k - 1)). exact A.
      orbs.
      * destruct len as [n|]; [|discriminate]. right. exists (Z.to_nat n). split. reflexivity. lia.
      * left. apply Sh. assumption. lia.
    + (* Pswitch *) getgood IH p K L Hg.
      destruct (items_K l) as [Ki Hi].
      { intros q Hq. apply IH. cbn [height] in Hh. pose proof (list_max_in height l q Hq). lia. eapply forallb_forall; eauto. }
      kcase (S (S (K + Ki))). useg Hg k 0%nat A Sh C. apply tswitch_complete.
      intros q Hq. apply Hi. lia. exact Hq. apply C. assumption.
    + (* Pswitch1 *) getgood IH p K L Hg.
      destruct (goods_KL l) as (Ki & Li & Hi).
      { intros q Hq. apply IH. cbn [height] in Hh. pose proof (list_max_in height l q Hq). lia. eapply forallb_forall; eauto. }
      kcase (S (S (K + Ki + L + 2))). destruct (Hg k ltac:(lia)) as [_ B]. destruct B as (B1 & B2 & _); [assumption|].
      apply tsw1_complete. exact B1. apply Forall_forall. intros t Ht. apply in_map_iff in Ht.
      destruct Ht as (q & Eq & Hq). subst t. unfold avt.
      destruct (good_use _ _ _ (Hi q Hq) k (length (fst (den k Str p)))) as (A & _ & _); [lia|lia|exact A].
    + (* Ptuple *) destruct r as [n|]; [|discriminate].
      destruct (goods_KL l) as (Ki & Li & Hi).
      { intros q Hq. apply IH. cbn [height] in Hh. pose proof (list_max_in height l q Hq). lia. eapply forallb_forall; eauto. }
      kcase (S (S (Ki + Li + Z.to_nat n + 2))). destruct l as [|q0 l']. discriminate.
      apply trep_complete; [|lia]. apply (trows_complete (k - 1)). lia.
      * apply Forall_forall. intros t Ht. apply in_map_iff in Ht. destruct Ht as (q & Eq & Hq). subst t. unfold avt.
        destruct (good_use _ _ _ (Hi q Hq) k (k - 1)%nat) as (A & _ & _); [lia|lia|exact A].
      * match goal with H : existsb nvb _ = true |- _ => apply existsb_exists in H; destruct H as (q & Hq & Hn) end. apply Exists_exists.
        exists (den k Str q). split. apply in_map. exact Hq.
        destruct (good_use _ _ _ (Hi q Hq) k (k - 1)%nat) as (_ & S & _); [lia|lia|]. apply S. exact Hn. lia.
    + (* Pslide *) getgood IH p1 K1 L1 Hg1. getgood IH p2 K2 L2 Hg2.
      destruct (items_K l) as [Ki Hi].
      { intros q Hq. apply IH. cbn [height] in Hh. pose proof (list_max_in height l q Hq). lia. eapply forallb_forall; eauto. }
      kcase (S (S (K1 + K2 + Ki + L1 + L2 + (match r with Fin n => Z.to_nat n | Inf => 0 end) + 2))).
      destruct l as [|q0 l']. apply complete_err.
      useg Hg1 k (k - 1)%nat A1 S1 C1. useg Hg2 k (k - 1)%nat A2 S2 C2.
      apply (tslide_complete _ _ _) with (N := (k - 1)%nat); try assumption.
      * intros q Hq. apply Hi. lia. exact Hq.
      * orbs.
        -- destruct r as [n|]; [|discriminate]. right; right. exists (Z.to_nat n). split. reflexivity. lia.
        -- left. apply S1. assumption. lia.
        -- right; left. apply S2. assumption. lia.
    + (* PseedRand *) destruct r as [n|]; [|discriminate]. getgood IH p K L Hg.
      destruct (items_K l) as [Ki Hi].
      { intros q Hq. apply IH. cbn [height] in Hh. pose proof (list_max_in height l q Hq). lia. eapply forallb_forall; eauto. }
      kcase (S (S (K + Ki + Z.to_nat n + 2))). useg Hg k 0%nat A Sh C. apply tseed_complete; [|apply C; assumption].
      intros z K0 HK0. destruct l as [|q0 l']. apply complete_err.
      apply trand_complete; try assumption. intros q Hq. apply Hi. lia. exact Hq. lia.
    + (* PseedXrand *) destruct r as [n|]; [|discriminate]. getgood IH p K L Hg.
      destruct (items_K l) as [Ki Hi].
      { intros q Hq. apply IH. cbn [height] in Hh. pose proof (list_max_in height l q Hq). lia. eapply forallb_forall; eauto. }
      kcase (S (S (K + Ki + Z.to_nat n + 2))). useg Hg k 0%nat A Sh C. apply tseed_complete; [|apply C; assumption].
      intros z K0 HK0. destruct l as [|q0 l']. apply complete_err.
      apply txrand_complete; try assumption. intros q Hq. apply Hi. lia. exact Hq. lia.
    + (* PseedWhite *) getgood IH p1 K1 L1 Hg1. getgood IH p2 K2 L2 Hg2. getgood IH p3 K3 L3 Hg3.
      kcase (S (S (K1 + K2 + K3 + L2 + L3 + (match len with Fin n => Z.to_nat n | Inf => 0 end) + 2))).
      useg Hg1 k 0%nat A1 S1 C1. useg Hg2 k (k - 1)%nat A2 S2 C2. useg Hg3 k (k - 1)%nat A3 S3 C3.
      apply tseed_complete; [|apply C1; assumption].
      intros z K0 HK0. apply (twhite_complete rnd z K0 HK0 (k - 1)); try assumption.
      orbs.
      * destruct len as [n|]; [|discriminate]. right; right. exists (Z.to_nat n). split. reflexivity. lia.
      * left. apply S2. assumption. lia.
      * right; left. apply S3. assumption. lia.
    + (* PseedWrand *) destruct r as [n|]; [|discriminate]. getgood IH p K L Hg.
      destruct (items_K l) as [Ki Hi].
      { intros q Hq. apply IH. cbn [height] in Hh. pose proof (list_max_in height l q Hq). lia. eapply forallb_forall; eauto. }
      kcase (S (S (K + Ki + Z.to_nat n + 2))). useg Hg k 0%nat A Sh C. apply tseed_complete; [|apply C; assumption].
      intros z K0 HK0. destruct l as [|q0 l']. apply complete_err.
      apply trand_complete; try assumption. intros q Hq. apply Hi. lia. exact Hq. lia.
Qed.

Theorem finite_complete : forall p, finp p = true -> nvb p = true ->
  exists K, forall k, (K <= k)%nat -> snd (den k Str p) <> EMore.
Proof.
  intros p Hf Hn. destruct (fin_CP (height p) p (le_n _) Hf) as [K H]. exists K. intros k Hk.
  apply (H k Hk). exact Hn.
Qed.
Theorem finite_complete_embedded : forall p, finp p = true ->
  exists K, forall k, (K <= k)%nat -> snd (den k Emb p) <> EMore.
Proof.
  intros p Hf. destruct (fin_CP (height p) p (le_n _) Hf) as [K H]. exists K. intros k Hk. apply (H k Hk).
Qed.

Definition rend_of (e : tend) : rend := match e with EStop => RStop | EErr => RErr | EMore => RMore end.
Theorem run_eq_den_finite : forall p, finp p = true -> nvb p = true ->
  exists K l e, e <> EMore /\ (forall k, (K <= k)%nat -> den k Str p = (l, e)) /\
  exists f, forall fuel n, (f <= fuel)%nat -> (length l < n)%nat -> run_pat rnd fuel n p = (l, rend_of e).
Proof.
  intros p Hf Hn. destruct (finite_complete p Hf Hn) as [K H].
  destruct (den K Str p) as [l e] eqn:E. exists K, l, e.
  assert (He : e <> EMore) by (specialize (H K (le_n K)); rewrite E in H; exact H).
  split. exact He. split.
  - intros k Hk. rewrite <- E. apply (prod_complete_unique rnd (init Str p)); try apply den_sound.
    rewrite E. exact He. apply H. exact Hk.
  - pose proof (den_sound rnd K Str p) as P. rewrite E in P.
    destruct (run_of_prod rnd _ _ P) as [f Hr]. exists f. intros fuel n H1 H2. specialize (Hr fuel n H1 H2).
    cbn [fst snd] in Hr. destruct e; try congruence; exact Hr.
Qed.
End Finite.
