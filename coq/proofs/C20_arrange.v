(* C20: UGen._arrange does not depend on the order in which Python enumerates the
   descendant set: sorting by the (pairwise distinct) creation indices fixes the order. *)
From Coq Require Import ZArith List Permutation Sorting.Sorted Lia.
Import ListNotations.
Require Import SC3.model.Graph.

Section Sort.
Context {A : Type} (key : A -> Z).
Definition lek (a b : A) : Prop := (key a <= key b)%Z.

Lemma insert_by_perm : forall x l, Permutation (insert_by key x l) (x :: l).
Proof.
  intros x l; induction l as [|y t IH]; simpl; auto.
  destruct (key x <=? key y)%Z; auto.
  eapply perm_trans; [apply perm_skip; exact IH | apply perm_swap].
Qed.

Lemma sort_by_perm : forall l, Permutation (sort_by key l) l.
Proof.
  induction l as [|x t IH]; simpl; auto.
  eapply perm_trans; [apply insert_by_perm | apply perm_skip; exact IH].
Qed.

Lemma insert_by_sorted : forall x l, StronglySorted lek l -> StronglySorted lek (insert_by key x l).
Proof.
  intros x l H; induction H as [|y t Hs IH Hall]; simpl.
  - constructor; constructor.
  - destruct (key x <=? key y)%Z eqn:E.
    + apply Z.leb_le in E. constructor.
      * constructor; auto.
      * constructor; [exact E|]. eapply Forall_impl; [|exact Hall]. unfold lek; intros; lia.
    + apply Z.leb_gt in E. constructor; auto.
      eapply Permutation_Forall.
      * symmetry; apply insert_by_perm.
      * constructor; [unfold lek; lia | exact Hall].
Qed.

Lemma sort_by_sorted : forall l, StronglySorted lek (sort_by key l).
Proof.
  induction l as [|x t IH]; simpl; [constructor | apply insert_by_sorted; exact IH].
Qed.

Lemma NoDup_map_inj_in : forall (l : list A) a b,
  NoDup (map key l) -> In a l -> In b l -> key a = key b -> a = b.
Proof.
  induction l as [|x t IH]; intros a b Hnd Ha Hb Hk; [contradiction|].
  simpl in Hnd; inversion Hnd as [|k ks Hnotin Hnd']; subst.
  destruct Ha as [Ha | Ha], Hb as [Hb | Hb]; subst; auto.
  - exfalso; apply Hnotin; rewrite Hk; apply in_map; exact Hb.
  - exfalso; apply Hnotin; rewrite <- Hk; apply in_map; exact Ha.
Qed.

Lemma sorted_perm_unique : forall l1 l2,
  StronglySorted lek l1 -> StronglySorted lek l2 -> Permutation l1 l2 -> NoDup (map key l1) -> l1 = l2.
Proof.
  induction l1 as [|a t1 IH]; intros l2 H1 H2 Hp Hnd.
  - apply Permutation_nil in Hp; subst; reflexivity.
  - destruct l2 as [|b t2]; [symmetry in Hp; apply Permutation_nil in Hp; discriminate|].
    inversion H1 as [|? ? Hs1 Hall1]; subst. inversion H2 as [|? ? Hs2 Hall2]; subst.
    assert (Hab : a = b).
    { assert (Hin_b : In b (a :: t1)) by (eapply Permutation_in; [symmetry; exact Hp | left; reflexivity]).
      assert (Hin_a : In a (b :: t2)) by (eapply Permutation_in; [exact Hp | left; reflexivity]).
      apply (NoDup_map_inj_in (a :: t1)); auto; [left; reflexivity|].
      assert (L1 : (key a <= key b)%Z).
      { destruct Hin_b as [E | E]; [subst; lia|]. rewrite Forall_forall in Hall1; apply Hall1; exact E. }
      assert (L2 : (key b <= key a)%Z).
      { destruct Hin_a as [E | E]; [subst; lia|]. rewrite Forall_forall in Hall2; apply Hall2; exact E. }
      lia. }
    subst b. f_equal. apply IH; auto.
    + eapply Permutation_cons_inv; exact Hp.
    + simpl in Hnd; inversion Hnd; auto.
Qed.

Lemma sort_by_perm_indep : forall l l', Permutation l l' -> NoDup (map key l) -> sort_by key l = sort_by key l'.
Proof.
  intros l l' Hp Hnd. apply sorted_perm_unique.
  - apply sort_by_sorted.
  - apply sort_by_sorted.
  - eapply perm_trans; [apply sort_by_perm|]. eapply perm_trans; [exact Hp|]. symmetry; apply sort_by_perm.
  - eapply Permutation_NoDup; [|exact Hnd]. apply Permutation_map. symmetry; apply sort_by_perm.
Qed.
End Sort.

Lemma arrange_indep : forall (key : nat -> Z) ds ds',
  Permutation ds ds' -> NoDup (map key ds) -> arrange_targets key ds = arrange_targets key ds'.
Proof.
  intros key ds ds' Hp Hnd. unfold arrange_targets. f_equal. apply sort_by_perm_indep; assumption.
Qed.

(* the released units are exactly the enumerated ones (nothing is lost or duplicated) *)
Lemma arrange_perm : forall (key : nat -> Z) ds, Permutation (arrange_targets key ds) ds.
Proof.
  intros key ds. unfold arrange_targets.
  eapply perm_trans; [symmetry; apply Permutation_rev | apply sort_by_perm].
Qed.
