(* C16 -- the allocators a Server builds from its options: invariant over server-level histories,
   allocations stay in the client's partition of the right index space, clients are disjoint. *)
From Coq Require Import ZArith List Bool Lia.
Import ListNotations.
Require Import SC3.model.Alloc SC3.model.NodeId SC3.model.ServerAlloc.
Require Import SC3.proofs.C16_base SC3.proofs.C16_inv SC3.proofs.C16_alloc SC3.proofs.C16_free SC3.proofs.C16_main
               SC3.proofs.C16_thms SC3.proofs.C16_nodeid.
Open Scope Z_scope.

Definition per_client (o : opts) (k : kind) : Z :=
  match k with
  | KAudio => (audio_buses o - first_private_bus o) / max_logins o
  | KControl => control_buses o / max_logins o
  | KBuffer => buffers o / max_logins o
  end.
Definition reserved_of (o : opts) (k : kind) : Z :=
  match k with KAudio => reserved_audio_buses o | KControl => reserved_control_buses o | KBuffer => reserved_buffers o end.

(* options under which the constructors do not raise *)
Definition wf_opts (o : opts) : Prop :=
  0 < max_logins o <= 32 /\
  0 <= first_private_bus o <= audio_buses o /\ 0 <= control_buses o /\ 0 <= buffers o /\
  (forall k, 0 <= reserved_of o k < per_client o k) /\
  0 <= initial_node_id o <= temp_max.

Lemma alloc_args_eq o k c :
  alloc_args o k c = (per_client o k, reserved_of o k, per_client o k * c + fst (space o k)).
Proof. destruct k; unfold alloc_args, per_client, reserved_of, space; simpl; f_equal; lia. Qed.

Lemma space_bounds o k c : wf_opts o -> 0 <= c < max_logins o ->
  0 <= fst (space o k) /\ fst (space o k) <= per_client o k * c + fst (space o k) /\
  per_client o k * c + fst (space o k) + per_client o k <= snd (space o k) /\ 0 < per_client o k.
Proof.
  intros (Hl & Hio & Hc & Hb & Hr & _) Hc0. pose proof (Hr k) as Hk.
  assert (G : forall total io, io <= total -> let per := (total - io) / max_logins o in
            0 < per -> io <= per * c + io /\ per * c + io + per <= total).
  { intros total io H per Hp. assert (max_logins o * per <= total - io) by (apply Z.mul_div_le; lia). nia. }
  destruct k; unfold space, per_client in *; simpl in *.
  - destruct (G (audio_buses o) (first_private_bus o)); try lia.
  - destruct (G (control_buses o) 0); rewrite ?Z.sub_0_r in *; try lia.
  - destruct (G (buffers o) 0); rewrite ?Z.sub_0_r in *; try lia.
Qed.

(* the server's allocators are the ones built for client c0 from options o0 (o0 = the options the constructors saw:
   the user's options with the status watcher's login count; it need not be the current state of either) *)
Definition built (o0 : opts) (c0 : Z) (s : srv) : Prop :=
  cid s = c0 /\
  (forall k, AInv (get_alloc s k) /\
             (size (get_alloc s k), pos (get_alloc s k) - off (get_alloc s k), off (get_alloc s k)) = alloc_args o0 k c0) /\
  nwf (nodes s) /\ user (nodes s) = c0 /\ init_temp (nodes s) = initial_node_id o0.

Definition SrvInv (s : srv) : Prop :=
  wf_opts (eff_opts s) /\ exists o0, wf_opts o0 /\ 0 <= cid s < max_logins o0 /\ built o0 (cid s) s.

Lemma mk_alloc_inv o k c : wf_opts o -> 0 <= c < max_logins o ->
  exists a, mk_alloc o k c = Ok a /\ AInv a /\ (size a, pos a - off a, off a) = alloc_args o k c /\
            forall x n, ~ is_live a x n.
Proof.
  intros W Hc. unfold mk_alloc. rewrite alloc_args_eq.
  destruct W as (_ & _ & _ & _ & Hr & _).
  destruct (init_inv (per_client o k) (reserved_of o k) (per_client o k * c + fst (space o k)) (Hr k))
    as (a & E & A & Kp & Ko & Ks & Hn).
  exists a. split; auto. split; auto. split; auto. rewrite Kp, Ko, Ks. f_equal. f_equal. lia.
Qed.

Lemma new_allocators_inv o sw ip c : let oe := with_logins o (eff_logins_of sw o) in
  wf_opts oe -> 0 <= c < max_logins oe ->
  exists s, new_allocators o sw ip c = SOk s /\ so s = o /\ sw_max s = sw /\ inproc s = ip /\ built oe c s /\
            forall k x n, ~ is_live (get_alloc s k) x n.
Proof.
  intros oe W Hc. unfold new_allocators. fold oe.
  assert (Hu : 0 <= c <= 31) by (destruct W as ((? & ?) & _); lia).
  pose proof W as (Wl & Wio & Wc & Wb & Wr & Wn).
  change (initial_node_id oe) with (initial_node_id o) in Wn.
  destruct (ninit c (initial_node_id o)) as [n|] eqn:En.
  2:{ unfold ninit in En. destruct (Z.ltb_spec 31 c); [lia|discriminate]. }
  destruct (ninit_nwf c (initial_node_id o) n ltac:(lia) Wn En) as (Hn & Hus & Hit & _).
  destruct (mk_alloc_inv oe KControl c W Hc) as (ac & Ec & Ac & Pc & Lc). rewrite Ec.
  destruct (mk_alloc_inv oe KAudio c W Hc) as (aa & Ea & Aa & Pa & La). rewrite Ea.
  destruct (mk_alloc_inv oe KBuffer c W Hc) as (ab & Eb & Ab & Pb & Lb). rewrite Eb.
  eexists. split; [reflexivity|]. split; [reflexivity|]. split; [reflexivity|]. split; [reflexivity|]. split.
  - split; [reflexivity|]. split; [intros [| |]; simpl; auto|]. simpl. auto.
  - intros [| |]; simpl; auto.
Qed.

(* the login count the status watcher holds after a reply (id, m) *)
Definition sw_after (s : srv) (m : option Z) : option Z :=
  match m with Some x => if inproc s then sw_max s else Some x | None => sw_max s end.

(* operations under which no constructor raises: sizes >= 0; new options / a reported login count such that the options the
   constructors will see are well-formed *)
Definition wf_sop_in (s : srv) (x : sop) : Prop :=
  match x with
  | SAlloc _ n _ => 0 <= n
  | SSetOpts o => wf_opts (with_logins o (eff_logins_of (sw_max s) o))
  | SLogin _ m => wf_opts (with_logins (so s) (eff_logins_of (sw_after s m) (so s)))
  | SNotifyDone true reply =>
      match parse_notify_reply reply with
      | Some (_, m) => wf_opts (with_logins (so s) (eff_logins_of (sw_after s m) (so s)))
      | None => True
      end
  | _ => True
  end.

Fixpoint wf_hist (gl : bool) (s : srv) (h : list sop) : Prop :=
  match h with
  | [] => True
  | x :: r => wf_sop_in s x /\ match sstep gl s x with SOk (s1, _) => wf_hist gl s1 r | SRaise _ => True end
  end.

Lemma built_set_alloc o0 c0 s k a : built o0 c0 s -> AInv a ->
  pos a = pos (get_alloc s k) -> off a = off (get_alloc s k) -> size a = size (get_alloc s k) ->
  built o0 c0 (set_alloc s k a).
Proof.
  intros (Hc & Hall & Hn) A Kp Ko Ks.
  split; [destruct k; exact Hc|]. split; [|destruct k; exact Hn].
  intros k'. destruct (Hall k') as (A' & E'). destruct (Hall k) as (_ & Ek).
  destruct k, k'; simpl in *; try (split; assumption); split; auto; rewrite Kp, Ko, Ks; auto.
Qed.

Lemma set_client_id_inv s v : SrvInv s -> exists s', set_client_id false s v = SOk s' /\ SrvInv s' /\
  so s' = so s /\ sw_max s' = sw_max s /\ inproc s' = inproc s.
Proof.
  intros (Wso & o0 & W0 & Hc0 & B). unfold set_client_id.
  destruct (Z.ltb_spec v 0); destruct (Z.leb_spec (eff_logins s) v); simpl;
    try (exists s; split; [reflexivity|]; split; [split; auto; exists o0; auto|auto]).
  destruct (new_allocators_inv (so s) (sw_max s) (inproc s) v Wso) as (s' & E & Eso & Esw & Eip & B' & _).
  { simpl. unfold eff_logins in *. lia. }
  rewrite E. exists s'. split; [reflexivity|]. split; [|auto].
  split.
  - unfold eff_opts, eff_logins. rewrite Eso, Esw. exact Wso.
  - exists (with_logins (so s) (eff_logins_of (sw_max s) (so s))). destruct B' as (Hc' & R).
    split; [exact Wso|]. rewrite Hc'. split; [simpl; unfold eff_logins in *; lia|]. split; auto.
Qed.

Lemma login_done_inv s id m : SrvInv s ->
  wf_opts (with_logins (so s) (eff_logins_of (sw_after s m) (so s))) ->
  exists s', login_done false s id m = SOk s' /\ SrvInv s'.
Proof.
  intros I Hx. pose proof I as (Wso & o0 & W0 & Hc0 & B). unfold login_done.
  set (s1 := match m with
             | Some x => if inproc s then s
                         else mkSrv (so s) (cid s) (a_audio s) (a_control s) (a_buffer s) (nodes s) (Some x) (inproc s)
             | None => s end).
  assert (I1 : SrvInv s1).
  { split.
    - unfold eff_opts, eff_logins. unfold sw_after in Hx.
      replace (so s1) with (so s) by (unfold s1; destruct m; [destruct (inproc s)|]; reflexivity).
      replace (sw_max s1) with (match m with Some x => if inproc s then sw_max s else Some x | None => sw_max s end)
        by (unfold s1; destruct m; [destruct (inproc s)|]; reflexivity).
      exact Hx.
    - exists o0. split; auto.
      replace (cid s1) with (cid s) by (unfold s1; destruct m; [destruct (inproc s)|]; reflexivity).
      split; auto. unfold s1; destruct m; [destruct (inproc s)|]; auto. }
  destruct (set_client_id_inv s1 id I1) as (s' & E & I' & _). eauto.
Qed.

Lemma sstep_inv s x : SrvInv s -> wf_sop_in s x -> exists s' r, sstep false s x = SOk (s', r) /\ SrvInv s'.
Proof.
  intros I Hx. pose proof I as (Wso & o0 & W0 & Hc0 & B). destruct x as [k n c|k a| |v|o|id m|active reply|]; simpl in *.
  - destruct B as (Hc & Hall & Hn). destruct (Hall k) as (A & E).
    destruct (step_inv (get_alloc s k) (OAlloc n c) A Hx) as (a' & r & Es & A' & Kp & Ko & Ks & _).
    simpl in Es. rewrite Es. eexists. eexists. split; [reflexivity|].
    split; [destruct k; exact Wso|]. exists o0. split; auto. split; [destruct k; exact Hc0|].
    replace (cid (set_alloc s k a')) with (cid s) by (destruct k; reflexivity).
    apply built_set_alloc; auto. split; auto.
  - destruct B as (Hc & Hall & Hn). destruct (Hall k) as (A & E).
    destruct (step_inv (get_alloc s k) (OFree a) A Logic.I) as (a' & r & Es & A' & Kp & Ko & Ks & _).
    simpl in Es. destruct (free true (get_alloc s k) a) as [a''|e]; [|discriminate]. inversion Es; subst a''.
    eexists. eexists. split; [reflexivity|].
    split; [destruct k; exact Wso|]. exists o0. split; auto. split; [destruct k; exact Hc0|].
    replace (cid (set_alloc s k a')) with (cid s) by (destruct k; reflexivity).
    apply built_set_alloc; auto. split; auto.
  - destruct B as (Hc & Hall & Hn & Hu & Hi).
    pose proof (nalloc_spec (nodes s) Hn) as Hs. unfold nalloc in Hs. cbv beta iota zeta in Hs.
    destruct Hs as (Hn1 & _ & Hu1 & Hi1 & _).
    eexists. eexists. split; [reflexivity|]. split; [exact Wso|]. exists o0. split; auto. split; [exact Hc0|].
    split; [reflexivity|]. split; [exact Hall|]. simpl. split; [exact Hn1|]. split; [exact Hu|exact Hi].
  - destruct (set_client_id_inv s v I) as (s' & E & I' & _). rewrite E. eauto.
  - eexists. eexists. split; [reflexivity|]. split; [exact Hx|]. exists o0. auto.
  - destruct (login_done_inv s id m I Hx) as (s' & E & I'). rewrite E. eauto.
  - destruct active; [|eauto].
    destruct (parse_notify_reply reply) as [[id m]|]; [|eauto].
    destruct (login_done_inv s id m I Hx) as (s' & E & I'). rewrite E. eauto.
  - eauto.
Qed.

Lemma srun_inv h : forall s, SrvInv s -> wf_hist false s h -> exists s' outs, srun false s h = SOk (s', outs) /\ SrvInv s'.
Proof.
  induction h as [|x h IH]; intros s I Hwf; simpl.
  - eauto.
  - destruct Hwf as (Hx & Hr).
    destruct (sstep_inv s x I Hx) as (s1 & r & E & I1). rewrite E in *.
    destruct (IH s1 I1 Hr) as (s2 & outs & E2 & I2). rewrite E2. eauto.
Qed.

Lemma with_logins_self o : with_logins o (max_logins o) = o.
Proof. destruct o; reflexivity. Qed.

Lemma srv_reachable_proof o c h : wf_opts o -> 0 <= c < max_logins o ->
  exists s0, new_allocators o None false c = SOk s0 /\
    (wf_hist false s0 h -> exists s outs, srun false s0 h = SOk (s, outs) /\ SrvInv s).
Proof.
  intros W Hc.
  destruct (new_allocators_inv o None false c) as (s0 & E & Eso & Esw & Eip & B & _); simpl;
    rewrite ?with_logins_self; auto.
  exists s0. split; auto. intros Hwf.
  assert (I0 : SrvInv s0).
  { split.
    - unfold eff_opts, eff_logins. rewrite Eso, Esw. simpl. rewrite with_logins_self. auto.
    - simpl in B. rewrite with_logins_self in B. exists o. destruct B as (Hc' & R). rewrite Hc'. split; auto. split; auto. split; auto. }
  apply srun_inv; auto.
Qed.

(* what is live lies in the client's own share of the kind's index space, after the reserved indices:
   no hardware channel, no reserved index, no index of another client *)
Lemma built_live_range o0 s k a n : wf_opts o0 -> 0 <= cid s < max_logins o0 -> built o0 (cid s) s ->
  is_live (get_alloc s k) a n ->
  fst (space o0 k) <= per_client o0 k * cid s + fst (space o0 k) /\
  per_client o0 k * cid s + fst (space o0 k) + reserved_of o0 k <= a /\
  a + n <= per_client o0 k * cid s + fst (space o0 k) + per_client o0 k /\
  per_client o0 k * cid s + fst (space o0 k) + per_client o0 k <= snd (space o0 k) /\ 0 < n.
Proof.
  intros W Hc (_ & Hall & _) Hl. destruct (Hall k) as ([P _] & E). rewrite alloc_args_eq in E.
  inversion E as [[Es Ep Eo]]. unfold is_live in Hl.
  pose proof (P_cell _ P _ _ Hl) as Hcell. simpl in Hcell. unfold hi in Hcell.
  destruct (space_bounds o0 k (cid s) W Hc) as (? & ? & ? & ?). lia.
Qed.

Lemma built_clients_disjoint o0 s1 s2 k a1 n1 a2 n2 : wf_opts o0 ->
  0 <= cid s1 < max_logins o0 -> 0 <= cid s2 < max_logins o0 -> cid s1 <> cid s2 ->
  built o0 (cid s1) s1 -> built o0 (cid s2) s2 ->
  is_live (get_alloc s1 k) a1 n1 -> is_live (get_alloc s2 k) a2 n2 ->
  a1 + n1 <= a2 \/ a2 + n2 <= a1.
Proof.
  intros W H1 H2 Hne B1 B2 L1 L2.
  destruct (built_live_range o0 s1 k a1 n1 W H1 B1 L1) as (_ & ? & ? & _).
  destruct (built_live_range o0 s2 k a2 n2 W H2 B2 L2) as (_ & ? & ? & _).
  destruct (space_bounds o0 k 0 W ltac:(destruct W as ((? & ?) & _); lia)) as (_ & _ & _ & Hp).
  assert (Hr : 0 <= reserved_of o0 k) by (destruct W as (_ & _ & _ & _ & Hr & _); apply Hr).
  destruct (Z.lt_trichotomy (cid s1) (cid s2)) as [L|[E|L]]; [left|lia|right].
  - assert (per_client o0 k * cid s1 + per_client o0 k <= per_client o0 k * cid s2) by nia. lia.
  - assert (per_client o0 k * cid s2 + per_client o0 k <= per_client o0 k * cid s1) by nia. lia.
Qed.

Lemma srv_live_in_own_share_proof s : SrvInv s ->
  exists o0, wf_opts o0 /\ 0 <= cid s < max_logins o0 /\ built o0 (cid s) s /\
    forall k a n, is_live (get_alloc s k) a n ->
      fst (space o0 k) <= per_client o0 k * cid s + fst (space o0 k) /\
      per_client o0 k * cid s + fst (space o0 k) + reserved_of o0 k <= a /\
      a + n <= per_client o0 k * cid s + fst (space o0 k) + per_client o0 k /\
      per_client o0 k * cid s + fst (space o0 k) + per_client o0 k <= snd (space o0 k) /\ 0 < n.
Proof.
  intros (_ & o0 & W & Hc & B). exists o0. split; auto. split; auto. split; auto.
  intros k a n Hl. apply built_live_range; auto.
Qed.

Lemma set_client_id_refuses_proof s v : v < 0 \/ eff_logins s <= v -> set_client_id false s v = SOk s.
Proof.
  intros H. unfold set_client_id.
  destruct (Z.ltb_spec v 0); destruct (Z.leb_spec (eff_logins s) v); simpl; auto; lia.
Qed.

Lemma set_client_id_rebuilds_proof s v : wf_opts (eff_opts s) -> 0 <= v < eff_logins s ->
  exists s', set_client_id false s v = SOk s' /\ so s' = so s /\ sw_max s' = sw_max s /\ built (eff_opts s) v s' /\
    forall k x n, ~ is_live (get_alloc s' k) x n.
Proof.
  intros W Hv. unfold set_client_id.
  destruct (Z.ltb_spec v 0); destruct (Z.leb_spec (eff_logins s) v); simpl; try lia.
  destruct (new_allocators_inv (so s) (sw_max s) (inproc s) v W) as (s' & E & Eso & Esw & _ & B & Hn).
  { simpl. unfold eff_logins in *. lia. }
  exists s'. auto.
Qed.

(* the server's reply "you are client id of m": the reported count is stored, then the granted id is installed with the
   shares of an m-way split *)
Lemma login_reply_installs_granted_share_proof s id m : inproc s = false -> m <> 0 ->
  wf_opts (with_logins (so s) m) -> 0 <= id < m ->
  exists s', login_done false s id (Some m) = SOk s' /\ cid s' = id /\ sw_max s' = Some m /\ so s' = so s /\
    built (with_logins (so s) m) id s' /\ forall k x n, ~ is_live (get_alloc s' k) x n.
Proof.
  intros Hip Hm W Hid. unfold login_done. rewrite Hip.
  set (s1 := mkSrv (so s) (cid s) (a_audio s) (a_control s) (a_buffer s) (nodes s) (Some m) false).
  assert (El : eff_logins s1 = m) by (unfold eff_logins, s1; simpl; destruct (Z.eqb_spec m 0); [lia|reflexivity]).
  destruct (set_client_id_rebuilds_proof s1 id) as (s' & E & Eso & Esw & B & Hn).
  { unfold eff_opts. rewrite El. exact W. }
  { rewrite El. exact Hid. }
  exists s'. unfold eff_opts in B. rewrite El in B. destruct B as (Hc & R).
  split; [exact E|]. split; [exact Hc|]. split; [exact Esw|]. split; [exact Eso|]. split; [|exact Hn].
  split; [exact Hc|exact R].
Qed.

(* before any reply (_max_logins is None) the two guards of _set_client_id are the same test *)
Lemma guards_agree_offline s v : sw_max s = None -> set_client_id true s v = set_client_id false s v.
Proof. intros H. unfold set_client_id, eff_logins. rewrite H. reflexivity. Qed.

(* D7: with the guard on options.max_logins a granted id >= the LOCAL option is refused although the server reported a larger
   count: the client keeps the allocators of (client 0 of 4) while the server knows it as client 5 of 8 *)
Definition d7_opts := mkO 64 64 32 2 2 0 0 0 4 1000.
Lemma login_refused_by_local_max_logins_proof :
  exists s0 s outs, wf_opts d7_opts /\ wf_opts (with_logins d7_opts 8) /\
    new_allocators d7_opts None false 0 = SOk s0 /\
    srun true s0 [SLogin 5 (Some 8); SAlloc KControl 3 0] = SOk (s, outs) /\
    cid s = 0 /\ sw_max s = Some 8 /\ outs = [None; Some 0] /\
    ~ (per_client (with_logins d7_opts 8) KControl * 5 <= 0).
Proof.
  assert (W4 : wf_opts d7_opts).
  { unfold wf_opts. split; [vm_compute; split; easy|]. split; [vm_compute; split; easy|].
    split; [vm_compute; easy|]. split; [vm_compute; easy|].
    split; [intros k; destruct k; vm_compute; split; easy|vm_compute; split; easy]. }
  assert (W8 : wf_opts (with_logins d7_opts 8)).
  { unfold wf_opts. split; [vm_compute; split; easy|]. split; [vm_compute; split; easy|].
    split; [vm_compute; easy|]. split; [vm_compute; easy|].
    split; [intros k; destruct k; vm_compute; split; easy|vm_compute; split; easy]. }
  eexists. eexists. eexists. split; [exact W4|]. split; [exact W8|].
  split; [vm_compute; reflexivity|]. split; [vm_compute; reflexivity|].
  split; [reflexivity|]. split; [reflexivity|]. split; [reflexivity|]. vm_compute. intros H. apply H. reflexivity.
Qed.

(* the OSC reply ['/done', '/notify', id, m, ...] while booting or registering IS the login "client id of m" *)
Lemma notify_reply_is_login gl s id m rest :
  sstep gl s (SNotifyDone true (id :: m :: rest)) = sstep gl s (SLogin id (Some m)).
Proof. reflexivity. Qed.

Lemma notify_reply_without_count gl s id : sstep gl s (SNotifyDone true [id]) = sstep gl s (SLogin id None).
Proof. reflexivity. Qed.

Lemma notify_reply_not_a_login gl s reply :
  sstep gl s (SNotifyDone false reply) = SOk (s, None) /\ sstep gl s (SNotifyDone true []) = SOk (s, None) /\
  sstep gl s SNotifyFail = SOk (s, None).
Proof. repeat split. Qed.
