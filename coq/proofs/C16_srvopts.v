(* C16 -- the allocators a Server builds from its options: invariant over server-level histories,
   allocations stay in the client's partition of the right index space, clients are disjoint. *)
From Coq Require Import ZArith List Bool Lia.
Import ListNotations.
Require Import SC3.model.Alloc SC3.model.NodeId SC3.model.ServerAlloc.
Require Import SC3.proofs.C16_base SC3.proofs.C16_inv SC3.proofs.C16_alloc SC3.proofs.C16_free SC3.proofs.C16_main
               SC3.proofs.C16_thms SC3.proofs.C16_nodeid.
Open Scope Z_scope.

Definition per_client (o : opts) (k : kind) : Z :=
  match k with
  | KAudio => (audio_buses o - first_private_bus o) / max_logins o
  | KControl => control_buses o / max_logins o
  | KBuffer => buffers o / max_logins o
  end.
Definition reserved_of (o : opts) (k : kind) : Z :=
  match k with KAudio => reserved_audio_buses o | KControl => reserved_control_buses o | KBuffer => reserved_buffers o end.

(* options under which the constructors do not raise *)
Definition wf_opts (o : opts) : Prop :=
  0 < max_logins o <= 32 /\
  0 <= first_private_bus o <= audio_buses o /\ 0 <= control_buses o /\ 0 <= buffers o /\
  (forall k, 0 <= reserved_of o k < per_client o k) /\
  0 <= initial_node_id o <= temp_max.

Lemma alloc_args_eq o k c :
  alloc_args o k c = (per_client o k, reserved_of o k, per_client o k * c + fst (space o k)).
Proof. destruct k; unfold alloc_args, per_client, reserved_of, space; simpl; f_equal; lia. Qed.

Lemma space_bounds o k c : wf_opts o -> 0 <= c < max_logins o ->
  0 <= fst (space o k) /\ fst (space o k) <= per_client o k * c + fst (space o k) /\
  per_client o k * c + fst (space o k) + per_client o k <= snd (space o k) /\ 0 < per_client o k.
Proof.
  intros (Hl & Hio & Hc & Hb & Hr & _) Hc0. pose proof (Hr k) as Hk.
  assert (G : forall total io, io <= total -> let per := (total - io) / max_logins o in
            0 < per -> io <= per * c + io /\ per * c + io + per <= total).
  { intros total io H per Hp. assert (max_logins o * per <= total - io) by (apply Z.mul_div_le; lia). nia. }
  destruct k; unfold space, per_client in *; simpl in *.
  - destruct (G (audio_buses o) (first_private_bus o)); try lia.
  - destruct (G (control_buses o) 0); rewrite ?Z.sub_0_r in *; try lia.
  - destruct (G (buffers o) 0); rewrite ?Z.sub_0_r in *; try lia.
Qed.

(* the server's allocators are the ones built from options o0 for client c0 (o0 need not be the current options) *)
Definition built (o0 : opts) (c0 : Z) (s : srv) : Prop :=
  cid s = c0 /\
  (forall k, AInv (get_alloc s k) /\
             (size (get_alloc s k), pos (get_alloc s k) - off (get_alloc s k), off (get_alloc s k)) = alloc_args o0 k c0) /\
  nwf (nodes s) /\ user (nodes s) = c0 /\ init_temp (nodes s) = initial_node_id o0.

Definition SrvInv (s : srv) : Prop :=
  wf_opts (so s) /\ exists o0, wf_opts o0 /\ 0 <= cid s < max_logins o0 /\ built o0 (cid s) s.

Lemma mk_alloc_inv o k c : wf_opts o -> 0 <= c < max_logins o ->
  exists a, mk_alloc o k c = Ok a /\ AInv a /\ (size a, pos a - off a, off a) = alloc_args o k c /\
            forall x n, ~ is_live a x n.
Proof.
  intros W Hc. unfold mk_alloc. rewrite alloc_args_eq.
  destruct W as (_ & _ & _ & _ & Hr & _).
  destruct (init_inv (per_client o k) (reserved_of o k) (per_client o k * c + fst (space o k)) (Hr k))
    as (a & E & A & Kp & Ko & Ks & Hn).
  exists a. split; auto. split; auto. split; auto. rewrite Kp, Ko, Ks. f_equal. f_equal. lia.
Qed.

Lemma new_allocators_inv o c : wf_opts o -> 0 <= c < max_logins o ->
  exists s, new_allocators o c = SOk s /\ so s = o /\ built o c s /\ forall k x n, ~ is_live (get_alloc s k) x n.
Proof.
  intros W Hc. unfold new_allocators.
  assert (Hu : 0 <= c <= 31) by (destruct W as ((? & ?) & _); lia).
  pose proof W as (Wl & Wio & Wc & Wb & Wr & Wn).
  destruct (ninit c (initial_node_id o)) as [n|] eqn:En.
  2:{ unfold ninit in En. destruct (Z.ltb_spec 31 c); [lia|discriminate]. }
  destruct (ninit_nwf c (initial_node_id o) n ltac:(lia) Wn En) as (Hn & Hus & Hit & _).
  destruct (mk_alloc_inv o KControl c W Hc) as (ac & Ec & Ac & Pc & Lc). rewrite Ec.
  destruct (mk_alloc_inv o KAudio c W Hc) as (aa & Ea & Aa & Pa & La). rewrite Ea.
  destruct (mk_alloc_inv o KBuffer c W Hc) as (ab & Eb & Ab & Pb & Lb). rewrite Eb.
  eexists. split; [reflexivity|]. split; [reflexivity|]. split.
  - split; [reflexivity|]. split; [intros [| |]; simpl; auto|]. simpl. auto.
  - intros [| |]; simpl; auto.
Qed.

Definition wf_sop (x : sop) : Prop :=
  match x with SAlloc _ n _ => 0 <= n | SSetOpts o => wf_opts o | _ => True end.

Lemma get_set_alloc s k a k' : get_alloc (set_alloc s k a) k' = if match k, k' with KAudio, KAudio | KControl, KControl | KBuffer, KBuffer => true | _, _ => false end then a else get_alloc s k'.
Proof. destruct k, k'; reflexivity. Qed.

Lemma built_set_alloc o0 c0 s k a : built o0 c0 s -> AInv a ->
  pos a = pos (get_alloc s k) -> off a = off (get_alloc s k) -> size a = size (get_alloc s k) ->
  built o0 c0 (set_alloc s k a).
Proof.
  intros (Hc & Hall & Hn) A Kp Ko Ks.
  split; [destruct k; exact Hc|]. split; [|destruct k; exact Hn].
  intros k'. destruct (Hall k') as (A' & E'). destruct (Hall k) as (_ & Ek).
  destruct k, k'; simpl in *; try (split; assumption); split; auto; rewrite Kp, Ko, Ks; auto.
Qed.

Lemma sstep_inv s x : SrvInv s -> wf_sop x -> exists s' r, sstep s x = SOk (s', r) /\ SrvInv s'.
Proof.
  intros (Wso & o0 & W0 & Hc0 & B) Hx. destruct x as [k n c|k a| |v|o]; simpl in *.
  - destruct B as (Hc & Hall & Hn). destruct (Hall k) as (A & E).
    destruct (step_inv (get_alloc s k) (OAlloc n c) A Hx) as (a' & r & Es & A' & Kp & Ko & Ks & _).
    simpl in Es. rewrite Es. eexists. eexists. split; [reflexivity|].
    split; [destruct k; exact Wso|]. exists o0. split; auto. split; [destruct k; exact Hc0|].
    replace (cid (set_alloc s k a')) with (cid s) by (destruct k; reflexivity).
    apply built_set_alloc; auto. split; auto.
  - destruct B as (Hc & Hall & Hn). destruct (Hall k) as (A & E).
    destruct (step_inv (get_alloc s k) (OFree a) A I) as (a' & r & Es & A' & Kp & Ko & Ks & _).
    simpl in Es. destruct (free true (get_alloc s k) a) as [a''|e]; [|discriminate]. inversion Es; subst a''.
    eexists. eexists. split; [reflexivity|].
    split; [destruct k; exact Wso|]. exists o0. split; auto. split; [destruct k; exact Hc0|].
    replace (cid (set_alloc s k a')) with (cid s) by (destruct k; reflexivity).
    apply built_set_alloc; auto. split; auto.
  - destruct B as (Hc & Hall & Hn & Hu & Hi).
    pose proof (nalloc_spec (nodes s) Hn) as Hs. unfold nalloc in Hs. cbv beta iota zeta in Hs.
    destruct Hs as (Hn1 & _ & Hu1 & Hi1 & _).
    eexists. eexists. split; [reflexivity|]. split; [exact Wso|]. exists o0. split; auto. split; [exact Hc0|].
    split; [reflexivity|]. split; [exact Hall|]. simpl. split; [exact Hn1|]. split; [exact Hu|exact Hi].
  - unfold set_client_id.
    destruct (Z.ltb_spec v 0); destruct (Z.leb_spec (max_logins (so s)) v); simpl;
      try (eexists; eexists; split; [reflexivity|]; split; auto; exists o0; auto).
    destruct (new_allocators_inv (so s) v Wso ltac:(lia)) as (s' & E & Eso & B' & _). rewrite E.
    eexists. eexists. split; [reflexivity|]. unfold SrvInv. rewrite Eso. split; auto.
    exists (so s). destruct B' as (Hc' & R). split; auto. split; [lia|]. rewrite Hc'. split; auto.
  - eexists. eexists. split; [reflexivity|]. split; [exact Hx|]. exists o0. auto.
Qed.

Lemma srun_inv h : forall s, SrvInv s -> Forall wf_sop h -> exists s' outs, srun s h = SOk (s', outs) /\ SrvInv s'.
Proof.
  induction h as [|x h IH]; intros s I Hwf; simpl.
  - eauto.
  - inversion Hwf as [|? ? Hx Hr]; subst.
    destruct (sstep_inv s x I Hx) as (s1 & r & E & I1). rewrite E.
    destruct (IH s1 I1 Hr) as (s2 & outs & E2 & I2). rewrite E2. eauto.
Qed.

Lemma srv_reachable_proof o c h : wf_opts o -> 0 <= c < max_logins o -> Forall wf_sop h ->
  exists s0 s outs, new_allocators o c = SOk s0 /\ srun s0 h = SOk (s, outs) /\ SrvInv s.
Proof.
  intros W Hc Hwf. destruct (new_allocators_inv o c W Hc) as (s0 & E & Eso & B & _).
  assert (I0 : SrvInv s0).
  { split; [rewrite Eso; auto|]. exists o. destruct B as (Hc' & R). rewrite Hc'. split; auto. split; auto. split; auto. }
  destruct (srun_inv h s0 I0 Hwf) as (s & outs & Er & I). eauto 6.
Qed.

(* what is live lies in the client's own share of the kind's index space, after the reserved indices:
   no hardware channel, no reserved index, no index of another client *)
Lemma built_live_range o0 s k a n : wf_opts o0 -> 0 <= cid s < max_logins o0 -> built o0 (cid s) s ->
  is_live (get_alloc s k) a n ->
  fst (space o0 k) <= per_client o0 k * cid s + fst (space o0 k) /\
  per_client o0 k * cid s + fst (space o0 k) + reserved_of o0 k <= a /\
  a + n <= per_client o0 k * cid s + fst (space o0 k) + per_client o0 k /\
  per_client o0 k * cid s + fst (space o0 k) + per_client o0 k <= snd (space o0 k) /\ 0 < n.
Proof.
  intros W Hc (_ & Hall & _) Hl. destruct (Hall k) as ([P _] & E). rewrite alloc_args_eq in E.
  inversion E as [[Es Ep Eo]]. unfold is_live in Hl.
  pose proof (P_cell _ P _ _ Hl) as Hcell. simpl in Hcell. unfold hi in Hcell.
  destruct (space_bounds o0 k (cid s) W Hc) as (? & ? & ? & ?). lia.
Qed.

Lemma built_clients_disjoint o0 s1 s2 k a1 n1 a2 n2 : wf_opts o0 ->
  0 <= cid s1 < max_logins o0 -> 0 <= cid s2 < max_logins o0 -> cid s1 <> cid s2 ->
  built o0 (cid s1) s1 -> built o0 (cid s2) s2 ->
  is_live (get_alloc s1 k) a1 n1 -> is_live (get_alloc s2 k) a2 n2 ->
  a1 + n1 <= a2 \/ a2 + n2 <= a1.
Proof.
  intros W H1 H2 Hne B1 B2 L1 L2.
  destruct (built_live_range o0 s1 k a1 n1 W H1 B1 L1) as (_ & ? & ? & _).
  destruct (built_live_range o0 s2 k a2 n2 W H2 B2 L2) as (_ & ? & ? & _).
  destruct (space_bounds o0 k 0 W ltac:(destruct W as ((? & ?) & _); lia)) as (_ & _ & _ & Hp).
  assert (Hr : 0 <= reserved_of o0 k) by (destruct W as (_ & _ & _ & _ & Hr & _); apply Hr).
  destruct (Z.lt_trichotomy (cid s1) (cid s2)) as [L|[E|L]]; [left|lia|right].
  - assert (per_client o0 k * cid s1 + per_client o0 k <= per_client o0 k * cid s2) by nia. lia.
  - assert (per_client o0 k * cid s2 + per_client o0 k <= per_client o0 k * cid s1) by nia. lia.
Qed.

Lemma srv_live_in_own_share_proof s : SrvInv s ->
  exists o0, wf_opts o0 /\ 0 <= cid s < max_logins o0 /\ built o0 (cid s) s /\
    forall k a n, is_live (get_alloc s k) a n ->
      fst (space o0 k) <= per_client o0 k * cid s + fst (space o0 k) /\
      per_client o0 k * cid s + fst (space o0 k) + reserved_of o0 k <= a /\
      a + n <= per_client o0 k * cid s + fst (space o0 k) + per_client o0 k /\
      per_client o0 k * cid s + fst (space o0 k) + per_client o0 k <= snd (space o0 k) /\ 0 < n.
Proof.
  intros (_ & o0 & W & Hc & B). exists o0. split; auto. split; auto. split; auto.
  intros k a n Hl. apply built_live_range; auto.
Qed.

Lemma set_client_id_refuses_proof s v : v < 0 \/ max_logins (so s) <= v -> set_client_id s v = SOk s.
Proof.
  intros H. unfold set_client_id.
  destruct (Z.ltb_spec v 0); destruct (Z.leb_spec (max_logins (so s)) v); simpl; auto; lia.
Qed.

Lemma set_client_id_rebuilds_proof s v : wf_opts (so s) -> 0 <= v < max_logins (so s) ->
  exists s', set_client_id s v = SOk s' /\ so s' = so s /\ built (so s) v s' /\
    forall k x n, ~ is_live (get_alloc s' k) x n.
Proof.
  intros W Hv. unfold set_client_id.
  destruct (Z.ltb_spec v 0); destruct (Z.leb_spec (max_logins (so s)) v); simpl; try lia.
  apply new_allocators_inv; auto.
Qed.
