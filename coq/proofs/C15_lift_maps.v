(* C15, lifting half: the REGENERATED linlin (gen/Gen_maps.v, one definition per clip mode) that the n-ary
   method linlin lifts, with its optional clip argument at every value. *)
From Coq Require Import ZArith QArith Bool List.
Require Import SC3.lib.PyNum SC3.gen.Gen_maps.
Import ListNotations.

(* the unclipped map on float arguments *)
Lemma linlin_none_affine : forall x a b c d : Q, Qeq_bool (b - a) 0 = false ->
  py_linlin_none (F x) (F a) (F b) (F c) (F d) = F ((x - a) / (b - a) * (d - c) + c)%Q.
Proof.
  intros x a b c d H. unfold py_linlin_none. simpl. unfold ntruediv. simpl. rewrite H. reflexivity.
Qed.

(* every clip mode is the unclipped map except exactly where that mode clips:
   'minmax' at both ends, 'min' only below inmin, 'max' only above inmax *)
Lemma linlin_clip_modes : forall x a b c d : Q,
  py_linlin_minmax (F x) (F a) (F b) (F c) (F d)
    = (if Qle_bool x a then F c else if Qle_bool b x then F d else py_linlin_none (F x) (F a) (F b) (F c) (F d))
  /\ py_linlin_min (F x) (F a) (F b) (F c) (F d)
    = (if Qle_bool x a then F c else py_linlin_none (F x) (F a) (F b) (F c) (F d))
  /\ py_linlin_max (F x) (F a) (F b) (F c) (F d)
    = (if Qle_bool b x then F d else py_linlin_none (F x) (F a) (F b) (F c) (F d)).
Proof. intros. repeat split; reflexivity. Qed.

(* as selectors of the lifting model: selector(x, inmin, inmax, outmin, outmax) *)
Definition o5 (f : num -> num -> num -> num -> num -> num) : num -> list num -> num :=
  fun x l => match l with [a; b; c; d] => f x a b c d | _ => NErr end.
